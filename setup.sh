#!/bin/sh
# offline setup after a fresh restore: regenerate translated Coq files, build the Coq development, the extracted model
set -e
cd "$(dirname "$0")"
for g in tools/gen_*.py; do python3 "$g" || true; done
tools/mk_coqproject.sh
(cd coq && timeout 3000 make -k -j16 > ../.setup_coq.log 2>&1) || { echo "coq build had errors (see .setup_coq.log)"; tail -20 .setup_coq.log; }
(cd ocaml && ./build.sh fast > ../.setup_ocaml.log 2>&1) || { echo "model build failed"; tail -20 .setup_ocaml.log; }
echo setup done
