HOOK_COMMITS = ["1e2fc15", "3bb59b4"]
NOTES = "See DESIGN.md. Genuine defects repaired by fix: commits are listed in known_findings.txt as fixed: lines."
CHECKS = {}
NOT_APPLICABLE = {}
