"""Shared solver-level stage: generated call histories run on (a) the extracted Gallina model and (b) the xrat instantiation
of all five back ends (exact correspondence), plus the implementation-side oracles of oracles.py on every solve result."""
import os, random
from fractions import Fraction as Fr
import vlib, spine, oracles
import gen_cases as G

class Case:
    def __init__(self, name, settings, ops, pbs, tags):
        self.name, self.settings, self.ops, self.pbs, self.tags = name, settings, ops, pbs, tags
        # ops: list of op strings; pbs: dict opno -> (problem dict current at that solve op)
    def text(self): return G.case_text(self.name, self.settings, self.ops)

def gen_history(rng, name, focus="mixed", cp=64, max_updates=2, pb=None, force_settings=None, strong=False):
    """one random history.  focus in: mixed, single, updates, bounds, iters, scale"""
    if pb is None:
        kinds = None
        n = None
        if focus == "bounds":
            n = rng.randint(1, 4)
            kinds = [rng.choice(["free", "lower", "upper", "both", "fixed"]) for _ in range(n)]
        pb = G.gen_problem(rng, n=n, bound_kinds=kinds, inf_h=(0.15 if rng.random() < 0.3 else 0.0))
    st = list(G.FRIENDLY)
    st.append(("max_iter", str(rng.choice([1, 2, 3, 5, 8, 14, 30]))))
    st.append(("preconditioner_iter", str(rng.choice([0, 1, 2, 3, 10]))))
    if rng.random() < 0.3: st.append(("preconditioner_scale_cost", "1"))
    if rng.random() < 0.15: st.append(("check_duality_gap", "0"))
    if rng.random() < 0.2: st = [(k, v) if k != "tau" else ("tau", rng.choice(["1/2", "3/4", "15/16"])) for k, v in st]
    if force_settings: st = [(k, v) for k, v in st if k not in dict(force_settings)] + list(force_settings)
    ops = ["CPBITS %d" % cp]
    pbs = {}
    lbp = rng.random() < 0.85; ubp = rng.random() < 0.85
    if not lbp: pb = dict(pb, lb=[G.NINF] * pb["n"])
    if not ubp: pb = dict(pb, ub=[G.INF] * pb["n"])
    ops.append(G.op_setup(pb, lb_present=lbp, ub_present=ubp))
    pbs[0] = pb
    opno = 1
    tags = ["n%d" % pb["n"], "p%d" % pb["p"], "m%d" % pb["m"], "b:" + "".join(k[0] for k in pb["kinds"])] + list(pb.get("gen_tags", []))
    nupd = 0 if focus == "single" else rng.randint(0 if focus != "updates" else 1, max_updates)
    if rng.random() < (0.7 if nupd else 1.0):
        ops.append(G.op_solve()); pbs[opno] = pb; opno += 1
    def infrows(q):
        return set(i for i, v in enumerate(q["h"]) if isinstance(v, str) or abs(Fr(v)) > Fr(10) ** 30)
    zeroed = infrows(pb)          # rows of G the solver has overwritten with zeros
    for u in range(nupd):
        if rng.random() < 0.12:
            # repeated setup() on the same solver object (same or different dimensions)
            pb = G.gen_problem(rng, n=(pb["n"] if rng.random() < 0.6 else None), p=(pb["p"] if rng.random() < 0.5 else None), m=(pb["m"] if rng.random() < 0.5 else None))
            ops.append(G.op_setup(pb)); pbs[opno] = pb; opno += 1
            tags.append("resetup:n%dp%dm%d" % (pb["n"], pb["p"], pb["m"]))
            zeroed = infrows(pb)
            if rng.random() < 0.7: ops.append(G.op_solve()); pbs[opno] = pb; opno += 1
            continue
        names = set(k for k in ["P", "c", "A", "b", "G", "h", "lb", "ub"] if rng.random() < 0.35)
        pb, names = G.perturb(rng, pb, names, strong=strong)
        if pb["m"] > 0:
            if "G" in names:
                if "h" not in names and zeroed:
                    tags.append("F7b:G-resent-while-h-infinite")   # disabled rows come back with the placeholder h = 1
                zeroed = set()
            if "h" in names:
                if zeroed - infrows(pb): tags.append("F7:h-finite-again-without-G")   # row stays zero although h is finite now
                zeroed = zeroed | infrows(pb)
        reuse = rng.random() < 0.5
        ops.append(G.op_update(pb, names, reuse=reuse)); pbs[opno] = pb; opno += 1
        tags.append("u:%s:%d" % ("".join(sorted(x[0] for x in names)), reuse))
        if rng.random() < 0.75 or u == nupd - 1:
            ops.append(G.op_solve()); pbs[opno] = pb; opno += 1
    return Case(name, st, ops, pbs, tags)

def run_suite(ctx, cases, backends=spine.ALL_BACKENDS, preconds=("ruiz",), name="suite", codes=None, exact=True):
    """exact correspondence (all back ends vs model) + oracles on each back end's results.
    codes: iterable of oracle code prefixes that belong to the calling property (others ignored here).
    Returns number of oracle violations recorded."""
    text = "".join(c.text() for c in cases)
    nviol = 0
    byname = {c.name: c for c in cases}
    skip = None
    for pcd in preconds:
        res, mobs = spine.correspond(ctx, "%s_%s" % (name, pcd), text, precond=pcd, backends=backends)
        for b in backends:
            if b not in res: continue
            ok, diffs, obs = res[b]
            # oracles on the implementation output
            for cname, lines in obs.items():
                c = byname.get(cname)
                if c is None: continue
                per_op = {}
                for k, v in lines:
                    opno, key = k.split(".", 1)
                    per_op.setdefault(int(opno), {})[key] = v
                last_data = None
                for opno in sorted(per_op):
                    o = per_op[opno]
                    if "dims" in o: last_data = o
                    if "kkt.K" in o and last_data is not None and getattr(c, "kkt_oracle", True):
                        for code, msg in oracles.check_kkt_state(last_data, o, b):
                            if codes is not None and not any(code.startswith(p_) for p_ in codes): continue
                            nviol += 1
                            ctx.violation("%s backend=%s precond=%s %s" % (code, b, pcd, " ".join(c.tags)), "%s (case %s op %d): %s" % (code, cname, opno, msg),
                                          {"case": c.text(), "backend": b, "precond": pcd, "op": opno, "oracle": code, "message": msg})
                for opno, o in per_op.items():
                    if opno not in c.pbs: continue
                    if o.get("op") != "solve":
                        V = oracles.check_scaling(c.pbs[opno], o) if getattr(c, "scaling_oracle", True) else []
                    else:
                        V = oracles.check_result(c.pbs[opno], dict(c.settings), o, exact=exact)
                    for code, msg in V:
                        if codes is not None and not any(code.startswith(p) for p in codes): continue
                        nviol += 1
                        ctx.violation("%s backend=%s precond=%s %s" % (code, b, pcd, " ".join(c.tags)),
                                      "%s (case %s op %d): %s" % (code, cname, opno, msg),
                                      {"case": c.text(), "backend": b, "precond": pcd, "op": opno, "observed": o, "oracle": code, "message": msg})
            # a correspondence break without an oracle hit: record the disagreeing case for the replay
            if not ok and diffs:
                c0 = byname.get(diffs[0][0])
                ctx.notes.append("first disagreement backend=%s precond=%s: %s" % (b, pcd, str(diffs[0])[:300]))
                if c0 is not None: ctx.coverage.setdefault("disagreeing_cases", []).append(c0.text()[:3000])
    for c in cases:
        ctx.classes.add(" ".join(c.tags))
    ctx.coverage["evaluations"] = ctx.coverage.get("evaluations", 0) + len(cases) * len(backends) * len(preconds)
    if cases and not ctx.coverage.get("samples"): ctx.coverage["samples"] = [cases[0].text()[:2500]]
    return nviol

def corpus_cases(pattern="*.cases"):
    import glob
    out = []
    for f in sorted(glob.glob(os.path.join(vlib.VERIF, "corpus", pattern))):
        out.append(open(f).read())
    return out
