"""Whole-solver exact correspondence: extracted Gallina model vs the xrat instantiation of /repo's templates."""
import os
import vlib

BACKENDS = {"dense": 0, "full": 1, "eq": 2, "ineq": 3, "all": 4}

SCALARS = {"xrat": 0, "double": 1, "float": 2, "longdouble": 3, "mp100": 4}

def build_impl(ctx, backend="dense", precond="ruiz", scalar="xrat", idx="int"):
    d = ["BACKEND=%d" % BACKENDS[backend], "PRECOND=%d" % (0 if precond == "ruiz" else 1), "SCALAR=%d" % SCALARS[scalar], "IDX=%d" % (0 if idx == "int" else 1)]
    return dict(src="drv_solver.cpp", defines=tuple(d), name="drv_%s_%s_%s_%s" % (backend, precond, scalar, idx))

def correspond(ctx, name, cases_text, precond="ruiz", backends=("dense",), timeout=600, ignore=("nonfinite", "trace"), only=None, skip=None):
    """run the model and the xrat implementation(s) on the cases; one correspondence obligation per back end.
    The single (dense) Gallina model is the reference for every back end: in exact arithmetic, with iterative
    refinement off, all five back ends compute the same iterates (theorem backends_agree), so the sparse back ends are
    compared against the same model outputs.  returns dict backend -> (ok, diffs, impl_obs), and model_obs"""
    cf = os.path.join(ctx.work, name + ".cases")
    open(cf, "w").write(cases_text)
    if not ctx.quick(): timeout = max(timeout, 5000)
    built = vlib.build_many(ctx, [build_impl(ctx, b, precond) for b in backends])
    model, msg2 = vlib.build_model(ctx, "fast")
    res = {}
    mobs = {}
    if model is None:
        ctx.ob("correspondence:%s:model" % name, "correspondence", False, "model build: " + msg2)
        return res, mobs
    rc2, o2 = vlib.run_bin_chunked(model, cases_text, ctx.work, name + "_m", args=(["--identity"] if precond != "ruiz" else []), timeout=timeout)
    if rc2 != 0:
        ctx.ob("correspondence:%s:model" % name, "correspondence", False, "model driver failed rc=%d: %s" % (rc2, o2[-600:]))
        return res, mobs
    mobs = vlib.parse_obs(o2)
    # the sparse Ruiz preconditioner differs from the dense one in its loop guard when scale_cost is on (scratch aliasing,
    # modelled by the flag sparse_quirk of PrecondDense.v): the sparse back ends are compared with the model run with that flag
    mobs_sparse = mobs
    if precond == "ruiz" and any(b != "dense" for b in backends):
        rc3, o3 = vlib.run_bin_chunked(model, cases_text, ctx.work, name + "_ms", args=["--sparse-precond"], timeout=timeout)
        if rc3 != 0:
            ctx.ob("correspondence:%s:model-sparse-precond" % name, "correspondence", False, "model driver failed rc=%d: %s" % (rc3, o3[-600:]))
            return res, mobs
        mobs_sparse = vlib.parse_obs(o3)
    for b, (impl, msg1) in zip(backends, built):
        obn = "correspondence:%s:%s:%s" % (name, b, precond)
        if impl is None:
            ctx.ob(obn, "correspondence", False, "harness build: " + msg1); res[b] = (False, [], {}); continue
        rc1, o1 = vlib.run_bin_chunked(impl, cases_text, ctx.work, name + "_" + b, timeout=timeout)
        if rc1 != 0:
            ctx.ob(obn, "correspondence", False, "driver failed rc=%d: %s" % (rc1, o1[-600:]))
            # localise: run the cases one by one and report the first one the real code crashes / aborts / hangs on
            singles = vlib.split_cases(cases_text, 10 ** 9)
            bad = None
            for k, one in enumerate(singles[:400]):
                f1 = os.path.join(ctx.work, "%s_%s_single.cases" % (name, b)); open(f1, "w").write(one)
                r1, oo = vlib.run_bin(impl, f1, timeout=120)
                if r1 != 0: bad = (one, r1, oo); break
            if bad:
                cname = bad[0].split()[1] if bad[0].split() else "?"
                ctx.violation("crash backend=%s precond=%s rc=%d" % (b, precond, bad[1]),
                              "the implementation (exact scalar build) aborts on case %s: %s" % (cname, bad[2][-500:]),
                              {"case": bad[0], "backend": b, "precond": precond, "rc": bad[1], "stderr_tail": bad[2][-1500:]})
            res[b] = (False, [], vlib.parse_obs(o1)); continue
        a = vlib.parse_obs(o1)
        sk = (skip or {}).get(b, set())
        mref = mobs if b == "dense" else mobs_sparse
        diffs = vlib.diff_obs({k: v for k, v in a.items() if k not in sk}, {k: v for k, v in mref.items() if k not in sk}, ignore=ignore, only=(only.get(b) if isinstance(only, dict) else only))
        ctx.ob(obn, "correspondence", not diffs,
               "; ".join("%s %s impl=%s model=%s" % (c, k, str(x)[:80], str(y)[:80]) for c, k, x, y in diffs[:5]))
        res[b] = (not diffs, diffs, a)
    return res, mobs

ALL_BACKENDS = ("dense", "full", "eq", "ineq", "all")
