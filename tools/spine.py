"""Whole-solver exact correspondence: extracted Gallina model vs the xrat instantiation of /repo's templates."""
import os
import vlib

BACKENDS = {"dense": 0, "full": 1, "eq": 2, "ineq": 3, "all": 4}

def build_impl(ctx, backend="dense", precond="ruiz", scalar="xrat"):
    d = ["BACKEND=%d" % BACKENDS[backend], "PRECOND=%d" % (0 if precond == "ruiz" else 1), "SCALAR=%d" % (0 if scalar == "xrat" else 1)]
    return dict(src="drv_solver.cpp", defines=tuple(d), name="drv_%s_%s_%s" % (backend, precond, scalar))

def correspond(ctx, name, cases_text, precond="ruiz", timeout=600, ob_name=None, exes=None):
    """run model and dense xrat implementation on the cases; record one correspondence obligation.
    returns (ok, diffs, impl_obs, model_obs)"""
    cf = os.path.join(ctx.work, name + ".cases")
    open(cf, "w").write(cases_text)
    if exes is None:
        (impl, msg1), = vlib.build_many(ctx, [build_impl(ctx, "dense", precond)])
        model, msg2 = vlib.build_model(ctx, "fast")
    else:
        impl, model = exes; msg1 = msg2 = "given"
    obn = ob_name or "correspondence:%s" % name
    if impl is None:
        ctx.ob(obn, "correspondence", False, "harness build: " + msg1); return False, [], {}, {}
    if model is None:
        ctx.ob(obn, "correspondence", False, "model build: " + msg2); return False, [], {}, {}
    rc1, o1 = vlib.run_bin(impl, cf, timeout=timeout)
    rc2, o2 = vlib.run_bin(model, cf, args=(["--identity"] if precond != "ruiz" else []), timeout=timeout)
    if rc1 != 0 or rc2 != 0:
        ctx.ob(obn, "correspondence", False, "driver failed rc_impl=%d rc_model=%d: %s %s" % (rc1, rc2, o1[-400:], o2[-400:]))
        return False, [], vlib.parse_obs(o1), vlib.parse_obs(o2)
    a, b = vlib.parse_obs(o1), vlib.parse_obs(o2)
    diffs = vlib.diff_obs(a, b)
    ctx.ob(obn, "correspondence", not diffs,
           "; ".join("%s %s impl=%s model=%s" % (c, k, str(x)[:80], str(y)[:80]) for c, k, x, y in diffs[:5]))
    return not diffs, diffs, a, b
