"""C10, sparse half: model-vs-code stage for coq/SparseUpdateP.v.

The Gallina definitions `triu` (what setup() keeps of the caller's P), `update_P_check` and `update_P_copy` (what update(P) validates and
copies) are evaluated inside Coq (vm_compute) on generated RAW caller CSC arrays and compared, array by array, with what the real
`piqp::SparseSolver<double,int>` holds in `m_data.P_utri` after `setup(P0, c)` and after `update(P1)` (harness/drv_updatep.cpp; identity
preconditioner, integer values: no arithmetic touches P).  Inputs include every storage form C10 names (upper only, full symmetric,
upper + garbage in the lower triangle, explicit zeros), empty columns, update patterns that differ from the setup pattern (more entries,
fewer entries = rejected call) and UNSORTED columns."""
import os, re
import vlib

COQ_PRELUDE = """From Coq Require Import List ZArith QArith Qcanon. Import ListNotations.
From PIQP Require Import Base CSC SparseUpdateP.
Local Open Scope nat_scope.
Definition mk (n : nat) (cp ri : list nat) (vx : list Z) : csc F := mkcsc n n cp ri (map qofZ vx).
Definition zs (l : list nat) : list Z := map Z.of_nat l.
Definition outc (A : csc F) : list Z :=
  (Z.of_nat (nrows A) :: Z.of_nat (ncols A) :: zs (colptr A)) ++ ((-1)%Z :: zs (rowind A)) ++ ((-1)%Z :: map (fun q => Qnum (this q)) (vals A)).
Definition run_case (n : nat) (cp0 ri0 : list nat) (vx0 : list Z) (cp1 ri1 : list nat) (vx1 : list Z) : list Z :=
  let Pu := triu (mk n cp0 ri0 vx0) in
  let P1 := mk n cp1 ri1 vx1 in
  outc Pu ++ ((-2)%Z ::
    (if update_P_check Pu P1
     then match update_P_copy Pu P1 with Ok X => 1%Z :: outc X | Err _ => [(-3)%Z] end
     else 0%Z :: outc Pu)).
"""

def _csc(n, ents, order=None, rng_=None):
    """ents: dict (i,j)->int ; returns (cp, ri, vx) with the rows of each column in ascending order, or shuffled by `order` (an rng)"""
    cp, ri, vx = [0], [], []
    for j in range(n):
        col = sorted((i, v) for (i, jj), v in ents.items() if jj == j)
        if order == "shuffle": rng_.shuffle(col)
        elif order == "lower-first":
            # (Eigen asserts ordered insertion in the triangular assignment of setup(): the kept prefix must stay ascending.)  Move one
            # stored LOWER entry in front of some upper entries: the triangular view stops at it, the rest of the column is dropped.
            low = [t for t in col if t[0] > j]
            if low and rng_.random() < 0.7:
                e = rng_.choice(low); col.remove(e); col.insert(rng_.randint(0, max(0, len([t for t in col if t[0] <= j]))), e)
        for i, v in col: ri.append(i); vx.append(v)
        cp.append(len(ri))
    return cp, ri, vx

def gen_cases(rng, N):
    cases = []
    for k in range(N):
        n = rng.randint(1, 5)
        dens = rng.choice([0.2, 0.5, 0.9])
        up = {(i, j): rng.randint(1, 99) for j in range(n) for i in range(j + 1) if rng.random() < dens or (i == j and rng.random() < 0.6)}
        style = rng.choice(["upper", "full", "garbage", "zeros", "lower-only-cols", "unsorted"])
        e0 = dict(up)
        if style in ("full", "unsorted"):
            for (i, j), v in up.items(): e0[(j, i)] = v
        if style == "garbage":
            for j in range(n):
                for i in range(j + 1, n):
                    if rng.random() < 0.5: e0[(i, j)] = 500 + rng.randint(1, 99)
        if style == "zeros":
            for j in range(n):
                for i in range(n):
                    if (i, j) not in e0 and rng.random() < 0.3: e0[(i, j)] = 0
        if style == "lower-only-cols":
            e0 = {(i, j): v for (i, j), v in e0.items() if rng.random() < 0.7}
            for j in range(n):
                for i in range(j + 1, n):
                    if rng.random() < 0.4: e0[(i, j)] = 700 + i
        c0 = _csc(n, e0, order=("lower-first" if style == "unsorted" else None), rng_=rng)
        # the update argument
        ustyle = rng.choice(["same", "same", "upper-of", "more", "fewer", "unsorted", "other"])
        if ustyle == "same": e1 = {k_: 100 + rng.randint(1, 99) for k_ in e0}
        elif ustyle == "upper-of": e1 = {k_: 100 + rng.randint(1, 99) for k_ in e0 if k_[0] <= k_[1]}
        elif ustyle == "more":
            e1 = {k_: 100 + rng.randint(1, 99) for k_ in e0}
            for j in range(n):
                for i in range(n):
                    if (i, j) not in e1 and rng.random() < 0.3: e1[(i, j)] = 300 + rng.randint(1, 99)
        elif ustyle == "fewer":
            e1 = {k_: 100 + rng.randint(1, 99) for k_ in e0 if rng.random() < 0.7}
        elif ustyle == "unsorted": e1 = {k_: 100 + rng.randint(1, 99) for k_ in e0}
        else:
            e1 = {(i, j): 100 + rng.randint(1, 99) for j in range(n) for i in range(n) if rng.random() < 0.5}
        c1 = _csc(n, e1, order=("shuffle" if ustyle == "unsorted" else None), rng_=rng)
        cases.append({"id": "u%d" % k, "n": n, "p0": c0, "p1": c1, "tags": "n%d setup:%s update:%s" % (n, style, ustyle)})
    return cases

def case_text(c):
    def L(v): return "%d %s" % (len(v), " ".join(str(x) for x in v))
    return "CASE %s %d %s %s %s %s %s %s\n" % (c["id"], c["n"], L(c["p0"][0]), L(c["p0"][1]), L(c["p0"][2]), L(c["p1"][0]), L(c["p1"][1]), L(c["p1"][2]))

def coq_case(c):
    def N(v): return "[" + "; ".join(str(x) for x in v) + "]"
    def Zl(v): return "[" + "; ".join("%d" % x for x in v) + "]%Z"
    return "Eval vm_compute in (run_case %d %s %s %s %s %s %s)." % (c["n"], N(c["p0"][0]), N(c["p0"][1]), Zl(c["p0"][2]), N(c["p1"][0]), N(c["p1"][1]), Zl(c["p1"][2]))

def run_model(ctx, cases):
    from concurrent.futures import ThreadPoolExecutor
    SH = 150
    shards = [cases[i:i + SH] for i in range(0, len(cases), SH)] or [[]]
    def one(args):
        k, sh = args
        vf = os.path.join(ctx.work, "UpdP_%d.v" % k)
        open(vf, "w").write(COQ_PRELUDE + "\n".join(coq_case(c) for c in sh) + "\n")
        return vlib.sh(["coqc", "-Q", vlib.COQ, "PIQP", vf], cwd=ctx.work, timeout=1500)
    with ThreadPoolExecutor(max_workers=8) as ex:
        results = list(ex.map(one, enumerate(shards)))
    for rc, out in results:
        if rc != 0: return None, "coqc on the generated case file failed: " + out[-600:]
    out = "\n".join(o for _, o in results)
    chunks = re.split(r"^\s*=\s", out, flags=re.M)[1:]
    if len(chunks) != len(cases): return None, "expected %d model results, got %d" % (len(cases), len(chunks))
    res = {}
    for c, ch in zip(cases, chunks):
        res[c["id"]] = [int(x) for x in re.findall(r"-?\d+", ch.split(": list Z")[0])]
    return res, "ok"

def impl_flat(lines):
    """driver lines of one case -> the flat list the model prints; the accepted flag is not observable in the implementation and is
    filled in by the caller"""
    def arr(l):
        head, cp, ri, vx = [p.split() for p in l.split("|")]
        return [int(head[-2]), int(head[-1])] + [int(x) for x in cp] + [-1] + [int(x) for x in ri] + [-1] + [int(x) for x in vx]
    return arr(lines["S"]), arr(lines["U"])

def updatep_stage(ctx):
    rng = ctx.rng
    rc_mk, _ = vlib.coq_make(ctx, ["SparseUpdateP.vo"])
    exe, msg = vlib.build_harness(ctx, src="drv_updatep.cpp", libs=(), name="drv_updatep")
    if exe is None:
        ctx.ob("correspondence:updatep-model", "correspondence", False, "harness build failed: " + (msg or "")[-500:]); return
    cases = gen_cases(rng, 150 if ctx.quick() else 1500)
    cf = os.path.join(ctx.work, "updatep.cases"); open(cf, "w").write("".join(case_text(c) for c in cases))
    rc, out = vlib.run_bin(exe, cf, timeout=600)
    impl = {}
    for l in out.splitlines():
        t = l.split(" ", 2)
        if len(t) == 3 and t[1] in ("S", "U"): impl.setdefault(t[0], {})[t[1]] = l
    model, mmsg = run_model(ctx, cases)
    if model is None or rc != 0:
        ctx.ob("correspondence:updatep-model", "correspondence", False, "rc=%d %s" % (rc, mmsg)); return
    bad = 0
    for c in cases:
        m = model[c["id"]]
        if c["id"] not in impl or set(impl[c["id"]]) != {"S", "U"}:
            bad += 1; ctx.notes.append("updatep: no implementation output for %s" % c["id"]); continue
        s_i, u_i = impl_flat(impl[c["id"]])
        k = m.index(-2)
        s_m, acc, u_m = m[:k], m[k + 1], m[k + 2:]
        ctx.classes.add("updatep " + c["tags"] + (" accepted" if acc == 1 else " rejected"))
        if s_m != s_i or u_m != u_i:
            bad += 1
            what = "setup" if s_m != s_i else "update"
            # which side is right?  the property itself: P_utri must be the upper triangle of the caller's matrix (for sorted, duplicate-free
            # columns the upper triangle is unambiguous); the oracle below decides on the implementation side
            ctx.coverage.setdefault("disagreeing_cases", []).append(case_text(c))
            if len(ctx.notes) < 30:
                ctx.notes.append("updatep: model and code differ after %s on %s (%s): code %s model %s" % (what, c["id"], c["tags"], (s_i if what == "setup" else u_i), (s_m if what == "setup" else u_m)))
        # implementation-side oracle (independent of the model), sorted inputs only: stored pattern+values = upper triangle of P0 / P1
        if "unsorted" not in c["tags"]:
            n = c["n"]
            def upper(cs):
                cp, ri, vx = cs; o = []
                for j in range(n):
                    o.append([(ri[t], vx[t]) for t in range(cp[j], cp[j + 1]) if ri[t] <= j])
                return o
            u0 = upper(c["p0"])
            cp = [0]; ri = []; vx = []
            for col in u0:
                for i, v in col: ri.append(i); vx.append(v)
                cp.append(len(ri))
            want_s = [n, n] + cp + [-1] + ri + [-1] + vx
            if s_i != want_s:
                ctx.violation("C10.sparseP.setup %s" % c["tags"], "P_utri after setup is not the upper triangle of the caller's P: got %s want %s" % (s_i, want_s),
                              {"stage": "updatep", "case_text": case_text(c)})
            u1 = upper(c["p1"])
            same_upper = [[i for i, _ in col] for col in u1] == [[i for i, _ in col] for col in u0]
            if same_upper and s_i == want_s:
                vx1 = [v for col in u1 for _, v in col]
                want_u = [n, n] + cp + [-1] + ri + [-1] + vx1
                if u_i != want_u:
                    ctx.violation("C10.sparseP.update %s" % c["tags"], "P_utri after update(P) with the same upper pattern is not the upper triangle of the new P: got %s want %s" % (u_i, want_u),
                                  {"stage": "updatep", "case_text": case_text(c)})
    ctx.ob("correspondence:updatep-model", "correspondence", bad == 0, "%d cases, %d differ" % (len(cases), bad))
    ctx.coverage["evaluations"] = ctx.coverage.get("evaluations", 0) + len(cases)
    ctx.trusted.append("harness/drv_updatep.cpp (raw CSC arrays through Eigen::Map into SparseSolver<double,int>, identity preconditioner); the model is evaluated by vm_compute in generated files")
