#!/bin/sh
# usage: tools/try_mutation.sh <patch.diff> <prop> [<prop>...]   -- applies the patch to /repo, runs the quick checks, reverts
patch=$1; shift
cd /repo || exit 2
git diff --quiet || { echo "/repo has local changes"; exit 2; }
git apply "$patch" || { echo "PATCH DOES NOT APPLY"; exit 3; }
cd /verif
for p in "$@"; do
  out=$(VERIF_SEED=${VERIF_SEED:-1} ./check $p --tier quick 2>&1)
  echo "$out" | grep -E "^VIOLATION|^KNOWN" | head -3 | cut -c1-200
  echo "$out" | tail -1
done
git -C /repo checkout -- .
