#!/bin/sh
# usage: tools/try_mutation.sh <patch.diff> <prop> [<prop>...]
# Applies the patch to a SCRATCH worktree of /repo (never to /repo itself), runs the quick checks against it (VERIF_REPO) with the
# evidence redirected (VERIF_EVIDENCE_DIR), prints the VIOLATION lines, removes the worktree.
patch=$1; shift
wt=/tmp/mutrepo_$$
git -C /repo worktree add -q --detach $wt HEAD || exit 2
( cd $wt && git apply "$patch" ) || { echo "PATCH DOES NOT APPLY"; git -C /repo worktree remove --force $wt
# the translated Coq files were regenerated from the scratch worktree: regenerate them from /repo
for g in /verif/tools/gen_*.py; do python3 $g > /dev/null 2>&1; done; exit 3; }
cd /verif
for p in "$@"; do
  out=$(VERIF_REPO=$wt VERIF_EVIDENCE_DIR=/verif/.work/mut_evidence VERIF_SEED=${VERIF_SEED:-1} ./check $p --tier quick 2>&1)
  echo "$out" | grep -E "^VIOLATION" | head -6 | cut -c1-200
  echo "$out" | tail -1
done
git -C /repo worktree remove --force $wt
# the translated Coq files were regenerated from the scratch worktree: regenerate them from /repo
for g in /verif/tools/gen_*.py; do python3 $g > /dev/null 2>&1; done
