"""Case generators for the whole-solver drivers (harness/drv_solver.cpp, ocaml/drv_model.ml).
Every random choice derives from the random.Random instance passed in."""
from fractions import Fraction as Fr
import itertools

INF = "inf"
NINF = "-inf"

def fs(x):
    if isinstance(x, str): return x
    x = Fr(x)
    return str(x.numerator) if x.denominator == 1 else "%d/%d" % (x.numerator, x.denominator)

def mat_tokens(M, rows, cols, keep_zero=False):
    """M as dict (i,j)->value or list of rows; emits 'rows cols nnz i j v ...' column-major sorted"""
    if isinstance(M, dict):
        ent = sorted(((j, i, v) for (i, j), v in M.items()))
    else:
        ent = [(j, i, M[i][j]) for j in range(cols) for i in range(rows) if keep_zero or M[i][j] != 0]
    return "%d %d %d " % (rows, cols, len(ent)) + " ".join("%d %d %s" % (i, j, fs(v)) for j, i, v in ent)

def vec_tokens(v):
    return "%d " % len(v) + " ".join(fs(x) for x in v)

FRIENDLY = [("rho_init", "1/256"), ("delta_init", "1/64"), ("eps_abs", "1/1024"), ("eps_rel", "1/1024"),
            ("eps_duality_gap_abs", "1/1024"), ("eps_duality_gap_rel", "1/1024"), ("reg_lower_limit", "1/1048576"),
            ("reg_finetune_lower_limit", "1/1073741824"), ("tau", "7/8")]

def rnd_small(rng, lo=-3, hi=3, den=(1, 1, 1, 2)):
    return Fr(rng.randint(lo, hi), rng.choice(den))

def gen_problem(rng, n=None, p=None, m=None, convex=True, wellposed=True, sparse_prob=0.3, bound_kinds=None, inf_h=0.0, special=None, strict_convex=False):
    """returns dict of blocks; with wellposed=True a strictly feasible point x0 exists with margin 1"""
    n = n if n is not None else rng.randint(1, 4)
    p = p if p is not None else rng.choice([0, 0, 1, 1, 2]) if n > 1 else rng.choice([0, 0, 1])
    p = min(p, n)
    m = m if m is not None else rng.choice([0, 1, 2, 3])
    # P = L L^T + d I
    L = [[rnd_small(rng) if (j <= i and rng.random() > sparse_prob) else Fr(0) for j in range(n)] for i in range(n)]
    P = [[sum(L[i][k] * L[j][k] for k in range(n)) for j in range(n)] for i in range(n)]
    if convex:
        dshift = rng.choice([Fr(1), Fr(1, 2), Fr(2), Fr(0)]) if not wellposed else rng.choice([Fr(1), Fr(1, 2), Fr(2)])
        for i in range(n): P[i][i] += dshift
    else:
        for i in range(n): P[i][i] -= rng.choice([Fr(0), Fr(1), Fr(3)])
    c = [rnd_small(rng, -4, 4) for _ in range(n)]
    x0 = [rnd_small(rng, -2, 2) for _ in range(n)]
    A = [[Fr(0)] * n for _ in range(p)]
    for i in range(p):
        for j in range(n):
            A[i][j] = Fr(1) if j == i else (rnd_small(rng) if (j >= p and rng.random() > sparse_prob) else Fr(0))
    b = [sum(A[i][j] * x0[j] for j in range(n)) for i in range(p)]
    if not wellposed and p and rng.random() < 0.3:
        b[rng.randrange(p)] += rnd_small(rng, -2, 2)
    G = [[rnd_small(rng) if rng.random() > sparse_prob else Fr(0) for j in range(n)] for i in range(m)]
    h = []
    for i in range(m):
        gx = sum(G[i][j] * x0[j] for j in range(n))
        if rng.random() < inf_h: h.append(rng.choice([INF, "2000000000000000000000000000000000", NINF]) if not wellposed else INF)
        elif wellposed: h.append(gx + rng.choice([Fr(1), Fr(2), Fr(1, 2)]))
        else: h.append(gx + rnd_small(rng, -1, 3))
    kinds = bound_kinds or [rng.choice(["free", "lower", "upper", "both", "free", "both"]) for _ in range(n)]
    lb, ub = [], []
    for i, kd in enumerate(kinds):
        mg = rng.choice([Fr(1), Fr(1, 2), Fr(3)])
        if kd == "free": lb.append(NINF); ub.append(INF)
        elif kd == "lower": lb.append(x0[i] - mg); ub.append(INF)
        elif kd == "upper": lb.append(NINF); ub.append(x0[i] + mg)
        elif kd == "both": lb.append(x0[i] - mg); ub.append(x0[i] + mg)
        elif kd == "fixed": lb.append(x0[i]); ub.append(x0[i])
        elif kd == "cross": lb.append(x0[i] + mg); ub.append(x0[i] - mg)
        elif kd == "biglb": lb.append("-2000000000000000000000000000000000"); ub.append(x0[i] + mg)
        else: raise ValueError(kd)
    if special is None: special = rng.random()
    tags = []
    if special < 0.12 and n >= 2 and not strict_convex:
        # a variable that enters only linearly: row/column k of P is zero, so the stored (sparse) P has NO diagonal entry in column k
        # (exercises the diagonal-insertion paths of create_kkt_matrix); the variable is boxed so the problem stays bounded
        k = rng.randrange(n)
        for i in range(n): P[i][k] = Fr(0); P[k][i] = Fr(0)
        mg = rng.choice([Fr(1), Fr(2)])
        lb[k] = x0[k] - mg; ub[k] = x0[k] + mg; kinds[k] = "both"; tags.append("Pnodiag%d" % k)
    elif special < 0.2 and m > 0:
        # entries beyond the Ruiz clamps (1e-4, 1e4): a huge and a tiny column
        j = rng.randrange(n)
        f = rng.choice([Fr(10) ** 5, Fr(1, 10 ** 5)])
        for i in range(m): G[i][j] *= f
        if wellposed: h = [sum(G[i][j_] * x0[j_] for j_ in range(n)) + Fr(1) if not isinstance(h[i], str) else h[i] for i in range(m)]
        tags.append("clamp")
    return with_patterns({"n": n, "p": p, "m": m, "P": P, "c": c, "A": A, "b": b, "G": G, "h": h, "lb": lb, "ub": ub, "kinds": kinds, "x0": x0, "gen_tags": tags})

def pattern_of(M, rows, cols):
    return sorted((i, j) for i in range(rows) for j in range(cols) if M[i][j] != 0)

def with_patterns(pb):
    """fix the sparsity patterns of P, A, G (the library's update() contract: same pattern as at setup)"""
    pb = dict(pb)
    pb["patP"] = pattern_of(pb["P"], pb["n"], pb["n"])
    pb["patA"] = pattern_of(pb["A"], pb["p"], pb["n"])
    pb["patG"] = pattern_of(pb["G"], pb["m"], pb["n"])
    return pb

def mat_pat_tokens(M, rows, cols, pat):
    return mat_tokens({(i, j): M[i][j] for (i, j) in pat}, rows, cols)

def blocks_text(pb, which=None, lb_present=True, ub_present=True, full_P=True):
    """text of the blocks of a SETUP/UPDATE op. which: set of names (None = all present ones)"""
    n, p, m = pb["n"], pb["p"], pb["m"]
    out = []
    def want(k): return which is None or k in which
    if "patP" in pb:
        if want("P"): out.append("P " + mat_pat_tokens(pb["P"], n, n, pb["patP"]))
        if want("c"): out.append("c " + vec_tokens(pb["c"]))
        if p > 0 and want("A"): out.append("A " + mat_pat_tokens(pb["A"], p, n, pb["patA"]))
        if p > 0 and want("b"): out.append("b " + vec_tokens(pb["b"]))
        if m > 0 and want("G"): out.append("G " + mat_pat_tokens(pb["G"], m, n, pb["patG"]))
        if m > 0 and want("h"): out.append("h " + vec_tokens(pb["h"]))
        if want("lb") and lb_present: out.append("lb " + vec_tokens(pb["lb"]))
        if want("ub") and ub_present: out.append("ub " + vec_tokens(pb["ub"]))
        return "\n".join(out)
    if want("P"): out.append("P " + mat_tokens(pb["P"], n, n))
    if want("c"): out.append("c " + vec_tokens(pb["c"]))
    if p > 0 and want("A"): out.append("A " + mat_tokens(pb["A"], p, n))
    if p > 0 and want("b"): out.append("b " + vec_tokens(pb["b"]))
    if m > 0 and want("G"): out.append("G " + mat_tokens(pb["G"], m, n))
    if m > 0 and want("h"): out.append("h " + vec_tokens(pb["h"]))
    if want("lb") and lb_present: out.append("lb " + vec_tokens(pb["lb"]))
    if want("ub") and ub_present: out.append("ub " + vec_tokens(pb["ub"]))
    return "\n".join(out)

def case_text(name, settings, ops):
    """ops: list of strings (already formatted op blocks)"""
    lines = ["CASE " + name]
    for k, v in settings: lines.append("SET %s %s" % (k, v))
    lines += ops
    lines.append("ENDCASE")
    return "\n".join(lines) + "\n"

def op_setup(pb, **kw): return "SETUP\n" + blocks_text(pb, **kw) + "\nEND"
def op_update(pb, which, reuse=True, **kw): return "UPDATE %d\n" % (1 if reuse else 0) + blocks_text(pb, which=which, **kw) + "\nEND"
def op_solve(): return "SOLVE"

def signature(pb, extra=""):
    """class signature of a case for distinct_nontrivial counting"""
    return "n%d p%d m%d %s %s" % (pb["n"], pb["p"], pb["m"], "".join(k[0] for k in pb["kinds"]), extra)

def perturb(rng, pb, what, strong=False):
    """a second problem of the same dimensions differing in the named blocks (keeps x0 strictly feasible where possible)"""
    q = dict(pb)
    n, p, m = pb["n"], pb["p"], pb["m"]
    x0 = pb["x0"]
    if "P" in what:
        P = [row[:] for row in pb["P"]]
        pat = set(pb.get("patP", [(i, j) for i in range(n) for j in range(n)]))
        for i in range(n):
            if (i, i) in pat: P[i][i] += Fr(rng.randint(0, 2), rng.choice([1, 2])) * (20 if strong else 1)
        off = [(i, j) for (i, j) in pat if i < j and (i, i) in pat and (j, j) in pat]
        if off:
            i, j = rng.choice(off); d = Fr(rng.randint(-1, 1), 2); P[i][j] += d; P[j][i] += d
            P[i][i] += abs(d); P[j][j] += abs(d)
        q["P"] = P
    if "c" in what: q["c"] = [v + rnd_small(rng, -2, 2) for v in pb["c"]]
    if "A" in what and p:
        A = [row[:] for row in pb["A"]]
        patA = set(pb.get("patA", [(i, j) for i in range(p) for j in range(n)]))
        for i in range(p):
            for j in range(p, n):
                if (i, j) in patA and rng.random() < (0.9 if strong else 0.5): A[i][j] += rnd_small(rng, -1, 1) * (6 if strong else 1)
        q["A"] = A
        if "b" not in what: what = set(what) | {"b"}
    if "b" in what and p: q["b"] = [sum(q["A"][i][j] * x0[j] for j in range(n)) for i in range(p)]
    if "G" in what and m:
        G = [row[:] for row in pb["G"]]
        patG = sorted(pb.get("patG", [(i, j) for i in range(m) for j in range(n)]))
        for (i, j) in patG:
            if rng.random() < (0.9 if strong else 0.4): G[i][j] += rnd_small(rng, -1, 1) * (6 if strong else 1)
        q["G"] = G
        has_inf = any(isinstance(v, str) for v in pb["h"])
        if "h" not in what and not (has_inf and rng.random() < 0.5): what = set(what) | {"h"}
    if "h" in what and m:
        q["h"] = [sum(q["G"][i][j] * x0[j] for j in range(n)) + rng.choice([Fr(1), Fr(2), Fr(1, 2)]) for i in range(m)]
    if "lb" in what or "ub" in what:
        kinds = [rng.choice(["free", "lower", "upper", "both"]) for _ in range(n)]
        lb, ub = list(pb["lb"]), list(pb["ub"])
        for i, kd in enumerate(kinds):
            mg = rng.choice([Fr(1), Fr(1, 2), Fr(3)])
            if "lb" in what: lb[i] = NINF if kd in ("free", "upper") else x0[i] - mg
            if "ub" in what: ub[i] = INF if kd in ("free", "lower") else x0[i] + mg
        q["lb"], q["ub"] = lb, ub
        q["kinds"] = ["both" if (lb[i] != NINF and ub[i] != INF) else "lower" if lb[i] != NINF else "upper" if ub[i] != INF else "free" for i in range(n)]
    return q, set(what)
