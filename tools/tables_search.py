"""Python-level search over the binding tables (C17, table part of C16): an implementation of the same comparisons
as coq/TablesCheck.v that is independent of the Coq development and reports every concrete discrepancy with the
source file and line.  `analyse(T, scope)` -> (triples, discrepancies); T is gen_tables.extract(repo)."""
import os
import gen_tables as GT

C_TYPES = {"T": "piqp_float", "isize": "piqp_int", "bool": "piqp_int", "Status": "piqp_status", "Vec<T>": "const piqp_float*", "Info<T>": "piqp_info"}
PYI_TYPES = {"T": "float", "isize": "int", "bool": "bool", "Status": "piqp.Status", "Vec<T>": "numpy.ndarray[numpy.float64[m, 1]]", "Info<T>": "piqp.Info"}
MEX_IN_CONV = {"T": ("(double)",), "isize": ("(piqp::isize)",), "bool": ("(bool)",)}
OCT_IN_CONV = {"T": (".double_value()",), "isize": (".int_value()",), "bool": (".bool_value()",)}
PY_RW = {"T": ("def_readwrite",), "isize": ("def_readwrite",), "bool": ("def_readwrite",)}

def _struct_info_conv(num):
    return {"T": (num, "(double)"), "isize": (num, "(double)"), "Status": (num, "(double)", "status_to_string")}

def dval_str(d):
    if d[0] == "bool": return "true" if d[1] else "false"
    if d[0] == "num": return "%d/%d" % (d[1], d[2]) if d[2] != 1 else "%d" % d[1]
    if d[0] == "eps2": return "eps^2"
    if d[0] == "none": return "<none>"
    return d[1]

class Analysis:
    def __init__(self, T):
        self.T = T
        self.triples = []
        self.disc = []
    def triple(self, field, binding, direction):
        self.triples.append("%s|%s|%s" % (field, binding, direction))
    def report(self, check, binding, direction, field, wired_to, table, line, detail, expected=None):
        self.disc.append({"check": check, "binding": binding, "dir": direction, "field": field, "wired_to": wired_to,
                          "file": GT.source_file(table), "line": line, "table": table, "detail": detail, "expected": expected})

    # ---- wires ------------------------------------------------------------------------------------------------
    def wires(self, check, binding, direction, table, exp, lhs, dirs=None):
        """exp: list of (ext, core); lhs = 'ext' (core -> binding, the binding-side name is written) or
        'core' (binding -> core, the core field is written).  Each expected lhs must be written exactly once, by a wire
        whose other side is the expected one; no other wires; every expected rhs of an input copy is read."""
        ws = self.T[table]
        rhs = "core" if lhs == "ext" else "ext"
        idx = 0 if lhs == "ext" else 1
        for pair in exp:
            key, other = pair[idx], pair[1 - idx]
            for d in (dirs or (direction,)): self.triple(key, binding, d)
            hit = [w for w in ws if w[lhs] == key]
            if not hit:
                # is the expected partner used for something else?
                self.report(check, binding, direction, key, "<missing>", table, ws[0]["line"] if ws else 0,
                            "%s: no assignment/registration for field `%s`" % (table, key), expected=other)
                continue
            if len(hit) > 1:
                self.report(check, binding, direction, key, "<assigned-%d-times>" % len(hit), table, hit[1]["line"],
                            "%s: field `%s` is assigned %d times (lines %s)" % (table, key, len(hit), ",".join(str(w["line"]) for w in hit)), expected=other)
            for w in hit:
                if w[rhs] != other:
                    self.report(check, binding, direction, key, w[rhs], table, w["line"],
                                "%s: `%s` is wired to `%s` instead of `%s`" % (table, key, w[rhs], other), expected=other)
        keys = set(p[idx] for p in exp)
        for w in ws:
            if w[lhs] not in keys:
                self.report(check, binding, direction, w[lhs], "<not-a-core-field>:" + w[rhs], table, w["line"],
                            "%s: `%s` (wired to `%s`) does not correspond to any core field" % (table, w[lhs], w[rhs]))
        if lhs == "core":
            used = set(w["ext"] for w in ws)
            for e, c in exp:
                wc = [w for w in ws if w["core"] == c]
                if e not in used and wc:      # (a core field without any assignment is reported above as <missing>)
                    self.report(check, binding, direction, e, "<never-read>", table, wc[0]["line"],
                                "%s: binding-side field `%s` is never read (`%s` is filled from `%s`)" % (table, e, c, wc[0]["ext"]), expected=c)

    def conv(self, check, binding, direction, table, core, allowed):
        ty = {f["name"]: f["type"] for f in core}
        for w in self.T[table]:
            t = ty.get(w["core"])
            if t is None: continue     # reported by wires()
            if w["conv"] not in allowed.get(t, ()):
                self.report(check, binding, direction, w["core"], "conversion:%s" % (w["conv"] or "<none>"), table, w["line"],
                            "%s: field `%s` of core type %s is converted with `%s` (allowed: %s)" % (table, w["core"], t, w["conv"], "/".join(allowed.get(t, ())) or "-"))

    def status_text(self, check, binding, table):
        for w in self.T[table]:
            if (w["ext"] == "status") != (w["conv"] == "status_to_string"):
                self.report(check, binding, "out", w["ext"], "conversion:%s" % (w["conv"] or "<none>"), table, w["line"],
                            "%s: exactly the field `status` must carry status_to_string(...)" % table)

    # ---- declarations -----------------------------------------------------------------------------------------
    def same_names(self, check, binding, direction, table, got, want, lines=None):
        seen = set()
        for i, g in enumerate(got):
            ln = lines[i] if lines else 0
            if g in seen:
                self.report(check, binding, direction, g, "<declared-twice>", table, ln, "%s: `%s` occurs twice" % (table, g))
            seen.add(g)
            if g not in want:
                self.report(check, binding, direction, g, "<not-a-core-field>", table, ln, "%s: `%s` is not a core field" % (table, g))
        for w in want:
            if w not in seen:
                self.report(check, binding, direction, w, "<missing>", table, lines[0] if lines else 0, "%s: core field `%s` is missing" % (table, w))

    def decl(self, check, binding, table, core, tymap):
        d = self.T[table]
        self.same_names(check, binding, "decl", table, [f["name"] for f in d], [f["name"] for f in core], [f["line"] for f in d])
        by = {}
        for f in d: by.setdefault(f["name"], f)
        for c in core:
            self.triple(c["name"], binding, "decl")
            f = by.get(c["name"])
            if f is not None and tymap.get(c["type"]) != f["type"]:
                self.report(check, binding, "decl", c["name"], "type:" + f["type"], table, f["line"],
                            "%s: `%s` has type `%s`, core type %s corresponds to `%s`" % (table, c["name"], f["type"], c["type"], tymap.get(c["type"])))

    def enum(self, check, binding, table, core):
        e = self.T[table]
        self.same_names(check, binding, "enum", table, [x["name"] for x in e], [x["name"] for x in core], [x["line"] for x in e])
        by = {}
        for x in e: by.setdefault(x["name"], x)
        for c in core:
            self.triple(c["name"], binding, "enum:" + table)
            x = by.get(c["name"])
            if x is not None and x["val"] != c["val"]:
                self.report(check, binding, "enum", c["name"], "value:%d" % x["val"], table, x["line"],
                            "%s: %s = %d but piqp::Status::%s = %d" % (table, c["name"], x["val"], c["name"], c["val"]))

    def defaults(self, check, binding, table, core):
        d = self.T[table]
        self.same_names(check, binding, "doc", table, [f["name"] for f in d], [f["name"] for f in core], [f["line"] for f in d])
        by = {}
        for f in d: by.setdefault(f["name"], f)
        for c in core:
            self.triple(c["name"], binding, "doc")
            f = by.get(c["name"])
            if f is not None and (f["default"] != c["default"] or c["default"][0] == "none"):
                self.report(check, binding, "doc", c["name"], "default:%s" % f["raw"], table, f["line"],
                            "%s: documented default of `%s` is `%s` but the code initialises it with `%s` (%s vs %s)" %
                            (table, c["name"], f["raw"], c["raw"], dval_str(f["default"]), dval_str(c["default"])))

def info_exp(I):
    out = []
    for f in I:
        if f == "status": out += [("status", "status"), ("status_val", "status")]
        else: out.append((f, f))
    return out

def analyse(T, scope="all"):
    """scope 'c' = C binding only (C16 T1), 'all' = everything (C17)"""
    A = Analysis(T)
    S = [f["name"] for f in T["core_settings"]]
    I = [f["name"] for f in T["core_info"]]
    R = [f["name"] for f in T["core_result"]]
    V = [f["name"] for f in T["core_result"] if f["type"] != "Info<T>"]
    E = [e["name"] for e in T["core_status"]]
    diag = lambda l: [(x, x) for x in l]
    # core sanity
    for nm, l, tab in (("settings", S, "core_settings"), ("info", I, "core_info"), ("result", R, "core_result"), ("status", E, "core_status")):
        A.same_names("core_nodup", "core", "decl", tab, l, l)
    # C
    A.decl("c_settings_decl", "c", "c_settings", T["core_settings"], C_TYPES)
    A.decl("c_info_decl", "c", "c_info", T["core_info"], C_TYPES)
    A.decl("c_result_decl", "c", "c_result", T["core_result"], C_TYPES)
    A.enum("c_status", "c", "c_status", T["core_status"])
    A.wires("c_result_out", "c", "out", "c_result_out", diag(V), "ext")
    A.wires("c_info_out", "c", "out", "c_info_out", diag(I), "ext")
    A.wires("c_settings_out", "c", "out", "c_settings_out", diag(S), "ext")
    A.wires("c_settings_in_dense", "c-dense", "in", "c_settings_in_dense", diag(S), "core")
    A.wires("c_settings_in_sparse", "c-sparse", "in", "c_settings_in_sparse", diag(S), "core")
    if scope == "c":
        return A.triples, A.disc
    # status_to_string
    strs = T["core_status_str"]
    A.same_names("core_status_strings", "core", "out", "core_status_str", [w["core"] for w in strs], E, [w["line"] for w in strs])
    seen = {}
    for w in strs:
        A.triple(w["core"], "core", "status_to_string")
        if w["ext"] in seen:
            A.report("core_status_strings", "core", "out", w["core"], "text:" + w["ext"], "core_status_str", w["line"], "status_to_string returns `%s` for %s and %s" % (w["ext"], seen[w["ext"]], w["core"]))
        seen[w["ext"]] = w["core"]
    # pybind11
    A.wires("py_settings", "python", "inout", "py_settings", diag(S), "ext", dirs=("in", "out"))
    A.conv("py_settings", "python", "in", "py_settings", T["core_settings"], PY_RW)
    A.wires("py_info", "python", "out", "py_info", diag(I), "ext")
    A.wires("py_result", "python", "out", "py_result", diag(R), "ext")
    A.wires("py_status", "python", "enum", "py_status", diag(E), "ext")
    A.decl("pyi_settings", "pyi", "pyi_settings", T["core_settings"], PYI_TYPES)
    A.decl("pyi_info", "pyi", "pyi_info", T["core_info"], PYI_TYPES)
    A.decl("pyi_result", "pyi", "pyi_result", T["core_result"], PYI_TYPES)
    for tab in ("pyi_status_class", "pyi_status_members", "pyi_status_module"):
        A.enum("pyi_status", "pyi", tab, T["core_status"])
    # Matlab
    A.same_names("mex_fields", "matlab", "out", "mex_settings_fields", T["mex_settings_fields"], S)
    A.same_names("mex_fields", "matlab", "out", "mex_info_fields", T["mex_info_fields"], [e for e, _ in info_exp(I)])
    A.same_names("mex_fields", "matlab", "out", "mex_result_fields", T["mex_result_fields"], R)
    A.wires("mex_settings_out", "matlab", "out", "mex_settings_out", diag(S), "ext")
    A.wires("mex_settings_in", "matlab", "in", "mex_settings_in", diag(S), "core")
    A.conv("mex_settings_in", "matlab", "in", "mex_settings_in", T["core_settings"], MEX_IN_CONV)
    A.wires("mex_info_out", "matlab", "out", "mex_info_out", info_exp(I), "ext")
    A.conv("mex_info_out", "matlab", "out", "mex_info_out", T["core_info"], _struct_info_conv(""))
    A.status_text("mex_info_out", "matlab", "mex_info_out")
    A.wires("mex_result_out", "matlab", "out", "mex_result_out", diag(R), "ext")
    # Octave
    A.wires("oct_settings_out", "octave", "out", "oct_settings_out", diag(S), "ext")
    A.wires("oct_settings_in", "octave", "in", "oct_settings_in", diag(S), "core")
    A.conv("oct_settings_in", "octave", "in", "oct_settings_in", T["core_settings"], OCT_IN_CONV)
    A.wires("oct_info_out", "octave", "out", "oct_info_out", info_exp(I), "ext")
    A.conv("oct_info_out", "octave", "out", "oct_info_out", T["core_info"], _struct_info_conv("octave_value"))
    A.status_text("oct_info_out", "octave", "oct_info_out")
    A.wires("oct_result_out", "octave", "out", "oct_result_out", diag(R), "ext")
    # documentation
    A.defaults("doc_settings", "docs", "doc_settings", T["core_settings"])
    A.enum("doc_status", "docs", "doc_status", T["core_status"])
    return A.triples, A.disc

def signature(d):
    return "binding=%s dir=%s field=%s wired_to=%s" % (d["binding"], d["dir"], d["field"], d["wired_to"])

def source_text(repo, d):
    try:
        return open(os.path.join(repo, d["file"]), errors="replace").read().split("\n")[d["line"] - 1].strip()
    except Exception:
        return ""

def run_search(ctx, repo, scope, octave_in_separate=True):
    """extract the tables afresh, diff them, record violations / coverage.  Returns (ok_extract, discrepancies)."""
    try:
        T = GT.extract(repo)
    except GT.TranslatorError as e:
        ctx.ob("search:extract-tables", "search", False, "TRANSLATOR-ERROR %s" % e)
        return None, []
    except Exception as e:
        ctx.ob("search:extract-tables", "search", False, "TRANSLATOR-ERROR %s: %s" % (type(e).__name__, e))
        return None, []
    triples, disc = analyse(T, scope)
    ctx.coverage["evaluations"] = ctx.coverage.get("evaluations", 0) + len(triples)
    for t in triples: ctx.classes.add(t)
    seen = set()
    for d in disc:
        sig = signature(d)
        if sig in seen: continue
        seen.add(sig)
        ctx.violation(sig, d["detail"], {"file": os.path.join(repo, d["file"]), "line": d["line"], "source": source_text(repo, d),
                                         "table": d["table"], "check": d["check"], "expected": d["expected"], "found": d["wired_to"],
                                         "how": "python3 tools/gen_tables.py regenerates coq/gen/Tables.v; see coq/TablesCheck.v chk_%s" % d["check"]})
    ctx.ob("search:tables-diff", "search", not disc, "; ".join(signature(d) for d in disc[:8]))
    return T, disc
