#!/usr/bin/env python3
"""Translator: numeric literals of the algorithm, Settings defaults and verify_settings() -> coq/gen/Consts.v.

Every literal is located by a regular expression anchored on the surrounding source text; if a site is
not found exactly the expected number of times the translator fails (the tie is then reported broken).
Each literal becomes the exact rational value of the C++ double literal (float.as_integer_ratio)."""
import re, sys, os

REPO = os.environ.get("VERIF_REPO", "/repo")
OUT = sys.argv[1] if len(sys.argv) > 1 else os.path.join(os.path.dirname(__file__), "..", "coq", "gen", "Consts.v")

def strip_comments(s):
    s = re.sub(r"/\*.*?\*/", " ", s, flags=re.S)
    s = re.sub(r"//[^\n]*", "", s)
    return s

def rd(p):
    return strip_comments(open(os.path.join(REPO, p)).read())

class TranslatorError(Exception):
    pass

def q(lit):
    """exact rational of a C++ floating/integer literal, as Coq term of type Qc"""
    lit = lit.strip()
    m = re.fullmatch(r"T\((.*)\)", lit)
    if m: lit = m.group(1)
    if re.fullmatch(r"[0-9]+", lit):
        n, d = int(lit), 1
    else:
        n, d = float(lit).as_integer_ratio()
    return "(qmk (%d) %d)" % (n, d)

def site(src, pattern, count=1, name=""):
    ms = re.findall(pattern, src)
    if len(ms) != count:
        raise TranslatorError("literal site %s: pattern %r matched %d times (expected %d)" % (name, pattern, len(ms), count))
    vals = set(ms)
    if len(vals) != 1:
        raise TranslatorError("literal site %s: occurrences disagree: %r" % (name, sorted(vals)))
    return ms[0]

NUM = r"(T\([-+]?[0-9]*\.?[0-9]+(?:[eE][-+]?[0-9]+)?\)|[-+]?[0-9]*\.?[0-9]+(?:[eE][-+]?[0-9]+)?)"

def main():
    solver = rd("include/piqp/solver.hpp")
    fwd = rd("include/piqp/fwd.hpp")
    dpre = rd("include/piqp/dense/preconditioner.hpp")
    spre = rd("include/piqp/sparse/preconditioner.hpp")
    settings = rd("include/piqp/settings.hpp")
    K = {}
    K["k_inf"] = site(fwd, r"#define\s+PIQP_INF\s+" + NUM, 1, "PIQP_INF")
    K["k_snorm"] = site(solver, r"s_norm\s*<=\s*" + NUM, 1, "s_norm threshold")
    K["k_sinit"] = site(solver, r"setConstant\(" + r"(0\.[0-9]+)" + r"\)", 6, "initial s/z constant")
    K["k_shift"] = site(solver, r"-" + NUM + r"\s*\*\s*(?:m_result\.)?[sz](?:_lb|_ub)?\.minCoeff\(\)", 6, "Mehrotra shift factor")
    K["k_half"] = site(solver, NUM + r"\s*\*\s*tmp_prod\)", 2, "0.5*tmp_prod")
    half2 = site(solver, r"primal_obj\s*=\s*" + NUM + r"\s*\*\s*tmp;", 1, "0.5*x'Px (primal)")
    half3 = site(solver, r"dual_obj\s*=\s*-" + NUM + r"\s*\*\s*tmp;", 1, "0.5*x'Px (dual)")
    if not (q(half2) == q(half3) == q(K["k_half"])):
        raise TranslatorError("the three 0.5 factors differ: %s %s %s" % (K["k_half"], half2, half3))
    r1 = site(solver, r"info\.delta\s*\*=\s*" + NUM + r";", 2, "delta *= 100")
    r2 = site(solver, r"info\.rho\s*\*=\s*" + NUM + r";", 2, "rho *= 100")
    if q(r1) != q(r2): raise TranslatorError("retry multipliers differ")
    K["k_retry_mul"] = r1
    K["k_reglim_mul"] = site(solver, r"std::min\(" + NUM + r"\s*\*\s*m_result\.info\.reg_limit,\s*m_settings\.eps_abs\)", 2, "10*reg_limit")
    K["k_prox_big"] = site(solver, r"_prox_inf\(\)\s*>\s*" + NUM, 2, "prox > 1e12")
    K["k_prox_small"] = site(solver, r"_prox_inf\(\)\s*<\s*" + NUM, 2, "prox < 1e2")
    K["k_improve"] = site(solver, r"_inf_nr\(\)\s*<\s*" + NUM + r"\s*\*\s*m_result\.info\.(?:primal|dual)_inf", 4, "0.95")
    K["k_mu_damp"] = site(solver, r"T\(1\)\s*-\s*" + NUM + r"\s*\*\s*mu_rate", 2, "0.666")
    g1 = site(solver, r"std::max\(m_result\.info\.reg_limit,\s*" + NUM + r"\s*\*\s*m_result\.info\.(?:rho|delta)\);\s*\}\s*else", 2, "no-ineq good factor")
    K["k_noineq_good"] = g1
    allf = re.findall(r"std::max\(m_result\.info\.reg_limit,\s*" + NUM + r"\s*\*\s*m_result\.info\.(?:rho|delta)\)", solver)
    if len(allf) != 4: raise TranslatorError("no-inequality regularisation updates: expected 4 sites, got %d" % len(allf))
    bad = [v for v in allf if q(v) != q(g1)]
    if len(bad) != 2 or q(bad[0]) != q(bad[1]): raise TranslatorError("no-ineq bad factor sites unexpected: %r" % allf)
    K["k_noineq_bad"] = bad[0]
    cnt = site(solver, r"std::min\(isize\(([0-9]+)\),\s*m_settings\.reg_finetune_(?:dual|primal)_update_threshold\)", 2, "isize(5)")
    e1 = site(dpre, r"T\s+epsilon\s*=\s*" + NUM, 1, "dense ruiz eps")
    e2 = site(spre, r"T\s+epsilon\s*=\s*" + NUM, 1, "sparse ruiz eps")
    if q(e1) != q(e2): raise TranslatorError("ruiz epsilon differs dense/sparse")
    K["k_ruiz_eps"] = e1
    mn1 = site(dpre, r"const\s+T\s+min_scaling\s*=\s*" + NUM, 1, "dense min_scaling")
    mn2 = site(spre, r"const\s+T\s+min_scaling\s*=\s*" + NUM, 1, "sparse min_scaling")
    mx1 = site(dpre, r"const\s+T\s+max_scaling\s*=\s*" + NUM, 1, "dense max_scaling")
    mx2 = site(spre, r"const\s+T\s+max_scaling\s*=\s*" + NUM, 1, "sparse max_scaling")
    if q(mn1) != q(mn2) or q(mx1) != q(mx2): raise TranslatorError("scaling limits differ dense/sparse")
    K["k_min_scaling"], K["k_max_scaling"] = mn1, mx1
    # structural literal sites that must read as the model assumes
    site(solver, r"sigma\s*=\s*std::max\(T\((0)\),\s*std::min\(T\(1\),", 1, "sigma clamp [0,1]")
    site(solver, r"m_result\.info\.sigma = m_result\.info\.sigma \* m_result\.info\.sigma \* (m_result\.info\.sigma);", 1, "sigma cubed")
    site(solver, r"mu_rate\s*=\s*std::max\(T\((0)\)", 1, "mu_rate clamp")
    site(solver, r"T\s+alpha_s\s*=\s*T\((1)\);", 1, "alpha_s init")
    site(solver, r"T\s+alpha_z\s*=\s*T\((1)\);", 1, "alpha_z init")

    # Settings defaults and verify_settings
    body = re.search(r"struct\s+Settings\s*\{(.*?)bool\s+verify_settings", settings, re.S)
    if not body: raise TranslatorError("Settings struct not found")
    fields = re.findall(r"\b(T|isize|bool)\s+(\w+)\s*=\s*([^;]+);", body.group(1))
    expected = ["rho_init","delta_init","eps_abs","eps_rel","check_duality_gap","eps_duality_gap_abs","eps_duality_gap_rel",
      "reg_lower_limit","reg_finetune_lower_limit","reg_finetune_primal_update_threshold","reg_finetune_dual_update_threshold",
      "max_iter","max_factor_retires","preconditioner_scale_cost","preconditioner_iter","tau","iterative_refinement_always_enabled",
      "iterative_refinement_eps_abs","iterative_refinement_eps_rel","iterative_refinement_max_iter",
      "iterative_refinement_min_improvement_rate","iterative_refinement_static_regularization_eps",
      "iterative_refinement_static_regularization_rel","verbose","compute_timings"]
    names = [f[1] for f in fields]
    if names != expected:
        raise TranslatorError("Settings fields changed: %r" % names)
    dflt = {}
    for ty, name, init in fields:
        init = init.strip()
        if ty == "bool": dflt[name] = init
        elif ty == "isize": dflt[name] = "(%d)%%Z" % int(init)
        else:
            if "epsilon()" in init:
                if re.sub(r"\s+", "", init) != "std::numeric_limits<T>::epsilon()*std::numeric_limits<T>::epsilon()":
                    raise TranslatorError("unexpected symbolic default for %s: %s" % (name, init))
                dflt[name] = "(k_eps_T * k_eps_T)%Qc"
            else: dflt[name] = q(init)
    vs = re.search(r"bool\s+verify_settings\(\)\s*const\s*noexcept\s*\{\s*return\s+(.*?);\s*\}", settings, re.S)
    if not vs: raise TranslatorError("verify_settings not found")
    conj = [c.strip() for c in vs.group(1).split("&&")]
    terms = []
    tyof = {f[1]: f[0] for f in fields}
    for c in conj:
        m = re.fullmatch(r"(\w+)\s*(>=|>|<=|<)\s*([0-9.]+)", c)
        if not m or m.group(1) not in tyof: raise TranslatorError("verify_settings conjunct not understood: %r" % c)
        f, op, lit = m.groups()
        if tyof[f] == "isize":
            z = "(%d)%%Z" % int(float(lit))
            t = {">": "(%s <? %s S)%%Z" % (z, f), ">=": "(%s <=? %s S)%%Z" % (z, f),
                 "<": "(%s S <? %s)%%Z" % (f, z), "<=": "(%s S <=? %s)%%Z" % (f, z)}[op]
        else:
            v = q(lit)
            t = {">": "qltb %s (%s S)" % (v, f), ">=": "qleb %s (%s S)" % (v, f),
                 "<": "qltb (%s S) %s" % (f, v), "<=": "qleb (%s S) %s" % (f, v)}[op]
        terms.append(t)

    o = []
    o.append("(* GENERATED by tools/gen_consts.py from %s -- do not edit *)" % REPO)
    o.append("From PIQP Require Import Base Data.")
    o.append("Local Open Scope Qc_scope.")
    o.append("(* std::numeric_limits<T>::epsilon() of the scalar the harness uses (2^-52, as double) *)")
    o.append("Definition k_eps_T : F := qmk 1 4503599627370496.")
    o.append("Definition consts : Consts := {|")
    o.append("  k_inf := %s; k_eps := k_eps_T;" % q(K["k_inf"]))
    for k in ["k_snorm","k_sinit","k_shift","k_half","k_retry_mul","k_reglim_mul","k_prox_big","k_prox_small","k_improve",
              "k_mu_damp","k_noineq_good","k_noineq_bad"]:
        o.append("  %s := %s;   (* %s *)" % (k, q(K[k]), K[k]))
    o.append("  k_infeas_cnt := (%d)%%Z;" % int(cnt))
    o.append("  k_ruiz_eps := %s; k_min_scaling := %s; k_max_scaling := %s |}." % (q(K["k_ruiz_eps"]), q(K["k_min_scaling"]), q(K["k_max_scaling"])))
    o.append("Definition default_settings : Settings := {|")
    o.append(";\n".join("  %s := %s" % (n, dflt[n]) for n in expected if n not in ("verbose", "compute_timings")))
    o.append("|}.")
    o.append("Definition verify_settings (S : Settings) : bool :=")
    o.append("  " + " &&\n  ".join(terms) + ".")
    txt = "\n".join(o) + "\n"
    os.makedirs(os.path.dirname(OUT), exist_ok=True)
    old = open(OUT).read() if os.path.exists(OUT) else None
    if old != txt:
        open(OUT, "w").write(txt)
    return 0

if __name__ == "__main__":
    try:
        sys.exit(main())
    except TranslatorError as e:
        print("TRANSLATOR-ERROR gen_consts: %s" % e)
        sys.exit(3)
