#!/usr/bin/env python3
"""Translator (C05): statement order of DenseSolver::update, SparseSolver::update, SolverBase::solve (with the head of
solve_impl inlined at its call site) -> coq/gen/Events.v, as lists of events for the interpreter of coq/Events.v.

  Guard id arg cond ret reports gmut   `if (cond) { ...; return ...; }`   (a rejection)
  Mutate what                          a statement that changes solver state
  Pure what                            timers, prints, local declarations/assignments, timing fields of info

The bodies are taken from the comment-stripped source by brace matching, split into statements by a small recursive
parser (if/else, for, while, blocks, simple statements) and every simple statement is classified by shape.  A shape
that is not recognised is NOT guessed: the translator prints TRANSLATOR-ERROR with the offending text and exits 3.

`if` blocks that do not return are flattened (the interpreter decides by an oracle whether an event is executed).  A
loop without guards becomes one event; a loop with a guard in its body is kept as a `Loop` segment.  The call
`Status status = solve_impl();` is inlined: the leading local declarations and early returns of solve_impl (its head)
become events whose guards return only from the callee (`ret = Some k`), everything after the head is one
`Mutate "solve_impl: ..."` event.

Also emitted: the conjuncts of Settings::verify_settings() (field, operator, bound) -- the check derives one invalid
value per conjunct from them -- and, for the python side, `translate()` returns the same structure as a dict."""
import re, sys, os, json

REPO = os.environ.get("VERIF_REPO", "/repo")
OUT = sys.argv[1] if len(sys.argv) > 1 else os.path.join(os.path.dirname(os.path.abspath(__file__)), "..", "coq", "gen", "Events.v")

class TranslatorError(Exception):
    pass

# ------------------------------------------------------------------------------------------------ lexical level
def strip_comments(s):
    s = re.sub(r"/\*.*?\*/", lambda m: " " * 1, s, flags=re.S)
    s = re.sub(r"//[^\n]*", "", s)
    return s

def mask_strings(s):
    """replace every string literal by "<k>" (k index into the returned table) so that brackets, semicolons and
    keywords inside literals cannot confuse the splitter"""
    table = []
    def rep(m):
        table.append(m.group(0)[1:-1])
        return '"<%d>"' % (len(table) - 1)
    return re.sub(r'"(?:[^"\\\n]|\\.)*"', rep, s), table

def unmask(s, table):
    return re.sub(r'"<(\d+)>"', lambda m: '"' + table[int(m.group(1))] + '"', s)

OPEN, CLOSE = "([{", ")]}"
PAIR = {")": "(", "]": "[", "}": "{"}

def match_close(s, i):
    """s[i] is an opening bracket; returns the index of the matching closing bracket"""
    stack = []
    j = i
    while j < len(s):
        ch = s[j]
        if ch in OPEN: stack.append(ch)
        elif ch in CLOSE:
            if not stack or stack[-1] != PAIR[ch]:
                raise TranslatorError("unbalanced bracket near: %s" % s[max(0, j - 60):j + 20])
            stack.pop()
            if not stack: return j
        j += 1
    raise TranslatorError("no closing bracket for: %s" % s[i:i + 80])

def skip_ws(s, i):
    while i < len(s) and s[i].isspace(): i += 1
    return i

# ------------------------------------------------------------------------------------------------ statement parser
KEYWORDS_UNSUPPORTED = ("do", "switch", "try", "goto", "case", "default", "break", "continue", "throw")

def parse_stmt(s, i):
    """returns (node, next index).  node = ('if', cond, then, else|None) | ('for'|'while', header, body) |
    ('block', [nodes]) | ('simple', text)"""
    i = skip_ws(s, i)
    if i >= len(s): return None, i
    m = re.match(r"(if|for|while)\b", s[i:])
    if m:
        kw = m.group(1)
        j = skip_ws(s, i + len(kw))
        if kw == "if" and s.startswith("constexpr", j): j = skip_ws(s, j + 9)
        if j >= len(s) or s[j] != "(": raise TranslatorError("'%s' without parenthesis: %s" % (kw, s[i:i + 80]))
        k = match_close(s, j)
        head = " ".join(s[j + 1:k].split())
        body, e = parse_stmt(s, k + 1)
        if body is None: raise TranslatorError("'%s' without body: %s" % (kw, s[i:i + 80]))
        if kw == "if":
            e2 = skip_ws(s, e)
            if re.match(r"else\b", s[e2:]):
                els, e3 = parse_stmt(s, e2 + 4)
                if els is None: raise TranslatorError("'else' without body: %s" % s[i:i + 80])
                return ("if", head, body, els), e3
            return ("if", head, body, None), e
        return (kw, head, body), e
    m = re.match(r"(\w+)\b", s[i:])
    if m and m.group(1) in KEYWORDS_UNSUPPORTED:
        raise TranslatorError("unsupported statement '%s': %s" % (m.group(1), s[i:i + 80]))
    if s[i] == "{":
        k = match_close(s, i)
        return ("block", parse_seq(s[i + 1:k])), k + 1
    # simple statement: up to the next ';' outside brackets
    j = i
    while j < len(s):
        ch = s[j]
        if ch in OPEN:
            j = match_close(s, j) + 1; continue
        if ch in CLOSE: raise TranslatorError("unbalanced bracket in statement: %s" % s[i:j + 1][:120])
        if ch == ";":
            return ("simple", " ".join(s[i:j].split())), j + 1
        j += 1
    raise TranslatorError("statement without ';': %s" % s[i:i + 120])

def parse_seq(s):
    out, i = [], 0
    while True:
        node, i = parse_stmt(s, i)
        if node is None: return out
        if node == ("simple", ""): continue     # empty statement
        out.append(node)

def as_list(node):
    return node[1] if node[0] == "block" else [node]

# ------------------------------------------------------------------------------------------------ function bodies
def function_body(src, start_pat, fn_pat, what):
    """body (text between the braces) of the first function matching fn_pat after the unique match of start_pat"""
    ms = list(re.finditer(start_pat, src))
    if len(ms) != 1: raise TranslatorError("%s: anchor %r found %d times" % (what, start_pat, len(ms)))
    # the enclosing class ends at the next top-level 'template<' + 'class' or at the end; search forward only
    rest_start = ms[0].end()
    nxt = re.search(r"\n(template\s*<[^\n]*>\s*\n)?class\s+\w+", src[rest_start:])
    rest_end = rest_start + nxt.start() if nxt else len(src)
    fm = list(re.finditer(fn_pat, src[rest_start:rest_end]))
    if len(fm) != 1: raise TranslatorError("%s: function %r found %d times in its class" % (what, fn_pat, len(fm)))
    p = rest_start + fm[0].end() - 1          # fn_pat ends with '('
    if src[p] != "(": raise TranslatorError("%s: internal anchor" % what)
    q = match_close(src, p)
    b = skip_ws(src, q + 1)
    mm = re.match(r"(const\b|noexcept\b|\s)*", src[b:])
    b = b + mm.end()
    if src[b] != "{": raise TranslatorError("%s: no body after the parameter list: %s" % (what, src[q:q + 60]))
    e = match_close(src, b)
    params = " ".join(src[p + 1:q].split())
    return src[b + 1:e], params

# ------------------------------------------------------------------------------------------------ classification
ARGS = ("P", "A", "G", "c", "b", "h", "x_lb", "x_ub")
TIMING_FIELDS = ("setup_time", "update_time", "solve_time", "run_time")
LOCAL_TYPES = r"(?:const\s+)?(?:int|isize|usize|bool|auto|T|I|Status|double|Eigen::Index)"
# calls that read but never write (may appear inside expressions)
PURE_CALLS = {"rows", "cols", "size", "outerSize", "innerSize", "outerIndexPtr", "innerIndexPtr", "valuePtr", "nonZeros",
              "has_value", "value", "head", "tail", "stop", "verify_settings", "non_zeros_P_utri", "non_zeros_A",
              "non_zeros_G", "status_to_string", "T", "double", "int", "isize", "Map", "abs", "max", "min"}
# statements that are calls: what they do to the solver state
MUTATING_CALLS = {"m_preconditioner.unscale_data", "m_preconditioner.scale_data", "m_preconditioner.init",
                  "sparse::transpose_no_allocation", "disable_inf_constraints", "setup_lb_data", "setup_ub_data",
                  "m_kkt.update_data", "m_kkt.init", "m_kkt.update_scalings", "unscale_results", "restore_box_dual",
                  "init_workspace"}
PURE_CALL_STMTS = {"m_timer.start", "piqp_print", "piqp_eprint"}

def norm(t):
    t = re.sub(r"\bthis\s*->\s*", "", t)
    t = re.sub(r"\s*->\s*", "->", t)
    return " ".join(t.split())

def calls_in(expr):
    """names of everything that is called in an expression (identifier directly followed by '(')"""
    e = re.sub(r"<[^<>()]*>", "", expr)          # template arguments: Map<Vec<T>>(..) -> Map(..)
    e = re.sub(r"<[^<>()]*>", "", e)
    return re.findall(r"([A-Za-z_]\w*)\s*\(", e)

def split_assign(t):
    """first top-level assignment operator: returns (lhs, op, rhs) or None"""
    depth = 0
    i = 0
    while i < len(t):
        ch = t[i]
        if ch in OPEN: depth += 1
        elif ch in CLOSE: depth -= 1
        elif depth == 0 and ch == "=":
            prev = t[i - 1] if i > 0 else ""
            nxt = t[i + 1] if i + 1 < len(t) else ""
            if nxt == "=": i += 2; continue                     # ==
            if prev in "!<>=": i += 1; continue                  # != <= >= ==
            op = "="
            lhs_end = i
            if prev in "|&+-*/%^":
                op = prev + "="; lhs_end = i - 1
            return t[:lhs_end].strip(), op, t[i + 1:].strip()
        i += 1
    return None

class Env:
    """locals declared so far in the function: name -> set of API arguments its value derives from; alias = the local
    is (or may be) a view into solver state (auto / reference of a member expression)"""
    def __init__(self, params):
        self.deps, self.alias = {}, set()
        self.params = set(re.findall(r"(\w+)\s*(?:=\s*[\w:]+\s*)?(?:,|$)", params))
    def args_of(self, expr):
        found = set()
        for a in ARGS:
            if re.search(r"(?<![\w.>])%s\s*(->|\.)" % re.escape(a), expr) or re.search(r"\*\s*%s\b" % re.escape(a), expr):
                found.add(a)
        for name, d in self.deps.items():
            if re.search(r"(?<![\w.>])%s\b" % re.escape(name), expr): found |= d
        return found

def check_pure_expr(expr, what):
    for c in calls_in(expr):
        if c not in PURE_CALLS:
            raise TranslatorError("call of '%s' inside %s is not known to be read-only: %s" % (c, what, expr[:160]))

def classify_simple(t, env, strtab):
    """-> ('pure', text) | ('mutate', text) | ('report', text) | ('return', expr) | ('inline', callee, text)"""
    t = norm(t)
    show = unmask(t, strtab)
    m = re.fullmatch(r"return\b\s*(.*)", t)
    if m: return ("return", m.group(1))
    m = re.fullmatch(r"(piqp_e?print)\s*\((.*)\)", t)
    if m:
        check_pure_expr(re.sub(r"\(\s*double\s*\)", "", m.group(2)), "a print statement")
        return ("print", show)
    # local declaration with initialiser
    m = re.fullmatch(r"(%s)\s*(&?)\s*(\w+)\s*=\s*(.+)" % LOCAL_TYPES, t)
    if m:
        ty, ref, name, rhs = m.groups()
        mi = re.fullmatch(r"(\w+)\s*\(\s*\)", rhs)
        if mi and mi.group(1) == "solve_impl":
            env.deps[name] = set()
            return ("inline", "solve_impl", show)
        check_pure_expr(rhs, "the initialiser of local '%s'" % name)
        env.deps[name] = env.args_of(rhs)
        if ref or (ty.endswith("auto") and re.search(r"\bm_\w+", rhs)): env.alias.add(name)
        return ("pure", "local: " + show)
    m = re.fullmatch(r"(%s)\s+(\w+)" % LOCAL_TYPES, t)
    if m:
        env.deps[m.group(2)] = set()
        return ("pure", "local: " + show)
    m = re.fullmatch(r"(\+\+|--)\s*(\w+)|(\w+)\s*(\+\+|--)", t)
    if m:
        name = m.group(2) or m.group(3)
        if name in env.deps and name not in env.alias: return ("pure", "local: " + show)
        raise TranslatorError("increment of something that is not a plain local: %s" % show)
    asg = split_assign(t)
    if asg:
        lhs, op, rhs = asg
        root = re.match(r"[A-Za-z_]\w*", lhs)
        rootname = root.group(0) if root else ""
        if re.fullmatch(r"\w+", lhs) and lhs in env.deps and lhs not in env.alias:
            check_pure_expr(rhs, "the assignment to local '%s'" % lhs)
            env.deps[lhs] = env.deps[lhs] | env.args_of(rhs)
            return ("pure", "local: " + show)
        mt = re.fullmatch(r"m_result\.info\.(\w+)", lhs)
        if mt and mt.group(1) in TIMING_FIELDS:
            check_pure_expr(rhs, "a timing assignment")
            return ("pure", "timing: " + show)
        if mt and mt.group(1) == "status":
            return ("status", show)
        if rootname.startswith("m_") or rootname in env.alias or re.match(r"Eigen::Map<", lhs):
            if not rootname.startswith("m_") and rootname not in env.alias and not re.search(r"\bm_\w+", lhs):
                raise TranslatorError("assignment through a Map that does not point into solver state: %s" % show)
            return ("mutate", show)
        raise TranslatorError("assignment to '%s' (neither a declared local nor solver state): %s" % (lhs, show))
    m = re.fullmatch(r"([A-Za-z_][\w:.]*)\s*\((.*)\)", t)
    if m and match_close(t, t.index("(")) == len(t) - 1:
        callee = m.group(1)
        if callee in MUTATING_CALLS: return ("mutate", show)
        if callee in PURE_CALL_STMTS: return ("pure", show)
        raise TranslatorError("call statement with unknown effect on the solver state: %s" % show)
    raise TranslatorError("statement shape not recognised: %s" % show)

# ------------------------------------------------------------------------------------------------ translation
class Fn:
    def __init__(self, name, params, strtab, inline_bodies):
        self.name, self.env, self.strtab, self.inline_bodies = name, Env(params), strtab, inline_bodies
        self.next_guard = 0

def ends_with_return(nodes):
    return bool(nodes) and nodes[-1][0] == "simple" and re.match(r"return\b", nodes[-1][1])

def guard_arg(cond, env):
    c = norm(cond)
    if re.search(r"\bm_setup_done\b", c): return "setup"
    if re.search(r"\bverify_settings\b", c): return "settings"
    a = sorted(env.args_of(c), key=ARGS.index)
    return ",".join(a) if a else "?"

def translate_nodes(nodes, fn, in_loop, depth_inline, toplevel):
    """-> list of items: ('G', dict) | ('M', text) | ('P', text) | ('L', header, [items])"""
    items = []
    for idx, node in enumerate(nodes):
        kind = node[0]
        last = idx == len(nodes) - 1
        if kind == "simple":
            c = classify_simple(node[1], fn.env, fn.strtab)
            if c[0] == "return":
                if toplevel and last:
                    items.append(("P", "return " + c[1])); continue
                raise TranslatorError("%s: unconditional 'return' that is not the last statement of the function: %s" % (fn.name, node[1]))
            if c[0] == "print": items.append(("P", c[1]))
            elif c[0] == "pure": items.append(("P", c[1]))
            elif c[0] in ("mutate", "status"): items.append(("M", c[1]))
            elif c[0] == "inline":
                if in_loop or depth_inline > 0: raise TranslatorError("%s: nested inlining is not supported: %s" % (fn.name, c[2]))
                items.append(("P", c[2] + "  /* head of the callee follows */"))
                items += inline_head(c[1], fn)
        elif kind == "block":
            items += translate_nodes(node[1], fn, in_loop, depth_inline, False)
        elif kind == "if":
            cond, then, els = node[1], as_list(node[2]), (as_list(node[3]) if node[3] is not None else None)
            if ends_with_return(then):
                if els is not None:
                    raise TranslatorError("%s: early return with an else branch is not supported: if (%s)" % (fn.name, cond))
                items.append(("G", make_guard(cond, then, fn)))
            else:
                check_pure_expr(norm(cond), "the condition of an if")
                items += translate_nodes(then, fn, in_loop, depth_inline, False)
                if els is not None:
                    if ends_with_return(els):
                        raise TranslatorError("%s: early return in an else branch is not supported: if (%s)" % (fn.name, cond))
                    items += translate_nodes(els, fn, in_loop, depth_inline, False)
        elif kind in ("for", "while"):
            hdr = norm(node[1])
            if kind == "for":
                parts = hdr.split(";")
                if len(parts) != 3: raise TranslatorError("%s: for header not understood: %s" % (fn.name, hdr))
                mi = re.fullmatch(r"(%s)\s+(\w+)\s*=\s*(.+)" % LOCAL_TYPES, parts[0].strip())
                if not mi: raise TranslatorError("%s: for initialiser is not a local declaration: %s" % (fn.name, hdr))
                check_pure_expr(mi.group(3), "a for initialiser"); check_pure_expr(parts[1], "a for condition")
                fn.env.deps[mi.group(2)] = fn.env.args_of(mi.group(3))
                if not re.fullmatch(r"\s*(\w+\s*(\+\+|--)|(\+\+|--)\s*\w+)\s*", parts[2]):
                    raise TranslatorError("%s: for increment not understood: %s" % (fn.name, hdr))
            else:
                check_pure_expr(hdr, "a while condition")
            body = translate_nodes(as_list(node[2]), fn, True, depth_inline, False)
            if any(it[0] == "L" for it in body):
                raise TranslatorError("%s: nested loops with early returns are not supported: %s (%s)" % (fn.name, kind, hdr))
            title = "%s (%s)" % (kind, hdr)
            if any(it[0] == "G" for it in body):
                if in_loop or depth_inline > 0:
                    raise TranslatorError("%s: a loop with early returns inside a loop or an inlined callee is not supported: %s" % (fn.name, title))
                items.append(("L", title, body))
            elif any(it[0] == "M" for it in body):
                items.append(("M", "%s { %s }" % (title, "; ".join(it[1] for it in body if it[0] == "M"))))
            else:
                items.append(("P", "%s { %d read-only statements }" % (title, len(body))))
        else:
            raise TranslatorError("internal: node kind %r" % (kind,))
    return items

def make_guard(cond, then, fn):
    reports, gmut = [], []
    for nd in then[:-1]:
        if nd[0] != "simple":
            raise TranslatorError("%s: compound statement inside a rejection branch is not supported: if (%s)" % (fn.name, cond))
        c = classify_simple(nd[1], fn.env, fn.strtab)
        if c[0] == "print":
            mm = re.search(r'"((?:[^"\\]|\\.)*)"', c[1])
            reports.append("print: " + (re.sub(r"\\n$", "", mm.group(1)) if mm else c[1]))
        elif c[0] == "status": reports.append("status: " + c[1])
        elif c[0] == "mutate": gmut.append(c[1])
        elif c[0] == "pure": pass
        else: raise TranslatorError("%s: statement not supported inside a rejection branch: %s" % (fn.name, nd[1]))
    ret = classify_simple(then[-1][1], fn.env, fn.strtab)
    g = {"id": fn.next_guard, "arg": guard_arg(cond, fn.env), "cond": unmask(norm(cond), fn.strtab), "ret": None,
         "reports": reports, "gmut": gmut, "returns": ret[1]}
    fn.next_guard += 1
    return g

def inline_head(callee, fn):
    """head of the callee = the longest prefix of its top-level statements made of local declarations and early
    returns; the rest is one mutation.  Guards return from the callee only."""
    body_txt = fn.inline_bodies.get(callee)
    if body_txt is None: raise TranslatorError("%s: no body for inlined callee %s" % (fn.name, callee))
    saved_env = fn.env
    fn.env = Env("")
    items, i, nstm = [], 0, 0
    rest_start = None
    while True:
        j0 = i
        node, i = parse_stmt(body_txt, i)
        if node is None: break
        is_head = False
        if node[0] == "simple":
            t = norm(node[1])
            if re.fullmatch(r"(%s)\s*(&?)\s*(\w+)\s*=\s*(.+)" % LOCAL_TYPES, t) and not re.search(r"\bsolve_impl\b", t):
                is_head = True
        elif node[0] == "if" and node[3] is None and ends_with_return(as_list(node[2])):
            is_head = True
        if not is_head:
            rest_start = j0; break
        items += translate_nodes([node], fn, False, 1, False)
        nstm += 1
    if rest_start is not None:
        rest = body_txt[rest_start:]
        if re.search(r"\bm_setup_done\b|\bverify_settings\b", rest):
            raise TranslatorError("%s: a set-up / settings test occurs in %s after its head (after state changes?): cannot place it" % (fn.name, callee))
        items.append(("M", "%s: everything after its head (interior point iterations; writes m_result, workspace, KKT)" % callee))
    fn.env = saved_env
    # guards in the callee only leave the callee: ret = number of callee events after the guard
    for k, it in enumerate(items):
        if it[0] == "G": it[1]["ret"] = len(items) - k - 1
    return items

def to_segments(items):
    segs, cur = [], []
    for it in items:
        if it[0] == "L":
            if cur: segs.append(("S", cur)); cur = []
            segs.append(("L", it[1], it[2]))
        else: cur.append(it)
    if cur or not segs: segs.append(("S", cur))
    return segs

def translate_function(name, body, params, strtab, inline_bodies):
    fn = Fn(name, params, strtab, inline_bodies)
    items = translate_nodes(parse_seq(body), fn, False, 0, True)
    return to_segments(items)

def verify_settings_terms(settings_src):
    vs = re.search(r"bool\s+verify_settings\(\)\s*const\s*noexcept\s*\{\s*return\s+(.*?);\s*\}", settings_src, re.S)
    if not vs: raise TranslatorError("verify_settings not found")
    body = re.search(r"struct\s+Settings\s*\{(.*?)bool\s+verify_settings", settings_src, re.S)
    if not body: raise TranslatorError("Settings struct not found")
    tyof = {n: t for t, n in re.findall(r"\b(T|isize|bool)\s+(\w+)\s*=\s*[^;]+;", body.group(1))}
    terms = []
    for c in vs.group(1).split("&&"):
        c = " ".join(c.split())
        m = re.fullmatch(r"(\w+)\s*(>=|>|<=|<)\s*([0-9.]+)", c)
        if not m or m.group(1) not in tyof or tyof[m.group(1)] == "bool":
            raise TranslatorError("verify_settings conjunct not understood: %r" % c)
        terms.append({"field": m.group(1), "op": m.group(2), "bound": m.group(3), "type": tyof[m.group(1)]})
    return terms

def translate(repo=None):
    repo = repo or REPO
    raw = open(os.path.join(repo, "include/piqp/solver.hpp")).read()
    src, strtab = mask_strings(strip_comments(raw))
    dense_body, dense_params = function_body(src, r"\bclass\s+DenseSolver\b", r"\bvoid\s+update\s*\(", "DenseSolver::update")
    sparse_body, sparse_params = function_body(src, r"\bclass\s+SparseSolver\b", r"\bvoid\s+update\s*\(", "SparseSolver::update")
    solve_body, solve_params = function_body(src, r"\bclass\s+SolverBase\b", r"\bStatus\s+solve\s*\(", "SolverBase::solve")
    impl_body, _ = function_body(src, r"\bclass\s+SolverBase\b", r"\bStatus\s+solve_impl\s*\(", "SolverBase::solve_impl")
    if solve_params.strip() or not re.search(r"\bsolve_impl\s*\(\s*\)", solve_body):
        raise TranslatorError("SolverBase::solve: expected no parameters and a call of solve_impl()")
    ncall = len(re.findall(r"\bsolve_impl\s*\(", src))
    if ncall != 2: raise TranslatorError("solve_impl is mentioned %d times (expected its definition and one call in solve())" % ncall)
    res, errors = {}, {}
    for key, (nm, body, params, inl) in (("update_dense", ("DenseSolver::update", dense_body, dense_params, {})),
                                         ("update_sparse", ("SparseSolver::update", sparse_body, sparse_params, {})),
                                         ("solve", ("SolverBase::solve", solve_body, solve_params, {"solve_impl": impl_body}))):
        # one function that cannot be translated must not hide the others: its list is left out of the output
        try: res[key] = translate_function(nm, body, params, strtab, inl)
        except TranslatorError as ex:
            res[key] = None; errors[key] = "%s: %s" % (nm, ex)
    res["errors"] = errors
    settings = strip_comments(open(os.path.join(repo, "include/piqp/settings.hpp")).read())
    res["verify_settings"] = verify_settings_terms(settings)
    return res

# ------------------------------------------------------------------------------------------------ output
def cstr(s):
    s = s.replace('"', '""')
    return '"' + s + '"'

def clist(xs):
    return "[" + "; ".join(xs) + "]"

def coq_event(it):
    if it[0] == "G":
        g = it[1]
        return "Guard %d %s %s %s %s %s" % (g["id"], cstr(g["arg"]), cstr(g["cond"]), "None" if g["ret"] is None else "(Some %d)" % g["ret"],
                                           clist(cstr(r) for r in g["reports"]), clist(cstr(r) for r in g["gmut"]))
    return "%s %s" % ("Mutate" if it[0] == "M" else "Pure", cstr(it[1]))

def coq_segments(name, segs):
    o = ["Definition %s : list segment := [" % name]
    parts = []
    for s in segs:
        if s[0] == "S":
            parts.append("  Straight [\n    " + ";\n    ".join(coq_event(e) for e in s[1]) + "\n  ]")
        else:
            parts.append("  Loop %s [\n    " % cstr(s[1]) + ";\n    ".join(coq_event(e) for e in s[2]) + "\n  ]")
    o.append(";\n".join(parts))
    o.append("].")
    return "\n".join(o)

def guards_of(segs):
    out = []
    for s in segs:
        for it in (s[1] if s[0] == "S" else s[2]):
            if it[0] == "G": out.append(dict(it[1], in_loop=(s[0] == "L")))
    return out

def main():
    try:
        res = translate()
    except (TranslatorError, OSError, IOError) as ex:
        print("TRANSLATOR-ERROR gen_events: %s" % ex)
        try: os.remove(OUT)        # never leave a stale list behind: the theorems must not be checked against an older source
        except OSError: pass
        return 3
    o = ["(* GENERATED by tools/gen_events.py from %s/include/piqp/{solver,settings}.hpp -- do not edit *)" % REPO,
         "From Coq Require Import String List.", "From PIQP Require Import Events.", "Import ListNotations.", "Open Scope string_scope.", ""]
    for key, nm in (("update_dense", "gen_update_dense_segments"), ("update_sparse", "gen_update_sparse_segments"), ("solve", "gen_solve_segments")):
        if res[key] is None:
            o.append("(* %s: NOT TRANSLATED (%s) -- the theorems about it cannot be stated *)" % (nm, " ".join(res["errors"][key].replace("*)", "* )").replace("(*", "( *").replace('"', "'").split())[:240]))
        else:
            o.append(coq_segments(nm, res[key]))
        o.append("")
    o.append("(* conjuncts of Settings::verify_settings(): field, comparison, bound *)")
    o.append("Definition gen_verify_settings_terms : list (string * string * string) := " +
             clist("(%s, %s, %s)" % (cstr(t["field"]), cstr(t["op"]), cstr(t["bound"])) for t in res["verify_settings"]) + ".")
    os.makedirs(os.path.dirname(OUT), exist_ok=True)
    open(OUT, "w").write("\n".join(o) + "\n")
    ng = {k: (len(guards_of(res[k])) if res[k] is not None else -1) for k in ("update_dense", "update_sparse", "solve")}
    print("gen_events: wrote %s (guards: dense update %d, sparse update %d, solve %d; verify_settings conjuncts %d)" %
          (os.path.relpath(OUT), ng["update_dense"], ng["update_sparse"], ng["solve"], len(res["verify_settings"])))
    if res["errors"]:
        for k, e in res["errors"].items(): print("TRANSLATOR-ERROR gen_events: %s" % e)
        return 3
    return 0

if __name__ == "__main__":
    sys.exit(main())
