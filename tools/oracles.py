"""Implementation-side property oracles (independent of the Gallina model).
They recompute, from the ORIGINAL user data of a case, what the properties say about the returned results.
Exact (Fractions) for xrat runs; for double runs the returned doubles are read as exact rationals and a documented slack is used."""
from fractions import Fraction as Fr

PIQP_INF = Fr(10) ** 30

def pf(tok):
    """parse an output token: fraction, 'inf', '-inf', '?', hex float"""
    if tok in ("inf", "+inf"): return "inf"
    if tok == "-inf": return "-inf"
    if tok == "?": return "?"
    if tok == "nan" or tok == "-nan": return "nan"
    if "x" in tok:
        return Fr(float.fromhex(tok))
    return Fr(tok)

def pvec(s):
    t = s.split()
    n = int(t[0])
    return [pf(x) for x in t[1:1 + n]]

def is_num(x): return isinstance(x, Fr)

def absmax(v):
    m = Fr(0)
    for x in v:
        if not is_num(x): return None
        if abs(x) > m: m = abs(x)
    return m

def bound_val(x):
    """user bound token/Fraction -> Fraction or None if infinite (by the library's threshold)"""
    if isinstance(x, str):
        if x in ("inf", "+inf", "-inf"): return None
        x = Fr(x)
    x = Fr(x)
    return x

def effective(pb):
    """effective user problem: rows with |h|>1e30 dropped, bounds beyond +-1e30 absent"""
    n, p, m = pb["n"], pb["p"], pb["m"]
    rows = []
    for i in range(m):
        hv = bound_val(pb["h"][i])
        if hv is None or hv > PIQP_INF or hv < -PIQP_INF: continue
        rows.append(i)
    lb = []
    ub = []
    for i in range(n):
        l = bound_val(pb["lb"][i]) if pb.get("lb") is not None else None
        u = bound_val(pb["ub"][i]) if pb.get("ub") is not None else None
        lb.append(l if (l is not None and l > -PIQP_INF) else None)
        ub.append(u if (u is not None and u < PIQP_INF) else None)
    return rows, lb, ub

def symP(pb):
    """P as the library reads it: upper triangle mirrored"""
    n = pb["n"]; P = pb["P"]
    return [[(P[i][j] if i <= j else P[j][i]) for j in range(n)] for i in range(n)]

def check_result(pb, settings, obs, exact=True, slack=None, lb_present=True, ub_present=True):
    """obs: dict key->string for one solve op.  Returns list of (code, message) violations of C01/C08/C09 on this result."""
    V = []
    n, p, m = pb["n"], pb["p"], pb["m"]
    status = obs.get("status")
    st2 = obs.get("info.status")
    if status != st2: V.append(("C09.status", "returned status %s != info.status %s" % (status, st2)))
    it = int(obs.get("iter", "0"))
    if it > int(settings.get("max_iter", 250)) or it < 0: V.append(("C09.iter", "iter %d > max_iter" % it))
    if status in ("UNSOLVED", "INVALID_SETTINGS"): return V
    vec = {}
    for k in ("x", "y", "z", "z_lb", "z_ub", "s", "s_lb", "s_ub"):
        if k not in obs: V.append(("C08.missing", k)); return V
        vec[k] = pvec(obs[k])
    sizes = {"x": n, "y": p, "z": m, "z_lb": n, "z_ub": n, "s": m, "s_lb": n, "s_ub": n}
    for k, sz in sizes.items():
        if len(vec[k]) != sz: V.append(("C08.size", "%s has size %d, expected %d" % (k, len(vec[k]), sz)))
    if any(c == "C08.size" for c, _ in V): return V
    rows, lb, ub = effective(dict(pb, lb=pb["lb"] if lb_present else None, ub=pb["ub"] if ub_present else None))
    numerics_at_start = (status == "NUMERICS" and it == 0)
    if numerics_at_start: return V
    # taint / finiteness
    for k in ("x", "y", "z", "s"):
        for i, v in enumerate(vec[k]):
            if not is_num(v): V.append(("C08.finite", "%s[%d] = %s" % (k, i, v)))
    for i in range(n):
        for k, bd, dz, ds in (("lb", lb, "z_lb", "s_lb"), ("ub", ub, "z_ub", "s_ub")):
            if bd[i] is None:
                if vec[dz][i] != 0: V.append(("C08.absent", "%s[%d] = %s for an absent bound (must be exactly 0)" % (dz, i, vec[dz][i])))
                if vec[ds][i] != "inf": V.append(("C08.absent", "%s[%d] = %s for an absent bound (must be +inf)" % (ds, i, vec[ds][i])))
            else:
                if not is_num(vec[dz][i]): V.append(("C08.finite", "%s[%d] = %s" % (dz, i, vec[dz][i])))
                if not is_num(vec[ds][i]): V.append(("C08.finite", "%s[%d] = %s" % (ds, i, vec[ds][i])))
    if any(c_ == "C08.finite" for c_, _ in V):
        # a SOLVED result whose vectors hold a non-number (e.g. an infinite slack at a FINITE bound) is no certificate either
        if status == "SOLVED": V.append(("C01.defined", "SOLVED but the returned vectors are not all numbers: %s" % V[0][1]))
        return V
    # (C08.absent alone does not stop the certificate oracle: stationarity is evaluated with the vectors as returned)
    tau_lt1 = Fr(settings.get("tau", "99/100")) < 1
    # signs (every stopping point that ran the initial point)
    for k in ("z",):
        for i in range(m):
            if vec[k][i] < 0: V.append(("C08.sign", "z[%d] = %s < 0" % (i, float(vec[k][i]))))
    for i in range(m):
        if vec["s"][i] < 0 or (tau_lt1 and vec["s"][i] == 0): V.append(("C08.sign", "s[%d] = %s not positive" % (i, float(vec["s"][i]))))
    for i in range(n):
        for bd, dz, ds in ((lb, "z_lb", "s_lb"), (ub, "z_ub", "s_ub")):
            if bd[i] is not None:
                if vec[dz][i] < 0: V.append(("C08.sign", "%s[%d] = %s < 0" % (dz, i, float(vec[dz][i]))))
                if vec[ds][i] < 0 or (tau_lt1 and vec[ds][i] == 0): V.append(("C08.sign", "%s[%d] = %s not positive" % (ds, i, float(vec[ds][i]))))
    # residuals on the effective user problem
    x, y, z, s = vec["x"], vec["y"], vec["z"], vec["s"]
    P = symP(pb)
    Px = [sum(P[i][j] * x[j] for j in range(n)) for i in range(n)]
    A, G = pb["A"], pb["G"]
    Ax = [sum(A[i][j] * x[j] for j in range(n)) for i in range(p)]
    Gx = {i: sum(G[i][j] * x[j] for j in range(n)) for i in rows}
    ATy = [sum(A[i][j] * y[i] for i in range(p)) for j in range(n)]
    GTz = [sum(G[i][j] * z[i] for i in rows) for j in range(n)]
    # the multipliers as returned (entries of absent bounds are exactly 0 in a correct result: C08.absent)
    zl = [vec["z_lb"][i] if is_num(vec["z_lb"][i]) else Fr(0) for i in range(n)]
    zu = [vec["z_ub"][i] if is_num(vec["z_ub"][i]) else Fr(0) for i in range(n)]
    c = [Fr(v) for v in pb["c"]]
    b = [Fr(v) for v in pb["b"]]
    h = {i: bound_val(pb["h"][i]) for i in rows}
    r_dual = [Px[j] + c[j] + ATy[j] + GTz[j] - zl[j] + zu[j] for j in range(n)]
    r_eq = [Ax[i] - b[i] for i in range(p)]
    r_in = [Gx[i] + s[i] - h[i] for i in rows]
    r_lb = [x[i] - lb[i] - vec["s_lb"][i] for i in range(n) if lb[i] is not None]
    r_ub = [ub[i] - x[i] - vec["s_ub"][i] for i in range(n) if ub[i] is not None]
    pinf = max([Fr(0)] + [abs(v) for v in r_eq + r_in + r_lb + r_ub])
    dinf = max([Fr(0)] + [abs(v) for v in r_dual])
    xPx = sum(x[i] * Px[i] for i in range(n))
    cx = sum(c[i] * x[i] for i in range(n))
    by = sum(b[i] * y[i] for i in range(p))
    hz = sum(h[i] * z[i] for i in rows)
    lbz = sum(-lb[i] * zl[i] for i in range(n) if lb[i] is not None)
    ubz = sum(ub[i] * zu[i] for i in range(n) if ub[i] is not None)
    pobj = Fr(1, 2) * xPx + cx
    dobj = -Fr(1, 2) * xPx - by - hz - lbz - ubz
    gap = abs(pobj - dobj)
    # disabled rows: the library keeps s_i, z_i of a disabled row with h=1, G_i=0: residual 1 - s_i enters its norms, and
    # h_i z_i = z_i enters its dual objective.  The effective-problem oracle therefore allows for those terms explicitly:
    dis = [i for i in range(m) if i not in rows]
    pinf_lib = max([pinf] + [abs(1 - s[i]) for i in dis])
    dobj_lib = dobj - sum(z[i] for i in dis)
    info = {}
    for k in ("primal_inf", "dual_inf", "primal_obj", "dual_obj", "duality_gap", "primal_rel_inf", "dual_rel_inf", "duality_gap_rel"):
        if k in obs: info[k] = pf(obs[k])
    ran_iteration = it >= 1 or status in ("SOLVED", "PRIMAL_INFEASIBLE", "DUAL_INFEASIBLE", "MAX_ITER_REACHED")
    if exact and ran_iteration:
        # C09: diagnostics equal recomputed values exactly (objective/gap always; inf norms for SOLVED / infeasible verdicts)
        for k, val in (("primal_obj", pobj), ("dual_obj", dobj_lib), ("duality_gap", abs(pobj - dobj_lib))):
            if k in info and is_num(info[k]) and info[k] != val:
                V.append(("C09." + k, "info.%s = %s but recomputed from the returned point %s" % (k, float(info[k]), float(val))))
            elif k in info and not is_num(info[k]):
                V.append(("C09." + k, "info.%s = %s" % (k, info[k])))
        if status in ("SOLVED", "PRIMAL_INFEASIBLE", "DUAL_INFEASIBLE"):
            for k, val in (("primal_inf", pinf_lib), ("dual_inf", dinf)):
                if k in info and info[k] != val:
                    V.append(("C09." + k, "info.%s = %s but recomputed %s" % (k, info[k] if not is_num(info[k]) else float(info[k]), float(val))))
    if status == "SOLVED":
        eps_abs = Fr(settings.get("eps_abs", "1e-8")) if "/" in str(settings.get("eps_abs", "")) or str(settings.get("eps_abs", "")).replace("-", "").isdigit() else Fr(float(settings.get("eps_abs", 1e-8)))
        def sv(name, dflt):
            v = settings.get(name)
            if v is None: return Fr(dflt)
            try: return Fr(v)
            except Exception: return Fr(float(v))
        eps_abs, eps_rel = sv("eps_abs", 1e-8), sv("eps_rel", 1e-9)
        ega, egr = sv("eps_duality_gap_abs", 1e-8), sv("eps_duality_gap_rel", 1e-9)
        cdg = str(settings.get("check_duality_gap", "1")) not in ("0", "false")
        xs_lb = [x[i] for i in range(n) if lb[i] is not None]; xs_ub = [x[i] for i in range(n) if ub[i] is not None]
        prel = max([Fr(0)] + [abs(v) for v in Ax] + [abs(v) for v in b] + [abs(Gx[i]) for i in rows] + [abs(h[i]) for i in rows] +
                   [abs(s[i]) for i in range(m)] + [Fr(1)] * (1 if dis else 0) + [abs(v) for v in xs_lb] + [abs(lb[i]) for i in range(n) if lb[i] is not None] +
                   [abs(vec["s_lb"][i]) for i in range(n) if lb[i] is not None] + [abs(v) for v in xs_ub] +
                   [abs(ub[i]) for i in range(n) if ub[i] is not None] + [abs(vec["s_ub"][i]) for i in range(n) if ub[i] is not None])
        mix = [ATy[j] + GTz[j] - zl[j] + zu[j] for j in range(n)]
        drel = max([Fr(0)] + [abs(v) for v in Px] + [abs(v) for v in c] + [abs(v) for v in mix])
        grel = max([abs(xPx), abs(cx), abs(by), abs(hz + sum(z[i] for i in dis)), abs(lbz), abs(ubz)])
        sl = Fr(0) if exact else (slack if slack is not None else Fr(1, 2 ** 20))
        def lim(a, r, rel): return (a + r * rel) * (1 + sl) + (sl * Fr(1, 2 ** 20) * (1 + rel) if not exact else 0)
        if not (pinf < lim(eps_abs, eps_rel, prel)):
            V.append(("C01.primal", "SOLVED but primal residual %.6g >= eps_abs+eps_rel*%.6g = %.6g" % (float(pinf), float(prel), float(eps_abs + eps_rel * prel))))
        if not (dinf < lim(eps_abs, eps_rel, drel)):
            V.append(("C01.dual", "SOLVED but dual residual %.6g >= eps_abs+eps_rel*%.6g = %.6g" % (float(dinf), float(drel), float(eps_abs + eps_rel * drel))))
        if cdg and not (abs(pobj - dobj_lib) < lim(ega, egr, grel)):
            V.append(("C01.gap", "SOLVED but duality gap %.6g >= %.6g" % (float(abs(pobj - dobj_lib)), float(ega + egr * grel))))
    return V


def pmat(sv):
    """dense matrix dump 'rows cols v...' column-major -> list of rows"""
    t = sv.split(); r, c = int(t[0]), int(t[1]); vals = [pf(x) for x in t[2:2 + r * c]]
    return [[vals[j * r + i] for j in range(c)] for i in range(r)], r, c

def check_scaling(pb, obs, lb_present=True, ub_present=True):
    """C15 oracle on the implementation's state after setup()/update(): the preconditioner's scalings are positive,
    its inverses are inverses on EVERY slot, and the stored data are the user data transformed by the reported scalings."""
    V = []
    if "pc.delta" not in obs: return V
    n, p, m = pb["n"], pb["p"], pb["m"]
    c, ci = pf(obs["pc.c"]), pf(obs["pc.c_inv"])
    d, di = pvec(obs["pc.delta"]), pvec(obs["pc.delta_inv"])
    dl, dli = pvec(obs["pc.delta_lb"]), pvec(obs["pc.delta_lb_inv"])
    du, dui = pvec(obs["pc.delta_ub"]), pvec(obs["pc.delta_ub_inv"])
    allv = [c, ci] + d + di + dl + dli + du + dui
    if any(not is_num(v) for v in allv):
        V.append(("C15.defined", "preconditioner state contains a non-number: %s" % [str(v) for v in allv if not is_num(v)][:3])); return V
    if c * ci != 1 or c <= 0: V.append(("C15.inverse", "c*c_inv = %s" % (c * ci)))
    for nm, a, b in (("delta", d, di), ("delta_lb", dl, dli), ("delta_ub", du, dui)):
        if len(a) != len(b): V.append(("C15.inverse", "%s length mismatch" % nm)); continue
        for i in range(len(a)):
            if a[i] <= 0: V.append(("C15.positive", "%s[%d] = %s" % (nm, i, a[i])))
            if a[i] * b[i] != 1: V.append(("C15.inverse", "%s[%d]*%s_inv[%d] = %s (slot %s)" % (nm, i, nm, i, a[i] * b[i], "active" if True else "")))
    # accessor round trips computed by the driver on v = (2, 3, 4, ...): unscale_X(scale_X(v)) = v = scale_X(unscale_X(v))
    for k_, val in obs.items():
        if not (k_.startswith("rt.") or k_.startswith("tr.")): continue
        got = [pf(val)] if k_.endswith(".cost") else pvec(val)
        want = [Fr(3)] if k_.endswith(".cost") else [Fr(i + 2) for i in range(len(got))]
        for i, (g_, w_) in enumerate(zip(got, want)):
            if g_ != w_:
                nm = k_.split(".", 1)[1]
                V.append(("C15.roundtrip", "%s: %s_%s(%s_%s(v))[%d] = %s, expected %s" % (k_, "unscale" if k_[0] == "r" else "scale", nm, "scale" if k_[0] == "r" else "unscale", nm, i, g_, w_)))
                break
    if V: return V
    rows, lb, ub = effective(dict(pb, lb=pb["lb"] if lb_present else None, ub=pb["ub"] if ub_present else None))
    P = symP(pb)
    Pd, _, _ = pmat(obs["P_utri"])
    for i in range(n):
        for j in range(i, n):
            if Pd[i][j] != c * d[i] * d[j] * P[i][j]:
                V.append(("C15.transform", "P_utri(%d,%d) = %s but c*d_i*d_j*P = %s" % (i, j, Pd[i][j], c * d[i] * d[j] * P[i][j])))
    ATd, _, _ = pmat(obs["AT"]); GTd, _, _ = pmat(obs["GT"])
    for i in range(n):
        for k in range(p):
            if ATd[i][k] != d[i] * d[n + k] * pb["A"][k][i]: V.append(("C15.transform", "AT(%d,%d)" % (i, k)))
        for k in range(m):
            want = d[i] * d[n + p + k] * pb["G"][k][i] if k in rows else Fr(0)
            if GTd[i][k] != want: V.append(("C15.transform", "GT(%d,%d) = %s expected %s" % (i, k, GTd[i][k], want)))
    cd = pvec(obs["c"]); bd = pvec(obs["b"]); hd = pvec(obs["h"])
    for i in range(n):
        if cd[i] != c * d[i] * Fr(pb["c"][i]): V.append(("C15.transform", "c[%d]" % i))
    for k in range(p):
        if bd[k] != d[n + k] * Fr(pb["b"][k]): V.append(("C15.transform", "b[%d]" % k))
    for k in range(m):
        want = d[n + p + k] * (bound_val(pb["h"][k]) if k in rows else Fr(1))
        if hd[k] != want: V.append(("C15.transform", "h[%d] = %s expected %s" % (k, hd[k], want)))
    lbi = [int(x) for x in obs["x_lb_idx"].split()[1:]]; ubi = [int(x) for x in obs["x_ub_idx"].split()[1:]]
    if lbi != [i for i in range(n) if lb[i] is not None]: V.append(("C15.pattern", "x_lb_idx = %s" % lbi))
    if ubi != [i for i in range(n) if ub[i] is not None]: V.append(("C15.pattern", "x_ub_idx = %s" % ubi))
    if V: return V
    lbn, ubv = pvec(obs["x_lb_n"]), pvec(obs["x_ub"]); lbs, ubs = pvec(obs["x_lb_scaling"]), pvec(obs["x_ub_scaling"])
    for k, i in enumerate(lbi):
        if lbn[k] != dl[k] * (-lb[i]): V.append(("C15.transform", "x_lb_n[%d]" % k))
        if lbs[k] != dl[k] * d[i]: V.append(("C15.transform", "x_lb_scaling[%d] = %s expected %s" % (k, lbs[k], dl[k] * d[i])))
    for k, i in enumerate(ubi):
        if ubv[k] != du[k] * ub[i]: V.append(("C15.transform", "x_ub[%d]" % k))
        if ubs[k] != du[k] * d[i]: V.append(("C15.transform", "x_ub_scaling[%d] = %s expected %s" % (k, ubs[k], du[k] * d[i])))
    return V


def check_kkt_state(data_obs, kkt_obs, backend):
    """C04/C13 consistency oracle at solver level: the KKT matrix held by the solver equals the operator K_mode recomputed from the
    solver's CURRENT (scaled) data and the scalings stored in the KKT object.  A block whose refresh was forgotten shows up here."""
    from props import c13 as K13
    V = []
    t = data_obs["dims"].split(); n, p, m = int(t[0]), int(t[1]), int(t[2])
    Pd, _, _ = pmat(data_obs["P_utri"]); ATd, _, _ = pmat(data_obs["AT"]); GTd, _, _ = pmat(data_obs["GT"])
    lbi = [int(x) for x in data_obs["x_lb_idx"].split()[1:]]; ubi = [int(x) for x in data_obs["x_ub_idx"].split()[1:]]
    P = {(i, j): Pd[i][j] for i in range(n) for j in range(i, n)}
    A = {(k, i): ATd[i][k] for i in range(n) for k in range(p)}
    G = {(k, i): GTd[i][k] for i in range(n) for k in range(m)}
    lbf = [i in lbi for i in range(n)]; ubf = [i in ubi for i in range(n)]
    pr = K13.Prob(n, p, m, P, A, G, lbf, ubf, pvec(data_obs["x_lb_scaling"]), pvec(data_obs["x_ub_scaling"]))
    vals = [kkt_obs[k] for k in ("kkt.rho", "kkt.delta")]
    if any(x == "?" for x in vals): return [("C04.kkt-undefined", "KKT rho/delta undefined")]
    st = K13.State(pr, pf(kkt_obs["kkt.rho"]), pf(kkt_obs["kkt.delta"]))
    try:
        st.s = pvec(kkt_obs["kkt.s"]); st.z = [1 / x for x in pvec(kkt_obs["kkt.z_inv"])]
        st.slb = pvec(kkt_obs["kkt.s_lb"]); st.zlb = [1 / x for x in pvec(kkt_obs["kkt.z_lb_inv"])]
        st.sub = pvec(kkt_obs["kkt.s_ub"]); st.zub = [1 / x for x in pvec(kkt_obs["kkt.z_ub_inv"])]
    except (TypeError, ZeroDivisionError):
        return [("C04.kkt-undefined", "KKT scalings undefined or zero: %s" % {k: kkt_obs[k] for k in kkt_obs if k.startswith("kkt.") and k != "kkt.K"})]
    want = K13.K_mode(st, backend)
    t = kkt_obs["kkt.K"].split(); nk = int(t[0]); vals = [pf(x) for x in t[1:]]
    if nk != len(want): return [("C04.kkt-shape", "KKT size %d expected %d" % (nk, len(want)))]
    q = 0
    for i in range(nk):
        for j in range(i + 1):
            if vals[q] != want[i][j]:
                V.append(("C04.kkt-stale", "KKT(%d,%d) = %s but the current data and scalings give %s" % (i, j, vals[q], want[i][j])))
                if len(V) >= 3: return V
            q += 1
    return V
