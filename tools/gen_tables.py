#!/usr/bin/env python3
"""Translator: field / wiring / enum / documentation tables of the core structs and of every language binding
-> coq/gen/Tables.v (a value `gen_tables : Tables`, record types in coq/TablesDef.v).

Sources (under $VERIF_REPO, default /repo):
  include/piqp/settings.hpp, include/piqp/results.hpp                       core Settings/Info/Result/Status
  interfaces/c/include/piqp_typedef.h, interfaces/c/src/piqp.cpp            C structs, enum and copy functions
  interfaces/python/src/piqp_python.cpp, interfaces/python/piqp/__init__.pyi pybind11 registrations, stub
  interfaces/matlab/piqp_mex.cpp, interfaces/octave/piqp_oct.cpp            struct <-> settings/result copies
  docs/interfaces/settings.md, docs/_common/status_code_table.md            documented defaults and codes

Every function body / registration chain is split into statements and EVERY statement has to match one of the
expected shapes; anything else -> `TRANSLATOR-ERROR ...` and exit code 3 (the tie is then reported broken, no guessing).
`extract(repo)` is also imported by tools/props/c17.py / c16t.py for the python-level discrepancy search.
Standard library only."""
import re, sys, os, bisect

REPO = os.environ.get("VERIF_REPO", "/repo")
HERE = os.path.dirname(os.path.abspath(__file__))
OUT = sys.argv[1] if len(sys.argv) > 1 and not sys.argv[1].startswith("-") else os.path.join(HERE, "..", "coq", "gen", "Tables.v")

FILES = {
    "settings": "include/piqp/settings.hpp",
    "results": "include/piqp/results.hpp",
    "ctypedef": "interfaces/c/include/piqp_typedef.h",
    "csrc": "interfaces/c/src/piqp.cpp",
    "pybind": "interfaces/python/src/piqp_python.cpp",
    "pyi": "interfaces/python/piqp/__init__.pyi",
    "mex": "interfaces/matlab/piqp_mex.cpp",
    "oct": "interfaces/octave/piqp_oct.cpp",
    "docset": "docs/interfaces/settings.md",
    "docstat": "docs/_common/status_code_table.md",
}

class TranslatorError(Exception):
    pass

ID = r"[A-Za-z_]\w*"

# ------------------------------------------------------------------------------------------------ lexical layer
def strip_comments(s):
    """replace C/C++ comments by blanks; offsets and line numbers are preserved; string/char literals are respected"""
    out = list(s)
    i, n = 0, len(s)
    while i < n:
        c = s[i]
        if c == '"' or c == "'":
            q = c
            i += 1
            while i < n and s[i] != q:
                if s[i] == "\\": i += 1
                if i < n and s[i] == "\n" and q == '"':
                    raise TranslatorError("unterminated string literal")
                i += 1
            i += 1
        elif s.startswith("//", i):
            while i < n and s[i] != "\n":
                out[i] = " "; i += 1
        elif s.startswith("/*", i):
            j = s.find("*/", i + 2)
            if j < 0: raise TranslatorError("unterminated comment")
            for k in range(i, j + 2):
                if out[k] != "\n": out[k] = " "
            i = j + 2
        else:
            i += 1
    return "".join(out)

class Src:
    def __init__(self, repo, key, strip=True):
        self.rel = FILES[key]
        self.path = os.path.join(repo, self.rel)
        if not os.path.exists(self.path):
            raise TranslatorError("source file missing: %s" % self.rel)
        self.raw = open(self.path, encoding="utf-8", errors="replace").read()
        self.txt = strip_comments(self.raw) if strip else self.raw
        self.nl = [i for i, ch in enumerate(self.raw) if ch == "\n"]
    def line(self, off):
        return bisect.bisect_left(self.nl, off) + 1
    def err(self, off, msg):
        ln = self.line(off)
        src = self.raw.splitlines()[ln - 1].strip() if ln - 1 < len(self.raw.splitlines()) else ""
        raise TranslatorError("%s:%d: %s: `%s`" % (self.rel, ln, msg, src[:160]))

def match_close(txt, i, op="{", cl="}"):
    """txt[i] == op; returns the offset of the matching closer (string literals are skipped)"""
    assert txt[i] == op
    d, n = 0, len(txt)
    while i < n:
        c = txt[i]
        if c == '"' or c == "'":
            q = c; i += 1
            while i < n and txt[i] != q:
                if txt[i] == "\\": i += 1
                i += 1
        elif c == op: d += 1
        elif c == cl:
            d -= 1
            if d == 0: return i
        i += 1
    raise TranslatorError("unbalanced %s%s" % (op, cl))

def body_of(src, header_re, what, count=1):
    """bodies (start, end offsets exclusive of the braces) of the blocks whose header matches header_re (ending in `{`)"""
    ms = list(re.finditer(header_re, src.txt))
    if len(ms) != count:
        raise TranslatorError("%s: %s found %d times (expected %d)" % (src.rel, what, len(ms), count))
    res = []
    for m in ms:
        o = m.end() - 1
        if src.txt[o] != "{": raise TranslatorError("%s: %s: header regex must end at `{`" % (src.rel, what))
        res.append((o + 1, match_close(src.txt, o)))
    return res

def statements(src, a, b):
    """split txt[a:b] into (offset, text) statements: `...;` at nesting depth 0, or `header { block }`
    (returned with the block, flagged by a trailing '}')"""
    t = src.txt
    res = []
    i, start = a, a
    dpar = 0
    while i < b:
        c = t[i]
        if c == '"' or c == "'":
            q = c; i += 1
            while i < b and t[i] != q:
                if t[i] == "\\": i += 1
                i += 1
        elif c in "([": dpar += 1
        elif c in ")]": dpar -= 1
        elif c == "{" and dpar == 0:
            e = match_close(t, i)
            # initialiser list `= {...};` continues to the `;`, a block statement ends at `}`
            j = e + 1
            while j < b and t[j] in " \t\r\n": j += 1
            if j < b and t[j] == ";":
                i = j
                continue
            seg = t[start:e + 1]
            off = start + (len(seg) - len(seg.lstrip()))
            res.append((off, seg.strip()))
            start = e + 1
            i = e
        elif c == ";" and dpar == 0:
            seg = t[start:i]
            if seg.strip():
                off = start + (len(seg) - len(seg.lstrip()))
                res.append((off, seg.strip()))
            start = i + 1
        i += 1
    if t[start:b].strip():
        src.err(start + (len(t[start:b]) - len(t[start:b].lstrip())), "trailing text without terminator")
    return res

def norm_ws(s):
    return re.sub(r"\s+", " ", s).strip()

# ------------------------------------------------------------------------------------------------ values
NUMRE = r"[-+]?(?:[0-9]+\.?[0-9]*|\.[0-9]+)(?:[eE][-+]?[0-9]+)?"

def dval(raw):
    """normalised default value: ('bool',b) | ('num',n,d) | ('eps2',) | ('none',) | ('other',raw)"""
    if raw is None: return ("none",)
    r = norm_ws(raw)
    m = re.fullmatch(r"T\((.*)\)", r)
    if m: r = m.group(1).strip()
    if r in ("true", "True"): return ("bool", True)
    if r in ("false", "False"): return ("bool", False)
    if re.fullmatch(NUMRE, r):
        if re.fullmatch(r"[-+]?[0-9]+", r):
            return ("num", int(r), 1)
        n, d = float(r).as_integer_ratio()
        return ("num", n, d)
    eps = r"std::numeric_limits<T>::epsilon\(\)"
    if re.fullmatch(eps + r"\s*\*\s*" + eps, r) or r in ("eps^2", "eps*eps", "eps * eps"):
        return ("eps2",)
    return ("other", r)

# ------------------------------------------------------------------------------------------------ core structs
CORE_TYPES = ("T", "bool", "isize", "Status", "Vec<T>", "Info<T>")

def parse_core_struct(src, name):
    (a, b), = body_of(src, r"template\s*<\s*typename\s+T\s*>\s*struct\s+%s\s*\{" % name, "struct %s<T>" % name)
    fields = []
    for off, st in statements(src, a, b):
        if st.endswith("}"):
            if re.match(r"^[\w:<>\s]+?\b%s\s*\([^)]*\)\s*(const)?\s*(noexcept)?\s*\{" % ID, st):
                continue   # member function (verify_settings): not a field
            src.err(off, "unexpected block in struct %s" % name)
        m = re.fullmatch(r"((?:%s|%s\s*<\s*T\s*>))\s+(%s)(?:\s*=\s*(.+))?" % (ID, ID, ID), st, flags=re.S)
        if not m: src.err(off, "unexpected member declaration in struct %s" % name)
        ty = re.sub(r"\s+", "", m.group(1))
        if ty not in CORE_TYPES: src.err(off, "unexpected member type %s in struct %s" % (ty, name))
        fields.append({"name": m.group(2), "type": ty, "default": dval(m.group(3)), "raw": norm_ws(m.group(3) or ""), "line": src.line(off)})
    if not fields: raise TranslatorError("%s: struct %s has no fields" % (src.rel, name))
    return fields

def parse_enum_body(src, a, b, what):
    res = []
    pos = a
    for part in src.txt[a:b].split(","):
        off = pos + (len(part) - len(part.lstrip()))
        pos += len(part) + 1
        if not part.strip(): continue
        m = re.fullmatch(r"(%s)\s*=\s*([-+]?[0-9]+)" % ID, part.strip())
        if not m: src.err(off, "unexpected enumerator in %s (explicit integer value required)" % what)
        res.append({"name": m.group(1), "val": int(m.group(2)), "line": src.line(off)})
    if not res: raise TranslatorError("%s: %s is empty" % (src.rel, what))
    return res

def parse_core(repo, T):
    s = Src(repo, "settings")
    r = Src(repo, "results")
    T["core_settings"] = parse_core_struct(s, "Settings")
    T["core_info"] = parse_core_struct(r, "Info")
    T["core_result"] = parse_core_struct(r, "Result")
    (a, b), = body_of(r, r"\benum\s+Status\s*\{", "enum Status")
    T["core_status"] = parse_enum_body(r, a, b, "enum Status")
    (a, b), = body_of(r, r"status_to_string\s*\(\s*Status\s+status\s*\)\s*\{", "status_to_string")
    inner = list(re.finditer(r"switch\s*\(\s*status\s*\)\s*\{", r.txt[a:b]))
    if len(inner) != 1: raise TranslatorError("%s: status_to_string: expected exactly one switch(status)" % r.rel)
    sa = a + inner[0].end()
    sb = match_close(r.txt, sa - 1)
    if r.txt[a:a + inner[0].start()].strip() or r.txt[sb + 1:b].strip():
        r.err(a, "status_to_string: text outside the switch")
    strs = []
    for off, st in statements(r, sa, sb):
        m = re.fullmatch(r'case\s+(?:Status::)?(%s)\s*:\s*return\s+"([^"\\]*)"' % ID, st)
        if m:
            strs.append({"ext": m.group(2), "core": m.group(1), "conv": "case", "line": r.line(off)}); continue
        if re.fullmatch(r'default\s*:\s*return\s+"[^"\\]*"', st): continue
        r.err(off, "unexpected statement in status_to_string")
    T["core_status_str"] = strs

# ------------------------------------------------------------------------------------------------ C
def parse_c(repo, T):
    h = Src(repo, "ctypedef")
    def cstruct(name):
        ms = [m for m in re.finditer(r"typedef\s+struct\s*\{", h.txt)]
        for m in ms:
            e = match_close(h.txt, m.end() - 1)
            m2 = re.match(r"\s*(%s)\s*;" % ID, h.txt[e + 1:])
            if m2 and m2.group(1) == name:
                fs = []
                for off, st in statements(h, m.end(), e):
                    m3 = re.fullmatch(r"((?:const\s+)?%s\s*\*?)\s*(%s)" % (ID, ID), st)
                    if not m3: h.err(off, "unexpected member in %s" % name)
                    fs.append({"name": m3.group(2), "type": re.sub(r"\s*\*", "*", norm_ws(m3.group(1))), "default": ("none",), "raw": "", "line": h.line(off)})
                return fs
        raise TranslatorError("%s: typedef struct ... %s not found" % (h.rel, name))
    T["c_settings"] = cstruct("piqp_settings")
    T["c_info"] = cstruct("piqp_info")
    T["c_result"] = cstruct("piqp_result")
    ms = list(re.finditer(r"typedef\s+enum\s*\{", h.txt))
    found = None
    for m in ms:
        e = match_close(h.txt, m.end() - 1)
        m2 = re.match(r"\s*(%s)\s*;" % ID, h.txt[e + 1:])
        if m2 and m2.group(1) == "piqp_status": found = (m.end(), e)
    if not found: raise TranslatorError("%s: typedef enum ... piqp_status not found" % h.rel)
    T["c_status"] = parse_enum_body(h, found[0], found[1], "piqp_status")

    c = Src(repo, "csrc")
    CAST = r"(?:\(\s*(%s)\s*\)\s*)?" % ID
    # piqp_update_result
    (a, b), = body_of(c, r"void\s+piqp_update_result\s*\(\s*piqp_result\s*\*\s*result\s*,\s*const\s+piqp::Result\s*<\s*piqp_float\s*>\s*&\s*solver_result\s*\)\s*\{", "definition of piqp_update_result")
    res_out, info_out = [], []
    for off, st in statements(c, a, b):
        m = re.fullmatch(r"result\s*->\s*info\s*\.\s*(%s)\s*=\s*%ssolver_result\s*\.\s*info\s*\.\s*(%s)" % (ID, CAST, ID), st)
        if m:
            info_out.append({"ext": m.group(1), "core": m.group(3), "conv": "(%s)" % m.group(2) if m.group(2) else "", "line": c.line(off)}); continue
        m = re.fullmatch(r"result\s*->\s*(%s)\s*=\s*solver_result\s*\.\s*(%s)\s*\.\s*data\s*\(\s*\)" % (ID, ID), st)
        if m:
            res_out.append({"ext": m.group(1), "core": m.group(2), "conv": ".data()", "line": c.line(off)}); continue
        c.err(off, "unexpected statement in piqp_update_result")
    T["c_result_out"], T["c_info_out"] = res_out, info_out
    # piqp_set_default_settings
    (a, b), = body_of(c, r"void\s+piqp_set_default_settings\s*\(\s*piqp_settings\s*\*\s*settings\s*\)\s*\{", "definition of piqp_set_default_settings")
    outs, ndecl = [], 0
    for off, st in statements(c, a, b):
        if re.fullmatch(r"piqp::Settings\s*<\s*piqp_float\s*>\s+default_settings", st):
            if outs: c.err(off, "default_settings declared after use")
            ndecl += 1; continue
        m = re.fullmatch(r"settings\s*->\s*(%s)\s*=\s*%sdefault_settings\s*\.\s*(%s)" % (ID, CAST, ID), st)
        if m:
            outs.append({"ext": m.group(1), "core": m.group(3), "conv": "(%s)" % m.group(2) if m.group(2) else "", "line": c.line(off)}); continue
        c.err(off, "unexpected statement in piqp_set_default_settings")
    if ndecl != 1: raise TranslatorError("%s: piqp_set_default_settings: expected exactly one default-constructed piqp::Settings<piqp_float> default_settings" % c.rel)
    T["c_settings_out"] = outs
    # piqp_update_settings
    (a, b), = body_of(c, r"void\s+piqp_update_settings\s*\(\s*piqp_workspace\s*\*\s*workspace\s*,\s*const\s+piqp_settings\s*\*\s*settings\s*\)\s*\{", "definition of piqp_update_settings")
    sts = statements(c, a, b)
    if len(sts) != 2 or not sts[0][1].endswith("}") or not sts[1][1].endswith("}") or not re.match(r"else\s*\{", sts[1][1]):
        c.err(a, "piqp_update_settings: expected a single if {...} else {...} statement")
    off0, st0 = sts[0]
    m = re.match(r"if\s*\(\s*workspace\s*->\s*solver_info\s*\.\s*is_dense\s*\)\s*\{", st0)
    if not m: c.err(off0, "piqp_update_settings: expected `if (workspace->solver_info.is_dense) {`")
    d_a = off0 + m.end()
    d_b = match_close(c.txt, d_a - 1)
    m2 = re.match(r"\s*else\s*\{", c.txt[d_b + 1:])
    if not m2: c.err(d_b, "piqp_update_settings: expected `else {` after the dense branch")
    s_a = d_b + 1 + m2.end()
    s_b = match_close(c.txt, s_a - 1)
    if c.txt[s_b + 1:b].strip(): c.err(s_b + 1, "piqp_update_settings: text after the else branch")
    def branch(x, y, solver_ty, key):
        ws, ndecl = [], 0
        for off, st in statements(c, x, y):
            if re.fullmatch(r"auto\s*\*\s*solver\s*=\s*reinterpret_cast\s*<\s*%s\s*\*\s*>\s*\(\s*workspace\s*->\s*solver_handle\s*\)" % solver_ty, st):
                if ws: c.err(off, "solver declared after use")
                ndecl += 1; continue
            m = re.fullmatch(r"solver\s*->\s*settings\s*\(\s*\)\s*\.\s*(%s)\s*=\s*%ssettings\s*->\s*(%s)" % (ID, CAST, ID), st)
            if m:
                ws.append({"ext": m.group(3), "core": m.group(1), "conv": "(%s)" % m.group(2) if m.group(2) else "", "line": c.line(off)}); continue
            c.err(off, "unexpected statement in piqp_update_settings (%s branch)" % solver_ty)
        if ndecl != 1: raise TranslatorError("%s: piqp_update_settings: %s branch must obtain the solver exactly once" % (c.rel, solver_ty))
        T[key] = ws
    branch(d_a, d_b, "DenseSolver", "c_settings_in_dense")
    branch(s_a, s_b, "SparseSolver", "c_settings_in_sparse")
    for nm, ty in (("DenseSolver", r"piqp::DenseSolver\s*<\s*piqp_float\s*>"), ("SparseSolver", r"piqp::SparseSolver\s*<\s*piqp_float\s*,\s*piqp_int\s*>")):
        if len(re.findall(r"using\s+%s\s*=\s*%s\s*;" % (nm, ty), c.txt)) != 1:
            raise TranslatorError("%s: alias `using %s = ...` not found in the expected form" % (c.rel, nm))

# ------------------------------------------------------------------------------------------------ pybind11
def chain_calls(src, start):
    """after an expression head ending at offset start: sequence of `.name(args)` up to `;` -> [(off, name, args)]"""
    t = src.txt
    i = start
    res = []
    while True:
        while t[i] in " \t\r\n": i += 1
        if t[i] == ";": return res
        m = re.match(r"\.\s*(%s)\s*\(" % ID, t[i:])
        if not m: src.err(i, "unexpected text in registration chain")
        o = i + m.end() - 1
        e = match_close(t, o, "(", ")")
        res.append((i, m.group(1), t[o + 1:e].strip()))
        i = e + 1

def parse_pybind(repo, T):
    p = Src(repo, "pybind")
    if len(re.findall(r"using\s+T\s*=\s*double\s*;", p.txt)) != 1:
        raise TranslatorError("%s: `using T = double;` not found" % p.rel)
    ms = list(re.finditer(r'py::enum_\s*<\s*piqp::Status\s*>\s*\(\s*m\s*,\s*"Status"\s*\)', p.txt))
    if len(ms) != 1: raise TranslatorError("%s: py::enum_<piqp::Status>(m, \"Status\") found %d times" % (p.rel, len(ms)))
    st = []
    for off, nm, args in chain_calls(p, ms[0].end()):
        if nm == "value":
            m = re.fullmatch(r'"(%s)"\s*,\s*piqp::Status::(%s)' % (ID, ID), args)
            if not m: p.err(off, "unexpected .value(...) arguments")
            st.append({"ext": m.group(1), "core": m.group(2), "conv": "value", "line": p.line(off)})
        elif nm == "export_values" and args == "":
            pass
        else:
            p.err(off, "unexpected call in Status enum registration")
    T["py_status"] = st
    for cls, key in (("Info", "py_info"), ("Result", "py_result"), ("Settings", "py_settings")):
        ms = list(re.finditer(r'py::class_\s*<\s*piqp::%s\s*<\s*T\s*>\s*>\s*\(\s*m\s*,\s*"%s"\s*\)' % (cls, cls), p.txt))
        if len(ms) != 1: raise TranslatorError("%s: py::class_<piqp::%s<T>>(m, \"%s\") found %d times" % (p.rel, cls, cls, len(ms)))
        ws = []
        for off, nm, args in chain_calls(p, ms[0].end()):
            if nm in ("def_readwrite", "def_readonly"):
                m = re.fullmatch(r'"(%s)"\s*,\s*&\s*piqp::(%s)\s*<\s*T\s*>\s*::\s*(%s)' % (ID, ID, ID), args)
                if not m: p.err(off, "unexpected .%s(...) arguments" % nm)
                if m.group(2) != cls: p.err(off, "member pointer of a different class (%s) in class %s" % (m.group(2), cls))
                ws.append({"ext": m.group(1), "core": m.group(3), "conv": nm, "line": p.line(off)})
            elif nm == "def" and re.fullmatch(r"py::init\s*<\s*>\s*\(\s*\)", args):
                pass
            else:
                p.err(off, "unexpected call in class %s registration" % cls)
        T[key] = ws

# ------------------------------------------------------------------------------------------------ .pyi stub
def parse_pyi(repo, T):
    p = Src(repo, "pyi", strip=False)
    lines = p.raw.split("\n")
    blocks = {}
    cur = None
    indoc = False
    for i, ln in enumerate(lines, 1):
        if re.match(r"^class\s+(\w+)\s*(\(.*\))?:", ln):
            cur = re.match(r"^class\s+(\w+)", ln).group(1)
            if cur in blocks: raise TranslatorError("%s:%d: class %s defined twice" % (p.rel, i, cur))
            blocks[cur] = []
            indoc = False
            continue
        if ln and not ln[0].isspace():
            cur = None
        if cur is None:
            blocks.setdefault("", []).append((i, ln))
        else:
            blocks[cur].append((i, ln))
    def attrs(cls):
        if cls not in blocks: raise TranslatorError("%s: class %s not found" % (p.rel, cls))
        res = []
        indoc = False
        for i, ln in blocks[cls]:
            s = ln.strip()
            if indoc:
                if '"""' in s: indoc = False
                continue
            if s.startswith('"""'):
                if s.count('"""') == 1: indoc = True
                continue
            if not s or s == "...": continue
            if re.match(r"^(def\s|@)", s): continue
            if not ln.startswith("    ") or ln.startswith("     "):
                if re.match(r"^\s{8,}", ln): continue    # body of a method
                raise TranslatorError("%s:%d: unexpected indentation in class %s: `%s`" % (p.rel, i, cls, s[:120]))
            m = re.fullmatch(r"(\w+)\s*:\s*(.+?)\s*(?:#\s*(.*))?", s)
            if not m: raise TranslatorError("%s:%d: unexpected line in class %s: `%s`" % (p.rel, i, cls, s[:120]))
            res.append((i, m.group(1), m.group(2).strip(), m.group(3)))
        return res
    for cls, key in (("Settings", "pyi_settings"), ("Info", "pyi_info"), ("Result", "pyi_result")):
        fs = []
        for i, nm, ty, cm in attrs(cls):
            fs.append({"name": nm, "type": norm_ws(ty), "default": ("none",), "raw": "", "line": i})
        T[key] = fs
    VAL = r"<Status\.(\w+):\s*([-+]?[0-9]+)>"
    cl, mem = [], None
    for i, nm, ty, cm in attrs("Status"):
        if nm == "__members__":
            if not (cm and cm.startswith("value =")): raise TranslatorError("%s:%d: __members__ without value comment" % (p.rel, i))
            mem = []
            inner = cm[len("value ="):].strip()
            if not (inner.startswith("{") and inner.endswith("}")): raise TranslatorError("%s:%d: unexpected __members__ value" % (p.rel, i))
            items = [x for x in re.split(r",\s*(?=')", inner[1:-1]) if x.strip()]
            for it in items:
                m = re.fullmatch(r"'(\w+)':\s*" + VAL, it.strip())
                if not m or m.group(1) != m.group(2): raise TranslatorError("%s:%d: unexpected __members__ item `%s`" % (p.rel, i, it[:80]))
                mem.append({"name": m.group(1), "val": int(m.group(3)), "line": i})
            continue
        if ty != "typing.ClassVar[piqp.Status]":
            raise TranslatorError("%s:%d: unexpected attribute %s: %s in class Status" % (p.rel, i, nm, ty))
        m = re.fullmatch(r"value\s*=\s*" + VAL, cm or "")
        if not m or m.group(1) != nm: raise TranslatorError("%s:%d: Status.%s: missing/mismatching value comment" % (p.rel, i, nm))
        cl.append({"name": nm, "val": int(m.group(2)), "line": i})
    if mem is None: raise TranslatorError("%s: Status.__members__ not found" % p.rel)
    T["pyi_status_class"], T["pyi_status_members"] = cl, mem
    mod = []
    for i, ln in blocks.get("", []):
        m = re.fullmatch(r"(\w+)\s*:\s*piqp\.Status\s*#\s*value\s*=\s*" + VAL + r"\s*", ln)
        if m:
            if m.group(1) != m.group(2): raise TranslatorError("%s:%d: module attribute %s has the value of %s" % (p.rel, i, m.group(1), m.group(2)))
            mod.append({"name": m.group(1), "val": int(m.group(3)), "line": i})
        elif re.match(r"^\w+\s*:\s*piqp\.Status", ln):
            raise TranslatorError("%s:%d: unexpected module-level Status attribute `%s`" % (p.rel, i, ln[:120]))
    T["pyi_status_module"] = mod

# ------------------------------------------------------------------------------------------------ Matlab / Octave
def parse_mex(repo, T):
    x = Src(repo, "mex")
    for arr, key in (("PIQP_SETTINGS_FIELDS", "mex_settings_fields"), ("PIQP_INFO_FIELDS", "mex_info_fields"), ("PIQP_RESULT_FIELDS", "mex_result_fields")):
        ms = list(re.finditer(r"const\s+char\s*\*\s*%s\s*\[\s*\]\s*=\s*\{" % arr, x.txt))
        if len(ms) != 1: raise TranslatorError("%s: array %s found %d times" % (x.rel, arr, len(ms)))
        e = match_close(x.txt, ms[0].end() - 1)
        items = [s.strip() for s in x.txt[ms[0].end():e].split(",") if s.strip()]
        names = []
        for it in items:
            m = re.fullmatch(r'"(%s)"' % ID, it)
            if not m: x.err(ms[0].start(), "unexpected element %s in %s" % (it[:40], arr))
            names.append(m.group(1))
        T[key] = names
    CASTD = r"(?:\(\s*double\s*\)\s*)?"
    def nfields(var, arr):
        return r"int\s+%s\s*=\s*sizeof\s*\(\s*%s\s*\)\s*/\s*sizeof\s*\(\s*%s\s*\[\s*0\s*\]\s*\)" % (var, arr, arr)
    def create(var, nvar, arr):
        return r"mxArray\s*\*\s*%s\s*=\s*mxCreateStructMatrix\s*\(\s*1\s*,\s*1\s*,\s*%s\s*,\s*%s\s*\)" % (var, nvar, arr)
    # settings_to_mx_struct
    (a, b), = body_of(x, r"mxArray\s*\*\s*settings_to_mx_struct\s*\(\s*const\s+piqp::Settings\s*<\s*double\s*>\s*&\s*settings\s*\)\s*\{", "definition of settings_to_mx_struct")
    ws, seen = [], []
    for off, st in statements(x, a, b):
        if re.fullmatch(nfields("n_fields", "PIQP_SETTINGS_FIELDS"), st): seen.append("n"); continue
        if re.fullmatch(create("mx_ptr", "n_fields", "PIQP_SETTINGS_FIELDS"), st): seen.append("c"); continue
        if re.fullmatch(r"return\s+mx_ptr", st): seen.append("r"); continue
        m = re.fullmatch(r'mxSetField\s*\(\s*mx_ptr\s*,\s*0\s*,\s*"(%s)"\s*,\s*mxCreateDoubleScalar\s*\(\s*(%s)settings\s*\.\s*(%s)\s*\)\s*\)' % (ID, CASTD, ID), st)
        if m:
            if seen != ["n", "c"]: x.err(off, "mxSetField before struct creation / after return")
            ws.append({"ext": m.group(1), "core": m.group(3), "conv": "(double)" if m.group(2).strip() else "", "line": x.line(off)}); continue
        x.err(off, "unexpected statement in settings_to_mx_struct")
    if seen != ["n", "c", "r"]: raise TranslatorError("%s: settings_to_mx_struct: expected n_fields, mxCreateStructMatrix, ..., return mx_ptr" % x.rel)
    T["mex_settings_out"] = ws
    # copy_mx_struct_to_settings
    (a, b), = body_of(x, r"void\s+copy_mx_struct_to_settings\s*\(\s*const\s+mxArray\s*\*\s*mx_ptr\s*,\s*piqp::Settings\s*<\s*double\s*>\s*&\s*settings\s*\)\s*\{", "definition of copy_mx_struct_to_settings")
    ws = []
    for off, st in statements(x, a, b):
        m = re.fullmatch(r'settings\s*\.\s*(%s)\s*=\s*\(\s*([\w:]+)\s*\)\s*mxGetScalar\s*\(\s*mxGetField\s*\(\s*mx_ptr\s*,\s*0\s*,\s*"(%s)"\s*\)\s*\)' % (ID, ID), st)
        if not m: x.err(off, "unexpected statement in copy_mx_struct_to_settings")
        ws.append({"ext": m.group(3), "core": m.group(1), "conv": "(%s)" % m.group(2), "line": x.line(off)})
    T["mex_settings_in"] = ws
    # result_to_mx_struct
    (a, b), = body_of(x, r"mxArray\s*\*\s*result_to_mx_struct\s*\(\s*const\s+piqp::Result\s*<\s*double\s*>\s*&\s*result\s*\)\s*\{", "definition of result_to_mx_struct")
    info, res, seen = [], [], []
    for off, st in statements(x, a, b):
        if re.fullmatch(nfields("n_info_fields", "PIQP_INFO_FIELDS"), st): seen.append("ni"); continue
        if re.fullmatch(create("mx_info_ptr", "n_info_fields", "PIQP_INFO_FIELDS"), st): seen.append("ci"); continue
        if re.fullmatch(nfields("n_result_fields", "PIQP_RESULT_FIELDS"), st): seen.append("nr"); continue
        if re.fullmatch(create("mx_result_ptr", "n_result_fields", "PIQP_RESULT_FIELDS"), st): seen.append("cr"); continue
        if re.fullmatch(r"return\s+mx_result_ptr", st): seen.append("r"); continue
        m = re.fullmatch(r'mxSetField\s*\(\s*mx_info_ptr\s*,\s*0\s*,\s*"(%s)"\s*,\s*mxCreateString\s*\(\s*piqp::status_to_string\s*\(\s*result\s*\.\s*info\s*\.\s*(%s)\s*\)\s*\)\s*\)' % (ID, ID), st)
        if m:
            if "ci" not in seen or "r" in seen: x.err(off, "mxSetField before struct creation / after return")
            info.append({"ext": m.group(1), "core": m.group(2), "conv": "status_to_string", "line": x.line(off)}); continue
        m = re.fullmatch(r'mxSetField\s*\(\s*mx_info_ptr\s*,\s*0\s*,\s*"(%s)"\s*,\s*mxCreateDoubleScalar\s*\(\s*(%s)result\s*\.\s*info\s*\.\s*(%s)\s*\)\s*\)' % (ID, CASTD, ID), st)
        if m:
            if "ci" not in seen or "r" in seen: x.err(off, "mxSetField before struct creation / after return")
            info.append({"ext": m.group(1), "core": m.group(3), "conv": "(double)" if m.group(2).strip() else "", "line": x.line(off)}); continue
        m = re.fullmatch(r'mxSetField\s*\(\s*mx_result_ptr\s*,\s*0\s*,\s*"(%s)"\s*,\s*eigen_to_mx\s*\(\s*result\s*\.\s*(%s)\s*\)\s*\)' % (ID, ID), st)
        if m:
            if "cr" not in seen or "r" in seen: x.err(off, "mxSetField before struct creation / after return")
            res.append({"ext": m.group(1), "core": m.group(2), "conv": "eigen_to_mx", "line": x.line(off)}); continue
        m = re.fullmatch(r'mxSetField\s*\(\s*mx_result_ptr\s*,\s*0\s*,\s*"(%s)"\s*,\s*mx_info_ptr\s*\)' % ID, st)
        if m:
            if "cr" not in seen or "r" in seen: x.err(off, "mxSetField before struct creation / after return")
            res.append({"ext": m.group(1), "core": "info", "conv": "nested-struct", "line": x.line(off)}); continue
        x.err(off, "unexpected statement in result_to_mx_struct")
    if sorted(seen) != sorted(["ni", "ci", "nr", "cr", "r"]) or seen[-1] != "r":
        raise TranslatorError("%s: result_to_mx_struct: expected two struct creations and a final return mx_result_ptr" % x.rel)
    T["mex_info_out"], T["mex_result_out"] = info, res

def parse_oct(repo, T):
    x = Src(repo, "oct")
    # settings_to_ov_struct
    (a, b), = body_of(x, r"octave_value\s+settings_to_ov_struct\s*\(\s*const\s+piqp::Settings\s*<\s*double\s*>\s*&\s*settings\s*\)\s*\{", "definition of settings_to_ov_struct")
    ws, seen = [], []
    for off, st in statements(x, a, b):
        if re.fullmatch(r"octave_scalar_map\s+ov_struct", st): seen.append("d"); continue
        if re.fullmatch(r"return\s+octave_value\s*\(\s*ov_struct\s*\)", st): seen.append("r"); continue
        m = re.fullmatch(r'ov_struct\s*\.\s*(assign|setfield)\s*\(\s*"(%s)"\s*,\s*octave_value\s*\(\s*settings\s*\.\s*(%s)\s*\)\s*\)' % (ID, ID), st)
        if m:
            if seen != ["d"]: x.err(off, "assignment before declaration / after return")
            ws.append({"ext": m.group(2), "core": m.group(3), "conv": "octave_value", "line": x.line(off)}); continue
        x.err(off, "unexpected statement in settings_to_ov_struct")
    if seen != ["d", "r"]: raise TranslatorError("%s: settings_to_ov_struct: expected declaration, assignments, return" % x.rel)
    T["oct_settings_out"] = ws
    # copy_ov_struct_to_settings
    (a, b), = body_of(x, r"void\s+copy_ov_struct_to_settings\s*\(\s*const\s+octave_scalar_map\s*&\s*ov_struct\s*,\s*piqp::Settings\s*<\s*double\s*>\s*&\s*settings\s*\)\s*\{", "definition of copy_ov_struct_to_settings")
    ws = []
    for off, st in statements(x, a, b):
        m = re.fullmatch(r'settings\s*\.\s*(%s)\s*=\s*ov_struct\s*\.\s*(getfield|contents)\s*\(\s*"(%s)"\s*\)\s*\.\s*(%s)\s*\(\s*\)' % (ID, ID, ID), st)
        if not m: x.err(off, "unexpected statement in copy_ov_struct_to_settings")
        ws.append({"ext": m.group(3), "core": m.group(1), "conv": "." + m.group(4) + "()", "line": x.line(off)})
    T["oct_settings_in"] = ws
    # result_to_ov_struct
    (a, b), = body_of(x, r"octave_value\s+result_to_ov_struct\s*\(\s*const\s+piqp::Result\s*<\s*double\s*>\s*&\s*result\s*\)\s*\{", "definition of result_to_ov_struct")
    info, res, seen = [], [], []
    for off, st in statements(x, a, b):
        if re.fullmatch(r"octave_scalar_map\s+ov_info_struct", st): seen.append("di"); continue
        if re.fullmatch(r"octave_scalar_map\s+ov_result_struct", st): seen.append("dr"); continue
        if re.fullmatch(r"return\s+octave_value\s*\(\s*ov_result_struct\s*\)", st): seen.append("r"); continue
        m = re.fullmatch(r'ov_info_struct\s*\.\s*(?:assign|setfield)\s*\(\s*"(%s)"\s*,\s*octave_value\s*\(\s*piqp::status_to_string\s*\(\s*result\s*\.\s*info\s*\.\s*(%s)\s*\)\s*\)\s*\)' % (ID, ID), st)
        if m:
            if "di" not in seen or "r" in seen: x.err(off, "assignment before declaration / after return")
            info.append({"ext": m.group(1), "core": m.group(2), "conv": "status_to_string", "line": x.line(off)}); continue
        m = re.fullmatch(r'ov_info_struct\s*\.\s*(?:assign|setfield)\s*\(\s*"(%s)"\s*,\s*octave_value\s*\(\s*result\s*\.\s*info\s*\.\s*(%s)\s*\)\s*\)' % (ID, ID), st)
        if m:
            if "di" not in seen or "r" in seen: x.err(off, "assignment before declaration / after return")
            info.append({"ext": m.group(1), "core": m.group(2), "conv": "octave_value", "line": x.line(off)}); continue
        m = re.fullmatch(r'ov_result_struct\s*\.\s*(?:assign|setfield)\s*\(\s*"(%s)"\s*,\s*eigen_to_ov\s*\(\s*result\s*\.\s*(%s)\s*\)\s*\)' % (ID, ID), st)
        if m:
            if "dr" not in seen or "r" in seen: x.err(off, "assignment before declaration / after return")
            res.append({"ext": m.group(1), "core": m.group(2), "conv": "eigen_to_ov", "line": x.line(off)}); continue
        m = re.fullmatch(r'ov_result_struct\s*\.\s*(?:assign|setfield)\s*\(\s*"(%s)"\s*,\s*octave_value\s*\(\s*ov_info_struct\s*\)\s*\)' % ID, st)
        if m:
            if "dr" not in seen or "r" in seen: x.err(off, "assignment before declaration / after return")
            res.append({"ext": m.group(1), "core": "info", "conv": "nested-struct", "line": x.line(off)}); continue
        x.err(off, "unexpected statement in result_to_ov_struct")
    if sorted(seen) != sorted(["di", "dr", "r"]) or seen[-1] != "r":
        raise TranslatorError("%s: result_to_ov_struct: expected two struct declarations and a final return" % x.rel)
    T["oct_info_out"], T["oct_result_out"] = info, res

# ------------------------------------------------------------------------------------------------ documentation
def md_table(src, header_first):
    """rows of the markdown table whose header row starts with the given cell; -> [(line, [cells])]"""
    lines = src.raw.split("\n")
    rows, state = [], 0
    for i, ln in enumerate(lines, 1):
        s = ln.strip()
        if not s.startswith("|"):
            if state == 2 and s == "": state = 3
            elif state == 2 and s: raise TranslatorError("%s:%d: text directly after table row" % (src.rel, i))
            continue
        cells = [c.strip() for c in s.strip("|").split("|")]
        if state == 0:
            if cells and cells[0] == header_first: state = 1
            continue
        if state == 1:
            if not all(re.fullmatch(r":?-+:?", c) for c in cells): raise TranslatorError("%s:%d: table separator row expected" % (src.rel, i))
            state = 2; continue
        if state == 2:
            rows.append((i, cells)); continue
        if state == 3 and cells and cells[0] == header_first:
            raise TranslatorError("%s:%d: second table with header %s" % (src.rel, i, header_first))
    if state < 2 or not rows: raise TranslatorError("%s: table with header `%s` not found" % (src.rel, header_first))
    return rows

def parse_docs(repo, T):
    d = Src(repo, "docset", strip=False)
    fs = []
    for i, cells in md_table(d, "Argument"):
        if len(cells) != 3: raise TranslatorError("%s:%d: expected 3 cells" % (d.rel, i))
        m1 = re.fullmatch(r"`(%s)`" % ID, cells[0]); m2 = re.fullmatch(r"`([^`]+)`", cells[1])
        if not m1 or not m2: raise TranslatorError("%s:%d: expected `name` | `default` cells: %s" % (d.rel, i, cells[:2]))
        fs.append({"name": m1.group(1), "type": "", "default": dval(m2.group(1)), "raw": m2.group(1), "line": i})
    T["doc_settings"] = fs
    s = Src(repo, "docstat", strip=False)
    es = []
    for i, cells in md_table(s, "Status Code"):
        if len(cells) != 3: raise TranslatorError("%s:%d: expected 3 cells" % (s.rel, i))
        if not re.fullmatch(ID, cells[0]) or not re.fullmatch(r"[-+]?[0-9]+", cells[1]):
            raise TranslatorError("%s:%d: expected NAME | integer cells: %s" % (s.rel, i, cells[:2]))
        es.append({"name": cells[0], "val": int(cells[1]), "line": i})
    T["doc_status"] = es

# ------------------------------------------------------------------------------------------------ driver
ORDER = [("core_settings", "cfield"), ("core_info", "cfield"), ("core_result", "cfield"), ("core_status", "enumv"), ("core_status_str", "wire"),
         ("c_settings", "cfield"), ("c_info", "cfield"), ("c_result", "cfield"), ("c_status", "enumv"),
         ("c_result_out", "wire"), ("c_info_out", "wire"), ("c_settings_out", "wire"), ("c_settings_in_dense", "wire"), ("c_settings_in_sparse", "wire"),
         ("py_settings", "wire"), ("py_info", "wire"), ("py_result", "wire"), ("py_status", "wire"),
         ("pyi_settings", "cfield"), ("pyi_info", "cfield"), ("pyi_result", "cfield"),
         ("pyi_status_class", "enumv"), ("pyi_status_members", "enumv"), ("pyi_status_module", "enumv"),
         ("mex_settings_fields", "string"), ("mex_info_fields", "string"), ("mex_result_fields", "string"),
         ("mex_settings_out", "wire"), ("mex_settings_in", "wire"), ("mex_info_out", "wire"), ("mex_result_out", "wire"),
         ("oct_settings_out", "wire"), ("oct_settings_in", "wire"), ("oct_info_out", "wire"), ("oct_result_out", "wire"),
         ("doc_settings", "cfield"), ("doc_status", "enumv")]

SOURCE_OF = {"core_settings": "settings", "core_info": "results", "core_result": "results", "core_status": "results", "core_status_str": "results",
             "c_settings": "ctypedef", "c_info": "ctypedef", "c_result": "ctypedef", "c_status": "ctypedef",
             "c_result_out": "csrc", "c_info_out": "csrc", "c_settings_out": "csrc", "c_settings_in_dense": "csrc", "c_settings_in_sparse": "csrc",
             "py_settings": "pybind", "py_info": "pybind", "py_result": "pybind", "py_status": "pybind",
             "pyi_settings": "pyi", "pyi_info": "pyi", "pyi_result": "pyi", "pyi_status_class": "pyi", "pyi_status_members": "pyi", "pyi_status_module": "pyi",
             "mex_settings_fields": "mex", "mex_info_fields": "mex", "mex_result_fields": "mex",
             "mex_settings_out": "mex", "mex_settings_in": "mex", "mex_info_out": "mex", "mex_result_out": "mex",
             "oct_settings_out": "oct", "oct_settings_in": "oct", "oct_info_out": "oct", "oct_result_out": "oct",
             "doc_settings": "docset", "doc_status": "docstat"}

def source_file(table):
    return FILES[SOURCE_OF[table]]

def extract(repo=None):
    repo = repo or REPO
    T = {}
    parse_core(repo, T)
    parse_c(repo, T)
    parse_pybind(repo, T)
    parse_pyi(repo, T)
    parse_mex(repo, T)
    parse_oct(repo, T)
    parse_docs(repo, T)
    for k, _ in ORDER:
        if k not in T: raise TranslatorError("internal: table %s not produced" % k)
    return T

def cs(s):
    if any(ord(ch) < 32 or ord(ch) > 126 for ch in s):
        raise TranslatorError("non-printable / non-ASCII character in extracted string %r" % s)
    return '"' + s.replace('"', '""') + '"'

def cz(n):
    return "(%d)%%Z" % n

def cdval(d):
    if d[0] == "bool": return "(DBool %s)" % ("true" if d[1] else "false")
    if d[0] == "num": return "(DNum %s %d%%positive)" % (cz(d[1]), d[2])
    if d[0] == "eps2": return "DEps2"
    if d[0] == "none": return "DNone"
    return "(DOther %s)" % cs(d[1])

def emit_item(kind, it):
    if kind == "cfield":
        return "{| cf_name := %s; cf_type := %s; cf_default := %s; cf_line := %d |}" % (cs(it["name"]), cs(it["type"]), cdval(it["default"]), it["line"])
    if kind == "wire":
        return "{| w_ext := %s; w_core := %s; w_conv := %s; w_line := %d |}" % (cs(it["ext"]), cs(it["core"]), cs(it["conv"]), it["line"])
    if kind == "enumv":
        return "{| e_name := %s; e_val := %s; e_line := %d |}" % (cs(it["name"]), cz(it["val"]), it["line"])
    return cs(it)

def emit(T):
    o = []
    o.append("(* GENERATED by tools/gen_tables.py from the PIQP sources -- do not edit. *)")
    o.append("From Coq Require Import String List ZArith.")
    o.append("From PIQP Require Import TablesDef.")
    o.append("Import ListNotations.")
    o.append("Open Scope string_scope.")
    o.append("")
    for k, kind in ORDER:
        o.append("(* %s *)" % source_file(k))
        o.append("Definition t_%s : list %s :=" % (k, kind))
        items = T[k]
        if not items:
            o.append("  [].")
        else:
            o.append("  [ " + ";\n    ".join(emit_item(kind, it) for it in items) + " ].")
        o.append("")
    o.append("Definition gen_tables : Tables := {|")
    o.append(";\n".join("  %s := t_%s" % (k, k) for k, _ in ORDER))
    o.append("|}.")
    o.append("")
    return "\n".join(o)

def fail(msg):
    """exit code 3; the previous output must not survive (theorems must not be re-proved about stale tables):
    it is replaced by a file that defines nothing"""
    print("TRANSLATOR-ERROR gen_tables: %s" % msg)
    stub = "(* GENERATED by tools/gen_tables.py -- TRANSLATOR-ERROR: the binding sources have an unexpected shape;\n   no tables were produced, so nothing that depends on [gen_tables] compiles. *)\n"
    try:
        if not os.path.exists(OUT) or open(OUT).read() != stub:
            os.makedirs(os.path.dirname(os.path.abspath(OUT)), exist_ok=True)
            open(OUT, "w").write(stub)
    except OSError:
        pass
    return 3

def main():
    try:
        T = extract(REPO)
        txt = emit(T)
    except TranslatorError as e:
        return fail("%s" % e)
    except (OSError, UnicodeError, IndexError, AssertionError) as e:
        return fail("%s: %s" % (type(e).__name__, e))
    old = None
    if os.path.exists(OUT):
        old = open(OUT).read()
    if old != txt:
        os.makedirs(os.path.dirname(os.path.abspath(OUT)), exist_ok=True)
        tmp = OUT + ".tmp%d" % os.getpid()
        open(tmp, "w").write(txt)
        os.replace(tmp, OUT)
        print("gen_tables: wrote %s (%d tables, %d entries)" % (os.path.relpath(OUT), len(ORDER), sum(len(T[k]) for k, _ in ORDER)))
    else:
        print("gen_tables: %s unchanged (%d tables, %d entries)" % (os.path.relpath(OUT), len(ORDER), sum(len(T[k]) for k, _ in ORDER)))
    return 0

if __name__ == "__main__":
    sys.exit(main())
