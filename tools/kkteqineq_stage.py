"""C13 / T1b for the sparse KKT_EQ_ELIMINATED and KKT_INEQ_ELIMINATED back ends: exact correspondence between the Gallina models
coq/KKTSparseEq.v / coq/KKTSparseIneq.v (extracted, ocaml/drv_kkteqineq_model.ml) and sparse::KKT<xrat,int,Mode>
(harness/drv_kkteqineq.cpp = harness/drv_kkt.cpp + the internal members of the KKTImpl specialisation; -DBACKEND=2 / 3).

    from kkteqineq_stage import kkt_eqineq_model_stage
    extra = kkt_eqineq_model_stage(ctx)                  # records obligations, returns "Properties_C13_eqineq.v"
    vlib.coq_properties(ctx, "C13", extra_files=(..., extra))
Obligations: build:drv_kkteqineq_model, build:drv_kkteqineq:<mode>, correspondence:kkteq-model, correspondence:kktineq-model,
hypothesis:kkteqineq-perm-addr:<mode>.
The pattern construction at init (Eigen's transpose, sparse product, sparse sum) is modelled by its result, so the RAW stored
matrix (outer index, inner index, values) is compared as well: the correspondence decides whether the modelled pattern is Eigen's.

What is compared, after every INIT / SCALINGS / DATA of every generated script (generators of tools/props/c13.py through
kktelim_stage.gen_cases: n, p, m incl. 0, Hessians without stored diagonal / with empty columns / explicit zeros, all bound
patterns, all 8 update masks, re-scalings, FACTOR with regularisation in between; a DUMP is inserted after each state change):
  * identity-ordering model (eq_init / ineq_init .. None, the object of the identity-ordering theorems of Properties_C13_eqineq.v):
    K (stored matrix with the permutation undone), and the ordering-independent members: P_utri_to_Ki, AT_A_to_Ki | GT_G_to_Ki,
    GT_to_Ki | AT_to_Ki (keys P2K, X2K, R2K), the cached transpose A | G (Xc: pattern and values), the cached product
    AT_A | GT_W_delta_inv_G (XX: pattern and values) and tmp_scatter (tmp);
  * permuted model (init .. (Some perm), perm = the permutation the implementation's AMD ordering returned, printed by the driver):
    all of the above plus perm, the RAW stored PKPt (outer/inner index and values, verbatim) and PKi; the boolean perm_addr_okb
    must evaluate to true on the case (key model_addrcheck).
Any difference is reported as a concrete violation (the script is the replay)."""
import os, sys, glob, hashlib, shutil, random
import vlib

PROPS_FILE = "Properties_C13_eqineq.v"
MODES = (("eq", 2), ("ineq", 3))          # (model mode, BACKEND of harness/drv_kkteqineq.cpp)
DRIVER = "drv_kkteqineq.cpp"
EXTRA_KEYS = ("P2K", "X2K", "R2K", "Xc", "XX", "tmp")     # ordering-independent internal members
MODEL_SRC = ("Base.v", "CSC.v", "KKTSparseFull.v", "KKTSparseFullPerm.v", "KKTSparseAll.v", "KKTSparseEq.v", "KKTSparseIneq.v")

def _c13():
    sys.path.insert(0, os.path.join(vlib.VERIF, "tools"))
    from props import c13
    return c13

class _GenCtx:
    """what c13.gen_all reads from a ctx: an rng of its own (the caller's random stream is left untouched) and the tier"""
    def __init__(s, ctx, salt=0):
        s.rng = random.Random((ctx.seed * 1000003 + 7919 + salt) & 0x7fffffff); s._q = ctx.quick()
    def quick(s): return s._q

def build_model(ctx):
    """extract the EQ / INEQ models and build ocaml/drv_kkteqineq_model.ml; cached by the hash of the sources"""
    h = hashlib.sha256()
    files = [os.path.join(vlib.COQ, f) for f in MODEL_SRC] + \
            [os.path.join(vlib.VERIF, "ocaml", x) for x in ("drv_kkteqineq_model.ml", "build_kkteqineq.sh", "ExtractKKTEqIneq.v", "zhelp.ml")]
    for f in files:
        h.update(f.encode()); h.update(open(f, "rb").read())
    exe = os.path.join(vlib.CACHE, "drv_kkteqineq_model-%s" % h.hexdigest()[:24])
    if os.path.exists(exe):
        os.utime(exe, None); return exe, "cached"
    rc, out = vlib.coq_make(ctx, ["KKTSparseFull.vo", "KKTSparseFullPerm.vo", "KKTSparseAll.vo", "KKTSparseEq.vo", "KKTSparseIneq.vo"])
    if rc != 0: return None, "model does not compile: " + out[-1500:]
    wd = os.path.join(vlib.VERIF, "ocaml", "_build", "kkteqineq-%d" % os.getpid())
    rc, out = vlib.sh([os.path.join(vlib.VERIF, "ocaml", "build_kkteqineq.sh"), wd], timeout=900)
    built = os.path.join(wd, "drv_kkteqineq_model")
    if rc != 0 or not os.path.exists(built):
        shutil.rmtree(wd, ignore_errors=True)
        return None, "model build failed: " + out[-1500:]
    tmp = exe + ".tmp%d" % os.getpid()
    shutil.copy2(built, tmp); os.replace(tmp, exe)
    shutil.rmtree(wd, ignore_errors=True)
    return exe, "built"

def with_dumps(case):
    """a DUMP after every operation that changes the stored matrix"""
    ops = []
    for i, o in enumerate(case.ops):
        ops.append(o)
        if o[0] in ("INIT", "SCALINGS", "DATA") and not (i + 1 < len(case.ops) and case.ops[i + 1][0] == "DUMP"):
            ops.append(("DUMP",))
    case.ops = ops
    return case

def gen_cases(ctx, salt=0, scale=1):
    c13 = _c13()
    g = _GenCtx(ctx, salt + 101); rng = g.rng
    cases = c13.gen_all(g, {}, scale=scale)
    if g.quick():
        # the scenarios that only exercise factorisation / refinement add little here: keep a sample
        keep = [c for c in cases if c.tags[0] != "refine"] + [c for c in cases if c.tags[0] == "refine"][:15]
        cases = keep
    # dedicated: every update mask on Hessians with structurally missing diagonal entries (with / without entries above them),
    # empty columns, explicit zeros; FACTOR with refinement (regularize / unregularize) in between
    q = 0
    for rep in range((1 if g.quick() else 12) * scale):
        for mask in range(8):
            for pstyle in ("nodiag_offdiag", "nodiag", "empty_col", "explicit_zero"):
                q += 1
                n = rng.randint(2, 5) if pstyle == "nodiag_offdiag" else rng.randint(1, 5)
                pr = c13.gen_prob(rng, n, rng.choice((0, 1, 2, 3)), rng.choice((0, 1, 2, 3)), pstyle=pstyle)
                c = c13.sc_mask(rng, "g%d_%d_%d" % (mask, rep, q), pr, mask, rng.choice(("cover", "all")))
                if rng.random() < 0.5:
                    k = rng.randrange(2, len(c.ops) + 1); c.ops.insert(k, ("FACTOR", 1))
                c.tags = ("eqineq",) + c.tags[1:]
                cases.append(c)
    return [with_dumps(c) for c in cases]

def _by_case(text):
    d = {}
    for ln in text.splitlines():
        k, _, v = ln.partition(" ")
        parts = k.split(".", 2)
        if len(parts) < 3: continue
        d.setdefault(parts[0], {}).setdefault(int(parts[1]), {})[parts[2]] = v
    return d

def compare(cases, impl, mid, mperm):
    """returns (n_dumps, n_perm_dumps, n_identity_perm, list of (case, opno, what, impl value, model value), addrcheck failures)"""
    diffs = []; nd = npd = nid = 0; addr_bad = []
    for c in cases:
        a, b, p = impl.get(c.name, {}), mid.get(c.name, {}), mperm.get(c.name, {})
        first = True
        for opno, o in enumerate(c.ops):
            if o[0] != "DUMP": continue
            ia, ib, ip = a.get(opno, {}), b.get(opno, {}), p.get(opno, {})
            nd += 1
            bad = None
            if ia.get("K") is None or any(ia.get(k) is None for k in EXTRA_KEYS + ("PKi",)): bad = ("impl-no-output", None, None)
            elif ib.get("K") != ia.get("K"): bad = ("K(identity-ordering model)", ia.get("K"), ib.get("K"))
            elif ia.get("upper") != "1" or ib.get("upper") != "1": bad = ("upper", ia.get("upper"), ib.get("upper"))
            elif ip.get("K") != ia.get("K"): bad = ("K(permuted model)", ia.get("K"), ip.get("K"))
            if not bad:
                for key in EXTRA_KEYS:
                    if ib.get(key) != ia.get(key): bad = (key + "(identity-ordering model)", ia.get(key), ib.get(key)); break
                    if ip.get(key) != ia.get(key): bad = (key + "(permuted model)", ia.get(key), ip.get(key)); break
            if not bad and "perm" in ip:
                npd += 1
                pl = ia.get("perm", "").split()
                if pl[1:] == [str(i) for i in range(len(pl) - 1)]: nid += 1
                if ip.get("perm") != ia.get("perm"): bad = ("perm", ia.get("perm"), ip.get("perm"))
                elif ip.get("PKPt") != ia.get("PKPt"): bad = ("PKPt(raw)", ia.get("PKPt"), ip.get("PKPt"))
                elif ip.get("PKi") != ia.get("PKi"): bad = ("PKi", ia.get("PKi"), ip.get("PKi"))
                if ip.get("model_addrcheck") != "1" and first: addr_bad.append((c, opno, ip.get("model_addrcheck")))
            if bad and first:
                diffs.append((c, opno) + bad); first = False
        # a model error anywhere (index / division error of the checked model) is a difference as well
        for side, nm in ((b, "identity-ordering model"), (p, "permuted model")):
            for opno, kv in side.items():
                if "model_error" in kv and first:
                    diffs.append((c, opno, "model_error(%s)" % nm, None, kv["model_error"])); first = False
    return nd, npd, nid, diffs, addr_bad

def _hist(case, opno):
    h = []
    for o in case.ops[:opno]:
        if o[0] == "INIT": h = ["init"]
        elif o[0] == "SCALINGS": h.append("scal")
        elif o[0] == "DATA": h.append("data")
    return "+".join(sorted(set(h)))

def run_cases(ctx, mode, exe, model, cases, label):
    cf = os.path.join(ctx.work, "kkteqineq_%s_%s.cases" % (mode, label))
    text = "".join(c.text() for c in cases)
    open(cf, "w").write(text)
    rc, txt = vlib.run_bin_chunked(exe, text, ctx.work, "kkteqineq_%s_%s_impl" % (mode, label), timeout=900)
    if rc != 0:
        # a crash of the real code on a valid script is a finding: locate the case and report it
        for c in cases:
            f1 = os.path.join(ctx.work, "kkteqineq_crash.cases"); open(f1, "w").write(c.text())
            r1, t1 = vlib.run_bin(exe, f1, (), 120)
            if r1 != 0:
                ctx.violation("kkt%s-driver-crash" % mode, "sparse KKT (%s eliminated): the driver of the real code terminates abnormally (rc=%d) on a valid script (case %s): %s"
                              % (mode, r1, c.name, t1[-400:]),
                              {"backend": mode, "opno": -1, "case_text": c.text(), "tags": list(c.tags),
                               "how": "write case_text to F; build harness/%s with -DBACKEND=%d and run it on F" % (DRIVER, dict(MODES)[mode])}, concrete=True)
                break
        return None, "implementation driver failed rc=%d: %s" % (rc, txt[-600:])
    impl = _by_case(txt)
    pf = os.path.join(ctx.work, "kkteqineq_%s_%s.perms" % (mode, label))
    with open(pf, "w") as f:
        for c in cases:
            pl = next((kv["perm"] for _, kv in sorted(impl.get(c.name, {}).items()) if "perm" in kv), None)
            if pl is not None: f.write("%s %s\n" % (c.name, pl))
    from concurrent.futures import ThreadPoolExecutor
    with ThreadPoolExecutor(max_workers=2) as ex:
        f1 = ex.submit(vlib.run_bin, model, None, (mode, cf), 900)
        f2 = ex.submit(vlib.run_bin, model, None, (mode, cf, pf), 900)
        (r1, t1), (r2, t2) = f1.result(), f2.result()
    if r1 != 0 or r2 != 0:
        return None, "model driver failed rc=%d/%d: %s" % (r1, r2, (t1 if r1 else t2)[-600:])
    return (impl, _by_case(t1), _by_case(t2)), ""

def kkt_eqineq_model_stage(ctx, register_properties=False):
    """builds both sides for both modes, compares, records obligations; returns the name of the extra properties file"""
    from concurrent.futures import ThreadPoolExecutor
    with ThreadPoolExecutor(max_workers=2) as ex:
        fm = ex.submit(build_model, ctx)
        built = vlib.build_many(ctx, [dict(src=DRIVER, defines=("BACKEND=%d" % b,), name="drv_kkteqineq_%s" % m) for m, b in MODES])
        model, mmsg = fm.result()
    ctx.ob("build:drv_kkteqineq_model", "machinery", model is not None, mmsg if model is None else "")
    if register_properties:
        vlib.coq_properties(ctx, "C13_eqineq")
    for (mode, bnum), (exe, msg) in zip(MODES, built):
        obname = "correspondence:kkt%s-model" % mode
        ctx.ob("build:drv_kkteqineq:%s" % mode, "machinery", exe is not None, msg if exe is None else "")
        if exe is None or model is None:
            ctx.ob(obname, "correspondence", False, "not run: a build failed")
            continue
        if getattr(ctx, "replay", None):
            import json
            rp = json.load(open(ctx.replay))
            cases = [with_dumps(c) for c in _c13().parse_case_text(rp["replay"]["case_text"])]
        else:
            cases = gen_cases(ctx, salt=10 * bnum)
        total = dict(cases=0, dumps=0, perm_dumps=0, ident=0)
        alld, alla = [], []
        detail = ""
        nviol0 = len(ctx.violations)
        for rnd in range(1 if getattr(ctx, "replay", None) else 3):
            res, err = run_cases(ctx, mode, exe, model, cases, "r%d" % rnd)
            if res is None:
                detail = err; alld.append(None); break
            nd, npd, nid, diffs, addr_bad = compare(cases, *res)
            total["cases"] += len(cases); total["dumps"] += nd; total["perm_dumps"] += npd; total["ident"] += nid
            alld += diffs; alla += addr_bad
            for c in cases: ctx.classes.add("kkt%s|" % mode + "|".join(c.tags) + "|%d%d%d" % (c.ops[0][1].n, c.ops[0][1].p, c.ops[0][1].m))
            broken = [o for o in ctx.obligations if not o["ok"]]
            if diffs or not broken or len(ctx.violations) > nviol0: break
            cases = gen_cases(ctx, salt=10 * bnum + rnd + 1, scale=2)
            for c in cases: c.name = "e%d%s" % (rnd, c.name)
        ok = not alld and total["dumps"] > 0
        seen = {}
        for dd in alld[:50]:
            if dd is None: continue
            c, opno, what, iv, mv = dd
            sig = "kkt%s-model-differs:%s:%s" % (mode, what.split("(")[0], _hist(c, opno))
            seen[sig] = seen.get(sig, 0) + 1
            if seen[sig] > 2: continue
            ctx.violation(sig, "sparse KKT (%s eliminated): the implementation's assembly state differs from the Gallina model (the object of the theorems of "
                          "%s) in %s at op %d of case %s (history %s): impl=%s model=%s"
                          % (mode, PROPS_FILE, what, opno, c.name, _hist(c, opno), str(iv)[:300], str(mv)[:300]),
                          {"backend": mode, "opno": opno, "case_text": c.text(), "tags": list(c.tags),
                           "how": "write case_text to F; build harness/%s with -DBACKEND=%d and run it on F; run ocaml/build_kkteqineq.sh and "
                                  "_build/kkteqineq/drv_kkteqineq_model %s F [PERMS]; compare the lines of op %d" % (DRIVER, bnum, mode, opno)}, concrete=True)
        if not detail:
            detail = ("%d scripts, %d assembly states compared (identity-ordering model: K, P2K, X2K, R2K, cached transpose, cached product, tmp_scatter); "
                      "%d also raw PKPt (pattern and values) and PKi under the implementation's ordering (%d of them identity)" % (
                      total["cases"], total["dumps"], total["perm_dumps"], total["ident"]))
            if alld: detail += "; first difference: case %s op %d %s" % (alld[0][0].name, alld[0][1], alld[0][2])
        ctx.ob(obname, "correspondence", ok, detail)
        ctx.ob("hypothesis:kkteqineq-perm-addr:%s" % mode, "correspondence", not alla,
               "perm_addr_okb evaluated to true on all %d compared orderings" % total["perm_dumps"] if not alla
               else "perm_addr_okb is false on case %s op %d (%s)" % (alla[0][0].name, alla[0][1], alla[0][2]))
        ctx.coverage["evaluations"] = ctx.coverage.get("evaluations", 0) + total["dumps"] + total["perm_dumps"]
        ctx.coverage.setdefault("kkteqineq", {})[mode] = total
    ctx.trusted += ["kkteqineq stage: extraction of coq/KKTSparseEq.v / KKTSparseIneq.v (ExtrOcamlBasic + ExtrOcamlZBigInt + directives of ocaml/ExtractKKTEqIneq.v), "
                    "ocaml/drv_kkteqineq_model.ml builds sparse::Data (P_utri, AT, GT, packed bounds) from the case text the way harness/drv_kkt.cpp does",
                    "harness/drv_kkteqineq.cpp = drv_kkt.cpp (included verbatim) + a dump of the KKTImpl members attached through the need_kkt() hook; "
                    "a hook that does not fire yields no member lines = failed correspondence",
                    "Eigen's transpose / sparse product / sparse sum at init are modelled by their results (pattern = structural union, rows ascending); "
                    "the raw stored matrix, the cached transpose and the cached product are compared, so a different pattern or value in Eigen's result is a reported difference",
                    "Eigen's AMD ordering is an oracle: the permutation printed by the implementation is handed to the model"]
    return PROPS_FILE

if __name__ == "__main__":
    # stand-alone: python3 tools/kkteqineq_stage.py [quick|thorough]   (VERIF_SEED, VERIF_REPO as for ./check)
    os.chdir(vlib.VERIF)
    tier = sys.argv[1] if len(sys.argv) > 1 else "quick"
    ctx = vlib.Ctx("C13_eqineq", tier, int(os.environ.get("VERIF_SEED", "1")))
    ctx.replay = None
    vlib.coq_hygiene(ctx)
    kkt_eqineq_model_stage(ctx, register_properties=os.path.exists(os.path.join(vlib.COQ, PROPS_FILE)))
    sys.exit(vlib.finish(ctx, explanation="stand-alone run of the sparse EQ / INEQ eliminated-KKT model stage of C13"))
