#!/usr/bin/env python3
"""Prompt for a seeded-change sub-agent: it sees ONLY the property text and its own scratch worktree (nothing from /verif).
usage: mut_prompt.py <cNN> [focus-hint]   -> prints the prompt; the lead writes it to /tmp/mut_prompt_<cNN>.txt"""
import sys, json
pid = sys.argv[1]
hint = sys.argv[2] if len(sys.argv) > 2 else ""
prop = None
for line in open('/verif/properties.jsonl'):
    o = json.loads(line)
    if o.get("id", "").lower() == pid.lower(): prop = o
assert prop, pid
text = "%s - %s\n\n%s" % (prop["id"], prop.get("title", ""), prop.get("statement", prop.get("description", json.dumps(prop))))
print(f"""You are a C++ engineer helping to evaluate a verification tool. You work ONLY inside the scratch git worktree /tmp/wt_{pid} (a checkout of the header-only C++14 QP solver library PIQP: headers under include/piqp, C interface under interfaces/c, tests under tests/). Do not read or write anything under /verif or /repo.

The library is supposed to satisfy this semantic property:

{text}

TASK: produce TWO different, independent changes ("mutations") to the library source (files under include/ or interfaces/; NOT the tests) each of which BREAKS the property while
  (a) the library and its test-suite still compile,
  (b) the existing test-suite still passes (same tests pass as before your change),
  (c) the breakage needs something specific to manifest - e.g. an unusual input (a particular bound pattern, an empty block, a setting such as preconditioner_iter=0 or preconditioner_scale_cost=true, only the sparse KKT_EQ_ELIMINATED mode ...), a multi-step call sequence (setup; solve; update; solve), a fault at a particular point, or two cooperating sites that each look fine alone - NOT something every ordinary use exposes at once. Think of a plausible maintenance slip (wrong index in a loop over packed bounds, a dropped refresh of a cached quantity, a swapped scaling vector, an off-by-one, a weakened test, a stale flag) rather than vandalism.
The two mutations should use different mechanisms / different code sites. {hint}

For each mutation also write a DEMONSTRATION: a small self-contained C++ program (demo.cpp, using only the library headers + Eigen at /usr/include/eigen3, compiled with: g++ -std=c++14 -O1 -I/tmp/wt_{pid}/include -I/usr/include/eigen3 demo.cpp -o demo) that exits 0 on the unchanged library and exits non-zero (printing what went wrong) with the mutation applied. The demonstration must check the property itself (e.g. recompute residuals from the original data, compare against a fresh solver, check signs / sizes ...), not implementation details.

How to build and run the existing tests (takes ~3-6 minutes; run it for the unchanged tree once if you want a reference, and for each mutation):
  cd /tmp/wt_{pid} && cmake -G Ninja -S . -B _b -DCMAKE_BUILD_TYPE=RelWithDebInfo -DBUILD_TESTS=ON -DBUILD_MAROS_MESZAROS_TEST=ON -DBUILD_C_INTERFACE=ON -DBUILD_WITH_TEMPLATE_INSTANTIATION=ON -DFETCHCONTENT_SOURCE_DIR_GOOGLETEST=/usr/src/googletest -DFETCHCONTENT_FULLY_DISCONNECTED=ON > /dev/null && cmake --build _b -j4 > /dev/null && ctest --test-dir _b/tests -j4 --timeout 900 | tail -5
There is no network. Use `timeout` on long commands.

DELIVERABLE: create directories /tmp/wt_{pid}/_seeded/m1 and /tmp/wt_{pid}/_seeded/m2, each containing
  patch.diff   - output of `git diff` for that mutation alone (relative to the unchanged HEAD; must apply with `git apply` on a clean checkout),
  demo.cpp     - the demonstration program,
  meta.json    - {{"property": "{pid.upper()}", "summary": "...what was changed...", "needs": "...what is needed for the breakage to manifest...", "tests": "...result line of ctest with the mutation applied...", "demo_unchanged_exit": 0, "demo_mutated_exit": <n>}}.
Before finishing: restore the worktree sources to the unchanged state (git checkout -- include interfaces), delete the _b build directory (rm -rf /tmp/wt_{pid}/_b) and any other large files you created, leaving only _seeded/. Finally reply with a short summary of both mutations (files/lines changed, what is needed to trigger, test results).""")
