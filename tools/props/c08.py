"""C08 -- result vectors are well-formed at every stopping point."""
from props._common import run_solver_property
def run(ctx):
    return run_solver_property(ctx, "C08", codes=("C08",), extra_theorem_files=("Properties_Bounds.v", "Properties_C08_interior.v", "Properties_C08_outputs.v", "Properties_C01.v"), focus_mix=("bounds", "mixed", "bounds", "updates"))
