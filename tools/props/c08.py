"""C08 -- result vectors are well-formed at every stopping point."""
import itertools
from fractions import Fraction as Fr
import vlib, spine, solver_suite as SS, gen_cases as G, double_suite as D
from props._common import run_solver_property

KIND = {0: "free", 1: "lower", 2: "upper", 3: "both"}

def pattern_case(rng, name, pat, budgets, exact=True):
    """one problem with the given finite/infinite pattern (tuple over variables, values 0..3), solved with several max_iter budgets"""
    n = len(pat)
    pb = G.gen_problem(rng, n=n, p=rng.choice([0, 0, 1]) if n > 1 else 0, m=rng.choice([0, 1, 2]), bound_kinds=[KIND[k] for k in pat])
    st = (list(G.FRIENDLY) if exact else []) + [("preconditioner_iter", str(rng.choice([0, 2, 10])))]
    ops = (["CPBITS 64"] if exact else []) + [G.op_setup(pb)]
    pbs = {0: pb}
    opno = 1
    for mi in budgets:
        ops += ["SET max_iter %d" % mi, G.op_solve()]; pbs[opno] = pb; opno += 1
    return SS.Case(name, st, ops, pbs, ["n%d" % n, "pat:" + "".join(map(str, pat))])

def stage(ctx):
    """exhaustive finite/infinite bound patterns: all 4^n patterns, every intermediate iterate observed through max_iter = 1..K"""
    rng = ctx.rng
    nmax_exact = 2 if ctx.quick() else 4
    cases = []
    for n in range(1, nmax_exact + 1):
        for i, pat in enumerate(itertools.product(range(4), repeat=n)):
            cases.append(pattern_case(rng, "e%d_%d" % (n, i), pat, budgets=(1, 2, 3, 6)))
    SS.run_suite(ctx, cases, preconds=("ruiz",), name="c08pat", codes=("C08",))
    ctx.coverage["exhaustive_patterns_exact"] = "all 4^n finite/infinite bound patterns for n <= %d, max_iter in {1,2,3,6}, 5 back ends" % nmax_exact
    if not ctx.quick():
        dc = []
        for n in (5, 6):
            for i, pat in enumerate(itertools.product(range(4), repeat=n)):
                dc.append(pattern_case(rng, "d%d_%d" % (n, i), pat, budgets=(1, 4, 250), exact=False))
        D.run_double(ctx, dc, name="c08patd", codes=("C08",))
        ctx.coverage["exhaustive_patterns_double"] = "all 4^n patterns for n = 5, 6 (5120 problems), max_iter in {1,4,250}, 5 back ends, double"
        ctx.coverage["exhaustive"] = True

def run(ctx):
    return run_solver_property(ctx, "C08", codes=("C08",), extra_theorem_files=("Properties_Bounds.v", "Properties_C08_interior.v", "Properties_C08_outputs.v", "Properties_C01.v"),
                               focus_mix=("bounds", "mixed", "bounds", "updates"), extra_stage=stage)
