"""C19 -- problem data are copied, never aliased or modified.
Logic part: coq/Properties_C19.v (store-passing model of the API: store_unchanged, store_independence over arbitrary
histories; true by construction of a value-passing model).
Runtime part (carries the property): harness/drv_alias.cpp on `double`, bit-for-bit: twin solvers run the same random
history; the untouched twin keeps every caller buffer intact, the other twin's buffers are scribbled / freed / re-occupied by
garbage after EVERY setup/update call; every caller buffer is checksummed around every library call.  C++ DenseSolver
(column-major), C++ SparseSolver in all four KKT modes (CSC arrays), C interface (row-major dense, CSC sparse, NULL optionals);
Ruiz and identity preconditioner; each configuration additionally under AddressSanitizer (use-after-free of a retained
reference)."""
import os, re
import vlib

EXPLANATION = ("Properties_C19.v formalises C19 over an explicit store of caller memory (API calls read buffer ids at call time and "
               "return the store unchanged; arbitrary caller actions in between): no call changes the store, and two runs whose stores "
               "agree on the passed buffers at the time of each call produce equal outputs.  In a value-passing model this holds by "
               "construction; the content of the property is the tie to the code: harness/drv_alias.cpp runs twin solvers on the real "
               "headers (double), checksums every caller buffer before/after every call and at the end of the history, scribbles or frees "
               "the buffers of one twin after every setup/update call (KEEP / FREE / DECOY modes, posix_memalign'ed so that ASan sees a "
               "use-after-free) and requires the solver-owned data copies, all result vectors and all info fields of the two twins to be "
               "bit-for-bit equal after every call.")

BACKENDS = [(0, "dense"), (1, "sparse_full"), (2, "sparse_eq"), (3, "sparse_ineq"), (4, "sparse_all"), (5, "c_api")]
ASAN_FLAGS = ("-fsanitize=address", "-fno-omit-frame-pointer", "-g1")

def specs():
    inc = ("-I" + os.path.join(vlib.REPO, "interfaces", "c", "src"),)
    out = []
    for b, name in BACKENDS:
        for asan in (False, True):
            out.append(dict(src="drv_alias.cpp", defines=("BACKEND=%d" % b,), extra_flags=inc + (ASAN_FLAGS if asan else ()), libs=(),
                            name="drv_alias_%s%s" % (name, "_asan" if asan else "")))
    return out

def asan_summary(text):
    m = re.search(r"ERROR: AddressSanitizer: (\S+)", text)
    kind = m.group(1) if m else "crash"
    frames = re.findall(r"^\s+#\d+ 0x[0-9a-f]+ in (.+)$", text, flags=re.M)
    lib = [f for f in frames if "piqp" in f or "Eigen" in f][:4]
    return kind, "; ".join(f[:160] for f in (lib or frames[:4]))

def run_one(ctx, exe, label, backend, seed, nh, nmax, timeout):
    args = [str(seed), str(nh), str(nmax)]
    rc, out = vlib.sh([exe] + args, timeout=timeout, env={"ASAN_OPTIONS": "detect_leaks=0:abort_on_error=0:halt_on_error=1", "MALLOC_PERTURB_": "165"})
    hist = [l for l in out.splitlines() if l.startswith("HIST ")]
    last = hist[-1] if hist else "(no history started)"
    viol = [l for l in out.splitlines() if l.startswith("VIOL ")]
    done = [l for l in out.splitlines() if l.startswith("DONE ")]
    for l in out.splitlines():
        if l.startswith("CLASS "): ctx.classes.add(l[6:].strip())
    sigs = {}
    for l in viol:
        parts = [x.strip() for x in l[5:].split(" | ")]
        sig, where, detail = (parts + ["", "", ""])[:3]
        if sig.startswith("alias:"): sig = ":".join(sig.split(":")[:2])      # alias:<back end>; the first differing field is in the detail
        if sig in sigs: continue
        sigs[sig] = 1
        hm = re.search(r"hist=(\d+)", where)
        ctx.violation("C19." + sig + (":asan-build" if label.endswith("_asan") else ""),
                      "%s [%s]" % (detail, where),
                      {"driver": "harness/drv_alias.cpp", "defines": "BACKEND=%d" % backend, "asan": label.endswith("_asan"),
                       "args": args + ([hm.group(1)] if hm else []), "history": where,
                       "how": "build with tools/props/c19.py flags, run `drv_alias %s` (4th argument = only that history)" % " ".join(args + ([hm.group(1)] if hm else []))})
    ok = rc == 0 and not viol and bool(done)
    detail = done[0] if done else ""
    if rc != 0:
        if "AddressSanitizer" in out:
            kind, frames = asan_summary(out)
            hm = re.search(r"hist=(\d+)", last)
            ctx.violation("C19.asan:%s:%s" % (kind, label.replace("_asan", "")),
                          "AddressSanitizer %s while running %s; library frames: %s" % (kind, last, frames),
                          {"driver": "harness/drv_alias.cpp", "defines": "BACKEND=%d" % backend, "asan": True,
                           "args": args + ([hm.group(1)] if hm else []), "history": last, "report": out[-3000:]})
            detail = "ASan %s in %s" % (kind, last)
        else:
            detail = "driver rc=%d in %s: %s" % (rc, last, out[-400:])
            if not viol:
                hm = re.search(r"hist=(\d+)", last)
                ctx.violation("C19.crash:%s" % label, "driver terminated abnormally (rc=%d) while running %s" % (rc, last),
                              {"driver": "harness/drv_alias.cpp", "defines": "BACKEND=%d" % backend, "args": args + ([hm.group(1)] if hm else []), "tail": out[-1500:]})
    elif viol:
        detail = "%d violation lines, first: %s" % (len(viol), viol[0][:300])
    ctx.ob("twin:%s" % label, "correspondence", ok, detail)
    m = re.search(r"calls=(\d+) solves=(\d+) comparisons=(\d+)", done[0] if done else "")
    if m: ctx.coverage["evaluations"] += int(m.group(1)) + int(m.group(2))
    return ok

def run(ctx):
    vlib.coq_hygiene(ctx)
    vlib.coq_properties(ctx, "C19")
    sp = specs()
    built = vlib.build_many(ctx, sp)
    quick = ctx.quick()
    nh, nmax = (240, 14) if quick else (30000, 40)
    from concurrent.futures import ThreadPoolExecutor
    jobs = []
    for s, (exe, msg) in zip(sp, built):
        label = s["name"][len("drv_alias_"):]
        backend = int(s["defines"][0].split("=")[1])
        if exe is None:
            ctx.ob("twin:%s" % label, "correspondence", False, "harness build: " + msg)
            continue
        jobs.append((exe, label, backend))
    with ThreadPoolExecutor(max_workers=min(vlib.NPROC, max(1, len(jobs)))) as ex:
        futs = [ex.submit(run_one, ctx, exe, label, backend, ctx.seed, nh if not label.endswith("_asan") else max(60, nh // 2), nmax, 900 if quick else 3000)
                for exe, label, backend in jobs]
        for f in futs: f.result()
    ctx.coverage["rule"] = ("random histories setup;solve;(update(random block subset, reuse random);solve)*1..4;solve, n<=%d, p<=3, m<=5, +-inf and 1e30 "
                            "bounds, inf entries of h, random max_iter / scale_cost; per back end (dense C++, 4 sparse C++ KKT modes, C interface dense "
                            "row-major + sparse) x {Ruiz, identity} x {KEEP, FREE, DECOY} scribble modes x {plain, ASan} builds; a class is "
                            "(back end, preconditioner/variant, status, which constraint kinds are present, scribble mode)" % nmax)
    ctx.coverage["samples"] = ["drv_alias <seed=%d> <histories=%d> <n_max=%d>" % (ctx.seed, nh, nmax)]
    ctx.trusted += ["Coq 8.16.1 kernel (Properties_C19.v: statements about the value-passing store model, true by construction)",
                    "harness/drv_alias.cpp (twin driver, FNV-1a checksums, bitwise comparison), g++ 12, libasan; glibc malloc reuse behaviour for the "
                    "DECOY mode (the KEEP and ASan modes do not depend on it)",
                    "determinism of the library on identical inputs within one process (same alignment: all caller buffers are 64-byte aligned)"]
    ctx.assumptions += ["the caller passes consistent dimensions and, for the sparse interface, compressed CSC with the setup-time pattern",
                        "bindings other than C++ and C (Python, Matlab, Octave) copy into their own buffers before calling and are not exercised here"]
    return vlib.finish(ctx, level="proof (partial)",
                       checker_cmd="coqc Properties_C19.v (8.16.1) + harness/drv_alias.cpp x 6 back ends x {plain, -fsanitize=address} against $VERIF_REPO headers",
                       explanation=EXPLANATION)
