"""C13 -- every KKT back end solves the same full Newton system exactly.

Proof part: coq/Properties_C13.v (dense model KKTDense.v, LLT oracle, elimination algebra, refinement monotonicity).
Tie + oracles (this file): the PUBLIC KKT structs of /repo are driven directly (harness/drv_kkt.cpp, exact rationals), not
through the solver, with arbitrary data / box scalings / scalings / right-hand sides:
  (a) refinement off:  K_full * solve(rhs) == rhs exactly on all eight blocks (python applies the un-eliminated operator to
      the returned step from the raw data; the library's own multiply() is checked against the same python operator);
  (b) the assembled matrix (dense kkt_mat, sparse PKPt with the permutation undone) equals the operator K_mode recomputed
      in python from data and scalings after every init / update_scalings / update_data(mask covering the changed blocks),
      and is entry-by-entry (pattern, permutation, values) the matrix of a FRESH init on the same data ("refresh == fresh");
  (c) refinement on, large static regularisation: the residual (max-norm over the eight blocks of the full system) of the
      refined step is <= that of the unrefined step of the same factorisation;
  (d) all five back ends return the same step for the same data/scalings/rhs (refinement off).
Correspondence: ocaml/drv_kkt_model.ml runs the same scripts on the extracted Gallina model of dense::KKT; its output must
be textually equal to that of the dense xrat build (also for update masks that do not cover the changed blocks)."""
import os, sys, json, hashlib, glob, shutil, itertools, copy
from fractions import Fraction as Fr
import vlib

BACKENDS = ("dense", "full", "eq", "ineq", "all")
BNUM = {"dense": 0, "full": 1, "eq": 2, "ineq": 3, "all": 4}
KEPT = {"dense": "x", "all": "x", "full": "xyz", "eq": "xz", "ineq": "xy"}
BLOCKS8 = ("x", "y", "z", "z_lb", "z_ub", "s", "s_lb", "s_ub")
REFINE_KEYS = ("iterative_refinement_eps_abs", "iterative_refinement_eps_rel", "iterative_refinement_max_iter",
               "iterative_refinement_min_improvement_rate", "iterative_refinement_static_regularization_eps",
               "iterative_refinement_static_regularization_rel")
DEFAULT_SET = (("iterative_refinement_eps_abs", "1/1000000000000"), ("iterative_refinement_eps_rel", "1/1000000000000"),
               ("iterative_refinement_max_iter", "10"), ("iterative_refinement_min_improvement_rate", "5"),
               ("iterative_refinement_static_regularization_eps", "1/10000000"),
               ("iterative_refinement_static_regularization_rel", "1/4503599627370496"))

# ------------------------------------------------------------------ text helpers
def fs(x):
    x = Fr(x)
    return str(x.numerator) if x.denominator == 1 else "%d/%d" % (x.numerator, x.denominator)
def vtok(v): return " ".join([str(len(v))] + [fs(x) for x in v])
def mtok(M, rows, cols):
    ent = sorted((j, i, v) for (i, j), v in M.items())
    return " ".join(["%d %d %d" % (rows, cols, len(ent))] + ["%d %d %s" % (i, j, fs(v)) for j, i, v in ent])
def pv(s):
    t = s.split()
    return [Fr(x) for x in t[1:1 + int(t[0])]] if t and "?" not in s else None
def pmat(s):
    """'N v..' : lower triangle by rows of an N x N matrix"""
    t = s.split()
    if not t or "?" in s or len(t) != 1 + int(t[0]) * (int(t[0]) + 1) // 2: return None
    return [Fr(x) for x in t[1:]]

# ------------------------------------------------------------------ problem data (python reference, exact)
class Prob:
    """P: dict (i,j)->value of the STORED entries of the input P (the library keeps the upper triangle: P_utri);
    A, G: dict of stored entries (p x n, m x n); hasA/hasG: block passed at all; lbf/ubf: finite flags; lbs/ubs: packed box scalings"""
    def __init__(s, n, p, m, P, A, G, lbf, ubf, lbs, ubs, hasA=True, hasG=True, style=""):
        s.n, s.p, s.m, s.P, s.A, s.G, s.lbf, s.ubf, s.lbs, s.ubs, s.hasA, s.hasG, s.style = n, p, m, P, A, G, lbf, ubf, lbs, ubs, hasA, hasG, style
    def copy(s): return copy.deepcopy(s)
    @property
    def lb_idx(s): return [i for i in range(s.n) if s.lbf[i]]
    @property
    def ub_idx(s): return [i for i in range(s.n) if s.ubf[i]]
    def Psym(s):
        M = [[Fr(0)] * s.n for _ in range(s.n)]
        for (i, j), v in s.P.items():
            if i <= j:
                M[i][j] = Fr(v)
                M[j][i] = Fr(v)
        return M
    def Ad(s): return [[Fr(s.A.get((i, j), 0)) for j in range(s.n)] for i in range(s.p)]
    def Gd(s): return [[Fr(s.G.get((i, j), 0)) for j in range(s.n)] for i in range(s.m)]
    def kinds(s): return "".join("FLUB"[(1 if s.lbf[i] else 0) + (2 if s.ubf[i] else 0)] for i in range(s.n))
    def text(s):
        L = ["PROBLEM", "P " + mtok(s.P, s.n, s.n)]
        if s.hasA: L.append("A " + mtok(s.A, s.p, s.n))
        if s.hasG: L.append("G " + mtok(s.G, s.m, s.n))
        L.append("lb " + " ".join([str(s.n)] + ["0" if f else "-inf" for f in s.lbf]))
        L.append("ub " + " ".join([str(s.n)] + ["0" if f else "inf" for f in s.ubf]))
        L.append("lbs " + vtok(s.lbs)); L.append("ubs " + vtok(s.ubs)); L.append("END")
        return "\n".join(L)

class State:
    def __init__(s, pr, rho, delta):
        s.pr, s.rho, s.delta = pr, Fr(rho), Fr(delta)
        nlb, nub = len(pr.lb_idx), len(pr.ub_idx)
        s.s, s.z = [Fr(1)] * pr.m, [Fr(1)] * pr.m
        s.slb, s.zlb, s.sub, s.zub = [Fr(1)] * nlb, [Fr(1)] * nlb, [Fr(1)] * nub, [Fr(1)] * nub
    def unit(s): return all(x == 1 for x in s.s + s.z + s.slb + s.zlb + s.sub + s.zub)

def K_full(st):
    """[[P + rho I + box, A^T, G^T], [A, -delta I, 0], [G, 0, -(S Z^-1 + delta I)]]"""
    pr = st.pr; n, p, m = pr.n, pr.p, pr.m; N = n + p + m
    K = [[Fr(0)] * N for _ in range(N)]
    P = pr.Psym(); A = pr.Ad(); G = pr.Gd()
    for i in range(n):
        for j in range(n): K[i][j] = P[i][j]
        K[i][i] += st.rho
    for k, i in enumerate(pr.lb_idx): K[i][i] += pr.lbs[k] ** 2 / (st.slb[k] / st.zlb[k] + st.delta)
    for k, i in enumerate(pr.ub_idx): K[i][i] += pr.ubs[k] ** 2 / (st.sub[k] / st.zub[k] + st.delta)
    for i in range(p):
        for j in range(n): K[n + i][j] = K[j][n + i] = A[i][j]
        K[n + i][n + i] = -st.delta
    for i in range(m):
        for j in range(n): K[n + p + i][j] = K[j][n + p + i] = G[i][j]
        K[n + p + i][n + p + i] = -(st.s[i] / st.z[i] + st.delta)
    return K

def kept_idx(pr, mode):
    k = KEPT[mode]; n, p, m = pr.n, pr.p, pr.m
    keep = list(range(n))
    if "y" in k: keep += list(range(n, n + p))
    if "z" in k: keep += list(range(n + p, n + p + m))
    return keep

def K_mode(st, mode):
    """Schur complement of K_full with respect to the eliminated (diagonal) blocks"""
    K = K_full(st); keep = kept_idx(st.pr, mode); N = len(K)
    elim = [i for i in range(N) if i not in keep]
    R = [[K[i][j] for j in keep] for i in keep]
    for a, i in enumerate(keep):
        for b, j in enumerate(keep):
            acc = Fr(0)
            for e in elim:
                if K[i][e] != 0 and K[e][j] != 0: acc += K[i][e] * K[e][j] / K[e][e]
            R[a][b] -= acc
    return R

def full_apply(st, v):
    """the un-eliminated regularised Newton operator applied to the 8-block vector v (dict)"""
    pr = st.pr; n, p, m = pr.n, pr.p, pr.m
    P = pr.Psym(); A = pr.Ad(); G = pr.Gd(); li, ui = pr.lb_idx, pr.ub_idx
    x, y, z = v["x"], v["y"], v["z"]
    rx = [sum(P[i][j] * x[j] for j in range(n)) + st.rho * x[i] + sum(A[k][i] * y[k] for k in range(p)) + sum(G[k][i] * z[k] for k in range(m)) for i in range(n)]
    for k, i in enumerate(li): rx[i] -= pr.lbs[k] * v["z_lb"][k]
    for k, i in enumerate(ui): rx[i] += pr.ubs[k] * v["z_ub"][k]
    r = {"x": rx}
    r["y"] = [sum(A[k][j] * x[j] for j in range(n)) - st.delta * y[k] for k in range(p)]
    r["z"] = [sum(G[k][j] * x[j] for j in range(n)) - st.delta * z[k] + v["s"][k] for k in range(m)]
    r["z_lb"] = [-pr.lbs[k] * x[i] - st.delta * v["z_lb"][k] + v["s_lb"][k] for k, i in enumerate(li)]
    r["z_ub"] = [pr.ubs[k] * x[i] - st.delta * v["z_ub"][k] + v["s_ub"][k] for k, i in enumerate(ui)]
    r["s"] = [st.s[k] * z[k] + st.z[k] * v["s"][k] for k in range(m)]
    r["s_lb"] = [st.slb[k] * v["z_lb"][k] + st.zlb[k] * v["s_lb"][k] for k in range(len(li))]
    r["s_ub"] = [st.sub[k] * v["z_ub"][k] + st.zub[k] * v["s_ub"][k] for k in range(len(ui))]
    return r

def norm8(a, b):
    return max([abs(x - y) for k in BLOCKS8 for x, y in zip(a[k], b[k])] + [Fr(0)])

def mat_inv(M):
    n = len(M); A = [list(r) + [Fr(int(i == j)) for j in range(n)] for i, r in enumerate(M)]
    for c in range(n):
        pr = next((r for r in range(c, n) if A[r][c] != 0), None)
        if pr is None: return None
        A[c], A[pr] = A[pr], A[c]
        pv_ = A[c][c]; A[c] = [x / pv_ for x in A[c]]
        for r in range(n):
            if r != c and A[r][c] != 0:
                f = A[r][c]; A[r] = [x - f * y for x, y in zip(A[r], A[c])]
    return [r[n:] for r in A]

# ------------------------------------------------------------------ ops and case text
def step_tokens(v): return " ".join(vtok(v[k]) for k in BLOCKS8)

def op_text(op):
    k = op[0]
    if k == "PROBLEM": return op[1].text()
    if k == "INIT": return "INIT %s %s" % (fs(op[1]), fs(op[2]))
    if k == "SCALINGS": return "SCALINGS %s %s " % (fs(op[1]), fs(op[2])) + " ".join(vtok(x) for x in op[3:9])
    if k == "DATA":
        pr, ch = op[3], op[2]
        L = ["DATA %d" % op[1]]
        if "P" in ch: L.append("P " + mtok(ch["P"], pr.n, pr.n))
        if "A" in ch: L.append("A " + mtok(ch["A"], pr.p, pr.n))
        if "G" in ch: L.append("G " + mtok(ch["G"], pr.m, pr.n))
        if "lbs" in ch: L.append("lbs " + vtok(ch["lbs"]))
        if "ubs" in ch: L.append("ubs " + vtok(ch["ubs"]))
        L.append("END")
        return "\n".join(L)
    if k == "FACTOR": return "FACTOR %d" % op[1]
    if k == "SOLVE": return "SOLVE %d " % op[1] + step_tokens(op[2])
    if k == "MULTIPLY": return "MULTIPLY last" if op[1] == "last" else "MULTIPLY " + step_tokens(op[1])
    if k == "DUMP": return "DUMP"
    raise ValueError(k)

class Case:
    def __init__(s, name, settings, ops, tags=()):
        s.name, s.settings, s.ops, s.tags = name, list(settings), ops, tuple(tags)
        s.twin_of = None      # (case name, opno of the DUMP it must reproduce)
    def text(s):
        return "\n".join(["CASE " + s.name] + ["SET %s %s" % kv for kv in s.settings] + [op_text(o) for o in s.ops] + ["ENDCASE"]) + "\n"

def parse_case_text(text):
    """inverse of Case.text (replays)"""
    tk = text.split(); i = [0]
    def nx(): i[0] += 1; return tk[i[0] - 1]
    def vec(): n = int(nx()); return [Fr(nx()) for _ in range(n)]
    def mat():
        r, c, nnz = int(nx()), int(nx()), int(nx()); M = {}
        for _ in range(nnz):
            a, b = int(nx()), int(nx()); M[(a, b)] = Fr(nx())
        return r, c, M
    def step(): return {k: vec() for k in BLOCKS8}
    cases = []
    while i[0] < len(tk):
        assert nx() == "CASE"; name = nx(); settings = []; ops = []; cur = None
        while True:
            o = nx()
            if o == "ENDCASE": break
            if o == "SET": settings.append((nx(), nx()))
            elif o == "PROBLEM":
                d = {}; n = p = m = 0
                while True:
                    b = nx()
                    if b == "END": break
                    if b in "PAG": d[b] = mat()
                    elif b in ("lb", "ub"): k = int(nx()); d[b] = [nx() for _ in range(k)]
                    else: d[b] = vec()
                n = d["P"][0]; p = d["A"][0] if "A" in d else 0; m = d["G"][0] if "G" in d else 0
                lbf = [x != "-inf" for x in d.get("lb", ["-inf"] * n)]; ubf = [x != "inf" for x in d.get("ub", ["inf"] * n)]
                cur = Prob(n, p, m, d["P"][2], d["A"][2] if "A" in d else {}, d["G"][2] if "G" in d else {}, lbf, ubf,
                           d.get("lbs", [Fr(1)] * sum(lbf)), d.get("ubs", [Fr(1)] * sum(ubf)), "A" in d, "G" in d, "replay/replay/replay")
                ops.append(("PROBLEM", cur))
            elif o == "INIT": ops.append(("INIT", Fr(nx()), Fr(nx())))
            elif o == "SCALINGS": ops.append(("SCALINGS", Fr(nx()), Fr(nx())) + tuple(vec() for _ in range(6)))
            elif o == "DATA":
                mask = int(nx()); ch = {}
                while True:
                    b = nx()
                    if b == "END": break
                    ch[b] = mat()[2] if b in "PAG" else vec()
                ops.append(("DATA", mask, ch, cur))
            elif o == "FACTOR": ops.append(("FACTOR", int(nx())))
            elif o == "SOLVE": r = int(nx()); ops.append(("SOLVE", r, step()))
            elif o == "MULTIPLY":
                if tk[i[0]] == "last": nx(); ops.append(("MULTIPLY", "last"))
                else: ops.append(("MULTIPLY", step()))
            elif o == "DUMP": ops.append(("DUMP",))
            else: raise ValueError(o)
        cases.append(Case(name, settings, ops, ("replay",)))
    return cases

# ------------------------------------------------------------------ generators (all randomness from ctx.rng)
def rv(rng, nz=True):
    while True:
        x = Fr(rng.randint(-3, 3), rng.choice((1, 1, 2, 3)))
        if x != 0 or not nz: return x
def rpos(rng): return Fr(rng.randint(1, 5), rng.choice((1, 1, 2, 3, 4)))

P_STYLES = ("spd_full", "spd_upper", "explicit_zero", "nodiag", "nodiag_offdiag", "empty_col", "diag_only")

def gen_P(rng, n, style):
    """returns stored entries dict.  spd_*: P = L L^T + shift (PSD); the nodiag styles drop stored diagonal entries"""
    L = [[rv(rng, False) if (j <= i and rng.random() < 0.7) else Fr(0) for j in range(n)] for i in range(n)]
    M = [[sum(L[i][k] * L[j][k] for k in range(n)) for j in range(n)] for i in range(n)]
    sh = rng.choice((Fr(0), Fr(1, 2), Fr(1), Fr(2)))
    for i in range(n): M[i][i] += sh
    P = {}
    if style == "diag_only":
        return {(i, i): M[i][i] for i in range(n)}
    both = style == "spd_full" or (style not in ("spd_upper",) and rng.random() < 0.4)
    for i in range(n):
        for j in range(n):
            if (i <= j or both) and (M[i][j] != 0 or (style == "explicit_zero" and rng.random() < 0.6)):
                P[(i, j)] = M[i][j]
    if style == "explicit_zero":
        for i in range(n): P.setdefault((i, i), M[i][i])
        if n > 1:
            i = rng.randrange(n - 1); j = rng.randrange(i + 1, n); P[(i, j)] = Fr(0)
            if both: P[(j, i)] = Fr(0)
        if rng.random() < 0.5: P[(rng.randrange(n),) * 2] = Fr(0)
    if style == "nodiag":
        for i in range(n):
            if rng.random() < 0.6: P.pop((i, i), None)
        P.pop((rng.randrange(n),) * 2, None)
    if style == "nodiag_offdiag":
        # a column j >= 1 without stored diagonal but with a stored, non-zero entry above it
        j = rng.randrange(1, n) if n > 1 else 0
        P.pop((j, j), None)
        if n > 1:
            i = rng.randrange(j)
            P[(i, j)] = P.get((i, j)) or rv(rng)
            if both: P[(j, i)] = P[(i, j)]
            # sometimes the entry above the missing diagonal is the LAST of several in the column
            for i2 in range(j):
                if rng.random() < 0.5: P.setdefault((i2, j), rv(rng))
        if rng.random() < 0.4 and n > 2:
            k = rng.choice([c for c in range(n) if c != j]); P.pop((k, k), None)
    if style == "empty_col":
        j = rng.randrange(n)
        for i in range(n): P.pop((i, j), None); P.pop((j, i), None)
    return P

def gen_rect(rng, r, c, style):
    """A or G: stored entries with empty rows / columns / explicit zeros"""
    M = {}
    dens = {"dense": 1.0, "sparse": 0.45}.get(style, 0.7)
    for i in range(r):
        for j in range(c):
            if rng.random() < dens: M[(i, j)] = rv(rng)
    if style == "empty_row" and r:
        i = rng.randrange(r)
        for j in range(c): M.pop((i, j), None)
    if style == "empty_col" and c:
        j = rng.randrange(c)
        for i in range(r): M.pop((i, j), None)
    if style == "explicit_zero" and r:
        M[(rng.randrange(r), rng.randrange(c))] = Fr(0)
    return M
R_STYLES = ("dense", "sparse", "mid", "empty_row", "empty_col", "explicit_zero")

def gen_prob(rng, n=None, p=None, m=None, kinds=None, pstyle=None, unit_box=None, maxn=4):
    n = n if n is not None else rng.randint(1, maxn)
    p = p if p is not None else rng.choice((0, 1, 1, 2))
    m = m if m is not None else rng.choice((0, 1, 2, 3))
    pstyle = pstyle or rng.choice(P_STYLES)
    P = gen_P(rng, n, pstyle)
    ast, gst = rng.choice(R_STYLES), rng.choice(R_STYLES)
    A = gen_rect(rng, p, n, ast); G = gen_rect(rng, m, n, gst)
    kinds = kinds or [rng.choice("FLUB") for _ in range(n)]
    lbf = [k in "LB" for k in kinds]; ubf = [k in "UB" for k in kinds]
    if unit_box is None: unit_box = rng.random() < 0.35
    lbs = [Fr(1) if unit_box else rpos(rng) for f in lbf if f]; ubs = [Fr(1) if unit_box else rpos(rng) for f in ubf if f]
    hasA = p > 0 or rng.random() < 0.5; hasG = m > 0 or rng.random() < 0.5
    return Prob(n, p, m, P, A, G, lbf, ubf, lbs, ubs, hasA, hasG, "%s/%s/%s" % (pstyle, ast, gst))

def rho_for(rng, pr, safe=True):
    """rho such that P + rho I is strictly diagonally dominant (so every back end can factorise) when safe"""
    P = pr.Psym(); need = max([sum(abs(P[i][j]) for j in range(pr.n) if j != i) - P[i][i] for i in range(pr.n)] + [Fr(0)])
    r = rpos(rng) / rng.choice((1, 4, 16))
    return need + r if (safe and need > 0) else r

def gen_scal(rng, pr, unit=False):
    nlb, nub = len(pr.lb_idx), len(pr.ub_idx)
    f = (lambda: Fr(1)) if unit else (lambda: rpos(rng))
    return ([f() for _ in range(pr.m)], [f() for _ in range(nlb)], [f() for _ in range(nub)],
            [f() for _ in range(pr.m)], [f() for _ in range(nlb)], [f() for _ in range(nub)])

def gen_vec8(rng, pr, zero=()):
    nlb, nub = len(pr.lb_idx), len(pr.ub_idx)
    sz = {"x": pr.n, "y": pr.p, "z": pr.m, "z_lb": nlb, "z_ub": nub, "s": pr.m, "s_lb": nlb, "s_ub": nub}
    return {k: [Fr(0) if k in zero else rv(rng, False) for _ in range(sz[k])] for k in BLOCKS8}

def new_values(rng, M, keep_zero_prob=0.1):
    return {k: (Fr(0) if rng.random() < keep_zero_prob else rv(rng)) for k in M}

def gen_changes(rng, pr, blocks):
    """new VALUES on the same pattern.  P: keep it 'nice' (scaled copy + perturbation) so that factorisations keep succeeding"""
    ch = {}
    if "P" in blocks:
        f = rng.choice((Fr(1, 2), Fr(1), Fr(3, 4)))
        newP = {}
        for (i, j), v in pr.P.items():
            if i == j: newP[(i, j)] = v * f + 1
            elif i < j:
                both_diag = (i, i) in pr.P and (j, j) in pr.P
                newP[(i, j)] = v * f + (Fr(rng.choice((-1, 1)), 4) if both_diag and rng.random() < 0.4 else 0)
        for (i, j) in pr.P:
            if i > j: newP[(i, j)] = newP.get((j, i), rv(rng))      # the lower triangle is ignored by the library
        ch["P"] = newP
    if "A" in blocks: ch["A"] = new_values(rng, pr.A)
    if "G" in blocks: ch["G"] = new_values(rng, pr.G)
    if "lbs" in blocks: ch["lbs"] = [rpos(rng) for _ in pr.lbs]
    if "ubs" in blocks: ch["ubs"] = [rpos(rng) for _ in pr.ubs]
    return ch

def apply_changes(pr, ch):
    q = pr.copy()
    for k in ("P", "A", "G", "lbs", "ubs"):
        if k in ch: setattr(q, k, copy.deepcopy(ch[k]))
    return q

def solve_block(rng, pr, refine=0, mult=True):
    rhs = gen_vec8(rng, pr)
    ops = [("FACTOR", 0), ("SOLVE", refine, rhs)]
    if mult: ops.append(("MULTIPLY", "last"))
    return ops

def sc_basic(rng, name, pr, short=False):
    rho, delta = rho_for(rng, pr), rpos(rng) / rng.choice((1, 4, 16))
    ops = [("PROBLEM", pr), ("INIT", rho, delta), ("DUMP",)] + solve_block(rng, pr)
    if not short: ops.append(("MULTIPLY", gen_vec8(rng, pr)))
    rho2, delta2 = rho_for(rng, pr), rpos(rng) / rng.choice((1, 4, 16))
    ops += [("SCALINGS", rho2, delta2) + gen_scal(rng, pr), ("DUMP",)] + solve_block(rng, pr)
    if not short:
        ops += [("MULTIPLY", gen_vec8(rng, pr)), ("SOLVE", 1, gen_vec8(rng, pr)), ("MULTIPLY", "last")]
    return Case(name, DEFAULT_SET, ops, ("basic", pr.style, pr.kinds()))

MASKBLK = {1: "P", 2: "A", 4: "G"}
def sc_mask(rng, name, pr, mask, variant):
    """variant 'cover': exactly the blocks of the mask change (plus sometimes the box scalings when P is in the mask);
    'all': P, A, G and the box scalings change, update_data(mask), observe, then update_data(all) resynchronises;
    'none': nothing changes"""
    rho, delta = rho_for(rng, pr), rpos(rng) / rng.choice((1, 4))
    unit = rng.random() < 0.4
    ops = [("PROBLEM", pr), ("INIT", rho, delta)]
    if not unit or rng.random() < 0.5:
        rho, delta = rho_for(rng, pr), rpos(rng) / rng.choice((1, 4))
        ops.append(("SCALINGS", rho, delta) + gen_scal(rng, pr, unit))
    cur = pr
    if variant == "cover":
        blocks = [MASKBLK[b] for b in (1, 2, 4) if mask & b]
        if mask & 1 and rng.random() < 0.5: blocks += ["lbs", "ubs"]
        ch = gen_changes(rng, cur, blocks)
        ops.append(("DATA", mask, ch, cur)); cur = apply_changes(cur, ch)
    elif variant == "all":
        ch = gen_changes(rng, cur, ["P", "A", "G", "lbs", "ubs"])
        ops.append(("DATA", mask, ch, cur)); cur = apply_changes(cur, ch)
        ops += [("DUMP",)] + solve_block(rng, cur)
        if rng.random() < 0.5: ops.append(("SCALINGS", rho, delta) + gen_scal(rng, cur, unit))
        ops.append(("DATA", 7, {}, cur))
    else:
        ops.append(("DATA", mask, {}, cur))
    ops += [("DUMP",)] + solve_block(rng, cur)
    # every later update_scalings must keep using the refreshed data
    rho2 = rho_for(rng, cur)
    ops += [("SCALINGS", rho2, delta) + gen_scal(rng, cur, unit), ("DUMP",)] + solve_block(rng, cur)
    if rng.random() < 0.5:
        m2 = rng.choice((1, 2, 4, 3, 5, 6, 7))
        ch = gen_changes(rng, cur, [MASKBLK[b] for b in (1, 2, 4) if m2 & b])
        ops.append(("DATA", m2, ch, cur)); cur = apply_changes(cur, ch)
        ops += [("DUMP",)] + solve_block(rng, cur)
    return Case(name, DEFAULT_SET, ops, ("mask", "mask=%d" % mask, variant, pr.style, pr.kinds()))

def adversarial_rhs(pr, st, mode, reg):
    """right-hand side (kept blocks only) for which ONE refinement step of the regularised factorisation increases the
    max-norm of the residual of K_mode: r0 = M b, r1 = M r0 with M = D K_reg^-1; choose r0 = sign vector attaining ||M||_inf"""
    K = K_mode(st, mode); N = len(K); n = pr.n
    D = [[Fr(0)] * N for _ in range(N)]
    rr, dr = max(Fr(0), reg - st.rho), max(Fr(0), reg - st.delta)
    for i in range(N): D[i][i] = rr if i < n else (-dr if mode != "dense" else Fr(0))
    if any(D[i][i] == 0 for i in range(N)): return None
    Kreg = [[K[i][j] + D[i][j] for j in range(N)] for i in range(N)]
    Ki = mat_inv(Kreg)
    if Ki is None: return None
    M = [[D[i][i] * Ki[i][j] for j in range(N)] for i in range(N)]
    norms = [sum(abs(x) for x in row) for row in M]
    i = max(range(N), key=lambda k: norms[k])
    if norms[i] <= 1: return None
    e = [Fr(1) if M[i][j] >= 0 else Fr(-1) for j in range(N)]
    Mi = mat_inv(M)
    if Mi is None: return None
    b = [sum(Mi[a][c] * e[c] for c in range(N)) for a in range(N)]
    keep = kept_idx(pr, mode); n, p = pr.n, pr.p
    v = gen_vec8(None, pr, zero=BLOCKS8)
    for a, gi in enumerate(keep):
        if gi < n: v["x"][gi] = b[a]
        elif gi < n + p: v["y"][gi - n] = b[a]
        else: v["z"][gi - n - p] = b[a]
    return v

def sc_refine(rng, name, pr, stats):
    reg = rng.choice((Fr(1), Fr(1), Fr(2), Fr(1, 2)))
    rel = rng.choice((Fr(0), Fr(0), Fr(1, 4)))
    settings = (("iterative_refinement_eps_abs", rng.choice(("0", "1/1000000000000", "1/1024"))), ("iterative_refinement_eps_rel", rng.choice(("0", "1/1000000000000"))),
                ("iterative_refinement_max_iter", str(rng.choice((1, 1, 2, 3, 5)))), ("iterative_refinement_min_improvement_rate", rng.choice(("1", "5", "3/2", "5"))),
                ("iterative_refinement_static_regularization_eps", fs(reg)), ("iterative_refinement_static_regularization_rel", fs(rel)))
    small = Fr(1, 2 ** rng.choice((20, 20, 10, 6)))
    rho, delta = small, small
    st = State(pr, rho, delta)
    ops = [("PROBLEM", pr), ("INIT", rho, delta)]
    if rng.random() < 0.6:
        sc = gen_scal(rng, pr, rng.random() < 0.3)
        ops.append(("SCALINGS", rho, delta) + sc)
        st.s, st.slb, st.sub, st.z, st.zlb, st.zub = sc
    ops.append(("FACTOR", 1))
    rhss = []
    if rel == 0:
        for mode in rng.sample(BACKENDS, len(BACKENDS)):
            v = adversarial_rhs(pr, st, mode, reg)
            if v is not None:
                rhss.append(v); stats["adversarial:" + mode] = stats.get("adversarial:" + mode, 0) + 1
                if len(rhss) >= 2: break
    rhss.append(gen_vec8(rng, pr))
    if rng.random() < 0.5: rhss.append(gen_vec8(rng, pr, zero=("z_lb", "z_ub", "s", "s_lb", "s_ub")))
    for v in rhss:
        ops += [("SOLVE", 1, v), ("MULTIPLY", "last"), ("SOLVE", 0, v), ("MULTIPLY", "last")]
    return Case(name, settings, ops, ("refine", pr.style, pr.kinds()))

def gen_refine_prob(rng):
    """small Hessian, |A|,|G| entries <= 1: the refinement map of the statically regularised system is rotation-like"""
    n = rng.randint(1, 3); p = rng.choice((1, 1, 2, 0)); m = rng.choice((0, 0, 1, 2))
    pr = gen_prob(rng, n, min(p, 2), m, pstyle=rng.choice(("spd_full", "spd_upper", "diag_only", "nodiag")))
    sc = Fr(1, rng.choice((1, 4, 20)))
    pr.P = {k: v * sc for k, v in pr.P.items()}
    pr.A = {k: Fr(rng.randint(-4, 4) or 1, 4) for k in pr.A}
    pr.G = {k: Fr(rng.randint(-4, 4) or 1, 4) for k in pr.G}
    return pr

def sc_random(rng, name, pr):
    rho, delta = rho_for(rng, pr, rng.random() < 0.8), rpos(rng) / rng.choice((1, 4, 16))
    ops = [("PROBLEM", pr), ("INIT", rho, delta)]
    cur = pr
    for _ in range(rng.randint(3, 8)):
        r = rng.random()
        if r < 0.3:
            rho, delta = rho_for(rng, cur, rng.random() < 0.8), rpos(rng) / rng.choice((1, 4, 16))
            ops.append(("SCALINGS", rho, delta) + gen_scal(rng, cur, rng.random() < 0.2))
        elif r < 0.55:
            mask = rng.randrange(8)
            blocks = [MASKBLK[b] for b in (1, 2, 4) if rng.random() < 0.5] + (["lbs", "ubs"] if rng.random() < 0.25 else [])
            ch = gen_changes(rng, cur, blocks)
            ops.append(("DATA", mask, ch, cur)); cur = apply_changes(cur, ch)
        elif r < 0.8:
            ops += solve_block(rng, cur, refine=int(rng.random() < 0.3))
        elif r < 0.9: ops.append(("MULTIPLY", gen_vec8(rng, cur)))
        else: ops.append(("INIT", rho, delta))
        if rng.random() < 0.5: ops.append(("DUMP",))
    if rng.random() < 0.7: ops.append(("DATA", 7, {}, cur))
    ops += [("DUMP",)] + solve_block(rng, cur)
    return Case(name, DEFAULT_SET, ops, ("random", pr.style, pr.kinds()))

def sc_indef(rng, name, pr):
    """P without stored diagonal and a small rho: the (1,1) block is indefinite; Eigen::LLT (dense) reports failure,
    the sparse LDL^T only needs non-zero pivots - whoever factorises must still solve exactly"""
    rho, delta = Fr(1, rng.choice((4, 16, 64))), rpos(rng) / rng.choice((1, 4))
    ops = [("PROBLEM", pr), ("INIT", rho, delta), ("DUMP",)] + solve_block(rng, pr)
    ops += [("SCALINGS", rho, delta) + gen_scal(rng, pr), ("DUMP",)] + solve_block(rng, pr)
    ch = gen_changes(rng, pr, ["P"]); cur = apply_changes(pr, ch)
    ops += [("DATA", 1, ch, pr), ("DUMP",)] + solve_block(rng, cur)
    return Case(name, DEFAULT_SET, ops, ("indef", pr.style, pr.kinds()))

# ------------------------------------------------------------------ replaying a case in python next to the outputs
def obs_by_op(lines):
    d = {}
    for k, v in lines:
        o, _, key = k.partition(".")
        d.setdefault(int(o), {})[key] = v
    return d

class Evaluator:
    def __init__(s, ctx):
        s.ctx = ctx; s.n_eval = 0; s.seen = {}; s.stats = {}
    def count(s, k, n=1): s.stats[k] = s.stats.get(k, 0) + n
    def viol(s, sig, detail, case, backend, opno, extra=None):
        s.seen[sig] = s.seen.get(sig, 0) + 1
        if s.seen[sig] > 2: return
        rp = {"backend": backend, "opno": opno, "case_text": case.text(), "tags": list(case.tags),
              "how": "write case_text to a file F; build harness/drv_kkt.cpp with -DBACKEND=%d; run it on F; op number %d" % (BNUM.get(backend, 0), opno)}
        if extra: rp.update(extra)
        s.ctx.violation(sig, detail, rp, concrete=True)

    def run_case(s, case, outs, twins):
        """outs: backend -> dict opno -> dict key->value.  twins: list collecting (Case twin, original case, opno, backend-independent)"""
        ctx = s.ctx
        st = None; pending = set(); pr = None
        per_b = {b: {"fact": None, "fid": 0, "last": None} for b in outs}
        steps = {}       # opno -> backend -> step (exact-factor solves in sync)
        refres = {b: {} for b in outs}
        hist = []        # op kinds since the last INIT (for signatures)
        sync_dumps = []  # (opno, state snapshot, hist) of DUMPs in sync after an in-place refresh
        for opno, op in enumerate(case.ops):
            k = op[0]
            if k == "PROBLEM":
                pr = op[1]; st = None; pending = set()
                exp_dims = "%d %d %d %d %d" % (pr.n, pr.p, pr.m, len(pr.lb_idx), len(pr.ub_idx))
                for b, o in outs.items():
                    got = o.get(opno, {})
                    if got.get("dims") != exp_dims or got.get("x_lb_idx") != " ".join(map(str, [len(pr.lb_idx)] + pr.lb_idx)) or got.get("x_ub_idx") != " ".join(map(str, [len(pr.ub_idx)] + pr.ub_idx)):
                        s.viol("harness-data:%s" % b, "Data built by the driver differs from the reference: %s" % got, case, b, opno)
                continue
            if k == "INIT":
                st = State(pr, op[1], op[2]); pending = set(); hist = ["init"]
                for b in per_b: per_b[b]["fact"] = None
            elif k == "SCALINGS":
                st.rho, st.delta = op[1], op[2]
                st.s, st.slb, st.sub, st.z, st.zlb, st.zub = [list(x) for x in op[3:9]]
                pending.discard("B"); hist.append("scal")
                for b in per_b: per_b[b]["fact"] = None
            elif k == "DATA":
                mask, ch = op[1], op[2]
                pr = apply_changes(pr, ch); st.pr = pr
                for name_, bit in (("P", 1), ("A", 2), ("G", 4)):
                    if name_ in ch: pending.add(name_)
                if "lbs" in ch or "ubs" in ch: pending.add("B")
                for name_, bit in (("P", 1), ("A", 2), ("G", 4)):
                    if mask & bit: pending.discard(name_)
                if mask & 1: pending.discard("B")
                hist.append("data%d%s" % (mask, "" if not pending else "!"))
                for b in per_b: per_b[b]["fact"] = None
            elif k == "FACTOR":
                for b, o in outs.items():
                    ok = o.get(opno, {}).get("ok") == "1"
                    per_b[b]["fact"] = (op[1], ok); per_b[b]["fid"] = opno
                    s.count("factor%d:%s:%s" % (op[1], b, "ok" if ok else "fail"))
            elif k == "DUMP":
                if not pending:
                    for b, o in outs.items():
                        got = o.get(opno, {})
                        exp = K_mode(st, b)
                        N = len(exp)
                        exp_l = [exp[i][j] for i in range(N) for j in range(i + 1)]
                        gv = pmat(got.get("kkt_mat" if b == "dense" else "K", ""))
                        s.n_eval += 1
                        if gv != exp_l or (b != "dense" and got.get("upper") != "1"):
                            idx = [(i, j) for i in range(N) for j in range(i + 1)]
                            q = next((q for q in range(min(len(gv or []), len(exp_l))) if gv[q] != exp_l[q]), None)
                            bad = idx[q] if q is not None else None
                            s.viol("assembly:%s:%s" % (b, "+".join(sorted(set(h.rstrip("!").rstrip("0123456789") for h in hist)))),
                                   "assembled KKT matrix of back end %s after %s differs from K_mode recomputed from data and scalings at entry %s (lower triangle by rows): got %s expected %s"
                                   % (b, ",".join(hist), bad, got.get("kkt_mat" if b == "dense" else "K"), " ".join(fs(x) for x in exp_l)), case, b, opno)
                    if len(hist) > 1:
                        sync_dumps.append((opno, copy.deepcopy(st), list(hist)))
                else:
                    s.count("dump-while-stale")
            elif k == "SOLVE":
                rhs = op[2]
                for b, o in outs.items():
                    got = o.get(opno, {})
                    if "skipped" in got or per_b[b]["fact"] is None or not per_b[b]["fact"][1]:
                        per_b[b]["last"] = None; s.count("solve-skipped:" + b); continue
                    step = {kk: pv(got.get(kk, "")) for kk in BLOCKS8}
                    if any(v is None for v in step.values()):
                        s.viol("solve-output:%s" % b, "solve printed no / tainted output: %s" % got, case, b, opno); per_b[b]["last"] = None; continue
                    per_b[b]["last"] = step
                    if pending: s.count("solve-while-stale"); continue
                    res = norm8(full_apply(st, step), rhs)
                    s.n_eval += 1
                    if per_b[b]["fact"][0] == 0:
                        if res != 0:
                            s.viol("solve-residual:%s" % b, "K_full * solve(rhs) != rhs (refinement %s, exact factorisation), max residual %s, history %s"
                                   % ("on" if op[1] else "off", fs(res), ",".join(hist)), case, b, opno, {"residual": fs(res)})
                        steps.setdefault(opno, {})[b] = step
                    else:
                        key = (per_b[b]["fid"], step_tokens(rhs))
                        refres[b].setdefault(key, {})[op[1]] = (res, opno)
                        pair = refres[b][key]
                        if 0 in pair and 1 in pair:
                            s.n_eval += 1; s.count("refine-pair:" + b)
                            if pair[1][0] < pair[0][0]: s.count("refine-improved:" + b)
                            if pair[1][0] > pair[0][0]:
                                s.viol("refinement-worse:%s" % b, "iterative refinement returned a step with a LARGER full-system residual: refined %s (op %d) > unrefined %s (op %d)"
                                       % (fs(pair[1][0]), pair[1][1], fs(pair[0][0]), pair[0][1]), case, b, pair[1][1],
                                       {"refined_residual": fs(pair[1][0]), "unrefined_residual": fs(pair[0][0])})
            elif k == "MULTIPLY":
                for b, o in outs.items():
                    got = o.get(opno, {})
                    v = per_b[b]["last"] if op[1] == "last" else op[1]
                    if v is None or "skipped" in got: continue
                    res = {kk: pv(got.get(kk, "")) for kk in BLOCKS8}
                    exp = full_apply(st, v)
                    s.n_eval += 1
                    if res != exp:
                        blk = next(kk for kk in BLOCKS8 if res[kk] != exp[kk])
                        s.viol("multiply:%s" % b, "KKT::multiply differs from the full regularised Newton operator on block %s: got %s expected %s"
                               % (blk, got.get(blk), vtok(exp[blk])), case, b, opno)
        # (d) the five back ends agree
        for opno, d in steps.items():
            if len(d) > 1:
                s.n_eval += 1
                bs = sorted(d); ref = d[bs[0]]
                for b in bs[1:]:
                    if d[b] != ref:
                        s.viol("backends-differ:%s-%s" % (bs[0], b), "back ends %s and %s return different steps for the same system (op %d)" % (bs[0], b, opno), case, b, opno)
                s.count("agree-%d-backends" % len(d))
        # fresh twins of the last in-sync DUMP after in-place refreshes
        for opno, snap, hist in sync_dumps[-2:]:
            ops = [("PROBLEM", snap.pr), ("INIT", snap.rho, snap.delta)]
            if not snap.unit(): ops.append(("SCALINGS", snap.rho, snap.delta, snap.s, snap.slb, snap.sub, snap.z, snap.zlb, snap.zub))
            ops.append(("DUMP",))
            tw = Case("%s~%d" % (case.name, opno), case.settings, ops, ("twin",) + case.tags)
            tw.twin_of = (case, opno, hist, snap.unit())
            twins.append(tw)

    def run_twin(s, tw, outs_tw, outs_orig):
        case, opno, hist, unit = tw.twin_of
        dop = len(tw.ops) - 1
        for b in outs_tw:
            a = outs_tw[b].get(dop, {}); o = outs_orig[b].get(opno, {})
            keys = ("kkt_mat",) if b == "dense" else ("perm", "PKPt")
            s.n_eval += 1; s.count("refresh-eq-fresh:%s:%s" % (b, "pure-init" if unit else "init+scalings"))
            if any(a.get(k) != o.get(k) or a.get(k) is None for k in keys):
                k = next(k for k in keys if a.get(k) != o.get(k) or a.get(k) is None)
                s.viol("refresh-ne-fresh:%s:%s" % (b, "+".join(sorted(set(h.rstrip("!").rstrip("0123456789") for h in hist)))),
                       "matrix after in-place refresh (%s) differs from a fresh init on the same data%s: %s refreshed=%s fresh=%s"
                       % (",".join(hist), "" if unit else " followed by update_scalings", k, o.get(k), a.get(k)), case, b, opno, {"fresh_case_text": tw.text()})

# ------------------------------------------------------------------ drivers
def build_kkt_model(ctx):
    h = hashlib.sha256()
    files = sorted(glob.glob(os.path.join(vlib.COQ, "*.v")) + glob.glob(os.path.join(vlib.COQ, "gen", "*.v")))
    files = [f for f in files if not os.path.basename(f).startswith("Properties_") and not f.endswith("Proofs.v")]
    files += [os.path.join(vlib.VERIF, "ocaml", x) for x in ("drv_kkt_model.ml", "build_kkt.sh", "ExtractFast.v", "conv_fast.ml", "zhelp.ml")]
    for f in files:
        h.update(f.encode()); h.update(open(f, "rb").read())
    exe = os.path.join(vlib.CACHE, "drv_kkt_model-%s" % h.hexdigest()[:24])
    if os.path.exists(exe):
        os.utime(exe, None); return exe, "cached"
    rc, out = vlib.coq_make(ctx, ["API.vo", "gen/Consts.vo"])
    if rc != 0: return None, "model does not compile: " + out[-1500:]
    rc, out = vlib.sh([os.path.join(vlib.VERIF, "ocaml", "build_kkt.sh")], timeout=900)
    built = os.path.join(vlib.VERIF, "ocaml", "_build", "kkt", "drv_kkt_model")
    if rc != 0 or not os.path.exists(built): return None, "model build failed: " + out[-1500:]
    tmp = exe + ".tmp%d" % os.getpid()
    shutil.copy2(built, tmp); os.replace(tmp, exe)
    return exe, "built"

def parse_out(text):
    d = {}
    for ln in text.splitlines():
        k, _, v = ln.partition(" ")
        c, _, rest = k.partition(".")
        d.setdefault(c, []).append((rest, v))
    return d

class Runner:
    def __init__(s, ctx):
        s.ctx = ctx; s.ev = Evaluator(ctx); s.exes = {}; s.model = None; s.batch = 0
        s.corr_ok = True; s.corr_detail = []; s.corr_cases = 0; s.failed_builds = []
    def build(s):
        ctx = s.ctx
        specs = [dict(src="drv_kkt.cpp", defines=("BACKEND=%d" % BNUM[b],), name="drv_kkt_%s" % b) for b in BACKENDS]
        from concurrent.futures import ThreadPoolExecutor
        with ThreadPoolExecutor(max_workers=2) as ex:
            fm = ex.submit(build_kkt_model, ctx)
            built = vlib.build_many(ctx, specs)
            s.model, mmsg = fm.result()
        for b, (exe, msg) in zip(BACKENDS, built):
            ctx.ob("build:drv_kkt:%s" % b, "machinery", exe is not None, msg if exe is None else "")
            if exe is not None: s.exes[b] = exe
            else: s.failed_builds.append(b)
        ctx.ob("build:drv_kkt_model", "machinery", s.model is not None, mmsg if s.model is None else "")
    def run_batch(s, cases, label, with_twins=True):
        """runs the cases on every back end and the model, evaluates oracles; returns number of violations added"""
        ctx = s.ctx; s.batch += 1
        before = len(ctx.violations)
        cf = os.path.join(ctx.work, "c13_%s_%d.cases" % (label, s.batch))
        open(cf, "w").write("".join(c.text() for c in cases))
        from concurrent.futures import ThreadPoolExecutor
        targets = list(s.exes.items()) + ([("model", s.model)] if s.model else [])
        with ThreadPoolExecutor(max_workers=len(targets) or 1) as ex:
            futs = {b: ex.submit(vlib.run_bin, exe, cf, (), 900) for b, exe in targets}
            raw = {b: f.result() for b, f in futs.items()}
        outs = {}
        for b, (rc, txt) in raw.items():
            if rc != 0:
                ctx.ob("run:%s:%s" % (label, b), "machinery" if b == "model" else "correspondence", False, "driver failed rc=%d: %s" % (rc, txt[-600:]))
                # a crash of the real code on a valid script is a finding: locate the case
                if b != "model": s.locate_crash(b, cases, label)
                continue
            outs[b] = parse_out(txt)
        impl = {b: o for b, o in outs.items() if b != "model"}
        twins = []
        for c in cases:
            ob = {b: obs_by_op(o.get(c.name, [])) for b, o in impl.items()}
            if c.twin_of is None:
                s.ev.run_case(c, ob, twins)
                for t in c.tags: s.ev.count("tag:" + t) if t in ("basic", "mask", "refine", "random", "bounds", "indef") else None
                ctx.classes.add("|".join(c.tags) + "|%d%d%d" % (c.ops[0][1].n, c.ops[0][1].p, c.ops[0][1].m))
        # correspondence dense <-> extracted model (textual equality of every observation line)
        if "model" in outs and "dense" in outs:
            for c in cases:
                a, m = outs["dense"].get(c.name, []), outs["model"].get(c.name, [])
                s.corr_cases += 1
                if a != m:
                    s.corr_ok = False
                    i = next((q for q in range(min(len(a), len(m))) if a[q] != m[q]), min(len(a), len(m)))
                    s.corr_detail.append((c, "case %s line %d: impl=%s model=%s" % (c.name, i, str(a[i] if i < len(a) else None)[:160], str(m[i] if i < len(m) else None)[:160])))
        if with_twins and twins:
            tf = os.path.join(ctx.work, "c13_%s_%d_twins.cases" % (label, s.batch))
            open(tf, "w").write("".join(t.text() for t in twins))
            with ThreadPoolExecutor(max_workers=len(s.exes) or 1) as ex:
                futs = {b: ex.submit(vlib.run_bin, exe, tf, (), 900) for b, exe in s.exes.items()}
                rawt = {b: f.result() for b, f in futs.items()}
            touts = {b: parse_out(txt) for b, (rc, txt) in rawt.items() if rc == 0}
            for b, (rc, txt) in rawt.items():
                if rc != 0: ctx.ob("run:%s-twins:%s" % (label, b), "correspondence", False, "driver failed rc=%d: %s" % (rc, txt[-600:]))
            for t in twins:
                orig = t.twin_of[0]
                bs = [b for b in touts if b in impl]
                s.ev.run_twin(t, {b: obs_by_op(touts[b].get(t.name, [])) for b in bs}, {b: obs_by_op(impl[b].get(orig.name, [])) for b in bs})
        return len(ctx.violations) - before
    def locate_crash(s, b, cases, label):
        for c in cases:
            cf = os.path.join(s.ctx.work, "c13_crash.cases"); open(cf, "w").write(c.text())
            rc, txt = vlib.run_bin(s.exes[b], cf, (), 120)
            if rc != 0:
                s.ev.viol("driver-crash:%s" % b, "back end %s: the driver terminates abnormally (rc=%d) on a valid script: %s" % (b, rc, txt[-400:]), c, b, -1)
                return

def gen_all(ctx, stats, scale=1):
    rng = ctx.rng; quick = ctx.quick()
    cases = []
    # 1. exhaustive bound patterns
    for n in ((1, 2) if quick else (1, 2, 3)):
        for kinds in itertools.product("FLUB", repeat=n):
            pr = gen_prob(rng, n, rng.choice((0, 1)), rng.choice((0, 1, 2)), kinds=list(kinds), pstyle=rng.choice(P_STYLES), unit_box=False)
            c = sc_basic(rng, "b%d_%s" % (n, "".join(kinds)), pr, short=True); c.tags = ("bounds",) + c.tags[1:]
            cases.append(c)
    # 2. exhaustive update masks x variants, P styles rotating (every mask meets the no-diagonal styles)
    reps = (2 if quick else 15) * scale
    q = 0
    for rep in range(reps):
        for mask in range(8):
            for variant in ("cover", "all") + (("none",) if rep == 0 else ()):
                for pstyle in (("nodiag_offdiag", P_STYLES[q % len(P_STYLES)]) if quick else P_STYLES):
                    q += 1
                    n = rng.randint(2, 4) if pstyle == "nodiag_offdiag" else rng.randint(1, 4)
                    pr = gen_prob(rng, n, rng.choice((1, 1, 2, 0)), rng.choice((1, 2, 3, 0)), pstyle=pstyle)
                    cases.append(sc_mask(rng, "m%d%s%d_%d" % (mask, variant[0], rep, q), pr, mask, variant))
    # 3. basic scenarios: sizes incl. empty blocks, all P styles
    for i in range((50 if quick else 1500) * scale):
        if i < 8: n, p, m = [(1, 0, 0), (2, 0, 0), (3, 0, 2), (3, 2, 0), (4, 2, 3), (1, 1, 1), (2, 2, 3), (4, 0, 0)][i]
        else: n, p, m = None, None, None
        pr = gen_prob(rng, n, p, m, pstyle=P_STYLES[i % len(P_STYLES)])
        cases.append(sc_basic(rng, "s%d" % i, pr))
    # 4. refinement with a large static regularisation
    for i in range((60 if quick else 2000) * scale):
        cases.append(sc_refine(rng, "r%d" % i, gen_refine_prob(rng), stats))
    # 5. random scripts
    for i in range((80 if quick else 2500) * scale):
        cases.append(sc_random(rng, "x%d" % i, gen_prob(rng)))
    # 6. indefinite Hessian block (missing diagonals, small rho)
    for i in range((8 if quick else 200) * scale):
        cases.append(sc_indef(rng, "i%d" % i, gen_prob(rng, rng.randint(2, 4), pstyle=rng.choice(("nodiag", "nodiag_offdiag")))))
    return cases

def distribution(cases):
    d = {}
    def c(k): d[k] = d.get(k, 0) + 1
    for cs in cases:
        pr = cs.ops[0][1]
        c("scenario:" + cs.tags[0]); c("dims(n,p,m):%d,%d,%d" % (pr.n, pr.p, pr.m)); c("P-style:" + pr.style.split("/")[0])
        c("A-style:" + pr.style.split("/")[1]); c("G-style:" + pr.style.split("/")[2])
        c("n_lb,n_ub:%d,%d" % (len(pr.lb_idx), len(pr.ub_idx)))
        if pr.lb_idx == [] and pr.ub_idx: c("only-upper-bounds")
        if any(x != 1 for x in pr.lbs + pr.ubs): c("non-unit-box-scaling")
        if any((j, j) not in pr.P for j in range(pr.n)): c("P-missing-stored-diagonal")
        if any((j, j) not in pr.P and any((i, j) in pr.P and pr.P[(i, j)] != 0 for i in range(j)) for j in range(pr.n)): c("P-offdiag-above-missing-diagonal")
        if any(v == 0 for v in list(pr.P.values()) + list(pr.A.values()) + list(pr.G.values())): c("explicit-zero-entry")
        if pr.p and any(all((i, j) not in pr.A for j in range(pr.n)) for i in range(pr.p)): c("A-empty-row")
        if pr.m and any(all((i, j) not in pr.G for j in range(pr.n)) for i in range(pr.m)): c("G-empty-row")
        if pr.p and any(all((i, j) not in pr.A for i in range(pr.p)) for j in range(pr.n)): c("A-empty-col")
        if pr.m and any(all((i, j) not in pr.G for i in range(pr.m)) for j in range(pr.n)): c("G-empty-col")
        for o in cs.ops:
            if o[0] == "DATA": c("update_data-mask:%d" % o[1]); c("update_data-mask:%d changed:%s" % (o[1], "".join(sorted(k[0].upper() if k in "PAG" else "b" for k in o[2])) or "-"))
            else: c("op:" + o[0])
    return d

def run(ctx):
    vlib.regen(ctx, ("consts",))
    vlib.coq_hygiene(ctx)
    vlib.coq_properties(ctx, "C13", extra_files=("Properties_C13_full.v", "Properties_C13_elim.v", "Properties_C13_eqineq.v", "Properties_C13_solve.v", "Properties_C13_refine.v", "Properties_C13_refine_total.v", "Properties_C13_refactor_fail.v", "Properties_C10_backends.v", "Properties_C14_perm_sorted.v", "Properties_C10_unique.v"))
    # sparse KKT_FULL assembly: Gallina transcription of create_kkt_matrix / update_kkt_* / update_data vs the real code
    try:
        import kktfull_stage
        kktfull_stage.kkt_full_model_stage(ctx)
    except Exception as e:   # a broken stage is a broken tie, not a silent skip
        import traceback
        ctx.ob("correspondence:kktfull-model", "correspondence", False, "stage failed: " + traceback.format_exc()[-800:])
    # sparse KKT_ALL_ELIMINATED assembly (model complete, proofs partial: see Properties_C13_elim.v)
    try:
        import kktelim_stage
        kktelim_stage.kkt_elim_model_stage(ctx)
    except Exception as e:
        import traceback
        ctx.ob("correspondence:kktelim-model", "correspondence", False, "stage failed: " + traceback.format_exc()[-800:])
    # sparse KKT_EQ_ELIMINATED / KKT_INEQ_ELIMINATED assemblies (KKTSparseEq.v / KKTSparseIneq.v)
    try:
        import kkteqineq_stage
        kkteqineq_stage.kkt_eqineq_model_stage(ctx)
    except Exception as e:
        import traceback
        for nm in ("kkteq", "kktineq"):
            ctx.ob("correspondence:%s-model" % nm, "correspondence", False, "stage failed: " + traceback.format_exc()[-800:])
    # sparse solve path (sparse/kkt.hpp: rhs condensation, permutation, LDL^T solve, recovery of the eliminated blocks, multiply)
    try:
        import kktsolve_stage
        kktsolve_stage.kkt_solve_model_stage(ctx)
    except Exception as e:
        import traceback
        ctx.ob("correspondence:kktsolve-model", "correspondence", False, "stage failed: " + traceback.format_exc()[-800:])
    # refinement half of the sparse solve path (regularize_and_factorize(true), regularize/unregularize_kkt, the refinement loop)
    try:
        import kktrefine_stage
        kktrefine_stage.kkt_refine_model_stage(ctx)
    except Exception as e:
        import traceback
        ctx.ob("correspondence:kktrefine-model", "correspondence", False, "stage failed: " + traceback.format_exc()[-800:])
    R = Runner(ctx); R.build()
    stats = {}
    if getattr(ctx, "replay", None):
        rp = json.load(open(ctx.replay))
        cases = parse_case_text(rp["replay"]["case_text"])
        ctx.notes.append("replay of %s" % ctx.replay)
    else:
        cases = gen_all(ctx, stats)
    dist = distribution(cases)
    R.run_batch(cases, "main")
    ncases = len(cases)
    # a broken proof / translator / build / correspondence without a concrete oracle hit: search with a larger budget
    broken = [o for o in ctx.obligations if not o["ok"]] or not R.corr_ok
    if broken and not ctx.violations and R.exes and not getattr(ctx, "replay", None):
        for rnd in range(2 if ctx.quick() else 4):
            more = gen_all(ctx, stats, scale=2)
            for c in more: c.name = "e%d%s" % (rnd, c.name)
            ncases += len(more)
            if R.run_batch(more, "esc%d" % rnd): break
        ctx.notes.append("escalated search: %d cases in total" % ncases)
    ctx.ob("correspondence:kkt:dense-vs-model", "correspondence", R.corr_ok and R.corr_cases > 0 and R.model is not None and "dense" in R.exes,
           ("%d cases compared; " % R.corr_cases) + "; ".join(d for _, d in R.corr_detail[:4]))
    ctx.ob("oracles:kkt:exact-solve+assembly+refresh+refinement+agreement", "oracle", not ctx.violations,
           "%d oracle evaluations on %d scripts x %d back ends" % (R.ev.n_eval, ncases, len(R.exes)))
    if not R.corr_ok and not ctx.violations:
        # the extracted dense model and the dense implementation disagree although no oracle fired: report the disagreeing case
        c, d = R.corr_detail[0]
        ctx.violation("dense-kkt-differs-from-model", "dense::KKT (exact rationals) and the Gallina model KKTDense.v disagree: " + d,
                      {"backend": "dense", "case_text": c.text(), "how": "run harness/drv_kkt.cpp (-DBACKEND=0) and ocaml/_build/kkt/drv_kkt_model on case_text and diff"}, concrete=True)
    ctx.coverage["evaluations"] = R.ev.n_eval
    ctx.coverage["distribution"] = dict(sorted(dist.items()))
    ctx.coverage["oracle_stats"] = dict(sorted(list(R.ev.stats.items()) + list(stats.items())))
    ctx.coverage["samples"] = [c.text()[:600] for c in cases[:3]]
    ctx.coverage["rule"] = ("scripts INIT/SCALINGS/DATA(mask)/FACTOR/SOLVE/MULTIPLY/DUMP on the public KKT structs of the five back ends in exact rationals; "
                            "n<=4, p<=2, m<=3; all 4^n finite/infinite bound patterns (n<=2 quick, n<=3 thorough); all 2^3 update_data masks x "
                            "{exactly the mask's blocks changed, everything changed then resynchronised, nothing changed} x 5 back ends x P styles "
                            "(stored both triangles / upper only / explicit zeros / missing diagonal / off-diagonal above a missing diagonal / empty column / diagonal); "
                            "A, G with empty rows, empty columns, explicit zeros, absent blocks; non-unit box scalings; a case is distinct by (scenario, styles, bound kinds, mask, dims)")
    ctx.trusted += ["Coq 8.16.1 kernel (coqc)",
                    "extraction: ExtrOcamlBasic + ExtrOcamlZBigInt + own directives of ocaml/ExtractFast.v; OCaml 4.13.1, zarith",
                    "harness: xrat exact scalar (GMP), exact_llt.hpp (exact LDL^T standing in for Eigen::LLT), drv_kkt.cpp builds Data the way SolverBase::setup_impl does; Eigen 3.4 on a custom scalar; g++",
                    "python reference operator (tools/props/c13.py: K_full, Schur reductions, full_apply) in exact Fractions - independent of the Coq model",
                    "the sparse back ends are tied to the proof only through the oracles (exact residual zero, assembled matrix == K_mode, equality with the dense step); the dense back end additionally by textual equality with the extracted model",
                    "AMD ordering and sparse LDL^T are exercised as they are (any permutation gives the same exact solution)"]
    ctx.assumptions += ["positive scalings s, z, s_lb, z_lb, s_ub, z_ub, positive rho and delta; update_data is called with the pattern given at init",
                        "'covering' mask: bit P/A/G set for every changed block; a change of the box scalings is covered by bit P or by a later update_scalings",
                        "iterative_refinement_min_improvement_rate >= 1 (enforced by Settings::verify_settings)"]
    return vlib.finish(ctx, explanation="component-level tie of the five KKT implementations: exact residual, assembled operator, refresh==fresh, refinement monotonicity, cross-back-end equality; dense back end == extracted Gallina model")
