"""Common driver for the solver-level properties (C01, C04, C08, C09, ...)."""
import vlib, spine, oracles, solver_suite as SS, gen_cases as G

def extraction_crosscheck(ctx, corpus_texts, cases):
    """the fast extraction (ExtrOcamlZBigInt + own gcd/log2 directives, part of the trusted base) must agree with the reference
    extraction (ExtrOcamlBasic only: Z, positive stay the extracted inductive types) on the corpus and a few generated cases"""
    import os
    fast, m1 = vlib.build_model(ctx, "fast"); ref, m2 = vlib.build_model(ctx, "ref")
    if fast is None or ref is None:
        ctx.ob("extraction:fast-vs-reference", "extraction", False, (m1 or "") + (m2 or "")); return
    # the reference extraction computes on Coq's inductive binary integers (quadratic multiplication, no GMP): only tiny, short
    # runs are feasible; dedicated cases: n = 2, one inequality, one bound, 1-2 iterations
    import random as _r
    rr = _r.Random(ctx.seed)
    small = []
    for i in range(2 if ctx.quick() else 6):
        pb = G.gen_problem(rr, n=2, p=rr.choice([0, 1]), m=1, bound_kinds=[rr.choice(["lower", "both", "free"]), rr.choice(["free", "upper"])], special=1.0)
        st = list(G.FRIENDLY) + [("max_iter", str(1 + i % 2)), ("preconditioner_iter", str(i % 3))]
        small.append(SS.Case("xc%d" % i, st, ["CPBITS 32", G.op_setup(pb), G.op_solve()], {1: pb}, ["xcheck"]))
    txt = "".join(corpus_texts) + "".join(c.text() for c in small)
    cf = os.path.join(ctx.work, "xcheck.cases"); open(cf, "w").write(txt)
    rc1, o1 = vlib.run_bin(fast, cf, timeout=900); rc2, o2 = vlib.run_bin_chunked(ref, txt, ctx.work, "xref", timeout=3000, nchunks=8)
    ok = rc1 == 0 and rc2 == 0 and o1 == o2
    ctx.ob("extraction:fast-vs-reference", "extraction", ok, "" if ok else "rc %d %d; outputs %s" % (rc1, rc2, "differ" if o1 != o2 else "equal"))

def run_solver_property(ctx, prop, codes, extra_theorem_files=(), focus_mix=("mixed", "single", "bounds", "updates"),
                        n_quick=40, n_thorough=400, preconds_quick=("ruiz", "identity"), regen=("consts",), extra_stage=None):
    vlib.regen(ctx, regen)
    vlib.coq_hygiene(ctx)
    vlib.coq_properties(ctx, prop, extra_files=extra_theorem_files)
    rng = ctx.rng
    N = n_quick if ctx.quick() else n_thorough
    cases = []
    for i in range(N):
        cases.append(SS.gen_history(rng, "g%d" % i, focus=focus_mix[i % len(focus_mix)]))
    # corpus first
    ctext = SS.corpus_cases()
    if ctext:
        res, _ = spine.correspond(ctx, "corpus", "".join(ctext), backends=spine.ALL_BACKENDS)
    half = len(cases) // 2
    SS.run_suite(ctx, cases[:half] if len(preconds_quick) > 1 else cases, preconds=("ruiz",), name=prop.lower() + "a", codes=codes)
    if len(preconds_quick) > 1:
        SS.run_suite(ctx, cases[half:], preconds=("identity",), name=prop.lower() + "b", codes=codes)
    extraction_crosscheck(ctx, ctext, cases)
    if extra_stage: extra_stage(ctx)
    # escalation: a proof / translator / correspondence obligation broke but no concrete failing input was found yet:
    # search with a larger budget (longer runs so that SOLVED results occur, more bound patterns) on the real code
    if any(not o["ok"] for o in ctx.obligations) and not ctx.violations:
        more = []
        for i in range(120 if ctx.quick() else 600):
            more.append(SS.gen_history(rng, "s%d" % i, focus=("bounds", "updates", "mixed")[i % 3],
                                       force_settings=[("max_iter", str(rng.choice([20, 40])))]))
        SS.run_suite(ctx, more, backends=("dense", "full", "all"), preconds=("ruiz",), name=prop.lower() + "s", codes=codes)
        ctx.notes.append("escalated search: %d additional histories" % len(more))
    ctx.coverage["rule"] = ("random call histories setup;(update|solve)*;solve on problems with n<=4, p<=2, m<=3 (dyadic data, checkpoint rounding to 64 bits), "
                            "run on the extracted Gallina model and on the xrat instantiation of all five back ends; a case is non-trivial/distinct by its "
                            "(dimensions, bound-kind pattern, update masks+reuse) signature")
    ctx.trusted += ["Coq 8.16.1 kernel (coqc); vm_compute only inside Example/finite-table proofs; no native_compute",
                    "extraction: ExtrOcamlBasic + ExtrOcamlZBigInt (all its Extract Constant/Inductive directives) + 2 own directives (Z.ggcd, Z.gcd -> Big_int_Z.gcd_big_int) + Z.log2 -> Zhelp.log2; OCaml 4.13.1, zarith 1.12",
                    "translator tools/gen_consts.py (numeric literals, Settings defaults, verify_settings)",
                    "harness: xrat exact scalar (GMP), exact_llt.hpp (exact LDL^T as the Eigen::LLT oracle), drv_solver.cpp, Eigen 3.4 semantics on a custom scalar, g++ 12",
                    "modelled not verified: floating-point rounding (all theorems are about the template text in exact arithmetic); Eigen::LLT/AMD as oracles; the sparse back ends are tied to the dense model only through exact equality of their outputs"]
    ctx.assumptions += ["inputs satisfy the documented contract (consistent dimensions, settings accepted by verify_settings)",
                        "exact arithmetic semantics of the C++ templates (scalar = exact rationals with checkpoint rounding hook H2 at 64 bits)"]
    return vlib.finish(ctx)
