"""C16, table part (theorem T1) -- the C API structs, enum and copy functions are a faithful projection of the core
structs.  To be merged into the C16 check by calling `tables_part(ctx)` before the correspondence layer."""
import vlib, tables_search as TS

EXPLANATION = ("tools/gen_tables.py re-extracts from $VERIF_REPO the fields of piqp::Settings/Info/Result/Status, of piqp_settings/"
               "piqp_info/piqp_result/piqp_status and every assignment of piqp_update_result, piqp_set_default_settings and both "
               "branches of piqp_update_settings into coq/gen/Tables.v (every statement of those functions must match an expected "
               "shape, otherwise the translator fails).  coq/Properties_C16T.v proves, by running the verified boolean checker of "
               "coq/TablesCheck.v on the regenerated tables, that each C field is assigned exactly once from the like-named core "
               "field and that types and enum values correspond.  tools/tables_search.py repeats the comparison in python and names "
               "each concrete discrepancy (file, line).")

def theorem_failures(ctx, prefix):
    return [o for o in ctx.obligations if o["kind"] == "theorem" and not o["ok"] and o["name"].startswith("theorem:" + prefix + ".")]

def translator_violation(ctx, msg):
    """the binding sources no longer have a shape the translator understands: the tie is broken, no tables exist"""
    line = next((l for l in msg.splitlines() if "TRANSLATOR-ERROR" in l), msg[:200])
    ctx.violation("translator-error " + line.replace("TRANSLATOR-ERROR gen_tables: ", "")[:160],
                  "tools/gen_tables.py could not translate the sources (coq/gen/Tables.v was replaced by an empty stub, so no theorem about the tables is accepted): " + msg[:1500],
                  {"translator_output": msg[:2000], "how": "VERIF_REPO=%s python3 tools/gen_tables.py" % vlib.REPO}, concrete=False)

def tables_part(ctx):
    terr = [msg for (_, ok, msg) in vlib.regen(ctx, ("tables",)) if not ok]
    vlib.coq_hygiene(ctx)
    vlib.coq_properties(ctx, "C16T")
    T, disc = TS.run_search(ctx, vlib.REPO, "c")
    failed = theorem_failures(ctx, "Properties_C16T")
    if terr:
        translator_violation(ctx, terr[0])
    elif failed and not disc:
        ctx.violation("obligation-failed:" + ",".join(o["name"] for o in failed[:6]),
                      "theorems over the regenerated tables failed but the python search found no discrepancy: " +
                      "; ".join("%s: %s" % (o["name"], o["detail"][:300]) for o in failed[:3]), {"failed_obligations": failed}, concrete=False)
    ctx.coverage["rule"] = "one evaluation per (field, binding, direction) triple of the C binding: struct declarations, enum values, piqp_update_result, piqp_set_default_settings, piqp_update_settings dense/sparse"
    ctx.trusted.append("tools/gen_tables.py (statement-shape parser of piqp.cpp / piqp_typedef.h / settings.hpp / results.hpp); C++ name lookup itself (that `solver_result.info.rho` denotes Info::rho) is taken from the compiler")
    return T, disc

def run(ctx):
    tables_part(ctx)
    return vlib.finish(ctx, level="proof", checker_cmd="python3 tools/gen_tables.py && make -C coq Properties_C16T.vo (coqc 8.16.1)", explanation=EXPLANATION)
