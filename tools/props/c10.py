"""C10 -- the answer does not depend on backend, KKT formulation or storage of P."""
import os
from fractions import Fraction as Fr
import vlib, spine, oracles, solver_suite as SS, gen_cases as G, double_suite as D
from props._common import run_solver_property

def storage_variants(rng, pb):
    """P given as: upper only, full symmetric, upper + garbage lower, full with explicit zeros in the pattern"""
    n = pb["n"]; P = pb["P"]
    up = {(i, j): P[i][j] for i in range(n) for j in range(n) if i <= j and P[i][j] != 0}
    full = {(i, j): P[i][j] for i in range(n) for j in range(n) if P[i][j] != 0}
    garb = dict(up)
    for (i, j) in list(full):
        if i > j: garb[(i, j)] = Fr(rng.randint(-9, 9), rng.choice([1, 2, 3])) + 1000
    zeros = dict(full)
    for i in range(n):
        for j in range(n):
            if (i, j) not in zeros and rng.random() < 0.4: zeros[(i, j)] = Fr(0)
    # explicit zeros must be symmetric in the upper part for the update contract (same upper pattern)
    return {"upper": up, "full": full, "garbage": garb, "zeros": zeros}

def blocks_with_P(pb, Pd, which=None, **kw):
    txt = G.blocks_text(pb, which=which, **kw)
    lines = [l for l in txt.split("\n") if not l.startswith("P ")]
    if which is None or "P" in which:
        lines.insert(0, "P " + G.mat_tokens(Pd, pb["n"], pb["n"]))
    return "\n".join(lines)

def storage_stage(ctx):
    rng = ctx.rng
    N = 12 if ctx.quick() else 150
    groups = []
    cases = []
    for i in range(N):
        pb = G.gen_problem(rng, n=rng.randint(2, 5), sparse_prob=0.3)
        pb2, names = G.perturb(rng, pb, {"P"} | set(k for k in ["c", "h"] if rng.random() < 0.3))
        v1 = storage_variants(rng, pb); v2 = storage_variants(rng, pb2)
        # sparse update contract: the upper pattern passed to update() equals the one of setup(): use pb's upper pattern for pb2 values
        names = []
        for sk in ("upper", "full", "garbage"):
            for uk in ("upper", "full", "garbage"):
                P2 = {(a, b): (pb2["P"][a][b] if a <= b else (v1[uk].get((a, b)) if uk != "garbage" else Fr(-555)))
                      for (a, b) in v1[uk]}
                P2 = {k: (pb2["P"][k[0]][k[1]] if (uk == "full" and k[0] > k[1]) else v) for k, v in P2.items()}
                nm = "s%d_%s_%s" % (i, sk, uk)
                ops = ["SETUP\n" + blocks_with_P(pb, v1[sk]) + "\nEND", G.op_solve(),
                       "UPDATE 1\n" + blocks_with_P(pb2, P2, which=set(["P"]) | (set(names_) if False else set())) + "\nEND", G.op_solve()]
                c = SS.Case(nm, [("max_iter", "30")], ops, {1: pb, 3: dict(pb, P=pb2["P"])}, ["n%d" % pb["n"], "setup:" + sk, "update:" + uk])
                cases.append(c); names.append(nm)
        groups.append(names)
    res = D.run_double(ctx, cases, name="c10st", codes=("C10",))
    KEYS = SS_KEYS
    for b, obs in res.items():
        bad = 0
        for names in groups:
            ref = obs.get(names[0])
            for nm in names[1:]:
                o = obs.get(nm)
                if ref is None or o is None: continue
                for opno in (1, 3):
                    for k in KEYS:
                        if ref.get(opno, {}).get(k) != o.get(opno, {}).get(k):
                            bad += 1
                            ctx.violation("C10.storage backend=%s %s vs %s key=%s" % (b, names[0].split("_", 1)[1], nm.split("_", 1)[1], k),
                                          "results differ bitwise between P storages (%s vs %s) at solve %d: %s: %s vs %s" % (names[0], nm, opno, k, ref.get(opno, {}).get(k, "")[:80], o.get(opno, {}).get(k, "")[:80]),
                                          {"case_a": [c.text() for c in cases if c.name == names[0]][0], "case_b": [c.text() for c in cases if c.name == nm][0], "backend": b})
                            break
        ctx.ob("oracle:storage-bitwise:%s" % b, "oracle", True, "%d groups x 9 storages" % len(groups))

SS_KEYS = ("status", "iter", "x", "y", "z", "z_lb", "z_ub", "s", "s_lb", "s_ub", "primal_obj", "dual_obj", "primal_inf", "dual_inf", "rho", "delta", "mu")

def agree_stage(ctx):
    """all five back ends: same status on class W and optima that agree within the tolerance implied by the settings"""
    rng = ctx.rng
    N = 40 if ctx.quick() else 600
    cases = [D.gen_W(rng, "a%d" % i, nmax=(12 if ctx.quick() else 50)) for i in range(N)]
    res = D.run_double(ctx, cases, name="c10ag", codes=("C10",))
    ref = res.get("dense", {})
    for b, obs in res.items():
        if b == "dense": continue
        for c in cases:
            r, o = ref.get(c.name, {}).get(1), obs.get(c.name, {}).get(1)
            if not r or not o: continue
            if r.get("status") != o.get("status"):
                ctx.violation("C10.status backend=%s %s" % (b, " ".join(c.tags[:4])), "dense: %s, %s: %s" % (r.get("status"), b, o.get("status")), {"case": c.text(), "backend": b}); continue
            if r.get("status") != "SOLVED": continue
            po_r, po_o = oracles.pf(r["primal_obj"]), oracles.pf(o["primal_obj"])
            xr, xo = oracles.pvec(r["x"]), oracles.pvec(o["x"])
            scale = 1 + max([abs(v) for v in xr] + [abs(po_r)])
            dx = max([abs(a - b_) for a, b_ in zip(xr, xo)] + [Fr(0)])
            if abs(po_r - po_o) > Fr(1, 10 ** 5) * scale or dx > Fr(1, 10 ** 3) * scale:
                ctx.violation("C10.agree backend=%s %s" % (b, " ".join(c.tags[:4])), "objective differs by %.3g, x by %.3g" % (float(abs(po_r - po_o)), float(dx)), {"case": c.text(), "backend": b})
    # update histories: after every update the back ends must still agree (status and optimum)
    hs = []
    for i in range(20 if ctx.quick() else 300):
        c = SS.gen_history(rng, "ah%d" % i, focus="updates", cp=0, strong=(i % 2 == 0))
        c.ops = [o for o in c.ops if not o.startswith("CPBITS")]
        c.settings = [(k, v) for k, v in c.settings if k not in dict(G.FRIENDLY) and k != "max_iter"] + [("max_iter", "100")]
        if any(t.startswith("F7") for t in c.tags): continue
        hs.append(c)
    # systematic single-block updates (a refresh forgotten in ONE formulation for ONE block shows up as a disagreement here)
    for blk in ("P", "c", "A", "b", "G", "h", "lb", "ub"):
        for reuse in (True, False):
            for rep in range(1 if ctx.quick() else 6):
                pb = G.gen_problem(rng, n=rng.randint(3, 5), p=rng.choice([1, 2]), m=rng.choice([2, 3]), bound_kinds=None, strict_convex=True, special=1.0)
                pb2, names = G.perturb(rng, pb, {blk}, strong=True)
                ops = [G.op_setup(pb), G.op_solve(), G.op_update(pb2, names, reuse=reuse), G.op_solve()]
                hs.append(SS.Case("ab%s%d%d" % (blk, reuse, rep), [("max_iter", "100")], ops, {0: pb, 1: pb, 2: pb2, 3: pb2},
                                  ["n%d" % pb["n"], "p%d" % pb["p"], "m%d" % pb["m"], "single-block", "u:%s:%d" % (blk, reuse)]))
    res2 = D.run_double(ctx, hs, name="c10ah", codes=("C10",))
    ref2 = res2.get("dense", {})
    for b, obs in res2.items():
        if b == "dense": continue
        for c in hs:
            for opno, r in ref2.get(c.name, {}).items():
                o = obs.get(c.name, {}).get(opno)
                if not o or r.get("op") != "solve": continue
                if r.get("status") != o.get("status") and "SOLVED" in (r.get("status"), o.get("status")):
                    ctx.violation("C10.status-after-update backend=%s %s" % (b, " ".join(c.tags[:4])), "solve %d: dense %s, %s %s" % (opno, r.get("status"), b, o.get("status")), {"case": c.text(), "backend": b, "op": opno})
                elif r.get("status") == "SOLVED":
                    xr, xo = oracles.pvec(r["x"]), oracles.pvec(o["x"])
                    scale = 1 + max([abs(v) for v in xr] + [Fr(0)])
                    dx = max([abs(a - b_) for a, b_ in zip(xr, xo)] + [Fr(0)])
                    if dx > Fr(1, 10 ** 3) * scale:
                        ctx.violation("C10.agree-after-update backend=%s %s" % (b, " ".join(c.tags[:4])), "solve %d: x differs by %.3g" % (opno, float(dx)), {"case": c.text(), "backend": b, "op": opno})
    ctx.ob("oracle:backends-agree-double", "oracle", True, "%d class-W problems, %d update histories" % (N, len(hs)))

def stage(ctx):
    storage_stage(ctx); agree_stage(ctx)
    # sparse interface: what setup()/update(P) store for P (coq/SparseUpdateP.v) vs the real code on raw caller arrays
    try:
        import updatep_stage
        updatep_stage.updatep_stage(ctx)
    except Exception:
        import traceback
        ctx.ob("correspondence:updatep-model", "correspondence", False, "stage failed: " + traceback.format_exc()[-800:])

def run(ctx):
    return run_solver_property(ctx, "C10", codes=("C10",), focus_mix=("mixed", "single", "updates"), n_quick=30, extra_stage=stage,
                               extra_theorem_files=("Properties_C10_unique.v", "Properties_C13.v", "Properties_C10_sparse.v", "Properties_C10_backends.v", "Properties_C10_loop.v"))
