"""C17 -- all language bindings expose the same fields with the same meaning.
Static part: translator -> coq/gen/Tables.v -> verified boolean checker (Properties_C17.v, Properties_C17_octave_in.v)
plus a python-level diff that names every concrete discrepancy.
Dynamic part: interfaces/matlab/piqp_mex.cpp compiled against a mock MEX runtime; every settings field is round-tripped
through mexFunction and every info/result field is read after a solve and compared with the table's prediction."""
import os, json
import vlib, tables_search as TS

EXPLANATION = ("tools/gen_tables.py re-extracts from $VERIF_REPO, on every run, the fields/defaults of the core structs and the "
               "name<->field correspondences of the C, pybind11, .pyi, Matlab and Octave sources and the documentation tables into "
               "coq/gen/Tables.v (every statement of the copy functions must match an expected shape, otherwise the translator "
               "fails).  coq/Properties_C17*.v prove, by running the verified checker of coq/TablesCheck.v on the regenerated "
               "tables, that each binding exposes exactly the core fields, each wired exactly once to the like-named core field in "
               "both directions, and that documented defaults and status codes equal the code's.  tools/tables_search.py repeats "
               "the comparison in python to name each discrepancy; harness/drv_mex.cpp runs the real piqp_mex.cpp under a mock MEX "
               "runtime and compares every field it transports with the table's prediction.")

OCT_FILE = "Properties_C17_octave_in.v"

def theorem_failures(ctx, prefix):
    return [o for o in ctx.obligations if o["kind"] == "theorem" and not o["ok"] and o["name"].startswith("theorem:" + prefix + ".")]

def static_part(ctx):
    terr = [msg for (_, ok, msg) in vlib.regen(ctx, ("tables",)) if not ok]
    vlib.coq_hygiene(ctx)
    vlib.coq_properties(ctx, "C17", extra_files=(OCT_FILE,))
    T, disc = TS.run_search(ctx, vlib.REPO, "all")
    # a failed theorem must be explained by a discrepancy in its own scope, otherwise it is reported on its own
    f_main = theorem_failures(ctx, "Properties_C17")
    f_oct = theorem_failures(ctx, OCT_FILE[:-2])
    d_oct = [d for d in disc if d["check"] == "oct_settings_in"]
    d_main = [d for d in disc if d["check"] != "oct_settings_in"]
    if terr:
        from props.c16t import translator_violation
        translator_violation(ctx, terr[0])
    for failed, ds, what in ((f_main, d_main, "Properties_C17"), (f_oct, d_oct, OCT_FILE[:-2])):
        if failed and not ds and not terr:
            ctx.violation("obligation-failed:" + ",".join(o["name"] for o in failed[:6]),
                          "theorems of %s over the regenerated tables failed but the python search found no discrepancy in their scope: " % what +
                          "; ".join("%s: %s" % (o["name"], o["detail"][:300]) for o in failed[:3]), {"failed_obligations": failed}, concrete=False)
    return T, disc

def run(ctx):
    T, disc = static_part(ctx)
    if T is not None:
        try:
            import mex_dynamic
            mex_dynamic.run(ctx, T)
        except ImportError:
            ctx.notes.append("dynamic mex part not available (tools/mex_dynamic.py missing)")
    ctx.coverage["rule"] = ("static: one evaluation per (field, binding, direction) triple over settings/info/result/status x "
                            "{c, c-dense, c-sparse, python, pyi, matlab, octave, docs, core}; dynamic: one per settings field and direction "
                            "through mexFunction (update_settings/get_settings, one-hot distinctive values) and per info/result field after a solve")
    ctx.trusted.append("tools/gen_tables.py (statement-shape parser of the binding sources; every statement of a copy function must match, else TRANSLATOR-ERROR); "
                       "C++ member lookup (that `settings.tau` denotes Settings::tau) is the compiler's; the pybind11/Octave runtimes are not executed")
    ctx.assumptions.append("Python, Octave bindings and the .pyi stub are checked at source level only (no pybind11/Octave runtime here); the Matlab binding is additionally executed under harness/mock_mex")
    return vlib.finish(ctx, level="proof", checker_cmd="python3 tools/gen_tables.py && make -C coq Properties_C17.vo Properties_C17_octave_in.vo (coqc 8.16.1) + harness/drv_mex.cpp against harness/mock_mex",
                       explanation=EXPLANATION)
