"""C14 -- factorisation and sparse kernels are exact on every pattern.

Proof side : coq/Properties_C14.v (theorems about the Gallina model coq/{CSC,LDLSparse,LDLDenseNP}.v).
Tie        : exact correspondence.  harness/drv_ldl.cpp runs the REAL templates of $VERIF_REPO on exact rationals
             (piqp::sparse::LDLt<xrat,int>, permute_sparse_symmetric_matrix, transpose_no_allocation,
             pre/post_mult_diagonal, AMDOrdering, dense ldlt_no_pivot unblocked/blocked/compute/solve); the extracted
             model (ocaml/drv_c14.ml) is run on the same cases; every printed array must be EQUAL.
Oracle     : implementation side, independent of the model: L D L^T - P A P^T == 0, A x == b, C == upper(A(p,p)),
             value-index map, transposes, scalings, restored outer index, no non-finite arithmetic, and the
             returned count equals the first zero pivot computed here with python Fractions.
"""
import os, sys, hashlib, itertools, shutil, subprocess
from fractions import Fraction as Fr
from concurrent.futures import ThreadPoolExecutor
import vlib

# ------------------------------------------------------------------ small exact linear algebra (python side oracle)
def py_ldl(A):
    """pivot-free LDL^T of a dense symmetric matrix; returns (index of first zero pivot or n, d)"""
    n = len(A)
    L = [[Fr(0)] * n for _ in range(n)]
    D = [Fr(0)] * n
    for k in range(n):
        d = A[k][k] - sum(L[k][c] * L[k][c] * D[c] for c in range(k))
        D[k] = d
        if d == 0:
            return k, D
        for i in range(k + 1, n):
            L[i][k] = (A[i][k] - sum(L[i][c] * L[k][c] * D[c] for c in range(k))) / d
    return n, D

def rq(rng, nz=False):
    num = rng.randint(-9, 9)
    if nz and num == 0: num = rng.choice([-3, -1, 1, 2])
    return Fr(num, rng.choice([1, 1, 1, 2, 3, 4]))

def fs(x): return str(x)

# ------------------------------------------------------------------ case building blocks
class Csc:
    def __init__(self, rows, cols, ap, ai, ax): self.rows, self.cols, self.ap, self.ai, self.ax = rows, cols, ap, ai, ax
    def text(self, name):
        return "MAT %s %d %d %d %s %s %s\n" % (name, self.rows, self.cols, len(self.ai), " ".join(map(str, self.ap)),
                                              " ".join(map(str, self.ai)), " ".join(map(fs, self.ax)))
    def sym_dense(self):
        n = self.rows
        A = [[Fr(0)] * n for _ in range(n)]
        for j in range(self.cols):
            for p in range(self.ap[j], self.ap[j + 1]):
                i = self.ai[p]
                A[i][j] += self.ax[p]
                if i != j: A[j][i] += self.ax[p]
        return A

def upper_pattern(n, mask):
    """full diagonal + strictly upper entries selected by the bits of mask (bit order: (0,1),(0,2),(1,2),(0,3),...)"""
    ap, ai, bit = [0], [], 0
    for j in range(n):
        for i in range(j):
            if (mask >> bit) & 1: ai.append(i)
            bit += 1
        ai.append(j)
        ap.append(len(ai))
    return ap, ai

def n_upper_bits(n): return n * (n - 1) // 2

def upper_values(rng, n, ap, ai, zero_prob=0.08):
    ax = []
    for j in range(n):
        for p in range(ap[j], ap[j + 1]):
            if ai[p] == j: ax.append(rq(rng, nz=True) * rng.choice([1, 1, -1]))
            else: ax.append(Fr(0) if rng.random() < zero_prob else rq(rng))
    return ax

def force_zero_pivot(M, k):
    """change the diagonal entry k of the upper csc so that pivot k is exactly zero (if pivots before k are nonzero)"""
    A = M.sym_dense()
    r, D = py_ldl([row[:k + 1] for row in A[:k + 1]])
    if r < k: return
    pos = M.ap[k + 1] - 1
    assert M.ai[pos] == k
    M.ax[pos] -= D[k]

def rand_rect(rng, m, n, dens=None, unsorted=False):
    dens = rng.choice([0.2, 0.5, 0.8]) if dens is None else dens
    ap, ai, ax = [0], [], []
    for j in range(n):
        rows = [i for i in range(m) if rng.random() < dens]
        if unsorted: rng.shuffle(rows)
        for i in rows: ai.append(i); ax.append(rq(rng))
        ap.append(len(ai))
    return Csc(m, n, ap, ai, ax)

def vec_text(name, v): return "VEC %s %d %s\n" % (name, len(v), " ".join(map(fs, v)))
def ivec_text(name, v): return "IVEC %s %d %s\n" % (name, len(v), " ".join(map(str, v)))
def dmat_text(name, M): return "DMAT %s %d %s\n" % (name, len(M), " ".join(fs(x) for r in M for x in r))

class Case:
    def __init__(self, name):
        self.name, self.decl, self.ops, self.expect, self.sig = name, "", [], {}, name
    def add(self, txt): self.decl += txt
    def op(self, *words, expect=None):
        if expect: self.expect[len(self.ops)] = expect
        self.ops.append(list(words))
    def text(self, subst=None):
        s = "CASE %s\n%s" % (self.name, self.decl)
        for k, o in enumerate(self.ops):
            if subst and k in subst: s += subst[k]
            else: s += "OP " + " ".join(o) + "\n"
        return s + "ENDCASE\n"

def expect_ret_sparse(A):
    r, _ = py_ldl(A)
    return {"ret": str(r)}

def permuted(A, p):
    n = len(A)
    return [[A[p[a]][p[c]] for c in range(n)] for a in range(n)]

# ------------------------------------------------------------------ case families
def case_sparse(rng, name, n, mask, perm=None, zero_pivot=None, with_rect=True, ops=("ldl", "permute", "ldlperm", "ordering", "amd", "transposeA", "rect")):
    c = Case(name)
    ap, ai = upper_pattern(n, mask)
    M = Csc(n, n, ap, ai, upper_values(rng, n, ap, ai))
    if zero_pivot is not None and n > 0: force_zero_pivot(M, zero_pivot)
    if perm is None:
        perm = list(range(n)); rng.shuffle(perm)
    b = [rq(rng) for _ in range(n)]
    c.add(M.text("A")); c.add(vec_text("b", b)); c.add(ivec_text("p", perm))
    A = M.sym_dense()
    c.sig = "n=%d,mask=%d,perm=%s,zp=%s" % (n, mask, "".join(map(str, perm)) if n <= 10 else "r", zero_pivot)
    if "ldl" in ops: c.op("ldl", "A", "b", expect=expect_ret_sparse(A))
    if "permute" in ops: c.op("permute", "A", "p")
    if "ldlperm" in ops: c.op("ldlperm", "A", "p", "b", expect=expect_ret_sparse(permuted(A, perm)))
    if "ordering" in ops: c.op("ordering", "p", "b")
    if "amd" in ops: c.op("amd", "A", "b")
    if "transposeA" in ops:
        c.op("transpose", "A")
        d = [rq(rng) for _ in range(n)]
        c.add(vec_text("dA", d)); c.op("premult", "A", "dA"); c.op("postmult", "A", "dA")
    if "rect" in ops:
        m2, n2 = rng.randint(0, max(1, n)), rng.randint(0, max(1, n + 1))
        G = rand_rect(rng, m2, n2, unsorted=rng.random() < 0.15)
        c.add(G.text("G")); c.add(vec_text("dr", [rq(rng) for _ in range(m2)])); c.add(vec_text("dc", [rq(rng) for _ in range(n2)]))
        c.op("transpose", "G"); c.op("premult", "G", "dr"); c.op("postmult", "G", "dc")
    return c

def case_rect(rng, name, m, n, mask):
    """every pattern of an m x n matrix (bit k of mask <-> entry (k % m, k // m))"""
    ap, ai, ax = [0], [], []
    for j in range(n):
        for i in range(m):
            if (mask >> (j * m + i)) & 1: ai.append(i); ax.append(rq(rng, nz=True))
        ap.append(len(ai))
    c = Case(name)
    c.sig = "rect %dx%d mask=%d" % (m, n, mask)
    c.add(Csc(m, n, ap, ai, ax).text("G")); c.add(vec_text("dr", [rq(rng) for _ in range(m)])); c.add(vec_text("dc", [rq(rng) for _ in range(n)]))
    c.op("transpose", "G"); c.op("premult", "G", "dr"); c.op("postmult", "G", "dc")
    return c

def dense_generic(rng, n, ints=False):
    A = [[Fr(0)] * n for _ in range(n)]
    for i in range(n):
        for j in range(i + 1):
            v = Fr(rng.randint(-9, 9)) if ints else rq(rng)
            if i == j and v == 0: v = Fr(rng.choice([-2, 1, 3]))
            A[i][j] = A[j][i] = v
    return A

def dense_constructed(rng, n, zero_at=None):
    """A = L0 D0 L0^T with small integer sparse L0, D0 (mixed signs, quasi-definite like): all intermediate values
    of the factorisation are small integers, so exact runs stay cheap for sizes beyond the blocking thresholds"""
    L = [dict() for _ in range(n)]        # row i -> {col: val}
    for i in range(n):
        for _ in range(rng.randint(0, 3)):
            if i > 0: L[i][rng.randrange(i)] = rng.choice([-2, -1, 1, 2])
        L[i][i] = 1
    D = [rng.choice([1, 2, 3]) * (1 if i < (2 * n) // 3 else -1) for i in range(n)]
    if zero_at is not None: D[zero_at] = 0
    A = [[Fr(0)] * n for _ in range(n)]
    for i in range(n):
        for j in range(i + 1):
            s = 0
            for c, v in L[i].items():
                w = L[j].get(c)
                if w is not None: s += v * D[c] * w
            A[i][j] = A[j][i] = Fr(s)
    return A

def case_dense(rng, name, A, expect_ret=None, ops=("dense_unblocked", "dense_blocked", "dense_compute")):
    n = len(A)
    c = Case(name)
    if expect_ret is None:
        r, _ = py_ldl(A)
        expect_ret = -1 if r == n else r
    c.sig = "dense n=%d ret=%d" % (n, expect_ret)
    c.add(dmat_text("M", A)); c.add(vec_text("b", [rq(rng) for _ in range(n)]))
    for o in ops:
        if o == "dense_compute": c.op(o, "M", "b", expect={"info": "0" if expect_ret < 0 else "1"})
        else: c.op(o, "M", expect={"ret": str(expect_ret)})
    return c

def gen_cases(ctx):
    rng, quick = ctx.rng, ctx.quick()
    cases = []
    # (a) every upper-triangular pattern with full diagonal: generic values and a forced zero pivot
    nmax = 3 if quick else 5
    for n in range(0, nmax + 1):
        for mask in range(1 << n_upper_bits(n)):
            cases.append(case_sparse(rng, "pat%d_%d" % (n, mask), n, mask, ops=("ldl", "amd", "transposeA")))
            if n > 0:
                cases.append(case_sparse(rng, "patz%d_%d" % (n, mask), n, mask, zero_pivot=rng.randrange(n), ops=("ldl",)))
    # (b) every pattern x every permutation
    pmax = 3 if quick else 4
    for n in range(0, pmax + 1):
        for mask in range(1 << n_upper_bits(n)):
            for perm in itertools.permutations(range(n)):
                cases.append(case_sparse(rng, "perm%d_%d_%s" % (n, mask, "".join(map(str, perm)) or "e"), n, mask, perm=list(perm),
                                         ops=("permute", "ldlperm", "ordering")))
    # (c) random larger
    nrand, nlim = (300, 8) if quick else (3000, 30)
    for k in range(nrand):
        n = rng.randint(1, nlim)
        dens = rng.choice([0.1, 0.3, 0.6, 1.0])
        mask = 0
        for bit in range(n_upper_bits(n)):
            if rng.random() < dens: mask |= 1 << bit
        zp = rng.randrange(n) if rng.random() < 0.25 else None
        cases.append(case_sparse(rng, "rnd%d" % k, n, mask, zero_pivot=zp))
    # (d) every rectangular pattern of small shapes (transpose / scaling), incl. empty shapes
    shapes = [(0, 0), (0, 2), (2, 0), (1, 1), (1, 3), (3, 1), (2, 2), (2, 3), (3, 2)] + ([] if quick else [(3, 3), (2, 4), (4, 2)])
    for (m, n) in shapes:
        for mask in range(1 << (m * n)):
            cases.append(case_rect(rng, "rect%dx%d_%d" % (m, n, mask), m, n, mask))
    # (e) dense: small generic, forced zero pivots, sizes across the blocking thresholds
    for k in range(40 if quick else 200):
        n = rng.randint(1, 9)
        A = dense_generic(rng, n)
        if rng.random() < 0.3:
            z = rng.randrange(n)
            r, D = py_ldl([row[:z + 1] for row in A[:z + 1]])
            if r >= z: A[z][z] -= D[z]
        cases.append(case_dense(rng, "dns%d" % k, A))
    for n in (31, 32, 33, 40):
        cases.append(case_dense(rng, "dgen%d" % n, dense_generic(rng, n, ints=True)))
        z = rng.randrange(n)
        cases.append(case_dense(rng, "dcz%d" % n, dense_constructed(rng, n, zero_at=z), expect_ret=z))
    big = (127, 128, 129, 130, 257) if quick else (64, 127, 128, 129, 130, 255, 256, 257, 300)
    for n in big:
        cases.append(case_dense(rng, "dcon%d" % n, dense_constructed(rng, n), expect_ret=-1, ops=("dense_blocked", "dense_compute")))
        z = rng.randrange(n // 2, n)
        cases.append(case_dense(rng, "dconz%d" % n, dense_constructed(rng, n, zero_at=z), expect_ret=z, ops=("dense_blocked",)))
    if not quick:
        for n in (127, 128, 130, 256, 257):    # generic integer entries: exact runs with long fractions (n = 257: ~90 s per side)
            cases.append(case_dense(rng, "dgen%d" % n, dense_generic(rng, n, ints=True), expect_ret=-1, ops=("dense_blocked", "dense_compute")))
    return cases

# ------------------------------------------------------------------ builds
MODEL_SRC = ["coq/Base.v", "coq/CSC.v", "coq/LDLSparse.v", "coq/LDLDenseNP.v", "coq/C14LemmasProofs.v", "coq/PatternsProofs.v", "coq/LDLSparseProofs.v", "ocaml/ExtractC14.v", "ocaml/drv_c14.ml", "ocaml/build_c14.sh", "ocaml/zhelp.ml"]

def build_model14(ctx):
    h = hashlib.sha256()
    for f in MODEL_SRC:
        h.update(f.encode()); h.update(open(os.path.join(vlib.VERIF, f), "rb").read())
    exe = os.path.join(vlib.CACHE, "drv_c14-%s" % h.hexdigest()[:24])
    if os.path.exists(exe):
        os.utime(exe, None); return exe, "cached"
    rc, out = vlib.coq_make(ctx, ["Base.vo", "CSC.vo", "LDLSparse.vo", "LDLDenseNP.vo", "LDLSparseProofs.vo"])
    if rc != 0: return None, "model does not compile: " + out[-1500:]
    wd = os.path.join(ctx.work, "model14")
    rc, out = vlib.sh([os.path.join(vlib.VERIF, "ocaml", "build_c14.sh"), wd], timeout=900)
    built = os.path.join(wd, "drv_c14")
    if rc != 0 or not os.path.exists(built): return None, "model build failed: " + out[-1500:]
    shutil.copy2(built, exe)
    return exe, "built"

# ------------------------------------------------------------------ running and judging
IGNORE_PREFIX = "oracle_"

def split_key(k):
    op, _, key = k.partition(".")
    return int(op), key

def run_to_file(exe, casefile, outfile, timeout):
    """run a driver with stdout in a file, so that the partial output survives a crash or a timeout"""
    with open(outfile, "w") as fo:
        try:
            p = subprocess.run([exe, casefile], stdout=fo, stderr=subprocess.PIPE, timeout=timeout)
            rc, err = p.returncode, p.stderr.decode(errors="replace")[-400:]
        except subprocess.TimeoutExpired:
            rc, err = 124, "[timeout after %ss]" % timeout
    return rc, open(outfile, errors="replace").read(), err

def run_chunk(ctx, idx, chunk, impl, model, timeout):
    """returns list of findings: (kind, case, opidx, key, detail, impl_val, model_val)"""
    finds = []
    byname = {c.name: c for c in chunk}
    cf = os.path.join(ctx.work, "c14_%d.cases" % idx)
    open(cf, "w").write("".join(c.text() for c in chunk))
    rc1, o1, e1 = run_to_file(impl, cf, cf + ".impl.out", timeout)
    a = vlib.parse_obs(o1)
    if rc1 != 0:
        begun = [l.split()[2] for l in o1.splitlines() if l.startswith("# begin ")]
        ended = set(l.split()[2] for l in o1.splitlines() if l.startswith("# end "))
        bad = [n for n in begun if n not in ended]
        nm = bad[-1] if bad else (begun[-1] if begun else chunk[0].name)
        finds.append(("crash", nm, -1, "rc=%d" % rc1, "the implementation driver stopped abnormally (rc=%d: crash, out-of-bounds access or timeout) inside this case: %s" % (rc1, e1[-300:]), "", ""))
        chunk = [c for c in chunk if c.name in ended]
    # model input: the AMD permutation is an oracle of the model, taken from the implementation's output
    mtxt = []
    for c in chunk:
        subst = {}
        obs = dict(a.get(c.name, []))
        for k, o in enumerate(c.ops):
            if o[0] == "amd":
                P = obs.get("%d.P" % k)
                if P is None or ("%d.perm" % k) not in obs: subst[k] = "OP skip\n"
                else: subst[k] = "IVEC amdP%d %s\nOP ordering_full amdP%d %s\n" % (k, P, k, o[2])
        mtxt.append(c.text(subst))
    mf = os.path.join(ctx.work, "c14_%d.mcases" % idx)
    open(mf, "w").write("".join(mtxt))
    rc2, o2, e2 = run_to_file(model, mf, mf + ".model.out", timeout)
    if rc2 != 0:
        finds.append(("machinery", chunk[0].name if chunk else "?", -1, "model-driver", "model driver failed rc=%d: %s" % (rc2, e2[-400:]), "", ""))
        return finds, 0
    b = vlib.parse_obs(o2)
    nev = 0
    for c in chunk:
        ia, ib = a.get(c.name, []), b.get(c.name, [])
        da = {k: v for k, v in ia}
        db = {k: v for k, v in ib}
        nev += len(c.ops)
        # oracles (implementation side only)
        for k, v in ia:
            op, key = split_key(k)
            if key == "nonfinite" and v != "0":
                finds.append(("oracle", c.name, op, key, "non-finite arithmetic (division by zero) happened in the implementation", v, "0"))
            elif key == "exception":
                finds.append(("oracle", c.name, op, key, "Eigen assertion failed inside the implementation: " + v, v, ""))
            elif key.startswith(IGNORE_PREFIX):
                want = "1" if key == "oracle_zero_pivot" else "0"
                if v.split()[0] != want:
                    finds.append(("oracle", c.name, op, key, "implementation-side exact oracle %s = %s (expected %s)" % (key, v, want), v, want))
        for op, ex in c.expect.items():
            if ("%d.exception" % op) in da: continue
            for key, want in ex.items():
                got = da.get("%d.%s" % (op, key))
                if got != want:
                    finds.append(("oracle", c.name, op, key, "returned %s = %s but the first zero pivot computed independently (python Fractions) gives %s" % (key, got, want), str(got), want))
        # model-side certificate per tested pattern (upper, full diagonal): index-only check of theorem numeric_erase
        for k, v in ib:
            op, key = split_key(k)
            if key.startswith("model_") and v != "1":
                finds.append(("oracle", c.name, op, key, "the index-only check of the model fails on this pattern (%s = %s)" % (key, v), "", v))
        # correspondence
        ka = [k for k, _ in ia if not split_key(k)[1].startswith(IGNORE_PREFIX) and split_key(k)[1] not in ("nonfinite", "exception")]
        kb = [k for k, _ in ib if not split_key(k)[1].startswith("model_")]
        for k in sorted(set(ka) | set(kb), key=lambda s: (split_key(s)[0], s)):
            if da.get(k) != db.get(k):
                op, key = split_key(k)
                finds.append(("corr", c.name, op, key, "implementation and model differ", str(da.get(k))[:300], str(db.get(k))[:300]))
                break
    return finds, nev

def run(ctx):
    vlib.coq_hygiene(ctx)
    vlib.coq_properties(ctx, "C14", extra_files=("Properties_C14_general.v", "Properties_C14_perm_sorted.v"))
    impl, msg1 = vlib.build_harness(ctx, src="drv_ldl.cpp", name="drv_ldl")
    model, msg2 = build_model14(ctx)
    if impl is None:
        ctx.ob("correspondence:c14", "correspondence", False, "harness build: " + msg1)
        return vlib.finish(ctx)
    if model is None:
        ctx.ob("correspondence:c14", "correspondence", False, "model build: " + msg2)
        return vlib.finish(ctx)
    cases = gen_cases(ctx)
    byname = {c.name: c for c in cases}
    # big dense cases in their own chunks
    small = [c for c in cases if len(c.decl) < 30000]
    large = [c for c in cases if len(c.decl) >= 30000]
    CH = 250
    chunks = [small[i:i + CH] for i in range(0, len(small), CH)] + [[c] for c in large]
    timeout = 100 if ctx.quick() else 1500
    finds, nev = [], 0
    with ThreadPoolExecutor(max_workers=vlib.NPROC) as ex:
        futs = [ex.submit(run_chunk, ctx, i, ch, impl, model, timeout) for i, ch in enumerate(chunks)]
        for f in futs:
            fd, n = f.result(); finds += fd; nev += n
    for c in cases: ctx.classes.add(c.sig)
    ctx.coverage["evaluations"] = nev
    ctx.coverage["samples"] = [cases[0].text(), cases[len(cases) // 2].text()[:3000]]
    ctx.coverage["rule"] = ("all upper patterns with full diagonal n<=%d (generic values + forced zero pivot); all patterns x all permutations n<=%d; "
                            "%s random n<=%d; all rectangular patterns of small shapes; dense generic n<=9, 31..40 (thorough: 127..130, 256, 257), constructed 127..130, 257 (thorough: 64..300)"
                            % ((3, 3, 300, 8) if ctx.quick() else (5, 4, 3000, 30)))
    corr = [f for f in finds if f[0] == "corr"]
    orac = [f for f in finds if f[0] in ("oracle", "crash")]
    mach = [f for f in finds if f[0] == "machinery"]
    ctx.ob("correspondence:c14:model==implementation", "correspondence", not corr and not mach,
           "; ".join("%s op%d(%s) %s impl=%s model=%s" % (f[1], f[2], opname(byname, f), f[3], f[5][:60], f[6][:60]) for f in (corr + mach)[:5]))
    ctx.ob("oracle:c14:exact-residuals-and-zero-pivot", "oracle", not orac,
           "; ".join("%s op%d(%s) %s: %s" % (f[1], f[2], opname(byname, f), f[3], f[4][:120]) for f in orac[:5]))
    seen = set()
    for f in orac + corr:
        kind, nm, op, key, detail, iv, mv = f
        sig = "%s:%s:%s" % (kind, opname(byname, f), key)
        if sig in seen: continue
        seen.add(sig)
        c = byname.get(nm)
        ctx.violation(sig, "%s [case %s: %s] %s; implementation=%s expected/model=%s" % (sig, nm, c.sig if c else "", detail, iv, mv),
                      {"case_file_text": c.text() if c and len(c.decl) < 20000 else (c.text()[:20000] + "...[truncated]" if c else ""),
                       "op_index": op, "op": opname(byname, f), "key": key, "implementation": iv, "model_or_expected": mv,
                       "how": "write case_file_text to a file F; $CACHE/drv_ldl-* F runs the real code, $CACHE/drv_c14-* F the extracted model"},
                      concrete=True)
    ctx.trusted.append("xrat exact scalar (harness/xrat.hpp), Eigen, OCaml extraction with zarith (ExtrOcamlZBigInt), python Fractions for the expected pivot index")
    ctx.assumptions.append("Eigen's AMD ordering is an oracle of the model: its output permutation is checked to be a permutation and fed to the model")
    ctx.assumptions.append("permute_sparse_symmetric_matrix is exercised on matrices that store the upper triangle only (its use in PIQP)")
    return vlib.finish(ctx, explanation="Gallina model of ldlt.hpp/utils.hpp/ordering.hpp/ldlt_no_pivot.hpp proved (see Properties_C14.v for what is general and what is bounded) and run against the xrat instantiation of the real templates; outputs compared for equality")

def opname(byname, f):
    c = byname.get(f[1])
    if c is None or f[2] < 0 or f[2] >= len(c.ops): return "?"
    return c.ops[f[2]][0]
