"""C07 -- results are a function of the inputs only."""
import os, re
import vlib, spine, oracles, solver_suite as SS, gen_cases as G, double_suite as D

KEYS_SKIP = ("trace",)

def norm(obs_text):
    return "\n".join(l for l in obs_text.splitlines() if not any(l.split(" ", 1)[0].endswith("." + k) for k in KEYS_SKIP))

def reorder(rev_text, plain_text):
    """the lines of a run over the reversed case list, put back into the case order of the plain run"""
    groups = {}
    for l in rev_text.splitlines(): groups.setdefault(l.split(".", 1)[0], []).append(l)
    order = []
    for l in plain_text.splitlines():
        k = l.split(".", 1)[0]
        if k not in order: order.append(k)
    out = []
    for k in order: out += groups.pop(k, [])
    for k in groups: out += groups[k]
    return "\n".join(out)

def first_diff(a, b):
    la, lb = a.splitlines(), b.splitlines()
    for i in range(max(len(la), len(lb))):
        x = la[i] if i < len(la) else "<missing>"; y = lb[i] if i < len(lb) else "<missing>"
        if x != y: return x[:160], y[:160]
    return None

def run(ctx):
    vlib.regen(ctx, ("consts",))
    vlib.coq_hygiene(ctx)
    vlib.coq_properties(ctx, "C07", extra_files=("Properties_Bounds.v",))
    rng = ctx.rng
    # ---------- exact runs: taint (reads of never-written memory) and independence of the junk filler
    N = 30 if ctx.quick() else 400
    cases = []
    for i in range(N):
        c = SS.gen_history(rng, "j%d" % i, focus=("updates", "bounds", "mixed")[i % 3])
        if i % 4 == 0:   # paths through factorisation retries
            L = rng.randint(1, 8); plan = [1 if rng.random() < 0.6 else 0 for _ in range(L)]
            c.ops.insert(2, "FAULTS %d %s" % (L, " ".join(map(str, plan)))); c.tags.append("faults%d" % sum(plan))
        cases.append(c)
    # targeted: failures on the very first factorisations of the first solve (retry branch before any iterate exists),
    # and a first solve that gives up (NUMERICS) before the initial point is computed
    for i, plan in enumerate(([1, 1], [1, 1, 1, 0], [1] * 6, [1] * 8, [1, 0, 1, 1])):
        pb = G.gen_problem(rng)
        st = list(G.FRIENDLY) + [("max_iter", "6"), ("max_factor_retires", str(1 + i % 3))]
        ops = ["CPBITS 64", G.op_setup(pb), "FAULTS %d %s" % (len(plan), " ".join(map(str, plan))), G.op_solve(), G.op_solve()]
        cases.append(SS.Case("t%d" % i, st, ops, {1: pb, 2: pb}, ["first-solve-faults:" + "".join(map(str, plan))]))
    built = vlib.build_many(ctx, [spine.build_impl(ctx, b, "ruiz") for b in spine.ALL_BACKENDS])
    for b, (exe, msg) in zip(spine.ALL_BACKENDS, built):
        obn = "oracle:junk-independence:%s" % b
        if exe is None: ctx.ob(obn, "oracle", False, msg); continue
        outs = []
        for jm in (0, 1, 2, 3):
            cf = os.path.join(ctx.work, "c07_%s_%d.cases" % (b, jm))
            open(cf, "w").write("".join(c.text().replace("CPBITS 64", "JUNK %d\nCPBITS 64" % jm) for c in cases))
            rc, o = vlib.run_bin(exe, cf)
            if rc != 0: ctx.ob(obn, "oracle", False, "rc=%d %s" % (rc, o[-400:])); outs = None; break
            outs.append(norm(o))
        if outs is None: continue
        ctx.ob(obn, "oracle", True, "4 junk fillers x %d histories" % N)
        byname = {c.name: c for c in cases}
        # (a) no output may be computed from never-written memory
        for ln in outs[0].splitlines():
            if re.search(r"(^| )\?( |$)", ln):
                cname = ln.split(".", 1)[0]; key = ln.split(" ", 1)[0]
                if key.endswith(".pc.delta_lb_inv") or key.endswith(".pc.delta_ub_inv"): continue
                c = byname.get(cname)
                ctx.violation("C07.uninit backend=%s key=%s %s" % (b, key.split(".", 2)[2], " ".join(c.tags[-3:]) if c else ""),
                              "output computed from never-written memory: %s" % ln[:200], {"case": c.text() if c else cname, "backend": b})
        # (b) identical outputs whatever the unwritten memory contains
        for jm in (1, 2, 3):
            d = first_diff(outs[0], outs[jm])
            if d:
                cname = d[0].split(".", 1)[0]; c = byname.get(cname)
                ctx.violation("C07.junk-dependence backend=%s filler=%d key=%s" % (b, jm, d[0].split(" ", 1)[0].split(".", 2)[-1]),
                              "results depend on the content of unwritten memory: %s vs %s" % d, {"case": c.text() if c else cname, "backend": b, "filler": jm})
    for c in cases: ctx.classes.add("junk " + " ".join(c.tags))
    ctx.coverage["evaluations"] = N * 5 * 4
    # ---------- double runs: heap pre-state, verbose/timing switches, threads vs sequential
    M = 40 if ctx.quick() else 500
    dc = [SS.gen_history(rng, "m%d" % i, focus=("updates", "mixed")[i % 2], cp=0) for i in range(M)]
    for c in dc:
        c.ops = [o for o in c.ops if not o.startswith("CPBITS")]
        c.settings = [(k, v) for k, v in c.settings if k not in dict(G.FRIENDLY)] + [("max_iter", "40")]
    # instance independence: a second family with iterative refinement always on and a visible static regularisation, on problems
    # whose P has very different magnitudes: any state shared between solver objects (a function-local static, a global cache)
    # makes a result depend on which OTHER problems were solved before it in the same process
    from fractions import Fraction as Fr
    for i in range(M // 2):
        pb = G.gen_problem(rng)
        sc = Fr(10) ** rng.choice([-2, 0, 0, 2, 4, 6, 8])
        pb = dict(pb, P=[[v * sc for v in row] for row in pb["P"]], c=[v * sc for v in pb["c"]], gen_tags=list(pb.get("gen_tags", [])) + ["Pscale%g" % float(sc)])
        c = SS.gen_history(rng, "q%d" % i, focus="updates", cp=0, pb=pb,
                           force_settings=[("iterative_refinement_always_enabled", "1"),
                                           ("iterative_refinement_static_regularization_rel", rng.choice(["1/1024", "1/1048576"]))])
        c.tags.append("refine-always")
        dc.append(c)
    for c in dc:
        c.ops = [o for o in c.ops if not o.startswith("CPBITS")]
        c.settings = [(k, v) for k, v in c.settings if k not in dict(G.FRIENDLY)]
        c.settings = [(k, v) for k, v in c.settings if k != "max_iter"] + [("max_iter", "40")]
    text = "".join(c.text() for c in dc)
    text_rev = "".join(c.text() for c in reversed(dc))
    textv = "".join(c.text().replace("SETUP\n", "SET verbose 1\nSET compute_timings 1\nSETUP\n", 1) for c in dc)
    dbuilt = vlib.build_many(ctx, [spine.build_impl(ctx, b, "ruiz", scalar="double") for b in spine.ALL_BACKENDS])
    for b, (exe, msg) in zip(spine.ALL_BACKENDS, dbuilt):
        obn = "oracle:memory-prestate:%s" % b
        if exe is None: ctx.ob(obn, "oracle", False, msg); continue
        cf = os.path.join(ctx.work, "c07d_%s.cases" % b); open(cf, "w").write(text)
        cfv = os.path.join(ctx.work, "c07dv_%s.cases" % b); open(cfv, "w").write(textv)
        cfr = os.path.join(ctx.work, "c07dr_%s.cases" % b); open(cfr, "w").write(text_rev)
        runs = {}
        for tag, env, args, f in (("plain", {}, [], cf), ("perturb85", {"MALLOC_PERTURB_": "85"}, [], cf), ("perturb255", {"MALLOC_PERTURB_": "255"}, [], cf),
                                  ("perturb1", {"MALLOC_PERTURB_": "1"}, [], cf), ("threads8", {"MALLOC_PERTURB_": "170"}, ["--threads", "8"], cf), ("reversed-order", {}, [], cfr),
                                  ("verbose+timings", {"VERIF_OBS_FILE": os.path.join(ctx.work, "obs_%s.txt" % b)}, [], cfv)):
            rc, o = vlib.run_bin(exe, f, args=args, env=env, timeout=900)
            if rc != 0: ctx.ob(obn, "oracle", False, "%s rc=%d %s" % (tag, rc, o[-300:])); runs = None; break
            if "VERIF_OBS_FILE" in env: o = open(env["VERIF_OBS_FILE"]).read()
            runs[tag] = norm(o)
            if tag == "reversed-order": runs[tag] = reorder(runs[tag], runs["plain"])
        if runs is None: continue
        ctx.ob(obn, "oracle", True, "7 executions x %d histories" % len(dc))
        byname = {c.name: c for c in dc}
        for tag in runs:
            if tag == "plain": continue
            d = first_diff(runs["plain"], runs[tag])
            if d:
                cname = d[0].split(".", 1)[0]; c = byname.get(cname)
                ctx.violation("C07.%s backend=%s key=%s" % (tag, b, d[0].split(" ", 1)[0].split(".", 2)[-1]),
                              "bitwise different results between the plain run and the '%s' run: %s vs %s" % (tag, d[0], d[1]),
                              {"case": c.text() if c else cname, "backend": b, "variant": tag})
    for c in dc: ctx.classes.add("mem " + " ".join(c.tags))
    ctx.coverage["evaluations"] += M * 5 * 6
    ctx.coverage["rule"] = ("exact runs with 4 different fillers for never-written memory (xrat default construction carries a taint bit that propagates through arithmetic): "
                            "no output may be tainted and all outputs must be identical; double runs: glibc MALLOC_PERTURB_ 1/85/255, 8 threads vs sequential, the same cases in reversed order in one process (instance independence; refinement always on, visible static regularisation, P magnitudes 1e-2..1e8), verbose+timings on vs off: bitwise equal")
    ctx.coverage["samples"] = [cases[0].text()[:1500]]
    ctx.trusted += ["Coq 8.16.1 kernel", "xrat taint tracking (harness)", "glibc MALLOC_PERTURB_ for heap pre-states; default-initialised solver object (no zero fill)"]
    ctx.assumptions += ["data races inside libc/Eigen are outside the model; TSan/valgrind runs are not part of the quick tier"]
    return vlib.finish(ctx)
