"""C05 -- Rejected calls leave the solver unchanged and usable.

  regen        tools/gen_events.py -> coq/gen/Events.v: statement order of DenseSolver::update, SparseSolver::update,
               SolverBase::solve (+ head of solve_impl) as Guard / Mutate / Pure events; conjuncts of verify_settings()
  proofs       coq/Properties_C05.v (general: T1 checks_first_sound, loops, T4 rejected_then_valid_same) and, one file
               each, Properties_C05_dense.v / _sparse.v / _solve.v: `call_checks_first <regenerated list> = true`
               (computation) and its consequence for every run of the interpreter
  twin oracle  harness/drv_reject.cpp (double, bitwise, independent of the Coq model): a valid history on solver A, the
               same history with rejected calls injected on solver B; after every injected call the whole observable
               state of B must equal A's, after every later valid call again; every injected call must report (message on
               stderr or status).  Plain build (Eigen assertions on) and an ASan+UBSan build (-DNDEBUG) of the same driver;
               both solvers live in memory pre-filled with 0x5a.
  search       the twin oracle IS the search: every mismatch / crash / sanitizer report / silent rejection is a
               VIOLATION with the case text in the replay file.
"""
import os, re, json, itertools
from fractions import Fraction as Fr
import vlib
import gen_cases as G

BACKENDS = {"dense": 0, "sparse": 1, "sparse_eq": 2, "sparse_ineq": 3, "sparse_all": 4}
VEC_ARGS = {"c": "n", "b": "p", "h": "m", "lb": "n", "ub": "n"}
API_NAME = {"lb": "x_lb", "ub": "x_ub"}
FALLBACK_TERMS = [("rho_init", ">", "0", "T"), ("delta_init", ">", "0", "T"), ("eps_abs", ">", "0", "T"), ("eps_rel", ">=", "0", "T"),
                  ("eps_duality_gap_abs", ">", "0", "T"), ("eps_duality_gap_rel", ">=", "0", "T"), ("reg_lower_limit", ">", "0", "T"),
                  ("reg_finetune_primal_update_threshold", ">=", "0", "isize"), ("reg_finetune_dual_update_threshold", ">=", "0", "isize"),
                  ("max_iter", ">", "0", "isize"), ("max_factor_retires", ">", "0", "isize"), ("preconditioner_iter", ">=", "0", "isize"),
                  ("tau", ">", "0", "T"), ("tau", "<=", "1", "T"), ("iterative_refinement_eps_abs", ">", "0", "T"),
                  ("iterative_refinement_eps_rel", ">=", "0", "T"), ("iterative_refinement_max_iter", ">=", "0", "isize"),
                  ("iterative_refinement_min_improvement_rate", ">=", "1.0", "T"),
                  ("iterative_refinement_static_regularization_eps", ">", "0", "T"), ("iterative_refinement_static_regularization_rel", ">=", "0", "T")]

# ------------------------------------------------------------------------------------------------ injected calls
class Inj:
    """one rejected call: text of the op (without the 'INJ label' prefix), and its classification"""
    def __init__(self, call, arg, wrong, text):
        self.call, self.arg, self.wrong, self.text = call, arg, wrong, text
    def label(self):
        return re.sub(r"[^A-Za-z0-9_+.\-]", "_", "%s:%s:%s" % (self.call, self.arg, self.wrong))

def dense_mat_line(name, rows, cols, k=0):
    ent = []
    for j in range(cols):
        for i in range(rows):
            v = Fr(3 + ((i * 7 + j * 3 + k) % 5), 2) if i == j else Fr(((i + 2 * j + k) % 3) - 1, 4)
            if name == "P" and i != j: v = Fr(1, 8)          # symmetric
            if v != 0: ent.append("%d %d %s" % (i, j, G.fs(v)))
    return "%s %d %d %d %s" % (name, rows, cols, len(ent), " ".join(ent))

def vec_line(name, size, k=0):
    return "%s %d %s" % (name, size, " ".join(G.fs(Fr(1 + (i + k) % 3, 2)) for i in range(size)))

def vec_variants(size):
    out = [("size+1", size + 1)]
    if size - 1 >= 1: out.append(("size-1", size - 1))
    if size != 0: out.append(("size0", 0))
    return out

def mat_variants(name, rows, cols):
    out = [("rows+1", rows + 1, cols), ("cols+1", rows, cols + 1)]
    if rows >= 1: out.append(("rows-1", rows - 1, cols))
    if cols >= 1: out.append(("cols-1", rows, cols - 1))
    if (rows, cols) != (0, 0): out.append(("0x0", 0, 0))
    if name == "P":
        out.append(("n+1-square", rows + 1, cols + 1))
        if rows >= 2: out.append(("n-1-square", rows - 1, cols - 1))
    return out

def pattern_variants(pb, name, sparse):
    """sparse only: same dimensions, non-matching pattern that the solver detects (nnz count / column count)"""
    if not sparse: return []
    out = []
    n, p, m = pb["n"], pb["p"], pb["m"]
    if name in ("A", "G"):
        rows = p if name == "A" else m
        if rows == 0: return []
        pat = list(pb["pat" + name]); M = pb[name]
        free = [(i, j) for i in range(rows) for j in range(n) if (i, j) not in set(pat)]
        if free:
            d = {(i, j): M[i][j] + 1 for (i, j) in pat}; d[free[0]] = Fr(1, 2)
            out.append(("nnz+1", "%s %s" % (name, G.mat_tokens(d, rows, n))))
        if pat:
            d = {(i, j): M[i][j] + 1 for (i, j) in pat[:-1]}
            out.append(("nnz-1", "%s %s" % (name, G.mat_tokens(d, rows, n))))
    if name == "P":
        pat = list(pb["patP"]); M = pb["P"]
        last = [(i, j) for (i, j) in pat if j == n - 1 and i <= j]
        if last:
            drop = last[-1]
            d = {(i, j): M[i][j] + (2 if i == j else 0) for (i, j) in pat if (i, j) != drop}
            out.append(("colnnz-1", "P %s" % G.mat_tokens(d, n, n)))
            # the same deficient column hidden behind a surplus in EARLIER columns (full symmetric storage plus explicit entries in the
            # lower part of column 0): total and cumulative counts are large enough, only the per-column count of the last column is not
            if n >= 2:
                d2 = {}
                for (i, j) in pat:
                    v = M[i][j] + (2 if i == j else 0)
                    d2[(i, j)] = v; d2[(j, i)] = v
                for i in range(1, n): d2.setdefault((i, 0), Fr(1, 2))
                if drop[0] != drop[1]: d2.pop((drop[1], drop[0]), None)   # keeps column drop[0] unchanged in its upper part
                d2.pop(drop, None)
                out.append(("colnnz-1-padded", "P %s" % G.mat_tokens(d2, n, n)))
    return out

def update_injections(rng, pb, sparse, styles=("alone", "with-all")):
    """every argument x every wrong size (and pattern), alone or together with valid new values of all other blocks"""
    n, p, m = pb["n"], pb["p"], pb["m"]
    dims = {"n": n, "p": p, "m": m}
    wrong_lines = []      # (arg, wrong, line)
    for name, (r, c) in (("P", (n, n)), ("A", (p, n)), ("G", (m, n))):
        for w, rr, cc in mat_variants(name, r, c): wrong_lines.append((name, w, dense_mat_line(name, rr, cc)))
        for w, line in pattern_variants(pb, name, sparse): wrong_lines.append((name, w, line))
    for name, dk in VEC_ARGS.items():
        for w, sz in vec_variants(dims[dk]): wrong_lines.append((name, w, vec_line(name, sz)))
    pb2, _ = G.perturb(rng, pb, {"P", "c", "A", "b", "G", "h", "lb", "ub"})
    valid = {ln.split(" ", 1)[0]: ln for ln in G.blocks_text(pb2).split("\n") if ln}
    order = ["P", "c", "A", "b", "G", "h", "lb", "ub"]
    out = []
    for arg, w, line in wrong_lines:
        for style in styles:
            if style == "alone": lines = [line]
            else: lines = [line if k == arg else valid[k] for k in order if k == arg or k in valid]
            reuse = 1 if rng.random() < 0.7 else 0
            out.append(Inj("update", API_NAME.get(arg, arg), "%s/%s" % (w, style), "UPDATE %d\n%s\nEND" % (reuse, "\n".join(lines))))
    return out

def bad_setting_values(term):
    f, op, bound, ty = term
    b = Fr(bound)
    if ty == "isize":
        if op == ">": return [str(int(b)), str(int(b) - 1)]
        if op == ">=": return [str(int(b) - 1)]
        if op == "<": return [str(int(b))]
        return [str(int(b) + 1)]
    if op == ">": return [G.fs(b), G.fs(b - 1), "nan"]
    if op == ">=": return [G.fs(b - Fr(1, 2)), "nan"]
    if op == "<": return [G.fs(b), G.fs(b + 1)]
    return [G.fs(b + 1)]

def solve_injections(terms, all_values=True):
    out = []
    for t in terms:
        vals = bad_setting_values(t)
        for v in (vals if all_values else vals[:1]):
            out.append(Inj("solve", t[0], "%s:not(%s%s)" % (v, t[1], t[2]), "SOLVEBAD %s %s" % (t[0], v)))
    return out

def presetup_injections(rng, pb, terms):
    out = [Inj("solve", "setup", "before-setup", "SOLVE"),
           Inj("update", "setup", "before-setup/all", "UPDATE 1\n%s\nEND" % G.blocks_text(pb)),
           Inj("update", "setup", "before-setup/c", "UPDATE 1\n%s\nEND" % G.blocks_text(pb, which={"c"})),
           Inj("update", "setup", "before-setup/none", "UPDATE 0\nEND")]
    t = terms[rng.randrange(len(terms))]
    out.append(Inj("solve", "setup", "before-setup+bad-%s" % t[0], "SOLVEBAD %s %s" % (t[0], bad_setting_values(t)[0])))
    return out

# ------------------------------------------------------------------------------------------------ histories
class Hist:
    def __init__(self, settings, ops, pbs):
        self.settings, self.ops, self.pbs = settings, ops, pbs    # pbs[i] = problem current BEFORE op i (None before setup)

def gen_hist(rng, n=None, p=None, m=None, length=3, settings="friendly", timings=False):
    kinds = None
    if n is not None and rng.random() < 0.5: kinds = [rng.choice(["free", "lower", "upper", "both"]) for _ in range(n)]
    pb = G.gen_problem(rng, n=n, p=p, m=m, bound_kinds=kinds)
    st = []
    if settings == "friendly":
        st = list(G.FRIENDLY) + [("max_iter", str(rng.choice([3, 8, 30]))), ("preconditioner_iter", str(rng.choice([0, 1, 3, 10])))]
        if rng.random() < 0.3: st.append(("preconditioner_scale_cost", "1"))
    if timings: st.append(("compute_timings", "1"))
    ops, pbs = [G.op_setup(pb)], [None]
    cur = pb
    while len(ops) < length:
        r = rng.random()
        if r < 0.5 or len(ops) == 1:
            ops.append("SOLVE"); pbs.append(cur)
        else:
            names = set(k for k in ["P", "c", "A", "b", "G", "h", "lb", "ub"] if rng.random() < 0.4) or {"c"}
            nxt, names = G.perturb(rng, cur, names)
            ops.append(G.op_update(nxt, names, reuse=rng.random() < 0.6)); pbs.append(cur)
            cur = nxt
    ops.append("SOLVE"); pbs.append(cur)       # the valid call that reveals what an injection before it left behind
    return Hist(st, ops, pbs)

def case_text(name, hist, inj_at):
    """inj_at: dict position -> list of Inj, injected BEFORE op[position]"""
    lines = ["CASE " + name] + ["SET %s %s" % kv for kv in hist.settings]
    for i, op in enumerate(hist.ops):
        for inj in inj_at.get(i, []): lines.append("INJ %s@%d %s" % (inj.label(), i, inj.text))
        lines.append(op)
    lines.append("ENDCASE")
    return "\n".join(lines) + "\n"

class Case:
    def __init__(self, name, text, injs, tags):
        self.name, self.text, self.injs, self.tags = name, text, injs, tags   # injs: list of (pos, Inj) in execution order

def exhaustive_cases(rng, prefix, hist, sparse, terms, all_values):
    """one injection per case: (every argument x every wrong size/pattern x alone/with-all, every invalid settings value)
    x every position after setup, and the before-setup calls at position 0"""
    cases = []
    k = 0
    for pos in range(0, len(hist.ops)):
        if pos == 0: injs = presetup_injections(rng, hist_first_pb(hist), terms)
        else: injs = update_injections(rng, hist.pbs[pos], sparse) + solve_injections(terms, all_values)
        for inj in injs:
            name = "%s_%d" % (prefix, k); k += 1
            cases.append(Case(name, case_text(name, hist, {pos: [inj]}), [(pos, inj)], ["exh", "len%d" % (len(hist.ops) - 1)]))
    return cases

def hist_first_pb(hist):
    return hist.pbs[1]

def random_case(rng, name, hist, sparse, terms):
    """several injections in one history (one or two at every position)"""
    inj_at, order = {}, []
    for pos in range(len(hist.ops)):
        if pos == 0:
            if rng.random() < 0.5: continue
            pool = presetup_injections(rng, hist_first_pb(hist), terms)
        else:
            pool = update_injections(rng, hist.pbs[pos], sparse) + solve_injections(terms, True)
        chosen = [pool[rng.randrange(len(pool))] for _ in range(rng.choice([1, 1, 2]))]
        inj_at[pos] = chosen
        order += [(pos, c) for c in chosen]
    return Case(name, case_text(name, hist, inj_at), order, ["rnd", "len%d" % (len(hist.ops) - 1)])

# ------------------------------------------------------------------------------------------------ running
def build_specs(backend, asan):
    d = ["BACKEND=%d" % BACKENDS[backend]]
    if asan:
        return dict(src="drv_reject.cpp", defines=tuple(d + ["NDEBUG"]), libs=(), name="drv_reject_%s_asan" % backend,
                    extra_flags=("-fno-lifetime-dse", "-g", "-fsanitize=address,undefined", "-fno-sanitize-recover=all", "-fno-omit-frame-pointer"))
    return dict(src="drv_reject.cpp", defines=tuple(d), libs=(), name="drv_reject_%s" % backend, extra_flags=("-fno-lifetime-dse",))

def run_cases(ctx, exe, cases, tag, asan=False, max_resume=400):
    """returns per case name: dict(lines=[...], ended=bool, crash=None|dict(rc=, in_call=label|None, report=str))"""
    cf = os.path.join(ctx.work, "cases_%s.txt" % tag)
    open(cf, "w").write("".join(c.text for c in cases))
    res = {}
    skip, resumes = 0, 0
    env = dict(os.environ)
    logp = os.path.join(ctx.work, "san_%s" % tag)
    # uninitialised heap (tails of over-allocated arrays, factors before the first factorisation) must read the same in
    # both twins: glibc / ASan fill every fresh allocation with a fixed byte
    env["MALLOC_PERTURB_"] = "165"
    env["GLIBC_TUNABLES"] = "glibc.malloc.tcache_count=0"
    env["ASAN_OPTIONS"] = "detect_leaks=0:abort_on_error=0:malloc_fill_byte=90:max_malloc_fill_size=268435456:log_path=%s" % logp
    env["UBSAN_OPTIONS"] = "print_stacktrace=1:log_path=%s" % logp
    import subprocess, glob
    while skip < len(cases):
        try:
            p = subprocess.run([exe, cf, str(skip)], env=env, timeout=1200, stdout=subprocess.PIPE, stderr=subprocess.PIPE,
                               universal_newlines=True, errors="replace")
            rc, out, err = p.returncode, p.stdout, p.stderr
        except subprocess.TimeoutExpired as ex:
            rc, out, err = 124, (ex.stdout or ""), "[timeout]"
            if isinstance(out, bytes): out = out.decode(errors="replace")
        cur = None
        for ln in out.splitlines():
            t = ln.split(" ", 2)
            if t[0] == "BEGIN": cur = t[1]; res[cur] = {"lines": [], "ended": False, "crash": None}
            elif cur is not None:
                res[cur]["lines"].append(ln)
                if t[0] == "END": res[cur]["ended"] = True
        done = sum(1 for c in cases[skip:] if c.name in res and res[c.name]["ended"])
        if rc == 0 and skip + done == len(cases): break
        # the process died in case number skip+done
        idx = skip + done
        if idx >= len(cases): break
        cname = cases[idx].name
        r = res.setdefault(cname, {"lines": [], "ended": False, "crash": None})
        last = r["lines"][-1] if r["lines"] else ""
        in_call = last.split(" ")[3] if last.startswith("CALL ") else None
        rep = ""
        for fpath in sorted(glob.glob(logp + ".*")):
            try: rep += open(fpath, errors="replace").read()[:3000]
            except OSError: pass
            try: os.remove(fpath)
            except OSError: pass
        if not rep: rep = err[-1500:]
        r["crash"] = {"rc": rc, "in_call": in_call, "report": rep}
        skip = idx + 1
        resumes += 1
        if resumes >= max_resume:
            for c in cases[skip:]: res.setdefault(c.name, {"lines": [], "ended": False, "crash": None, "not_run": True})
            break
    return res

def summarize_report(rep):
    m = re.search(r"(ERROR: AddressSanitizer: [^\n]*|runtime error: [^\n]*|Assertion [^\n]*failed[^\n]*|assert[^\n]*)", rep)
    return (m.group(1) if m else rep.strip().split("\n")[0] if rep.strip() else "no diagnostic")[:300]

def judge(ctx, backend, build, cases, res, seen):
    """turn the driver output into violations; returns (number of injected calls checked, number of violations)"""
    ninj = nv = 0
    def viol(kind, c, pos, inj, detail, extra=None):
        nonlocal nv
        nv += 1
        sig = "C05.%s call=%s arg=%s wrong=%s backend=%s pos=%d" % (kind, inj.call, inj.arg, inj.wrong.split("/")[0], backend, pos)
        if sig in seen: return
        seen.add(sig)
        rp = {"case": c.text, "backend": backend, "build": build, "injected": inj.label(), "position": pos, "driver": "harness/drv_reject.cpp"}
        if extra: rp.update(extra)
        ctx.violation(sig, detail, rp)
    for c in cases:
        r = res.get(c.name)
        if r is None or r.get("not_run"): continue
        bylabel = {}
        for pos, inj in c.injs: bylabel.setdefault("%s@%d" % (inj.label(), pos), (pos, inj))
        last_inj = None
        reported_state = False
        for ln in r["lines"]:
            t = ln.split(" ")
            if t[0] == "INJ":
                ninj += 1
                pos, inj = bylabel[t[3]]
                last_inj = (pos, inj)
                kv = dict(re.findall(r"(\S+)=(\"[^\"]*\"|\S+)", ln))
                msg = kv.get("msg", '""').strip('"')
                if inj.call == "update":
                    if not msg.strip():
                        viol("silent", c, pos, inj, "rejected update() printed no message (case %s): %s" % (c.name, ln))
                else:
                    ret, ist = kv.get("ret"), kv.get("info.status")
                    expected = ("UNSOLVED",) if inj.wrong.startswith("before-setup") and "bad" not in inj.wrong else ("INVALID_SETTINGS", "UNSOLVED") if inj.wrong.startswith("before-setup") else ("INVALID_SETTINGS",)
                    if ret not in expected or ist != ret:
                        viol("silent", c, pos, inj, "rejected solve() returned %s, info.status %s (expected %s) (case %s)" % (ret, ist, "/".join(expected), c.name))
            elif t[0] == "DIFF" and not reported_state:
                reported_state = True      # later differences in the same case are consequences
                phase, label = t[3], t[4]
                if phase == "inject":
                    pos, inj = bylabel[label]
                    viol("state", c, pos, inj, "state changed by the rejected call (case %s): %s" % (c.name, ln[:900]), {"diff": ln[:2000]})
                elif last_inj is not None:
                    pos, inj = last_inj
                    viol("later", c, pos, inj, "a later valid %s differs from the twin's (case %s): %s" % (label, c.name, ln[:900]), {"diff": ln[:2000]})
                else:
                    ctx.ob("harness:twin-determinism:%s" % backend, "machinery", False, "twins differ without any injected call: " + ln[:400])
        cr = r.get("crash")
        if cr:
            what = summarize_report(cr["report"])
            if cr["in_call"] is not None:
                pos, inj = bylabel[cr["in_call"]]
                kind = "oob" if ("AddressSanitizer" in cr["report"] or "runtime error" in cr["report"]) else "crash"
                viol(kind, c, pos, inj, "the rejected call did not return (rc=%s, build %s, case %s): %s" % (cr["rc"], build, c.name, what), {"report": cr["report"][:3000]})
            elif last_inj is not None and not reported_state:
                pos, inj = last_inj
                viol("later-crash", c, pos, inj, "a valid call after the rejected call crashed (rc=%s, build %s, case %s): %s" % (cr["rc"], build, c.name, what), {"report": cr["report"][:3000]})
            elif last_inj is None:
                ctx.ob("harness:valid-history-crash:%s:%s" % (backend, build), "machinery", False, "driver died in a valid call of case %s before any injection: %s" % (c.name, what))
    return ninj, nv

# ------------------------------------------------------------------------------------------------ entry
def run(ctx):
    tr = vlib.regen(ctx, ("events",))
    vlib.coq_hygiene(ctx)
    vlib.coq_properties(ctx, "C05", extra_files=("Properties_C05_dense.v", "Properties_C05_sparse.v", "Properties_C05_solve.v"))
    rng = ctx.rng
    # verify_settings conjuncts and guard inventory from the translator (fallback: built-in list, the search must still run)
    terms, guards = None, {}
    try:
        import gen_events
        t = gen_events.translate(vlib.REPO)
        terms = [(x["field"], x["op"], x["bound"], x["type"]) for x in t["verify_settings"]]
        guards = {k: gen_events.guards_of(t[k]) for k in ("update_dense", "update_sparse", "solve") if t[k] is not None}
    except Exception as ex:
        ctx.notes.append("translator structure unavailable for the search (%s): built-in verify_settings list used" % str(ex)[:200])
    if not terms: terms = list(FALLBACK_TERMS)
    # "invalid settings" is the documented contract (Settings::verify_settings at the pinned commit = FALLBACK_TERMS), not whatever the
    # current source happens to reject: the values injected come from the UNION of both lists, and a source whose validation differs
    # from the contract is a broken tie by itself (a weakened check would otherwise define its own faults away)
    def _key(t):
        try: return (t[0], t[1], Fr(t[2]))
        except Exception: return (t[0], t[1], t[2])
    have = {_key(t) for t in terms}; want = {_key(t) for t in FALLBACK_TERMS}
    ctx.ob("contract:verify_settings-matches-documented-contract", "translator", have == want,
           "" if have == want else "only in source: %s; only in contract: %s" % (sorted(map(str, have - want)), sorted(map(str, want - have))))
    terms = list(terms) + [t for t in FALLBACK_TERMS if _key(t) not in have]

    thorough = not ctx.quick()
    backends = ["dense", "sparse"] + (["sparse_eq", "sparse_ineq", "sparse_all"] if thorough else [])
    specs = [build_specs(b, False) for b in backends] + [build_specs(b, True) for b in ("dense", "sparse")]
    builds = vlib.build_many(ctx, specs)
    exes = {}
    for s, (exe, msg) in zip(specs, builds):
        ctx.ob("harness:%s" % s["name"], "build", exe is not None, msg)
        exes[s["name"]] = exe

    if getattr(ctx, "replay", None):
        rp = json.load(open(ctx.replay))["replay"]
        b = rp.get("backend", "dense")
        exe = exes.get("drv_reject_%s%s" % (b, "_asan" if rp.get("build") == "asan" else ""))
        if exe:
            cf = os.path.join(ctx.work, "replay.txt"); open(cf, "w").write(rp["case"])
            rc, out = vlib.sh([exe, cf], timeout=300)
            print(out[-4000:])
            if rc != 0 or "DIFF " in out: ctx.violation("C05.replay backend=%s" % b, out[-1500:], rp)
        return vlib.finish(ctx, checker_cmd=CHECKER)

    # ---- case sets (the same for every back end; sparse-only pattern faults are added for sparse back ends)
    seen = set()
    total_inj = total_cases = 0
    shapes_exh = [(2, 1, 1)] if not thorough else [(2, 1, 1), (3, 1, 2), (2, 0, 0), (1, 0, 1), (3, 2, 0)]
    lengths = [3] if not thorough else [1, 2, 3]
    n_rnd = 12 if not thorough else 150
    for b in backends:
        sparse = b != "dense"
        cases = []
        sub = __import__("random").Random(rng.getrandbits(64))
        for si, (n, p, m) in enumerate(shapes_exh):
            for L in lengths:
                h = gen_hist(sub, n=n, p=p, m=m, length=L, settings=("friendly" if (si + L) % 3 else "default"))
                cases += exhaustive_cases(sub, "%s_x%d_%d" % (b, si, L), h, sparse, terms, all_values=thorough or si == 0)
        for i in range(n_rnd):
            h = gen_hist(sub, length=sub.choice([2, 3, 4, 5]), settings=sub.choice(["friendly", "friendly", "default"]), timings=(i % 6 == 5))
            cases.append(random_case(sub, "%s_r%d" % (b, i), h, sparse, terms))
        total_cases += len(cases)
        for build in ("plain", "asan"):
            exe = exes.get("drv_reject_%s%s" % (b, "_asan" if build == "asan" else ""))
            if exe is None: continue
            res = run_cases(ctx, exe, cases, "%s_%s" % (b, build), asan=(build == "asan"))
            ninj, nv = judge(ctx, b, build, cases, res, seen)
            total_inj += ninj
            ended = sum(1 for c in cases if res.get(c.name, {}).get("ended"))
            ctx.ob("twin:%s:%s" % (b, build), "search", nv == 0,
                   "%d cases (%d ran to the end), %d injected calls compared, %d violations" % (len(cases), ended, ninj, nv))
        for c in cases:
            for pos, inj in c.injs: ctx.classes.add("%s %s %s %s pos%d" % (b, inj.call, inj.arg, inj.wrong, pos))
        if cases and not ctx.coverage.get("samples"): ctx.coverage["samples"] = [cases[len(cases) // 2].text[:2500]]
    # inventory tie: every guard the translator found has an injected call aimed at it
    if guards:
        aimed = {"update": set(), "solve": set()}
        for sig in ctx.classes:
            t = sig.split(" ")
            aimed[t[1]].add(t[2] if (t[1] == "update" or t[2] == "setup") else "settings")
        for fn, gl in guards.items():
            call = "solve" if fn == "solve" else "update"
            missing = [g["arg"] for g in gl if not (set(g["arg"].split(",")) & aimed[call])]
            ctx.ob("inventory:%s:every-guard-exercised" % fn, "coverage", not missing, "guards without an injected call: %s" % missing)
    ctx.coverage["evaluations"] = total_inj
    ctx.coverage["exhaustive"] = True
    ctx.coverage["rule"] = ("per back end: (every update argument x every wrong size [x non-matching pattern, sparse] x {alone, with valid new "
                            "values of all other blocks}) + every verify_settings conjunct violated x every position of histories of length <= 3 "
                            "(shapes %s) + update()/solve() before setup(); plus %d random histories with several injections each; "
                            "plain build and ASan/UBSan build; distinct = (back end, call, argument, wrong kind, position)" % (shapes_exh, n_rnd))
    ctx.trusted += ["Coq 8.16.1 kernel", "tools/gen_events.py (statement classification by shape; unknown shapes are an error)",
                    "g++ AddressSanitizer/UBSan for the out-of-bounds clause (evidence, not proof)",
                    "harness/drv_reject.cpp reads solver internals via '#define private public'"]
    ctx.assumptions += ["the order theorems are about the event abstraction of update()/solve(): callee bodies (unscale_data, scale_data, "
                        "setup_lb_data, ...) are single Mutate events; that a rejected call also leaves the real object bit-identical is the twin "
                        "oracle's (tested, not proved) part", "timing fields of info and the timer are not state"]
    return vlib.finish(ctx, level="proof", checker_cmd=CHECKER,
                       explanation="T1/T4 proved for every event list with guards first; the regenerated lists of update()/solve() are decided by "
                                   "computation; the twin-solver driver checks the same property on the compiled code bit for bit")

CHECKER = "coqc Properties_C05{,_dense,_sparse,_solve}.v (Coq 8.16.1) on gen/Events.v regenerated from /repo + harness/drv_reject.cpp twin runs (plain and ASan/UBSan builds)"
