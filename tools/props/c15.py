"""C15 -- preconditioning is an exact change of variables."""
from props._common import run_solver_property
def run(ctx):
    return run_solver_property(ctx, "C15", codes=("C15",), focus_mix=("updates", "bounds", "updates", "mixed"), preconds_quick=("ruiz",))
