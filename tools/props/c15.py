"""C15 -- preconditioning is an exact change of variables."""
from props._common import run_solver_property

def _sparse_precond_stage(ctx):
    # sparse::RuizEquilibration transcribed (coq/PrecondSparse.v, proved equal to the dense model) vs the real template
    try:
        import precsparse_stage
        precsparse_stage.precond_sparse_stage(ctx)
    except Exception:
        import traceback
        ctx.ob("correspondence:precsparse-model", "correspondence", False, "stage failed: " + traceback.format_exc()[-800:])

def run(ctx):
    return run_solver_property(ctx, "C15", codes=("C15",), focus_mix=("updates", "bounds", "updates", "mixed"), preconds_quick=("ruiz",),
                               extra_theorem_files=("Properties_C15_sparse.v",), extra_stage=_sparse_precond_stage)
