"""C16 -- the C API is a faithful projection of the C++ solver.

T1  tables (props.c16t.tables_part): the field copies of piqp.cpp, regenerated into coq/gen/Tables.v, are like-named wired.
T2/T3  coq/Properties_C16.v over coq/CAPI.v: the row-major / CSC / NULL->nullopt maps, and the simulation theorem
    c_api_is_projection over an ABSTRACT C++ solver, instantiated with the regenerated tables.
X   harness/drv_capi.cpp: $VERIF_REPO/interfaces/c/src/piqp.cpp compiled into the driver; generated problems and call
    sequences run through piqp_setup_dense/sparse, piqp_update_*, piqp_update_settings, piqp_solve and, identically,
    through piqp::DenseSolver<double> / piqp::SparseSolver<double,int>; after EVERY call: all result vectors (read through
    the C pointers), pointer identity with the live C++ vectors, all non-timing info fields, the solve status, all 25
    settings of the solver behind the handle, and every caller array -- bit for bit.
M   the Coq functions rowmajor_to_cols / utri / csc_to_cols evaluated (vm_compute) on the caller's arrays of non-square
    integer problems == what the real solver stored (m_data.P_utri / AT / GT dumped right after setup)."""
import os, re, ast, subprocess
import vlib, capi_cases as CC
from props.c16t import tables_part

EXPLANATION = ("coq/Properties_C16T.v: every C field is assigned exactly once from the like-named core field (tables regenerated from "
               "$VERIF_REPO by tools/gen_tables.py).  coq/Properties_C16.v: rowmajor_map_spec (element (i,j) of the row-major map is "
               "data[i*c+j], all shapes, with round trips), the CSC denotation, NULL<->nullopt with the dimensions piqp.cpp uses, and "
               "c_api_is_projection: for every abstract C++ solver, any defined sequence of C calls equals the translated C++ call "
               "sequence followed by the field projection given by the regenerated assignment lists; pointers are current after every "
               "call, the info copy after setup and after every solve (after every call for non-timing fields if update() writes only "
               "timing fields).  The hand-written part of the model (maps, dimensions, NULL tests, call structure) is tied to the code by "
               "harness/drv_capi.cpp, which compiles the real piqp.cpp and compares it bit for bit with the C++ classes driven identically, "
               "and by evaluating the Coq map functions against the data the real solver stored.")

def parse_driver(out):
    mis, ok, dumps, cscin, bad = [], {}, {}, {}, []
    for ln in out.splitlines():
        if ln.startswith("MIS "):
            d = dict(kv.split("=", 1) for kv in ln[4:].split(" ") if "=" in kv)
            mis.append(d)
        elif ln.startswith("OK ") or ln.startswith("FAIL "):
            d = dict(kv.split("=", 1) for kv in ln.split(" ")[1:] if "=" in kv)
            ok[(d["case"], d["input"])] = (ln.startswith("OK "), int(d["cmp"]), d.get("st", ""))
        elif ln.startswith("DUMP "):
            p = ln.split()
            dumps[(p[1], p[2], p[3])] = (int(p[4]), int(p[5]), p[6:])
        elif ln.startswith("CSCIN "):
            p = ln.split()
            rest = p[6:]
            ip, ii, ix = rest.index("p"), rest.index("i"), rest.index("x")
            cscin[(p[1], p[2])] = (int(p[3]), int(p[4]), int(p[5]), [int(v) for v in rest[ip + 1:ii]], [int(v) for v in rest[ii + 1:ix]], rest[ix + 1:])
        elif ln.startswith("BADCASE"):
            bad.append(ln)
    return mis, ok, dumps, cscin, bad

def split_cases(text):
    return [c + "end\n" for c in text.split("end\n") if c.strip()]

def case_id(ctext):
    return ctext.split("\n", 1)[0].split()[1]

def run_driver(ctx, exe, name, text, timeout):
    cf = os.path.join(ctx.work, name + ".cases")
    open(cf, "w").write(text)
    return vlib.run_bin(exe, cf, timeout=timeout)

def locate_crash(ctx, exe, text, out):
    """the driver died: the case after the last one reported is run alone with the call trace on"""
    done = set(re.findall(r"^(?:OK|FAIL) case=(\S+) input=sparse", out, flags=re.M))
    for c in split_cases(text):
        if case_id(c) in done: continue
        cf = os.path.join(ctx.work, "crash.cases")
        open(cf, "w").write(c)
        rc, o = vlib.run_bin(exe, cf, timeout=120, env={"C16_TRACE": "1"})
        if rc != 0:
            tr = re.findall(r"^TRACE (\S+) (\S+) (\d+) (\S+)", o, flags=re.M)
            return c, rc, (tr[-1] if tr else None)
    return None, 0, None

def report_mismatches(ctx, mis, texts, meta):
    seen, first = set(), set()
    for d in mis:
        if (d["case"], d["input"]) in first: continue      # the first difference of a run is the informative one
        first.add((d["case"], d["input"]))
        op = d["op"].split(":")[0]
        sig = "C16.result field=%s call=%s input=%s" % (d["field"], op, d["input"])
        if sig in seen or any(v["signature"] == sig for v in ctx.violations): continue
        seen.add(sig)
        ctext = texts.get(d["case"], "")
        calls = [l for l in ctext.splitlines() if l.split(" ", 1)[0] in ("setup", "update", "solve", "settings")]
        k = int(d["call"])
        ctx.violation(sig, "C API vs C++ solver driven identically: after call #%d (%s) of case %s through the %s entry points, %s differs: C API %s, C++ %s "
                           "(index %s).  Call sequence: %s" % (k, d["op"], d["case"], d["input"], d["field"], d["c"], d["cxx"], d["idx"], " ; ".join(calls[:k + 1])),
                      {"case_file_text": ctext, "failing_call_index": k, "calls": calls, "meta": meta.get(d["case"]),
                       "how": "write case_file_text to a file F; build harness/drv_capi.cpp as tools/props/c16.py does; run `drv_capi F`"})

def harness_stage(ctx):
    exe, msg = vlib.build_harness(ctx, src="drv_capi.cpp", extra_flags=("-I" + os.path.join(vlib.REPO, "interfaces/c/src"),), libs=(), name="drv_capi")
    if not ctx.ob("harness:build drv_capi (piqp.cpp of $VERIF_REPO in the TU)", "correspondence", exe is not None, msg):
        return None
    rng = ctx.rng
    quick = ctx.quick()
    # ---- defaults
    rc, out = vlib.run_bin(exe, None, args=["--defaults"], timeout=60)
    defs = re.findall(r"^DEF (\S+) c=(\S+) cxx=(\S+)", out, flags=re.M)
    bad = [(f, a, b) for f, a, b in defs if a != b]
    stable = "DEFSTABLE 1" in out
    names = [f for f, _ in CC.SETTINGS]
    ctx.ob("correspondence:piqp_set_default_settings == Settings<double>{} (25 fields, bitwise)", "correspondence",
           rc == 0 and not bad and stable and [f for f, _, _ in defs] == names, out[-400:] if (rc or bad or not stable) else "")
    ctx.coverage["evaluations"] += len(defs)
    for f, a, b in bad:
        ctx.violation("C16.result field=settings.%s call=set_default_settings input=none" % f,
                      "piqp_set_default_settings gives %s=%s, piqp::Settings<double>{} has %s" % (f, a, b), {"how": "drv_capi --defaults", "field": f, "c": a, "cxx": b})
    if rc == 0 and not stable and not bad:
        ctx.violation("C16.result field=settings call=set_default_settings input=prestate", "piqp_set_default_settings leaves a field that depends on the previous content of the struct",
                      {"how": "drv_capi --defaults"})
    # ---- generated call sequences
    groups = []
    nmax = 8 if quick else 40
    nseq = 200 if quick else 2000
    gen = [CC.gen_case(rng, "g%d" % i, nmax if (quick or i % 3) else 8) for i in range(nseq)]
    groups.append(("sequences", gen))
    groups.append(("onehot", CC.one_hot_cases(rng)))
    groups.append(("masks", CC.mask_cases(rng)))
    dump = CC.dump_cases(rng, 12 if quick else 60)
    groups.append(("dump", dump))
    all_dumps, all_csc = {}, {}
    total_cmp = 0
    for gname, cases in groups:
        text = "".join(t for t, _ in cases)
        texts = {case_id(t): t for t, _ in cases}
        meta = {case_id(t): m for t, m in cases}
        mis, ok, dumps, cscin, badc, crashes = [], {}, {}, {}, [], []
        rest, complete = list(cases), False
        for attempt in range(4):                       # after a crash the cases behind the crashing one are still run
            rtext = "".join(t for t, _ in rest)
            rc, out = run_driver(ctx, exe, gname, rtext, timeout=600 if quick else 3000)
            m1, o1, d1, c1, b1 = parse_driver(out)
            mis += m1; ok.update(o1); dumps.update(d1); cscin.update(c1); badc += b1
            if rc == 0:
                complete = ("DONE %d" % len(rest)) in out
                break
            c, crc, tr = locate_crash(ctx, exe, rtext, out)
            crashes.append((c, rc if c is None else crc, tr))
            if c is None: break
            ids = [case_id(t) for t, _ in rest]
            rest = rest[ids.index(case_id(c)) + 1:]
            if not rest: complete = True; break
        all_dumps.update(dumps); all_csc.update(cscin)
        total_cmp += sum(v[1] for v in ok.values())
        ctx.ob("correspondence:C API == C++ solver, bitwise after every call [%s: %d sequences x {dense,sparse}]" % (gname, len(cases)), "correspondence",
               not crashes and complete and not mis and not badc and all(v[0] for v in ok.values()),
               ("%d crash(es) " % len(crashes) if crashes else "") + "; ".join("%s %s call=%s %s: c=%s cxx=%s" % (d["case"], d["input"], d["call"], d["field"], d["c"], d["cxx"]) for d in mis[:5]) + " ".join(badc[:3]))
        report_mismatches(ctx, mis, texts, meta)
        for c, crc, tr in crashes:
            if c is None: continue
            inp, callk, op = (tr[1], tr[2], tr[3]) if tr else ("?", "?", "?")
            calls = [l for l in c.splitlines() if l.split(" ", 1)[0] in ("setup", "update", "solve", "settings")]
            if any(v["signature"] == "C16.result field=crash call=%s input=%s" % (op.split(":")[0], inp) for v in ctx.violations): continue
            ctx.violation("C16.result field=crash call=%s input=%s" % (op.split(":")[0], inp),
                          "the C API run of case %s (%s entry points) dies (exit code %d) in call #%s (%s) while the same data are valid for the C++ solver. Call sequence: %s"
                          % (case_id(c), inp, crc, callk, op, " ; ".join(calls)),
                          {"case_file_text": c, "exit_code": crc, "failing_call_index": callk, "how": "C16_TRACE=1 drv_capi F"})
        for (cid, inp), (okc, cmpn, st) in ok.items():
            m = meta.get(cid, {})
            ctx.classes.add((gname, inp, m.get("n"), m.get("p"), m.get("m"), tuple(m.get("ops", ())) or m.get("field") or m.get("mask"), st))
        if gname == "sequences":
            ctx.coverage["samples"] = [{"case": k[0], "input": k[1], "compared_items": v[1], "statuses": v[2]} for k, v in list(ok.items())[:6]]
            sts = {}
            for v in ok.values():
                for s in v[2].split(","):
                    if s: sts[s] = sts.get(s, 0) + 1
            ctx.notes.append("solve statuses seen in the generated sequences: " + ", ".join("%s x%d" % kv for kv in sorted(sts.items())))
    ctx.coverage["evaluations"] += total_cmp
    return dump, all_dumps, all_csc

def zl(vals):
    return "[" + "; ".join(("(%d)" % v) if v < 0 else str(v) for v in vals) + "]"

def as_int(h):
    v = float.fromhex(h)
    if v != int(v): raise ValueError(h)
    return int(v)

def model_stage(ctx, dump, dumps, cscin):
    """Coq-evaluated maps vs what the real solver stored"""
    lines = ["From Coq Require Import List ZArith.", "From PIQP Require Import CAPI.", "Import ListNotations.", "Open Scope Z_scope.",
             "Definition rm (r c : nat) (l : list Z) := rowmajor_to_cols 0 r c l.",
             "Definition sp (m n nnz : nat) (p i : list nat) (x : list Z) := csc_to_cols 0 (mkCsc m n nnz p i x).",
             "Definition wf (m n nnz : nat) (p i : list nat) (x : list Z) := csc_wfb (mkCsc m n nnz p i x)."]
    expect = []   # (case, input, mat, kind)
    def nl(v): return "[" + "; ".join("%d%%nat" % x for x in v) + "]"
    ran = [case_id(t) for t, _ in dump if all((case_id(t), i, "G") in dumps for i in ("dense", "sparse"))]
    ctx.ob("model:all %d map-evaluation cases were executed by the driver" % len(dump), "correspondence", len(ran) == len(dump), "executed: %d" % len(ran))
    for t, m in dump:
        cid = case_id(t)
        if cid not in ran: continue
        n, p, mm, mask = m["n"], m["p"], m["m"], m["mask"]
        hasA, hasG = mask[0] == "1", mask[2] == "1"
        shapes = {"P": (n, n, True), "A": (p if hasA else 0, n, hasA), "G": (mm if hasG else 0, n, hasG)}
        for mat in ("P", "A", "G"):
            r, c, has = shapes[mat]
            data = m["blocks"][mat] if has else []
            e = "rm %d %d %s" % (r, c, zl(data))
            lines.append("Eval vm_compute in (%s)." % ("utri 0 (%s)" % e if mat == "P" else e)); expect.append((cid, "dense", mat, "cols"))
            if has:
                key = (cid, mat)
                if key not in cscin:
                    ctx.ob("model:cscin %s %s" % key, "correspondence", False, "driver printed no CSC arrays"); continue
                cm, cn, cnnz, cp, ci, cx = cscin[key]
                a = "%d %d %d %s %s %s" % (cm, cn, cnnz, nl(cp), nl(ci), zl([as_int(v) for v in cx]))
                lines.append("Eval vm_compute in (%s)." % ("utri 0 (sp %s)" % a if mat == "P" else "sp " + a)); expect.append((cid, "sparse", mat, "cols"))
                lines.append("Eval vm_compute in (wf %s)." % a); expect.append((cid, "sparse", mat, "wf"))
            else:
                lines.append("Eval vm_compute in (%s)." % e); expect.append((cid, "sparse", mat, "cols"))
    vf = os.path.join(ctx.work, "C16Eval.v")
    open(vf, "w").write("\n".join(lines) + "\n")
    rc, out = vlib.sh(["coqc", "-Q", vlib.COQ, "PIQP", "C16Eval.v"], cwd=ctx.work, timeout=600)
    if rc != 0:
        ctx.ob("model:evaluate CAPI.rowmajor_to_cols/utri/csc_to_cols (vm_compute)", "correspondence", False, out[-800:]); return
    blocks = re.findall(r"=\s*(.*?)\s*:\s*(?:list \(list Z\)|bool)", " ".join(out.split()))
    if len(blocks) != len(expect):
        ctx.ob("model:evaluate CAPI.rowmajor_to_cols/utri/csc_to_cols (vm_compute)", "correspondence", False, "%d results for %d evaluations" % (len(blocks), len(expect))); return
    texts = {case_id(t): t for t, _ in dump}
    diffs = []
    for (cid, inp, mat, kind), b in zip(expect, blocks):
        if kind == "wf":
            if b != "true": diffs.append((cid, inp, mat, "csc_wfb of the arrays handed to piqp_setup_sparse", b, "true"))
            continue
        model = ast.literal_eval(b.replace(";", ","))
        key = (cid, inp, mat)
        if key not in dumps:
            diffs.append((cid, inp, mat, "no dump", "", "")); continue
        ncols, nrows, vals = dumps[key]
        try:
            iv = [as_int(v) for v in vals]
        except ValueError:
            diffs.append((cid, inp, mat, "stored data are not the integers passed", " ".join(vals[:8]), "")); continue
        real = [iv[j * nrows:(j + 1) * nrows] for j in range(ncols)]
        ctx.coverage["evaluations"] += 1
        ctx.classes.add(("map", inp, mat, nrows, ncols))
        if real != model: diffs.append((cid, inp, mat, "stored matrix (column lists)", str(real), str(model)))
    ctx.ob("model:Coq rowmajor_to_cols/utri/csc_to_cols on the caller's arrays == data stored by the real solver after setup (%d matrices)" % len(expect),
           "correspondence", not diffs, "; ".join("%s %s %s: %s real=%s model=%s" % d for d in diffs[:4]))
    seen = set()
    for cid, inp, mat, what, real, model in diffs:
        sig = "C16.map mat=%s input=%s" % (mat, inp)
        if sig in seen: continue
        seen.add(sig)
        ctx.violation(sig, "case %s, %s entry point, matrix %s: %s: the real solver holds %s, the Coq map of the caller's array gives %s" % (cid, inp, mat, what, real, model),
                      {"case_file_text": texts.get(cid, ""), "how": "drv_capi F prints DUMP lines; coq: Eval vm_compute in rowmajor_to_cols / csc_to_cols (coq/CAPI.v)"})

def run(ctx):
    tables_part(ctx)
    vlib.coq_properties(ctx, "C16")
    res = harness_stage(ctx)
    if res is not None:
        model_stage(ctx, *res)
    ctx.coverage["rule"] = ("tables: one evaluation per (field, direction) of the C binding; harness: one evaluation per compared item (result vector / pointer / info field / "
                            "settings field / caller buffer) per call; a sequence is distinct by (group, entry point, n, p, m, call kinds with NULL masks, statuses); "
                            "groups: random sequences, 25 settings fields one-hot x {update_settings, setup}, all 64 NULL masks of setup + the 8 update arguments one at a time, "
                            "integer non-square problems for the Coq map evaluation")
    ctx.trusted += ["harness/drv_capi.cpp (driver and bitwise comparison code; the reference is the same C++ template code driven directly, so the check is relative to the C++ solver, as C16 states)",
                    "the hand-written part of coq/CAPI.v (maps, dimensions, NULL tests, call structure of piqp.cpp) is tied to the code only through the harness and the map evaluation, not through a translator",
                    "abstract in the Coq model: the whole C++ solver (cxx_solver record), the meaning of the C casts, stability of the result vectors' storage between piqp_update_result and a read (checked by pointer identity after every call)",
                    "g++ 12 / Eigen 3.4 / libc printf %a; double arithmetic is deterministic for two solver objects given identical inputs in one process"]
    ctx.assumptions += ["caller inputs satisfy the C contract (mandatory pointers non-NULL, arrays at least as long as the dimensions say, A,b (G,h) passed when p>0 (m>0), "
                        "sparse updates keep the sparsity pattern, CSC arrays well-formed: csc_wf)",
                        "timing fields (setup_time, update_time, solve_time, run_time) are excluded from the bitwise comparison, as C16 states"]
    return vlib.finish(ctx, level="proof",
                       checker_cmd="python3 tools/gen_tables.py && make -C coq Properties_C16T.vo Properties_C16.vo (coqc 8.16.1) + harness/drv_capi.cpp (real piqp.cpp vs C++ classes, bitwise) + vm_compute of CAPI maps vs stored data",
                       explanation=EXPLANATION)
