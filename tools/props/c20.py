"""C20 -- Saved problem files load back identically.

  regen        tools/gen_matio.py -> coq/gen/MatioFields.v (field lists of io_utils.hpp, constructor wiring of the
               Model structs, dims order of eigen_matio.hpp; anchored statements of write_mat_impl / matrix_from_var)
  proofs       coq/Properties_C20.v  (codec round trips, index casts, field lists, save->load = identity)
  correspond   harness/drv_matio.cpp (double, real save_*/load_* and libmatio): for every case
                 (a) the model object returned by load_* is compared bit-for-bit with the one given to save_*;
                 (b) the written file is read back with plain libmatio calls and every variable (name, rank, class,
                     data type, dims, nzmax/nir/njc/ndata, ir, jc, data) is compared with the Gallina `save_*_model`
                     evaluated (vm_compute) on the same input; the model's own load(save(m)) is evaluated too.
  search       (a) is the property oracle: any bit difference (or a crash inside save/load) is a VIOLATION with the
               offending model in the replay file.
"""
import os, re, json, struct
import vlib

NAMES = ["P", "c", "A", "b", "G", "h", "x_lb", "x_ub"]

# ------------------------------------------------------------------------------------------------ values
def d2b(x):
    return struct.unpack("<Q", struct.pack("<d", x))[0]

SPECIALS = {
    "pzero": 0x0000000000000000, "nzero": 0x8000000000000000, "pinf": 0x7ff0000000000000, "ninf": 0xfff0000000000000,
    "den_min": 0x0000000000000001, "den_max": 0x000fffffffffffff, "nden": 0x8000000000000003, "dbl_min": 0x0010000000000000,
    "dbl_max": 0x7fefffffffffffff, "qnan": 0x7ff8000000000000, "qnan_pl": 0x7ff8000000c0ffee, "snan_pl": 0x7ff4000000000001,
    "nnan": 0xfff8000000000001, "one": d2b(1.0), "piqp_inf": d2b(1e30), "npiqp_inf": d2b(-1e30),
}
SP_KEYS = sorted(SPECIALS)

def rnd_value(rng, flags, special=0.35):
    r = rng.random()
    if r < special:
        k = rng.choice(SP_KEYS)
        flags.add(_flag_of(k))
        return SPECIALS[k]
    if r < special + 0.15:
        flags.add("rawbits")
        return rng.getrandbits(64)
    return d2b(rng.choice([-1, 1]) * rng.random() * 10 ** rng.randint(-3, 3))

def _flag_of(k):
    if k in ("pinf", "ninf", "piqp_inf", "npiqp_inf"): return "inf"
    if k in ("den_min", "den_max", "nden"): return "denormal"
    if "nan" in k: return "nan"
    if k == "nzero": return "negzero"
    if k == "pzero": return "zero"
    return "extreme"

def rnd_bound(rng, flags, lower):
    r = rng.random()
    if r < 0.4:
        flags.add("inf")
        return SPECIALS["ninf" if lower else "pinf"] if rng.random() < 0.7 else SPECIALS["npiqp_inf" if lower else "piqp_inf"]
    return rnd_value(rng, flags, 0.2)

# ------------------------------------------------------------------------------------------------ cases
def mk_dense(rng, rows, cols, flags):
    return {"t": "den", "rows": rows, "cols": cols, "vals": [rnd_value(rng, flags) for _ in range(rows * cols)]}

def mk_vec(rng, n, flags, bound=None):
    return {"t": "vec", "rows": n, "cols": 1,
            "vals": [rnd_bound(rng, flags, bound == "lb") if bound else rnd_value(rng, flags) for _ in range(n)]}

def mk_sparse(rng, rows, cols, flags, density=None, pattern=None, unsorted=False, extra=0):
    """pattern: set of (i,j) or None (random). Explicit zeros are stored entries whose value is +0 / -0."""
    if pattern is None:
        density = density if density is not None else rng.choice([0.0, 0.2, 0.5, 0.8, 1.0])
        pattern = {(i, j) for i in range(rows) for j in range(cols) if rng.random() < density}
        if cols > 1 and pattern and rng.random() < 0.5:
            j0 = rng.randrange(cols)
            pattern = {(i, j) for (i, j) in pattern if j != j0}       # an empty column
    outer, inner, vals = [0], [], []
    for j in range(cols):
        col = sorted(i for (i, jj) in pattern if jj == j)
        if unsorted and len(col) > 1:
            rng.shuffle(col)
            if col != sorted(col): flags.add("unsorted")
        for i in col:
            inner.append(i)
            if rng.random() < 0.25:
                flags.add("explicit-zero")
                vals.append(SPECIALS[rng.choice(["pzero", "nzero"])])
            else:
                vals.append(rnd_value(rng, flags))
        if not col and rows > 0: flags.add("empty-column")
        outer.append(len(inner))
    if not inner: flags.add("nnz0")
    if extra and cols > 0:
        flags.add("uncompressed")
    else:
        extra = 0
    return {"t": "spm", "rows": rows, "cols": cols, "extra": extra, "outer": outer, "inner": inner, "vals": vals}

def gen_case(rng, cid, kind=None, n=None, p=None, m=None, unsorted=False, G_pattern=None):
    flags = set()
    kind = kind or rng.choice(["dense", "sparse"])
    n = n if n is not None else rng.choice([1, 1, 2, 2, 3, 3, 4, 5, 8])
    p = p if p is not None else rng.choice([0, 0, 0, 1, 2, 3])
    m = m if m is not None else rng.choice([0, 0, 0, 1, 2, 3, 5])
    pre = 1 if rng.random() < 0.2 else 0
    items = {}
    if kind == "dense":
        items["P"] = mk_dense(rng, n, n, flags); items["A"] = mk_dense(rng, p, n, flags); items["G"] = mk_dense(rng, m, n, flags)
    else:
        ex = lambda: rng.choice([0, 0, 0, 1, 3])
        items["P"] = mk_sparse(rng, n, n, flags, unsorted=unsorted, extra=ex())
        items["A"] = mk_sparse(rng, p, n, flags, unsorted=unsorted, extra=ex())
        items["G"] = mk_sparse(rng, m, n, flags, unsorted=unsorted, extra=ex(), pattern=G_pattern)
    items["c"] = mk_vec(rng, n, flags); items["b"] = mk_vec(rng, p, flags); items["h"] = mk_vec(rng, m, flags, bound="ub")
    items["x_lb"] = mk_vec(rng, n, flags, bound="lb"); items["x_ub"] = mk_vec(rng, n, flags, bound="ub")
    if p == 0: flags.add("p0")
    if m == 0: flags.add("m0")
    if pre: flags.add("overwrite")
    return {"id": cid, "kind": kind, "pre": pre, "items": items, "n": n, "p": p, "m": m, "flags": sorted(flags)}

def hx(u): return "%016x" % u

def case_text(c):
    o = ["case %s %s pre=%d" % (c["id"], c["kind"], c["pre"])]
    for nm in NAMES:
        it = c["items"][nm]
        if it["t"] == "den":
            o.append("den %s %d %d %s" % (nm, it["rows"], it["cols"], " ".join(hx(v) for v in it["vals"])))
        elif it["t"] == "vec":
            o.append("vec %s %d %s" % (nm, it["rows"], " ".join(hx(v) for v in it["vals"])))
        else:
            o.append("spm %s %d %d %d %d outer %s inner %s vals %s" % (nm, it["rows"], it["cols"], it["extra"], len(it["inner"]),
                     " ".join(map(str, it["outer"])), " ".join(map(str, it["inner"])), " ".join(hx(v) for v in it["vals"])))
    o.append("end")
    return "\n".join(o) + "\n"

def parse_case_text(txt):
    """inverse of case_text (for corpus files and replays); returns list of cases"""
    cases, cur = [], None
    for ln in txt.splitlines():
        t = ln.split()
        if not t or t[0].startswith("#"): continue
        if t[0] == "case":
            cur = {"id": t[1], "kind": t[2], "pre": 1 if t[3] == "pre=1" else 0, "items": {}, "flags": ["corpus"]}
        elif t[0] == "den":
            cur["items"][t[1]] = {"t": "den", "rows": int(t[2]), "cols": int(t[3]), "vals": [int(x, 16) for x in t[4:]]}
        elif t[0] == "vec":
            cur["items"][t[1]] = {"t": "vec", "rows": int(t[2]), "cols": 1, "vals": [int(x, 16) for x in t[3:]]}
        elif t[0] == "spm":
            rows, cols, extra, nnz = int(t[2]), int(t[3]), int(t[4]), int(t[5])
            i = 7
            outer = [int(x) for x in t[i:i + cols + 1]]; i += cols + 2
            inner = [int(x) for x in t[i:i + nnz]]; i += nnz + 1
            vals = [int(x, 16) for x in t[i:i + nnz]]
            cur["items"][t[1]] = {"t": "spm", "rows": rows, "cols": cols, "extra": extra, "outer": outer, "inner": inner, "vals": vals}
        elif t[0] == "end":
            P = cur["items"]["P"]
            cur["n"], cur["p"], cur["m"] = P["rows"], cur["items"]["A"]["rows"], cur["items"]["G"]["rows"]
            cases.append(cur); cur = None
    return cases

def expected_dump(it):
    """what the harness must print for .in.<name> (modulo the comp= flag)"""
    if it["t"] in ("den", "vec"):
        return "D %d %d |%s" % (it["rows"], it["cols"], "".join(" " + hx(v) for v in it["vals"]))
    return "S %d %d | %s |%s |%s" % (it["rows"], it["cols"], " ".join(map(str, it["outer"])),
                                     "".join(" %d" % i for i in it["inner"]), "".join(" " + hx(v) for v in it["vals"]))

def strip_comp(s):
    return re.sub(r" comp=\d", "", s).rstrip()

def class_sig(c):
    return "%s n%d p%d m%d %s" % (c["kind"], min(c["n"], 4), min(c["p"], 3), min(c["m"], 3), ",".join(f for f in c["flags"] if f not in ("rawbits", "extreme", "zero")))

# ------------------------------------------------------------------------------------------------ model side (Coq)
def zl(l): return "[" + "; ".join(str(x) if x >= 0 else "(%d)" % x for x in l) + "]"

def coq_val(it):
    if it["t"] == "den":
        return "VDense {| d_rows := %d; d_cols := %d; d_data := %s |}" % (it["rows"], it["cols"], zl(it["vals"]))
    if it["t"] == "vec":
        return "VVec %s" % zl(it["vals"])
    if it["extra"] > 0:
        # Eigen's reserve(extra per column) on a compressed matrix: column j moves to outer[j] + j*extra ... the model only needs
        # an un-compressed storage with the same live entries: outer'[j] = outer[j] + j*extra, innerNonZeros[j] = count, dead slots = garbage
        outer, inner, vals, ex = it["outer"], it["inner"], it["vals"], it["extra"]
        cols = it["cols"]
        no, ni, nv, nz = [], [], [], []
        for j in range(cols):
            no.append(len(ni))
            cnt = outer[j + 1] - outer[j]
            ni += inner[outer[j]:outer[j + 1]] + [987654321] * ex
            nv += vals[outer[j]:outer[j + 1]] + [0xdeadbeef] * ex
            nz.append(cnt)
        no.append(len(ni))
        return "VSparse {| sp_rows := %d; sp_cols := %d; sp_outer := %s; sp_innz := Some %s; sp_inner := %s; sp_vals := %s |}" % (
            it["rows"], cols, zl(no), zl(nz), zl(ni), zl(nv))
    return "VSparse {| sp_rows := %d; sp_cols := %d; sp_outer := %s; sp_innz := None; sp_inner := %s; sp_vals := %s |}" % (
        it["rows"], it["cols"], zl(it["outer"]), zl(it["inner"]), zl(it["vals"]))

def coq_model(items):
    f = {"P": "m_P", "A": "m_A", "G": "m_G", "c": "m_c", "b": "m_b", "h": "m_h", "x_lb": "m_x_lb", "x_ub": "m_x_ub"}
    return "{| " + "; ".join("%s := %s" % (f[nm], coq_val(items[nm])) for nm in NAMES) + " |}"

def pre_model(kind):
    """the model that drv_matio.cpp saves first when pre=1 (same constants as in the harness)"""
    v = lambda x, n: {"t": "vec", "rows": n, "cols": 1, "vals": [d2b(x)] * n}
    if kind == "dense":
        P0 = {"t": "den", "rows": 2, "cols": 2, "vals": [d2b(7.5)] * 4}
        A0 = {"t": "den", "rows": 1, "cols": 2, "vals": [d2b(3.0)] * 2}
    else:
        P0 = {"t": "spm", "rows": 2, "cols": 2, "extra": 0, "outer": [0, 1, 2], "inner": [0, 1], "vals": [d2b(7.5), d2b(2.5)]}
        A0 = {"t": "spm", "rows": 1, "cols": 2, "extra": 0, "outer": [0, 0, 1], "inner": [0], "vals": [d2b(3.0)]}
    return {"P": P0, "c": v(-1.25, 2), "A": A0, "b": v(9.0, 1), "G": A0, "h": v(9.0, 1), "x_lb": v(-1.25, 2), "x_ub": v(-1.25, 2)}

COQ_PRELUDE = """From Coq Require Import String.
From Coq Require Import ZArith List Ascii.
From PIQP.gen Require Import MatioFields.
From PIQP Require Import MatIO.
Import ListNotations.
Open Scope Z_scope.
Definition ser_name (s : string) : list Z :=
  let cs := map (fun c => Z.of_nat (nat_of_ascii c)) (list_ascii_of_string s) in Z.of_nat (length cs) :: cs.
Definition run_case (sparse : bool) (pre : option (Model Z)) (m : Model Z) : list Z :=
  let save := if sparse then save_sparse_model Z (-1) else save_dense_model Z (-1) in
  let load := if sparse then load_sparse_model Z (-1) else load_dense_model Z (-1) in
  match (match pre with None => Some [] | Some pm => save pm [] end) with
  | Some f0 =>
      match save m f0 with
      | Some f => [1; Z.of_nat (length f)]
                  ++ concat (map (fun e => ser_name (fst e) ++ (let s := ser_matvar (snd e) in Z.of_nat (length s) :: s)) f)
                  ++ [match load f with Some m' => if model_eqb m' (compress_model Z (-1) m) then 1 else 0 | None => 0 end;
                      if wf_model Z (if sparse then sparse_members else dense_members) (compress_model Z (-1) m) then 1 else 0]
      | None => [0]
      end
  | None => [0]
  end.
"""

def run_model(ctx, cases, tag):
    """evaluate the Gallina save/load on the cases; returns dict id -> flat int list (or None on failure), and message"""
    # shard the cases over several files evaluated in parallel (one big file can exceed any reasonable time limit on a loaded machine)
    from concurrent.futures import ThreadPoolExecutor
    SH = 120
    shards = [cases[i:i + SH] for i in range(0, len(cases), SH)] or [[]]
    def one(args):
        k, sh_cases = args
        vf = os.path.join(ctx.work, "Cases_%s_%d.v" % (tag, k))
        o = [COQ_PRELUDE]
        for c in sh_cases:
            pre = "(Some %s)" % coq_model(pre_model(c["kind"])) if c["pre"] else "None"
            o.append("Eval vm_compute in (run_case %s %s %s)." % ("true" if c["kind"] == "sparse" else "false", pre, coq_model(c["items"])))
        open(vf, "w").write("\n".join(o) + "\n")
        return vlib.sh(["coqc", "-Q", vlib.COQ, "PIQP", vf], cwd=ctx.work, timeout=3000)
    with ThreadPoolExecutor(max_workers=8) as ex:
        results = list(ex.map(one, enumerate(shards)))
    for rc, out in results:
        if rc != 0:
            return None, "coqc on generated case file failed: " + out[-800:]
    out = "\n".join(o_ for _, o_ in results)
    chunks = re.split(r"^\s*=\s", out, flags=re.M)[1:]
    if len(chunks) != len(cases):
        return None, "expected %d results from the model, got %d" % (len(cases), len(chunks))
    res = {}
    for c, ch in zip(cases, chunks):
        body = ch.split(": list Z")[0]
        res[c["id"]] = [int(x) for x in re.findall(r"-?\d+", body)]
    return res, "ok"

def file_obs_to_flat(obs):
    """the harness' <id>.file.* lines -> the flat list the model prints"""
    nvars = None
    ents = {}
    for k, v in obs:
        if k == "file.count": nvars = int(v)
        elif k.startswith("file.") and k[5:].isdigit(): ents[int(k[5:])] = v
    if nvars is None: return None
    flat = [1, nvars]
    for i in range(nvars):
        v = ents[i]
        head, _, rest = v.partition(" |")
        kv = dict(t.split("=", 1) for t in head.split() if "=" in t)
        name = kv["name"]
        dims = [int(x) for x in kv["dims"].split(",")]
        ser = [int(kv["rank"]), int(kv["class"]), int(kv["dtype"]), int(kv["complex"]), len(dims)] + dims
        parts = [p.split() for p in ("|" + rest).split("|")[1:]]
        if " sparse " in " " + head + " ":
            ir, jc, dat = [int(x) for x in parts[0]], [int(x) for x in parts[1]], [int(x, 16) for x in parts[2]]
            ser += [1, int(kv["nzmax"]), int(kv["nir"]), int(kv["njc"]), int(kv["ndata"]), len(ir)] + ir + [len(jc)] + jc + [len(dat)] + dat
        else:
            dat = [int(x, 16) for x in parts[0]] if parts else []
            ser += [0, len(dat)] + dat
        flat += [len(name)] + [ord(ch) for ch in name] + [len(ser)] + ser
    return flat

# ------------------------------------------------------------------------------------------------ real code
def parse_out(text):
    d = {}
    for ln in text.splitlines():
        k, _, v = ln.partition(" ")
        parts = k.split(".", 1)
        if len(parts) == 2 and re.fullmatch(r"[A-Za-z0-9_]+", parts[0]) and re.match(r"(in|out|file|status)\.", parts[1]):
            d.setdefault(parts[0], []).append((parts[1], v.rstrip()))
    return d

def run_real(ctx, exe, cases, tag, max_crashes=25):
    """returns dict id -> observations.  A crash inside save/load kills the batch: the crashed case gets
    ('status.crash', stage + message) and the batch is resumed after it (at most max_crashes times; the cases
    that were then never run are listed under the key None)."""
    obs = {}
    rest = list(cases)
    crashes = 0
    rnd = 0
    while rest:
        cf = os.path.join(ctx.work, "cases_%s_%d.txt" % (tag, rnd)); rnd += 1
        open(cf, "w").write("".join(case_text(c) for c in rest))
        rc, out = vlib.sh([exe, ctx.work, cf], timeout=900)
        o = parse_out(out)
        k = 0
        while k < len(rest) and any(key == "status.rc" for key, _ in o.get(rest[k]["id"], [])):
            obs[rest[k]["id"]] = o[rest[k]["id"]]; k += 1
        if k == len(rest): break
        c = rest[k]
        ob1 = o.get(c["id"], [])
        stage = "load" if any(key.startswith("file.") for key, _ in ob1) else "save"
        msg = [l for l in out.splitlines() if not re.match(r"[A-Za-z0-9_]+\.(in|out|file|status)\.", l)]
        ob1.append(("status.crash", "%s rc=%d %s" % (stage, rc, " ".join(msg)[-300:])))
        obs[c["id"]] = ob1
        crashes += 1
        rest = rest[k + 1:]
        if crashes >= max_crashes:
            obs[None] = [c2["id"] for c2 in rest]
            break
        try: os.remove(os.path.join(ctx.work, c["id"] + ".mat"))
        except OSError: pass
    return obs

def diff_kind(a, b):
    pa, pb = [x.strip() for x in a.split("|")], [x.strip() for x in b.split("|")]
    if pa[0] != pb[0]: return "dims"
    if len(pa) == 4 and len(pb) == 4:
        if pa[1] != pb[1] or pa[2] != pb[2]: return "pattern"
        return "values"
    return "values"

def judge_roundtrip(ctx, c, ob, variant):
    """(a): out == in bit for bit.  returns (n_ok_harness_input, violation or None)"""
    d = dict(ob)
    if "status.crash" in d:
        stage = d["status.crash"].split()[0]
        return ("crash:%s:%s:%s" % (variant, c["kind"], stage), "save/load of a well-formed model did not return: " + d["status.crash"])
    for nm in NAMES:
        exp = expected_dump(c["items"][nm])
        got = strip_comp(d.get("in." + nm, "<missing>"))
        if got != exp.rstrip():
            return ("harness-input:%s" % nm, "harness did not build the intended input: %s vs %s" % (got[:200], exp[:200]))
        out = strip_comp(d.get("out." + nm, "<missing>"))
        if out != got:
            return ("roundtrip:%s:%s:%s:%s" % (variant, c["kind"], nm, diff_kind(got, out)),
                    "%s.%s saved as [%s] loaded as [%s]" % (c["id"], nm, got[:400], out[:400]))
    return None

# ------------------------------------------------------------------------------------------------ case sets
def corpus_cases():
    d = os.path.join(vlib.VERIF, "corpus", "c20")
    out = []
    if os.path.isdir(d):
        for f in sorted(os.listdir(d)):
            if f.endswith(".cases"):
                out += parse_case_text(open(os.path.join(d, f)).read())
    return out

def shape_grid(rng, start):
    """every (kind, n, p, m) with n in {1,2}, p, m in {0,1,2}, random content"""
    out = []
    for kind in ("dense", "sparse"):
        for n in (1, 2):
            for p in (0, 1, 2):
                for m in (0, 1, 2):
                    out.append(gen_case(rng, "g%d" % (start + len(out)), kind=kind, n=n, p=p, m=m))
    return out

def pattern_grid(rng, start, shapes):
    """sparse: every sparsity pattern of G for the given (m, n) shapes"""
    out = []
    for (m, n) in shapes:
        cells = [(i, j) for i in range(m) for j in range(n)]
        for mask in range(1 << len(cells)):
            pat = {cells[k] for k in range(len(cells)) if mask >> k & 1}
            out.append(gen_case(rng, "q%d" % (start + len(out)), kind="sparse", n=n, m=m, G_pattern=pat))
    return out

# ------------------------------------------------------------------------------------------------ main
def run(ctx):
    vlib.regen(ctx, ("matio",))
    vlib.coq_hygiene(ctx)
    proofs_ok = vlib.coq_properties(ctx, "C20")
    rng = ctx.rng

    specs = [dict(src="drv_matio.cpp", defines=(), libs=("-lmatio",), name="drv_matio"),
             dict(src="drv_matio.cpp", defines=("NDEBUG",), libs=("-lmatio",), name="drv_matio_ndebug"),
             dict(src="drv_matio.cpp", defines=("IDX64",), libs=("-lmatio",), name="drv_matio_i64")]
    builds = vlib.build_many(ctx, specs)
    for s, (exe, msg) in zip(specs, builds):
        ctx.ob("harness:%s" % s["name"], "build", exe is not None, msg)
    exe_main, exe_nd, exe_64 = builds[0][0], builds[1][0], builds[2][0]

    # ---- cases
    if getattr(ctx, "replay", None):
        rp = json.load(open(ctx.replay))
        cases = parse_case_text(rp["replay"]["case_text"])
        unsorted_cases = []
        ctx.notes.append("replay of %s" % ctx.replay)
    else:
        N = 200 if ctx.quick() else 2000
        cases = corpus_cases()
        ncorpus = len(cases)
        cases += shape_grid(rng, 0)
        ngrid = len(cases) - ncorpus
        if not ctx.quick():
            cases += pattern_grid(rng, 0, [(1, 1), (2, 1), (1, 2), (2, 2), (3, 2), (2, 3), (3, 3), (0, 2)])
        else:
            cases += pattern_grid(rng, 0, [(1, 1), (2, 2), (0, 2)])
        npat = len(cases) - ncorpus - ngrid
        cases += [gen_case(rng, "r%d" % i) for i in range(N)]
        # row indices that do not fit 8 / 16 bits (the second kind is compared on the real code only: 70000-long vectors)
        for i in range(2 if ctx.quick() else 6):
            m_ = rng.choice([257, 300, 511])
            c = gen_case(rng, "b%d" % i, kind="sparse", n=2, p=rng.choice([0, 1]), m=m_,
                         G_pattern={(m_ - 1, 0), (256, 1), (rng.randrange(256), 1), (rng.randrange(m_), 0)})
            c["flags"] = sorted(set(c["flags"]) | {"row-index>255"})
            cases.append(c)
        for i in range(1 if ctx.quick() else 3):
            m_ = rng.choice([65537, 70000])
            c = gen_case(rng, "B%d" % i, kind="sparse", n=2, p=0, m=m_, G_pattern={(m_ - 1, 0), (65536, 1), (255, 0), (rng.randrange(m_), 1)})
            c["flags"] = sorted(set(c["flags"]) | {"row-index>65535"})
            c["skip_model"] = True
            cases.append(c)
        unsorted_cases = [gen_case(rng, "u%d" % i, kind="sparse", unsorted=True, n=rng.choice([3, 4, 5]), m=rng.choice([3, 4]), p=rng.choice([0, 2, 3]))
                          for i in range(20 if ctx.quick() else 200)]
        ctx.coverage["rule"] = ("%d corpus cases + every (kind,n,p,m) with n<=2, p,m<=2 (%d) + every sparsity pattern of G for small shapes (%d) + "
                                "%d seeded random models (values from the special pool: +-0, +-inf, +-1e30, denormals, DBL_MIN/MAX, quiet/signalling NaN "
                                "payloads, raw 64-bit patterns; empty columns, explicit zeros, nnz=0, un-compressed storage, save over an existing file) "
                                "+ %d models with unsorted columns (NDEBUG build only); sparse cases also with 64-bit indices"
                                % (ncorpus, ngrid, npat, N, len(unsorted_cases)))
    ids = set()
    for c in cases + unsorted_cases:
        assert c["id"] not in ids, "duplicate case id " + c["id"]
        ids.add(c["id"])
    by_id = {c["id"]: c for c in cases + unsorted_cases}

    # ---- (a) the real round trip = property oracle
    evals = 0
    seen_sig = set()
    harness_input_bad = []
    def sweep(exe, cs, variant):
        nonlocal evals
        if exe is None or not cs: return {}
        obs = run_real(ctx, exe, cs, variant)
        skipped = set(obs.get(None, []))
        if skipped: ctx.notes.append("%s: %d cases not run after %d crashes" % (variant, len(skipped), 25))
        for c in cs:
            if c["id"] in skipped: continue
            ob = obs.get(c["id"], [])
            if not ob:
                harness_input_bad.append("%s/%s: no output" % (variant, c["id"])); continue
            evals += 1
            v = judge_roundtrip(ctx, c, ob, variant)
            if v is None:
                ctx.classes.add(class_sig(c))
                continue
            sig, detail = v
            if sig.startswith("harness-input"):
                harness_input_bad.append("%s/%s: %s" % (variant, c["id"], detail)); continue
            if sig not in seen_sig:
                seen_sig.add(sig)
                ctx.violation(sig, detail, {"variant": variant, "case_text": case_text(c), "flags": c["flags"],
                                            "observed": ["%s %s" % kv for kv in ob if kv[0].startswith(("in.", "out.", "status."))]}, concrete=True)
        return obs
    obs_main = sweep(exe_main, cases, "main")
    obs_nd = sweep(exe_nd, cases + unsorted_cases, "ndebug")
    sweep(exe_64, [c for c in cases if c["kind"] == "sparse"], "i64")
    ctx.ob("harness:inputs-as-intended", "machinery", not harness_input_bad, "; ".join(harness_input_bad[:5]))
    ctx.ob("search:real-roundtrip-bitwise", "search", not seen_sig,
           "%d round trips on the real code; differing classes: %s" % (evals, ", ".join(sorted(seen_sig)[:8])))

    # ---- (b) file content == Gallina save_model, and the model's own round trip
    all_b = [c for c in cases + unsorted_cases if not c.get("skip_model")]
    obs_b = dict(obs_main)
    for c in unsorted_cases:
        obs_b[c["id"]] = obs_nd.get(c["id"], [])
    bad, nmodel = [], 0
    CH = max(10, min(100, (len(all_b) + vlib.NPROC - 1) // vlib.NPROC))
    chunks = [all_b[k:k + CH] for k in range(0, len(all_b), CH)]
    from concurrent.futures import ThreadPoolExecutor
    with ThreadPoolExecutor(max_workers=vlib.NPROC) as ex:
        results = list(ex.map(lambda kc: run_model(ctx, kc[1], "k%d" % kc[0]), enumerate(chunks)))
    for chunk, (res, msg) in zip(chunks, results):
        if res is None:
            bad.append("model evaluation: " + msg); break
        for c in chunk:
            flat_m = res[c["id"]]
            ob = obs_b.get(c["id"], [])
            if any(kk == "status.crash" for kk, _ in ob) or not ob:
                continue    # reported by (a)
            flat_f = file_obs_to_flat(ob)
            nmodel += 1
            if flat_f is None:
                bad.append("%s: no file dump" % c["id"]); continue
            if flat_m[:1] != [1]:
                bad.append("%s: model save failed" % c["id"]); continue
            if flat_m[-2:] != [1, 1]:
                bad.append("%s: model load(save(m)) <> m or m not well-formed in the model (flags %s)" % (c["id"], flat_m[-2:])); continue
            if flat_m[:-2] != flat_f:
                j = next((i for i, (x, y) in enumerate(zip(flat_m[:-2], flat_f)) if x != y), min(len(flat_m) - 2, len(flat_f)))
                bad.append("%s (%s): file content differs from encode at flat position %d: model %s file %s" % (
                    c["id"], c["kind"], j, flat_m[max(0, j - 6):j + 6], flat_f[max(0, j - 6):j + 6]))
    ctx.ob("correspondence:file-content-vs-model", "correspondence", not bad,
           ("%d files compared variable by variable with save_*_model (vm_compute); " % nmodel) + "; ".join(bad[:4]))
    ctx.coverage["evaluations"] = evals
    ctx.coverage["model_evaluations"] = nmodel
    ctx.coverage["samples"] = [case_text(c) for c in cases[:3]]
    ctx.trusted.append("libmatio %s (Mat_VarCreate/Write/Read/Delete) is the file oracle: file = association list name -> matvar_t content; "
                       "checked on every case by reading the file back with plain libmatio calls" % "1.5.x")
    ctx.trusted.append("Eigen 3.4 assignment semantics (dense linear copy, assign_sparse_to_sparse) transcribed in coq/MatIO.v; g++ double moves preserve bit patterns")
    ctx.assumptions.append("sparse index type int (also run with long long); index bound 2^31 stated in the theorems; unsorted columns only under -DNDEBUG "
                           "(with assertions enabled Eigen's insertBackByOuterInner aborts on them: outside Eigen's class invariant)")
    return vlib.finish(ctx, level="proof",
                       checker_cmd="coqc Properties_C20.v (Coq 8.16.1) + harness/drv_matio.cpp (double, -lmatio) bitwise round trip + file dump vs vm_compute of coq/MatIO.v",
                       explanation="T1/T2 codec round trips for every well-formed dense / CSC object, T3 regenerated field lists, T4 load(save(m)) = m over any "
                                   "pre-existing file; the real save/load is run on every generated model and compared bit for bit, and every written file is "
                                   "compared with the model's encoding.")
