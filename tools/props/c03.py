"""C03 -- verdicts are never contradicted by exact ground truth.

Proof part (coq/Properties_C03.v): the exact certificate checkers of coq/Certs.v are sound for all sizes
(KKT point + exact PSD test => global minimiser; Farkas certificate => no feasible point; recession direction =>
feasible => unbounded below) and the two margin theorems T1/T2 (SOLVED is impossible on a problem with a normalised
certificate unless the iterate is huge).  The heuristic half (no false infeasibility verdict) is only STATED
(coq/CertsPartial.v, no_false_infeasible_partial) and is decided here by exploration:

  * every instance comes with a certificate (by construction, or found by an untrusted exact search for the grid);
  * the EXTRACTED VERIFIED checker (ocaml/drv_certs.ml around coq/Certs.v) decides the label; instances whose
    certificate it rejects are dropped and counted -- only machine-checked labels are used;
  * every labelled instance is run on the real code in double precision on all five back ends (Ruiz; a third of the random
    families also with the identity preconditioner), settings drawn from a small grid of accepted configurations (default,
    check_duality_gap off, preconditioner_iter 0, scale_cost, refinement always on);
    an infeasibility verdict on a `solvable` instance, or SOLVED on an `infeasible` / `unbounded` instance (certificate
    value -1, ||cert||_1 <= 10) is a violation with the case, the certificate and the label as replay.  For SOLVED the signature
    says whether the relative scale at exit exceeds the bound of T1/T2 (`iterate=huge`: the relative test passed because the
    iterate diverged) or not (`iterate=moderate`: the test itself is broken);
  * corpus/c03/*.json: recorded instances (earlier findings), re-labelled and re-run on every back end in every run.
MAX_ITER_REACHED / NUMERICS are not contradictions; they are counted in the evidence.  All data handed to the double build are
checked to be exactly representable in double, so the instance solved is the certified one."""
import os, sys, re, json, glob, hashlib, shutil, itertools, time
from fractions import Fraction as Fr
from concurrent.futures import ThreadPoolExecutor
import vlib, spine, double_suite as DS, solver_suite as SS, gen_cases as G

NINF, INF = G.NINF, G.INF
MARGIN_NORM = 10        # "clear margin": certificate value -1 and ||certificate||_1 <= 10

# ---------------------------------------------------------------------------------------------- verified checker
def build_certs(ctx):
    """extract coq/Certs.v and build ocaml/drv_certs; cached by the hash of every input"""
    h = hashlib.sha256()
    files = [os.path.join(vlib.COQ, f) for f in ("Base.v", "LinAlg.v", "Certs.v")] + \
            [os.path.join(vlib.VERIF, "ocaml", f) for f in ("ExtractCerts.v", "drv_certs.ml", "build_certs.sh", "conv_fast.ml", "zhelp.ml")]
    for f in files:
        if not os.path.exists(f): return None, "missing " + f
        h.update(f.encode()); h.update(open(f, "rb").read())
    exe = os.path.join(vlib.CACHE, "drv_certs-%s" % h.hexdigest()[:24])
    if os.path.exists(exe):
        os.utime(exe, None); return exe, "cached"
    rc, out = vlib.coq_make(ctx, ["Certs.vo"])
    if rc != 0: return None, "Certs.v does not compile: " + out[-1500:]
    rc, out = vlib.sh([os.path.join(vlib.VERIF, "ocaml", "build_certs.sh")], timeout=900)
    built = os.path.join(vlib.VERIF, "ocaml", "_build", "certs", "drv_certs")
    if rc != 0 or not os.path.exists(built): return None, "build_certs.sh failed: " + out[-1500:]
    tmp = exe + ".tmp%d" % os.getpid()
    shutil.copy2(built, tmp); os.replace(tmp, exe)
    return exe, "built"

def fs(x): return G.fs(x)
def btok(x): return "none" if isinstance(x, str) else fs(x)

class Inst:
    """problem + certificate.  kind: kkt | farkas | recession"""
    def __init__(self, name, family, kind, pb, cert, tags=(), settings=()):
        self.name, self.family, self.kind, self.pb, self.cert, self.tags = name, family, kind, pb, cert, list(tags)
        self.settings = list(settings)
        self.label = None; self.check = None; self.accepted = False
    def double_exact(self):
        """every datum is exactly representable in double: the instance the double build solves IS the certified one"""
        pb = self.pb
        vals = [v for r in pb["P"] for v in r] + list(pb["c"]) + [v for r in pb["A"] for v in r] + list(pb["b"]) + [v for r in pb["G"] for v in r] + \
               list(pb["h"]) + [v for v in pb["lb"] if finite(v)] + [v for v in pb["ub"] if finite(v)]
        for v in vals:
            v = Fr(v)
            if v != 0 and (v.denominator & (v.denominator - 1) != 0 or abs(v.numerator).bit_length() > 53 or v.denominator.bit_length() > 1000): return False
        return True
    def checker_text(self):
        pb = self.pb; n, p, m = pb["n"], pb["p"], pb["m"]
        t = ["INST", self.name, self.kind, str(n), str(p), str(m)]
        for row in pb["P"]: t += [fs(v) for v in row]
        t += [fs(v) for v in pb["c"]]
        for row in pb["A"]: t += [fs(v) for v in row]
        t += [fs(v) for v in pb["b"]]
        for row in pb["G"]: t += [fs(v) for v in row]
        t += [fs(v) for v in pb["h"]]
        t += [btok(v) for v in pb["lb"]] + [btok(v) for v in pb["ub"]]
        c = self.cert
        order = {"kkt": ("x", "y", "z", "zl", "zu"), "farkas": ("y", "z", "zl", "zu"), "recession": ("d", "x0")}[self.kind]
        for k in order: t += [fs(v) for v in c[k]]
        return " ".join(t) + "\n"
    def case(self):
        pb = G.with_patterns(self.pb)
        return SS.Case(self.name, list(self.settings), [G.op_setup(pb), G.op_solve()], {0: pb, 1: pb},
                       ["C03", self.family] + self.tags + ["s:" + ",".join("%s=%s" % kv for kv in self.settings)])
    def replay(self, backend, obs, precond="ruiz"):
        return {"case": self.case().text(), "backend": backend, "precond": precond, "scalar": "double", "family": self.family, "settings": self.settings,
                "label": self.label, "certificate_kind": self.kind, "certificate": {k: [fs(v) for v in vs] for k, vs in self.cert.items()},
                "verified_checker_output": self.check, "checker_input": self.checker_text(),
                "observed": {k: obs.get(k) for k in ("status", "iter", "primal_inf", "dual_inf", "primal_rel_inf", "dual_rel_inf", "no_primal_update", "no_dual_update", "x")}}

def label_instances(ctx, exe, insts, name):
    """run the verified checker; sets inst.label in {solvable, infeasible, unbounded, None}; returns number dropped"""
    f = os.path.join(ctx.work, name + ".inst")
    with open(f, "w") as fh:
        for it in insts: fh.write(it.checker_text())
    rc, out = vlib.run_bin(exe, f, timeout=1800)
    if rc != 0:
        ctx.ob("checker:%s" % name, "machinery", False, "drv_certs rc=%d %s" % (rc, out[-800:])); return len(insts)
    res = {}
    for ln in out.splitlines():
        t = ln.split()
        if len(t) >= 3: res[t[0]] = t[1:]
    dropped = 0
    for it in insts:
        r = res.get(it.name); it.check = " ".join(r) if r else None; it.label = None
        it.accepted = bool(r) and r[0] == it.kind and r[1] == "1" and (it.kind != "kkt" or r[2] == "1") and (it.kind != "recession" or r[2] == "1")
        if r and r[0] == it.kind:
            if it.kind == "kkt" and r[1] == "1" and r[2] == "1": it.label = "solvable"
            elif it.kind == "farkas" and r[1] == "1" and Fr(r[2]) == -1 and Fr(r[3]) <= MARGIN_NORM: it.label = "infeasible"
            elif it.kind == "recession" and r[1] == "1" and r[2] == "1" and Fr(r[3]) == -1 and Fr(r[4]) <= MARGIN_NORM: it.label = "unbounded"
        if it.label is None: dropped += 1
    return dropped

# ---------------------------------------------------------------------------------------------- small exact helpers
def dot(a, b): return sum((x * y for x, y in zip(a, b)), Fr(0))
def matvec(M, x): return [dot(r, x) for r in M]
def matTvec(M, y, n): return [sum((M[i][j] * y[i] for i in range(len(M))), Fr(0)) for j in range(n)]
def rq(rng, lo=-3, hi=3, den=(1, 1, 1, 2)): return Fr(rng.randint(lo, hi), rng.choice(den))
def rvec(rng, n, sparse=0.3, **kw): return [rq(rng, **kw) if rng.random() > sparse else Fr(0) for _ in range(n)]
def gram(L, n):
    """L: list of generator vectors (each length n) -> sum v v^T"""
    return [[sum((v[i] * v[j] for v in L), Fr(0)) for j in range(n)] for i in range(n)]
def finite(x): return not isinstance(x, str)

def mk_pb(n, P, c, A, b, G_, h, lb, ub, x0=None):
    kinds = ["both" if (finite(lb[i]) and finite(ub[i])) else "lower" if finite(lb[i]) else "upper" if finite(ub[i]) else "free" for i in range(n)]
    return {"n": n, "p": len(A), "m": len(G_), "P": P, "c": c, "A": A, "b": b, "G": G_, "h": h, "lb": lb, "ub": ub, "kinds": kinds,
            "x0": x0 or [Fr(0)] * n}

# ---------------------------------------------------------------------------------------------- family (a): solvable
def gen_solvable(rng, name, nmax, stress_ok=True):
    n = rng.randint(1, nmax)
    flav = rng.choice(["generic", "lp", "singular", "duprows", "noslater", "fixed", "p_gt_n", "strict", "degenerate", "generic"])
    stress = rng.choice(["", "", "", "", "bigmult", "bigx", "rowscale", "nearpar", "bigmult+rowscale", "bigx+rowscale", "bigmult+nearpar", "bigx+bigmult"]) if stress_ok else ""
    xs = [rq(rng, -2, 2) for _ in range(n)]
    if "bigx" in stress:
        K = Fr(10) ** rng.randint(1, 3); xs = [K * v for v in xs]
    # P = sum of r rank-one terms (+ mu I for the strictly convex flavour)
    r = 0 if flav == "lp" else rng.randint(0, max(0, n - 1)) if flav == "singular" else rng.randint(0, n)
    P = gram([rvec(rng, n, 0.3, lo=-2, hi=2) for _ in range(r)], n)
    if flav == "strict" or (flav not in ("lp", "singular") and rng.random() < 0.4):
        mu = rng.choice([Fr(1), Fr(1, 2), Fr(2)])
        for i in range(n): P[i][i] += mu
    # equalities
    p = rng.choice([0, 0, 1, 1, 2, min(3, n)])
    A = [rvec(rng, n, 0.3) for _ in range(p)]
    if flav == "duprows" and p >= 1:
        for _ in range(rng.randint(1, 2)):
            k = rng.randrange(len(A)); s = rng.choice([Fr(1), Fr(-1), Fr(2), Fr(1, 2)])
            A.append([s * v for v in A[k]])
    if flav == "p_gt_n":
        base = [rvec(rng, n, 0.2) for _ in range(rng.randint(1, n))]
        A = list(base)
        while len(A) <= n:
            co = [Fr(rng.randint(-2, 2)) for _ in base]
            A.append([sum((co[k] * base[k][j] for k in range(len(base))), Fr(0)) for j in range(n)])
        rng.shuffle(A)
    p = len(A)
    b = matvec(A, xs)
    y = [rq(rng, -3, 3) for _ in range(p)]
    # inequalities with a chosen active set
    m = rng.choice([0, 1, 2, 3, rng.randint(0, n + 2)])
    Gm = [rvec(rng, n, 0.3) for _ in range(m)]
    act = [rng.random() < 0.5 for _ in range(m)]
    if flav == "duprows" and m >= 1:
        k = rng.randrange(m); Gm.append(list(Gm[k])); act.append(act[k])
    if flav == "noslater":
        # an implicit equality  g x <= t, -g x <= -t  (both active): the feasible set has no interior point
        g = rvec(rng, n, 0.2)
        if all(v == 0 for v in g): g[rng.randrange(n)] = Fr(1)
        Gm += [g, [-v for v in g]]; act += [True, True]
    if "nearpar" in stress:
        # nearly parallel rows: a copy of a row perturbed by 2^-k in one entry
        for M_, flags in ((A, None), (Gm, act)):
            if M_ and rng.random() < 0.7:
                k = rng.randrange(len(M_)); r_ = list(M_[k]); r_[rng.randrange(n)] += Fr(1, 2 ** rng.randint(4, 20)); M_.append(r_)
                if flags is not None: flags.append(flags[k])
        p = len(A); b = matvec(A, xs); y = [rq(rng, -3, 3) for _ in range(p)]
    if "rowscale" in stress:
        for M_ in (A, Gm):
            for k in range(len(M_)):
                sc = Fr(2) ** rng.randint(-10, 10); M_[k] = [sc * v for v in M_[k]]
        b = matvec(A, xs)
    m = len(Gm)
    h, z = [], []
    for i in range(m):
        gx = dot(Gm[i], xs)
        if act[i]:
            h.append(gx); z.append(rng.choice([Fr(0), Fr(1), Fr(1, 2), Fr(2), Fr(3)]) if flav != "degenerate" else rng.choice([Fr(0), Fr(0), Fr(1)]))
        else:
            h.append(gx + rng.choice([Fr(1), Fr(1, 2), Fr(2), Fr(5)])); z.append(Fr(0))
    # bounds
    lb, ub, zl, zu = [], [], [], []
    for i in range(n):
        kd = rng.choice(["free", "lower", "upper", "both", "free", "both"])
        if flav == "fixed" and rng.random() < 0.6: kd = "fixed"
        mg = rng.choice([Fr(1), Fr(1, 2), Fr(3)])
        mult = lambda: rng.choice([Fr(0), Fr(1), Fr(1, 2), Fr(2)])
        l, u, a, c_ = NINF, INF, Fr(0), Fr(0)
        if kd == "fixed":
            l, u = xs[i], xs[i]
            if rng.random() < 0.5: a = mult()
            else: c_ = mult()
        else:
            if kd in ("lower", "both"):
                if rng.random() < 0.5: l, a = xs[i], mult()
                else: l = xs[i] - mg
            if kd in ("upper", "both"):
                if rng.random() < 0.5 and not (kd == "both" and l == xs[i]): u, c_ = xs[i], mult()
                else: u = xs[i] + mg
        lb.append(l); ub.append(u); zl.append(a); zu.append(c_)
    if "bigmult" in stress:
        K = Fr(10) ** rng.randint(1, 6)
        y = [K * v for v in y]; z = [K * v for v in z]; zl = [K * v for v in zl]; zu = [K * v for v in zu]
    Px = matvec(P, xs); ATy = matTvec(A, y, n); GTz = matTvec(Gm, z, n)
    c = [-(Px[j] + ATy[j] + GTz[j] - zl[j] + zu[j]) for j in range(n)]
    pb = mk_pb(n, P, c, A, b, Gm, h, lb, ub, xs)
    if stress: flav += "+" + stress
    return Inst(name, "solvable-" + flav, "kkt", pb, {"x": xs, "y": y, "z": z, "zl": zl, "zu": zu}, ["n%d" % n, "p%d" % p, "m%d" % m])

# ---------------------------------------------------------------------------------------------- family (b): infeasible
def cert_norm(cert):
    return sum((abs(v) for vs in cert.values() for v in vs), Fr(0))

def gen_infeasible(rng, name, nmax):
    for _ in range(50):
        it = gen_infeasible1(rng, name, nmax)
        if cert_norm(it.cert) <= MARGIN_NORM: return it       # untrusted pre-filter; the verified checker reports the norm it accepts
    return it

def gen_infeasible1(rng, name, nmax):
    n = rng.randint(1, nmax)
    flav = rng.choice(["two-ineq", "box-eq", "general", "general", "eq-eq"])
    P = gram([rvec(rng, n, 0.3, lo=-2, hi=2) for _ in range(rng.randint(0, n))], n)
    if rng.random() < 0.5:
        for i in range(n): P[i][i] += Fr(1)
    c = [rq(rng, -3, 3) for _ in range(n)]
    xr = [rq(rng, -2, 2) for _ in range(n)]           # reference point for the unrelated constraints
    shift = rng.random() < 0.25
    if shift:
        K = 10 ** rng.randint(1, 3); xr = [v + rng.randint(-K, K) for v in xr]
    delta = rng.choice([Fr(1, 2), Fr(1), Fr(2), Fr(3)])
    A, b, Gm, h = [], [], [], []
    lb, ub = [NINF] * n, [INF] * n
    y, z, zl, zu = [], [], [Fr(0)] * n, [Fr(0)] * n
    def extra():
        for _ in range(rng.randint(0, 2)):
            g = rvec(rng, n, 0.3); Gm.append(g); h.append(dot(g, xr) + rng.choice([Fr(1), Fr(2)])); z.append(Fr(0))
        for i in range(n):
            if lb[i] == NINF and rng.random() < 0.3: lb[i] = xr[i] - rng.choice([Fr(1), Fr(3)])
            if ub[i] == INF and rng.random() < 0.3: ub[i] = xr[i] + rng.choice([Fr(1), Fr(3)])
    if flav == "two-ineq":
        g = rvec(rng, n, 0.2)
        if all(v == 0 for v in g): g[rng.randrange(n)] = Fr(1)
        t = dot(g, xr)
        Gm += [g, [-v for v in g]]; h += [t, -t - delta]; z += [1 / delta, 1 / delta]
        extra()
        if rng.random() < 0.4:
            a = rvec(rng, n, 0.3); A.append(a); b.append(dot(a, xr)); y.append(Fr(0))
    elif flav == "eq-eq":
        a = rvec(rng, n, 0.2)
        if all(v == 0 for v in a): a[rng.randrange(n)] = Fr(1)
        s = rng.choice([Fr(1), Fr(-1), Fr(2)])
        t = dot(a, xr)
        A += [a, [s * v for v in a]]; b += [t, s * t + delta]     # s*(a x) = s t + delta contradicts a x = t
        y += [s / delta, -1 / delta]                              # b'y = (s t - s t - delta)/delta = -1
        extra()
    elif flav == "box-eq":
        a = [Fr(0)] * n
        for j in rng.sample(range(n), rng.randint(1, min(n, 3))): a[j] = Fr(rng.choice([-2, -1, 1, 2]))
        delta = rng.choice([Fr(1), Fr(2), Fr(3)])
        # maximum of a x over the box is below the right-hand side by delta
        mx = Fr(0)
        for j in range(n):
            if a[j] > 0: ub[j] = xr[j] + rng.choice([Fr(0), Fr(1)]); mx += a[j] * ub[j]
            elif a[j] < 0: lb[j] = xr[j] - rng.choice([Fr(0), Fr(1)]); mx += a[j] * lb[j]
        if rng.random() < 0.5:
            A.append(a); b.append(mx + delta); y.append(-1 / delta)
        else:
            Gm.append([-v for v in a]); h.append(-(mx + delta)); z.append(1 / delta)
        for j in range(n):
            if a[j] > 0: zu[j] = a[j] / delta
            elif a[j] < 0: zl[j] = -a[j] / delta
        extra()
    else:
        # general: random multipliers, the sign pattern of w = A'y + G'z decides which bounds must be finite
        p = rng.randint(0, 2); m = rng.randint(1, 3)
        A += [rvec(rng, n, 0.3) for _ in range(p)]; Gm += [rvec(rng, n, 0.3) for _ in range(m)]
        y += [Fr(rng.randint(-1, 1)) for _ in range(p)]
        z += [Fr(rng.choice([0, 1, 1, 2])) for _ in range(m)]
        if all(v == 0 for v in z): z[0] = Fr(1)
        w = [a_ + g_ for a_, g_ in zip(matTvec(A, y, n), matTvec(Gm, z, n))]
        for j in range(n):
            if w[j] > 0: zl[j] = w[j]; lb[j] = xr[j] - rng.choice([Fr(0), Fr(1), Fr(2)])
            elif w[j] < 0: zu[j] = -w[j]; ub[j] = xr[j] + rng.choice([Fr(0), Fr(1), Fr(2)])
        b += matvec(A, xr); h += [dot(g, xr) + rng.choice([Fr(0), Fr(1)]) for g in Gm]
        v = dot(b, y) + dot(h, z) - sum((lb[j] * zl[j] for j in range(n) if finite(lb[j])), Fr(0)) + sum((ub[j] * zu[j] for j in range(n) if finite(ub[j])), Fr(0))
        k = next(i for i in range(len(z)) if z[i] > 0)
        h[k] -= (v + delta) / z[k]                      # now the value is -delta
        y = [t / delta for t in y]; z = [t / delta for t in z]; zl = [t / delta for t in zl]; zu = [t / delta for t in zu]
        extra()
    pb = mk_pb(n, P, c, A, b, Gm, h, lb, ub, xr)
    if shift: flav += "+shift"
    return Inst(name, "infeasible-" + flav, "farkas", pb, {"y": y, "z": z, "zl": zl, "zu": zu}, ["n%d" % n, "p%d" % len(A), "m%d" % len(Gm)])

# ---------------------------------------------------------------------------------------------- family (c): unbounded
def gen_unbounded(rng, name, nmax):
    for _ in range(50):
        it = gen_unbounded1(rng, name, nmax)
        if sum((abs(v) for v in it.cert["d"]), Fr(0)) <= MARGIN_NORM: return it
    return it

def gen_unbounded1(rng, name, nmax):
    n = rng.randint(1, nmax)
    d = [Fr(rng.randint(-2, 2)) if rng.random() < 0.7 else Fr(0) for _ in range(n)]
    piv = rng.randrange(n); d[piv] = Fr(rng.choice([-1, 1]))
    def orth(v):
        """v with its pivot entry replaced so that v.d = 0 (d[piv] = +-1: no denominators, data stay exact in double)"""
        w = list(v); w[piv] = -sum((v[j] * d[j] for j in range(n) if j != piv), Fr(0)) * d[piv]; return w
    flav = rng.choice(["lp", "qp", "qp", "free"])
    P = gram([orth(rvec(rng, n, 0.3, lo=-2, hi=2)) for _ in range(0 if flav == "lp" else rng.randint(1, n))], n)
    x0 = [rq(rng, -2, 2) for _ in range(n)]
    p = rng.choice([0, 0, 1, 2]); m = rng.choice([0, 1, 2, 3])
    A = [orth(rvec(rng, n, 0.3)) for _ in range(p)]; b = matvec(A, x0)
    Gm = []
    for _ in range(m):
        g = rvec(rng, n, 0.3); t = dot(g, d)
        if t > 0: g = [-v for v in g] if rng.random() < 0.5 else orth(g)
        Gm.append(g)
    h = [dot(g, x0) + rng.choice([Fr(0), Fr(1), Fr(2)]) for g in Gm]
    lb, ub = [NINF] * n, [INF] * n
    if flav != "free":
        for j in range(n):
            if d[j] >= 0 and rng.random() < 0.5: lb[j] = x0[j] - rng.choice([Fr(0), Fr(1), Fr(2)])
            if d[j] <= 0 and rng.random() < 0.5: ub[j] = x0[j] + rng.choice([Fr(0), Fr(1), Fr(2)])
    c = [rq(rng, -3, 3) for _ in range(n)]
    bigc = rng.random() < 0.25
    if bigc:
        K = 10 ** rng.randint(1, 3); u = orth([Fr(rng.randint(-K, K)) for _ in range(n)]); c = [c[j] + u[j] for j in range(n)]
    cd = dot(c, d)
    if cd == 0:
        j = next(i for i in range(n) if d[i] != 0); c[j] -= 1 / d[j]; cd = dot(c, d)
    if cd > 0: c = [-v for v in c]; cd = -cd
    dn = [v / (-cd) for v in d]                           # c'd = -1
    pb = mk_pb(n, P, c, A, b, Gm, h, lb, ub, x0)
    if bigc: flav += "+bigc"
    return Inst(name, "unbounded-" + flav, "recession", pb, {"d": dn, "x0": x0}, ["n%d" % n, "p%d" % p, "m%d" % m])

# ---------------------------------------------------------------------------------------------- untrusted exact search (grid)
def solve_eq(rows, rhs, nv):
    """Gaussian elimination over Q.  returns (particular solution, nullspace basis) or None if inconsistent"""
    M = [list(r) + [v] for r, v in zip(rows, rhs)]
    piv = []; r = 0
    for cidx in range(nv):
        k = next((i for i in range(r, len(M)) if M[i][cidx] != 0), None)
        if k is None: continue
        M[r], M[k] = M[k], M[r]
        pv = M[r][cidx]; M[r] = [v / pv for v in M[r]]
        for i in range(len(M)):
            if i != r and M[i][cidx] != 0:
                f = M[i][cidx]; M[i] = [a - f * b_ for a, b_ in zip(M[i], M[r])]
        piv.append(cidx); r += 1
        if r == len(M): break
    for i in range(r, len(M)):
        if M[i][nv] != 0: return None
    xp = [Fr(0)] * nv
    for i, cidx in enumerate(piv): xp[cidx] = M[i][nv]
    N = []
    for f in range(nv):
        if f in piv: continue
        v = [Fr(0)] * nv; v[f] = Fr(1)
        for i, cidx in enumerate(piv): v[cidx] = -M[i][f]
        N.append(v)
    return xp, N

def fm(rows, k):
    """Fourier-Motzkin: a point t in Q^k with a.t <= b for all (a, b) in rows, or None"""
    if k == 0:
        return [] if all(b >= 0 for _, b in rows) else None
    pos = [(a, b) for a, b in rows if a[k - 1] > 0]; neg = [(a, b) for a, b in rows if a[k - 1] < 0]
    new = [(a[:k - 1], b) for a, b in rows if a[k - 1] == 0]
    for ap, bp in pos:
        for an, bn in neg:
            cp, cn = ap[k - 1], -an[k - 1]
            new.append(([cn * u + cp * v for u, v in zip(ap[:k - 1], an[:k - 1])], cn * bp + cp * bn))
    sub = fm(new, k - 1)
    if sub is None: return None
    hi = min(((b - dot(a[:k - 1], sub)) / a[k - 1] for a, b in pos), default=None)
    lo = max(((b - dot(a[:k - 1], sub)) / a[k - 1] for a, b in neg), default=None)
    if lo is not None and hi is not None and lo > hi: return None
    t = Fr(0)
    if lo is not None and t < lo: t = lo
    if hi is not None and t > hi: t = hi
    return sub + [t]

def find_point(nv, eq, eqr, ine, iner):
    """a rational point with eq.x = eqr, ine.x <= iner, or None"""
    r = solve_eq(eq, eqr, nv)
    if r is None: return None
    xp, N = r
    rows = [([dot(a, v) for v in N], b - dot(a, xp)) for a, b in zip(ine, iner)]
    t = fm(rows, len(N))
    if t is None: return None
    return [xp[j] + sum((t[k] * N[k][j] for k in range(len(N))), Fr(0)) for j in range(nv)]

def unit(nv, j, s=1):
    v = [Fr(0)] * nv; v[j] = Fr(s); return v

def classify(pb):
    """untrusted: returns (kind, cert) with kind in kkt / farkas / recession, or None.  Exact active-set enumeration."""
    n, p, m = pb["n"], pb["p"], pb["m"]
    P, c, A, b, Gm, h, lb, ub = pb["P"], pb["c"], pb["A"], pb["b"], pb["G"], pb["h"], pb["lb"], pb["ub"]
    L = [j for j in range(n) if finite(lb[j])]; U = [j for j in range(n) if finite(ub[j])]
    # all inequality-type constraints as rows  r.x <= t
    ine = [list(g) for g in Gm] + [unit(n, j, -1) for j in L] + [unit(n, j, 1) for j in U]
    iner = list(h) + [-lb[j] for j in L] + [ub[j] for j in U]
    x0 = find_point(n, A, b, ine, iner)
    if x0 is None:
        # Farkas: unknown w = (y, mu) with mu over all inequality rows
        k = len(ine); nv = p + k
        eq = [[A[i][j] for i in range(p)] + [ine[i][j] for i in range(k)] for j in range(n)] + [list(b) + iner]
        w = find_point(nv, eq, [Fr(0)] * n + [Fr(-1)], [unit(nv, p + i, -1) for i in range(k)], [Fr(0)] * k)
        if w is None: return None
        zl, zu = [Fr(0)] * n, [Fr(0)] * n
        for i, j in enumerate(L): zl[j] = w[p + m + i]
        for i, j in enumerate(U): zu[j] = w[p + m + len(L) + i]
        return "farkas", {"y": w[:p], "z": w[p:p + m], "zl": zl, "zu": zu}
    # recession direction
    d = find_point(n, [list(r) for r in P] + [list(r) for r in A] + [list(c)], [Fr(0)] * (n + p) + [Fr(-1)], ine, [Fr(0)] * len(ine))
    if d is not None:
        return "recession", {"d": d, "x0": x0}
    # optimal: enumerate the active sets W of the inequality-type rows
    k = len(ine)
    for sz in range(k + 1):
        for W in itertools.combinations(range(k), sz):
            nv = n + p + sz
            eq, eqr = [], []
            for j in range(n):                              # stationarity
                eq.append([P[j][t] for t in range(n)] + [A[i][j] for i in range(p)] + [ine[i][j] for i in W]); eqr.append(-c[j])
            for i in range(p): eq.append(list(A[i]) + [Fr(0)] * (p + sz)); eqr.append(b[i])
            for i in W: eq.append(list(ine[i]) + [Fr(0)] * (p + sz)); eqr.append(iner[i])
            iq = [unit(nv, n + p + t, -1) for t in range(sz)]; iqr = [Fr(0)] * sz
            for i in range(k):
                if i not in W: iq.append(list(ine[i]) + [Fr(0)] * (p + sz)); iqr.append(iner[i])
            w = find_point(nv, eq, eqr, iq, iqr)
            if w is None: continue
            mu = [Fr(0)] * k
            for t, i in enumerate(W): mu[i] = w[n + p + t]
            zl, zu = [Fr(0)] * n, [Fr(0)] * n
            for i, j in enumerate(L): zl[j] = mu[m + i]
            for i, j in enumerate(U): zu[j] = mu[m + len(L) + i]
            return "kkt", {"x": w[:n], "y": w[n:n + p], "z": mu[:m], "zl": zl, "zu": zu}
    return None

def grid_problems(bounds):
    """the exhaustive grid: n <= 2, p + m <= 2, entries in {-1,0,1}, P diagonal in {0,1}; rows of one block in sorted order
    (a permutation of the rows of A or of G is the same problem)"""
    V = (-1, 0, 1)
    for n in (1, 2):
        rows = [tuple(r) for r in itertools.product(V, repeat=n + 1)]           # (coefficients..., rhs)
        for pd in itertools.product((0, 1), repeat=n):
            for c in itertools.product(V, repeat=n):
                for p in (0, 1, 2):
                    for m in range(0, 3 - p):
                        for Ar in itertools.combinations_with_replacement(rows, p):
                            for Gr in itertools.combinations_with_replacement(rows, m):
                                yield n, pd, c, Ar, Gr, bounds

def grid_inst(idx, spec):
    n, pd, c, Ar, Gr, bounds = spec
    P = [[Fr(pd[i]) if i == j else Fr(0) for j in range(n)] for i in range(n)]
    lb = [Fr(0)] * n if bounds == "lb0" else [NINF] * n
    pb = mk_pb(n, P, [Fr(v) for v in c], [[Fr(v) for v in r[:n]] for r in Ar], [Fr(r[n]) for r in Ar],
               [[Fr(v) for v in r[:n]] for r in Gr], [Fr(r[n]) for r in Gr], lb, [INF] * n)
    r = classify(pb)
    if r is None: return None
    kind, cert = r
    return Inst("q%d" % idx, "grid-" + bounds, kind, pb, cert, ["n%d" % n, "p%d" % len(Ar), "m%d" % len(Gr), "P" + "".join(map(str, pd))])

# ---------------------------------------------------------------------------------------------- corpus of recorded instances
class _Text:
    def __init__(self, t): self._t = t
    def text(self): return self._t

class CorpusInst(Inst):
    """an instance recorded as text (corpus/c03/*.json, replay files): problem, certificate and settings are re-read, the label
    is re-derived by the verified checker on every run"""
    def __init__(self, name, rec):
        toks = rec["checker_input"].split(); toks[1] = name
        self._chk = " ".join(toks) + "\n"
        lines = rec["case"].splitlines(); lines[0] = "CASE " + name
        self._case = "\n".join(lines) + "\n"
        self.rec = rec
        self.name, self.family, self.kind = name, rec.get("family", "corpus"), rec["certificate_kind"]
        self.settings = [tuple(x) for x in rec.get("settings", [])]
        self.tags = []; self.label = None; self.check = None; self.accepted = False; self.cert = {}
    def checker_text(self): return self._chk
    def case(self): return _Text(self._case)
    def replay(self, backend, obs, precond="ruiz"):
        r = {k: v for k, v in self.rec.items() if k not in ("observed", "backend", "precond", "label", "verified_checker_output")}
        r.update({"case": self._case, "checker_input": self._chk, "backend": backend, "precond": precond, "scalar": "double", "label": self.label,
                  "verified_checker_output": self.check, "observed": {k: obs.get(k) for k in ("status", "iter", "primal_inf", "dual_inf", "primal_rel_inf", "dual_rel_inf", "x")}})
        return r

def load_corpus():
    out = []
    for f in sorted(glob.glob(os.path.join(vlib.VERIF, "corpus", "c03", "*.json"))):
        try: out.append(CorpusInst("k_" + os.path.splitext(os.path.basename(f))[0].replace(".", "_"), json.load(open(f))))
        except Exception as e: print("corpus file %s unreadable: %s" % (f, e))
    return out

def exact_cross_examination(ctx, corp):
    """Are the recorded contradictions algorithmic or floating-point only?  Each corpus instance is also run in exact rational
    arithmetic (checkpoint rounding to 64 bits, hook H2) on the extracted Gallina model and on the xrat instantiation of the
    dense back end.  Informative only (notes + evidence); the exact correspondence itself is the subject of C01/C04/C09."""
    res = {}
    try:
        model, msg = vlib.build_model(ctx, "fast")
        (impl, m1), = vlib.build_many(ctx, [spine.build_impl(ctx, "dense", "ruiz")])
    except Exception as e:
        ctx.notes.append("exact cross-examination skipped: %s" % e); return res
    for it in corp:
        cf = os.path.join(ctx.work, "x_" + it.name + ".cases")
        open(cf, "w").write(it.case().text().replace("SETUP\n", "CPBITS 64\nSETUP\n", 1))
        row = {"label": it.label}
        for who, exe in (("gallina-model", model), ("xrat-dense", impl)):
            if exe is None: row[who] = "not built"; continue
            rc, o = vlib.run_bin(exe, cf, timeout=300)
            st = [l.split()[1] for l in o.splitlines() if ".1.status " in l]
            itn = [l.split()[1] for l in o.splitlines() if ".1.iter " in l]
            row[who] = "%s after %s iterations" % (st[0], itn[0] if itn else "?") if (rc == 0 and st) else "rc=%d" % rc
        res[it.name] = row
    ctx.coverage["exact_arithmetic_verdicts_of_corpus_instances"] = res
    return res

# ---------------------------------------------------------------------------------------------- judging
VERDICTS = {("solvable", "PRIMAL_INFEASIBLE"): "false-primal-infeasible", ("solvable", "DUAL_INFEASIBLE"): "false-dual-infeasible",
            ("infeasible", "SOLVED"): "solved-on-infeasible", ("unbounded", "SOLVED"): "solved-on-unbounded"}

def judge(ctx, inst, backend, obs, stats, precond="ruiz"):
    st = obs.get("status", "?")
    key = "%s|%s|%s" % (inst.family.split("-")[0], inst.label, st)
    stats[key] = stats.get(key, 0) + 1
    bad = VERDICTS.get((inst.label, st))
    if bad:
        extra = ""
        if st == "SOLVED":
            # T1/T2 (Properties_C03.solved_excludes_farkas / _recession): SOLVED needs *_rel_inf > (1/||cert||_1 - eps_abs)/eps_rel
            try:
                sd = dict(inst.settings); ea = Fr(sd.get("eps_abs", "1/100000000")); er = Fr(sd.get("eps_rel", "1/1000000000"))
                norm = Fr(inst.check.split()[-1]); bound = (1 / norm - ea) / er
                rel = Fr(float.fromhex(obs.get("primal_rel_inf" if inst.label == "infeasible" else "dual_rel_inf")))
                extra = " iterate=huge" if rel > bound else " iterate=moderate(contradicts-T1/T2)"
            except Exception:
                extra = " iterate=?"
        sset = ",".join("%s=%s" % kv for kv in inst.settings) or "default"
        ctx.violation("C03.%s backend=%s family=%s settings=%s%s%s" % (bad, backend, inst.family, sset, "" if precond == "ruiz" else " precond=" + precond, extra),
                      "instance %s is %s by a machine-checked certificate (%s, verified checker says: %s) but solve() returned %s after %s iterations (backend %s, double, preconditioner %s, settings %s)%s"
                      % (inst.name, inst.label, inst.kind, inst.check, st, obs.get("iter"), backend, precond, inst.settings or "default",
                         "; relative scale at exit: primal_rel_inf=%s dual_rel_inf=%s" % (obs.get("primal_rel_inf"), obs.get("dual_rel_inf")) if st == "SOLVED" else ""),
                      inst.replay(backend, obs, precond))
    return bad

def run_families(ctx, insts, name, stats, precond="ruiz"):
    """labelled random families through double_suite.run_double (all five back ends)"""
    cases = [it.case() for it in insts]
    out = DS.run_double(ctx, cases, name=name, codes=("C03",), precond=precond)
    nbad = 0
    for b in spine.ALL_BACKENDS:
        got = out.get(b, {})
        for it in insts:
            ob = got.get(it.name, {}).get(1)
            if ob is None:
                if b in out: ctx.ob("run:%s:%s:%s" % (name, b, it.name), "harness", False, "no solve observation for case " + it.name)
                continue
            if judge(ctx, it, b, ob, stats, precond): nbad += 1
    return nbad

def run_lean(ctx, insts, name, stats, chunk=4000, precond="ruiz"):
    """same judgement, without the per-result oracles of run_double (used for the large grid): only the status lines are read"""
    specs = [spine.build_impl(ctx, b, precond, scalar="double") for b in spine.ALL_BACKENDS]
    built = vlib.build_many(ctx, specs)
    nbad = 0
    for b, (exe, msg) in zip(spine.ALL_BACKENDS, built):
        if exe is None: ctx.ob("run:%s:%s" % (name, b), "harness", False, msg)
    for lo in range(0, len(insts), chunk):
        part = insts[lo:lo + chunk]
        cf = os.path.join(ctx.work, "%s_%d.cases" % (name, lo))
        with open(cf, "w") as fh:
            for it in part: fh.write(it.case().text())
        def one(bx):
            b, (exe, msg) = bx
            if exe is None: return b, None
            return b, vlib.run_bin(exe, cf, timeout=1800)
        with ThreadPoolExecutor(max_workers=5) as ex:
            results = list(ex.map(one, zip(spine.ALL_BACKENDS, built)))
        byname = {it.name: it for it in part}
        for b, r in results:
            if r is None: continue
            rc, o = r
            if rc != 0:
                ctx.ob("run:%s:%s:%d" % (name, b, lo), "harness", False, "rc=%d %s" % (rc, o[-800:]))
                ctx.violation("C06.crash backend=%s" % b, "driver exited with rc=%d: %s" % (rc, o[-600:]), {"cases_file_head": open(cf).read()[:3000], "backend": b})
                continue
            cur = {}
            seen = 0
            for ln in o.splitlines():
                k, _, v = ln.partition(" ")
                mm = re.match(r"^(.+?)\.(\d+)\.(\S+)$", k)
                if not mm: continue
                nm, opno_, rest = mm.group(1), int(mm.group(2)), mm.group(3)
                if opno_ != getattr(byname.get(nm), "solve_op", 1): continue
                if rest in ("status", "iter", "primal_inf", "dual_inf", "primal_rel_inf", "dual_rel_inf", "no_primal_update", "no_dual_update", "x"):
                    cur.setdefault(nm, {})[rest] = v
            for nm, ob in cur.items():
                it = byname.get(nm)
                if it is None or "status" not in ob: continue
                seen += 1
                if judge(ctx, it, b, ob, stats, precond): nbad += 1
            if seen != len(part):
                ctx.ob("run:%s:%s:%d" % (name, b, lo), "harness", False, "%d of %d cases produced a status" % (seen, len(part)))
        os.remove(cf)
        ctx.coverage["evaluations"] = ctx.coverage.get("evaluations", 0) + len(part) * len(spine.ALL_BACKENDS)
    for it in insts: ctx.classes.add("grid " + it.family + " " + " ".join(it.tags) + " " + str(it.label))
    return nbad

class UpdInst(Inst):
    """the same labelled instance reached through update(): setup() on a different, harmless problem with the same sparsity patterns and
    the same finite-bound pattern, then update(all blocks of the labelled instance, reuse on/off), then solve().  The verdict is judged
    against the label of the UPDATED problem (the one the user posed last)."""
    def __init__(self, it, rng):
        Inst.__init__(self, "u" + it.name, it.family + "-via-update", it.kind, it.pb, it.cert, it.tags, it.settings)
        self.label, self.check, self.accepted = it.label, it.check, it.accepted
        B = it.pb; n, p, m = B["n"], B["p"], B["m"]
        P = [row[:] for row in B["P"]]
        for i in range(n): P[i][i] = Fr(P[i][i]) + rng.choice([1, 16, 400])
        k = rng.choice([0, 1, 3])
        A = dict(B, P=P, c=[Fr(v) + rng.randint(-2, 2) for v in B["c"]],
                 h=[v if isinstance(v, str) else Fr(v) + k for v in B["h"]],
                 lb=[v if isinstance(v, str) else Fr(v) - k for v in B["lb"]], ub=[v if isinstance(v, str) else Fr(v) + k for v in B["ub"]])
        pa, pb_ = G.with_patterns(A), G.with_patterns(B)
        pats = {key: sorted(set(pa[key]) | set(pb_[key])) for key in ("patP", "patA", "patG")}
        self.pbA = dict(A, **pats); self.pbB = dict(B, **pats)
        self.reuse = rng.random() < 0.5
        self.presolve = rng.random() < 0.5
        self.solve_op = 3 if self.presolve else 2
        self.tags = list(it.tags) + ["update:reuse=%d" % self.reuse, "presolve=%d" % self.presolve]
    def case(self):
        ops = [G.op_setup(self.pbA)] + ([G.op_solve()] if self.presolve else []) + \
              [G.op_update(self.pbB, {"P", "c", "A", "b", "G", "h", "lb", "ub"}, reuse=self.reuse), G.op_solve()]
        return SS.Case(self.name, list(self.settings), ops, {0: self.pbA, self.solve_op: self.pbB},
                       ["C03", self.family] + self.tags + ["s:" + ",".join("%s=%s" % kv for kv in self.settings)])

# ---------------------------------------------------------------------------------------------- entry
def run(ctx):
    vlib.regen(ctx, ("consts",))
    vlib.coq_hygiene(ctx)
    vlib.coq_properties(ctx, "C03")
    exe, msg = build_certs(ctx)
    ctx.ob("build:verified-checker", "machinery", exe is not None, msg)
    if exe is None: return vlib.finish(ctx, level="proof+exploration")
    rng = ctx.rng
    stats, dropped = {}, {}
    quick = ctx.quick()
    SETTINGS = [[], [], [], [("check_duality_gap", "0")], [("check_duality_gap", "0")], [("preconditioner_iter", "0")], [("preconditioner_scale_cost", "1")],
                [("iterative_refinement_always_enabled", "1")], [("check_duality_gap", "0"), ("preconditioner_iter", "0")]]

    if getattr(ctx, "replay", None):
        # re-run one recorded instance: the verified checker re-derives the label, the real code is run again, same judgement
        rp = json.load(open(ctx.replay))["replay"]
        b = rp["backend"]; pc = rp.get("precond", "ruiz")
        it = CorpusInst("replay", rp)
        label_instances(ctx, exe, [it], "replay")
        print("verified checker: %s -> label %s" % (it.check, it.label))
        cf = os.path.join(ctx.work, "replay.cases"); open(cf, "w").write(rp["case"])
        (impl, m1), = vlib.build_many(ctx, [spine.build_impl(ctx, b, pc, scalar="double")])
        ctx.ob("run:replay:%s:%s" % (b, pc), "harness", impl is not None, m1)
        if impl is not None:
            rc, o = vlib.run_bin(impl, cf)
            per = {}
            for ln in o.splitlines():
                k, _, v = ln.partition(" ")
                mm = re.match(r"^(.+?)\.(\d+)\.(\S+)$", k)
                if mm: per.setdefault(int(mm.group(2)), {})[mm.group(3)] = v
            solves = [k_ for k_ in sorted(per) if "status" in per[k_]]
            ob = per[solves[-1]] if solves else {}     # the verdict of the LAST solve (update histories: the solve after update())
            print("solve(): status %s after %s iterations (backend %s, preconditioner %s)" % (ob.get("status"), ob.get("iter"), b, pc))
            if it.label: judge(ctx, it, b, ob, stats, pc)
        ctx.notes.append("replay of %s" % ctx.replay)
        return vlib.finish(ctx, level="proof+exploration")

    # ---- recorded instances first (corpus/c03): every back end
    corp = load_corpus()
    if corp:
        label_instances(ctx, exe, corp, "corpus")
        unl = [it.name for it in corp if not it.label]
        ctx.ob("corpus:labels", "machinery", not unl, "corpus instances whose certificate the verified checker does not accept: %s" % unl)
        run_lean(ctx, [it for it in corp if it.label], "c03corpus", stats)
        exact_cross_examination(ctx, corp)

    # ---- families (a) (b) (c)
    nA, nB, nC = (240, 90, 90) if quick else (9000, 2400, 2400)
    nmax = 8 if quick else 16
    insts = []
    for i in range(nA): insts.append(gen_solvable(rng, "a%d" % i, nmax if i % 3 else 3))
    for i in range(nB): insts.append(gen_infeasible(rng, "b%d" % i, nmax if i % 3 else 3))
    for i in range(nC): insts.append(gen_unbounded(rng, "c%d" % i, nmax if i % 3 else 3))
    for k, it in enumerate(insts): it.settings = SETTINGS[k % len(SETTINGS)]
    inexact = [it for it in insts if not it.double_exact()]
    dropped["families-not-exact-in-double"] = len(inexact)
    insts = [it for it in insts if it.double_exact()]
    nd = label_instances(ctx, exe, insts, "fam")
    dropped["families-total(rejected or outside the margin)"] = nd
    # by construction every certificate is valid: a rejected one is a defect of the generator, not of the library
    rej = [it for it in insts if not it.accepted]
    dropped["families-certificate-rejected"] = len(rej)
    ctx.ob("generator:certificates-accepted", "machinery", len(rej) <= 0.02 * len(insts),
           "%d of %d constructed certificates rejected by the verified checker (e.g. %s)" % (len(rej), len(insts), ", ".join("%s[%s]: %s" % (it.name, it.family, it.check) for it in rej[:4])))
    lab = [it for it in insts if it.label]
    # the labelling is not vacuous: the verified checker rejects every deliberately corrupted certificate
    import copy
    corrupt = []
    for it in (lab[:12] + [x for x in lab if x.kind == "farkas"][:12] + [x for x in lab if x.kind == "recession"][:12]):
        bad = copy.copy(it); bad.name = "z" + it.name; bad.cert = {k: list(v) for k, v in it.cert.items()}
        if it.kind == "recession": bad.cert["d"] = [-v for v in bad.cert["d"]]          # c'd = +1
        else: bad.cert["zl"][0] = bad.cert["zl"][0] + 1                                   # stationarity / A'y+G'z-zl+zu off by one
        corrupt.append(bad)
    label_instances(ctx, exe, corrupt, "corrupt")
    acc = [b_.name for b_ in corrupt if b_.accepted]
    ctx.ob("checker:rejects-corrupted-certificates", "machinery", not acc and len(corrupt) > 0, "%d corrupted certificates, accepted: %s" % (len(corrupt), acc))
    # solvable instances through double_suite.run_double (its per-result oracles see sane iterates); the infeasible / unbounded ones
    # through the lean runner (status lines only): their iterates diverge (up to 2^1000) and exact post-processing of such results is
    # slow and irrelevant here
    labS = [it for it in lab if it.label == "solvable"]; labO = [it for it in lab if it.label != "solvable"]
    run_families(ctx, labS, "c03fam", stats)
    run_lean(ctx, labO, "c03famo", stats)
    # the same labelled instances reached through update() (sparse re-scaling, P in full storage, refreshed KKT blocks)
    upd = [UpdInst(it, rng) for it in lab[::2]]
    upd = [u for u in upd if all(Fr(v).denominator & (Fr(v).denominator - 1) == 0 for row in u.pbA["P"] for v in row)]
    run_lean(ctx, upd, "c03upd", stats)
    run_families(ctx, labS[::3], "c03fami", stats, precond="identity")
    run_lean(ctx, labO[::3], "c03famoi", stats, precond="identity")

    # ---- (d) the grid
    t0 = time.time()
    gi, gdrop, gtot = [], 0, 0
    if quick:
        specs = list(grid_problems("none"))
        pick = rng.sample(range(len(specs)), 260) + rng.sample(range(len(specs)), 60)
        for k, idx in enumerate(pick):
            sp = specs[idx]
            if k >= 260: sp = sp[:5] + ("lb0",)
            it = grid_inst(len(gi) + gdrop, sp); gtot += 1
            if it is None: gdrop += 1
            else: gi.append(it)
    else:
        idx = 0
        for bounds in ("none", "lb0"):
            for sp in grid_problems(bounds):
                it = grid_inst(idx, sp); idx += 1; gtot += 1
                if it is None: gdrop += 1
                else: gi.append(it)
    nd = label_instances(ctx, exe, gi, "grid")
    dropped["grid-no-certificate-found"] = gdrop
    dropped["grid-certificate-rejected-or-no-margin"] = nd
    glab = [it for it in gi if it.label]
    ctx.notes.append("grid: %d problems enumerated, %d without certificate from the untrusted search, %d certificates rejected / outside the margin, %d labelled (search %.1fs)"
                     % (gtot, gdrop, nd, len(glab), time.time() - t0))
    # the untrusted search is complete in theory (Farkas / recession / KKT trichotomy of convex QPs): a large drop rate means it is broken
    ctx.ob("grid:search-coverage", "machinery", gdrop + nd <= 0.05 * max(1, gtot), "dropped %d + %d of %d" % (gdrop, nd, gtot))
    run_lean(ctx, glab, "c03grid", stats)
    if not quick:
        for it in glab: it.settings = [("check_duality_gap", "0")]
        run_lean(ctx, glab, "c03gridg", stats)

    # escalation: a proof / translator obligation broke but no concrete contradiction was found yet: search with a larger
    # budget of stressed instances (status lines only) on the real code
    known = vlib.load_known()
    unknown = [v for v in ctx.violations if not any(k["property"] == ctx.prop and re.search(k["match"], v["signature"]) for k in known)]
    if any(not o["ok"] for o in ctx.obligations) and not unknown:
        more = []
        for i in range(6000): more.append(gen_solvable(rng, "ea%d" % i, 14))
        for i in range(1500): more.append(gen_infeasible(rng, "eb%d" % i, 14))
        for i in range(1500): more.append(gen_unbounded(rng, "ec%d" % i, 14))
        for k, it in enumerate(more): it.settings = SETTINGS[k % len(SETTINGS)]
        more = [it for it in more if it.double_exact()]
        label_instances(ctx, exe, more, "esc")
        more = [it for it in more if it.label]
        run_lean(ctx, more, "c03esc", stats)
        ctx.notes.append("escalated search: %d additional labelled instances x 5 back ends" % len(more))
        lab = lab + more

    bylabel = {}
    for it in lab + glab: bylabel[it.family.split("-")[0] + ":" + it.label] = bylabel.get(it.family.split("-")[0] + ":" + it.label, 0) + 1
    ctx.coverage["labelled_instances"] = bylabel
    ctx.coverage["dropped"] = dropped
    ctx.coverage["status_counts(family|label|status over all back ends)"] = dict(sorted(stats.items()))
    ctx.coverage["samples"] = [it.case().text()[:400] for it in (lab[:3] + glab[:2])]
    ctx.coverage["rule"] = ("families with certificates by construction: (a) solvable: x*, active sets, multipliers >= 0, P = sum of rank-one terms (LP, singular, "
                            "strictly convex), duplicated rows, implicit equalities (no Slater point), fixed variables, p > n consistent, degenerate multipliers; "
                            "(b) infeasible: contradicting inequalities / equalities, box against a row, random Farkas multipliers, value -1, ||cert||_1 <= 10; "
                            "(c) unbounded: recession direction d with Pd = 0, Ad = 0, Gd <= 0, c'd = -1, ||d||_1 <= 10, feasible x0; n <= %d; "
                            "(d) grid n <= 2, p + m <= 2, entries in {-1,0,1}, P diagonal in {0,1}, with and without x >= 0 (%s); labels only from the extracted "
                            "verified checker; every labelled instance x 5 back ends, double, Ruiz (+ identity on a third of the families), settings grid {default, "
                            "check_duality_gap=0, preconditioner_iter=0, scale_cost, refinement on}; solvable instances also with stress: multipliers x 10^k (k<=6), "
                            "x* x 10^k (k<=3), rows x 2^(+-10), nearly parallel rows; all data exact in double" % (nmax, "random slice" if quick else "exhaustive, default and check_duality_gap=0"))
    ctx.trusted += ["Coq 8.16.1 kernel (coqc); extraction of coq/Certs.v: ExtrOcamlBasic + ExtrOcamlZBigInt + the Z.ggcd/Z.gcd/Z.log2 directives of ocaml/ExtractCerts.v; OCaml 4.13.1 + zarith; ocaml/drv_certs.ml (token parser)",
                    "tools/props/c03.py: translation of an instance into (i) the checker's input and (ii) the case file of harness/drv_solver.cpp (the same Fractions are printed to both)",
                    "harness/drv_solver.cpp double build of /repo's headers (g++ -O1), fractions rounded to double by mpq_class::get_d (truncation): the instance solved is the rounded one; all generated data are small dyadic-friendly rationals, grid data are integers",
                    "the generators and the active-set search are NOT trusted: a wrong certificate is rejected by the verified checker"]
    ctx.assumptions += ["default tolerances (eps_abs 1e-8, eps_rel 1e-9, max_iter 250)",
                        "margin for the SOLVED half: certificate value -1 and ||certificate||_1 <= %d" % MARGIN_NORM,
                        "no_false_infeasible_partial (coq/CertsPartial.v) is stated, not proved: the infeasibility half is explored only"]
    return vlib.finish(ctx, level="proof (certificate soundness, margins T1/T2) + exploration (heuristic half, partial)",
                       checker_cmd="coqc Properties_C03.v (15 theorems, closed); ocaml/build_certs.sh (extracted checker) ; harness/drv_solver.cpp double x 5 back ends",
                       explanation="labels are machine-checked; MAX_ITER_REACHED/NUMERICS are counted, not violations")
