"""C06 -- any finite input terminates safely."""
from fractions import Fraction as Fr
import vlib, spine, oracles, solver_suite as SS, gen_cases as G, double_suite as D
from props._common import run_solver_property

DOC_STATUS = {"SOLVED", "MAX_ITER_REACHED", "PRIMAL_INFEASIBLE", "DUAL_INFEASIBLE", "NUMERICS", "UNSOLVED", "INVALID_SETTINGS"}

def gen_adversarial(rng, name, exact=True):
    n = rng.randint(1, 4 if exact else 12)
    kinds = [rng.choice(["free", "lower", "upper", "both", "fixed", "cross", "biglb"]) for _ in range(n)]
    pb = G.gen_problem(rng, n=n, p=rng.choice([0, 1, min(n, 2)]), m=rng.choice([0, 1, 2, 3]), convex=rng.random() < 0.5, wellposed=False,
                       sparse_prob=rng.choice([0.2, 0.7]), bound_kinds=kinds, inf_h=rng.choice([0.0, 0.3]))
    mode = rng.random()
    if mode < 0.15:   # zero P
        pb["P"] = [[Fr(0)] * n for _ in range(n)]
    elif mode < 0.3:  # P without diagonal
        for i in range(n): pb["P"][i][i] = Fr(0)
    if pb["m"] >= 2 and rng.random() < 0.3:   # duplicated row
        pb["G"][1] = list(pb["G"][0]); pb["h"][1] = pb["h"][0]
    if pb["p"] >= 2 and rng.random() < 0.3:
        pb["A"][1] = list(pb["A"][0]); pb["b"][1] = pb["b"][0] + rng.choice([0, 0, 1])
    pb = G.with_patterns(pb)
    st = list(G.FRIENDLY) if exact else []
    st += [("max_iter", str(rng.choice([1, 3, 6, 10] if exact else [5, 50, 250]))), ("preconditioner_iter", str(rng.choice([0, 2, 10])))]
    if rng.random() < 0.3: st.append(("tau", "1"))
    if rng.random() < 0.3: st.append(("max_factor_retires", str(rng.choice([1, 3]))))
    if not exact and rng.random() < 0.4:
        sc = Fr(10) ** rng.choice([-9, -6, 6, 9])
        pb["P"] = [[v * sc for v in row] for row in pb["P"]]; pb["c"] = [v * sc for v in pb["c"]]
    ops = (["CPBITS 64"] if exact else []) + [G.op_setup(pb), G.op_solve()]
    pbs = {0: pb, 1: pb}
    if rng.random() < 0.4:
        pb2, names = G.perturb(rng, pb, set(k for k in ["P", "c", "h", "lb", "ub"] if rng.random() < 0.5))
        ops += [G.op_update(pb2, names, reuse=rng.random() < 0.5), G.op_solve()]; pbs[2] = pb2; pbs[3] = pb2
    c = SS.Case(name, st, ops, pbs, ["n%d" % n, "p%d" % pb["p"], "m%d" % pb["m"], "b:" + "".join(k[0] for k in kinds), "cvx" if mode >= 0.3 else "P0"])
    c.scaling_oracle = False
    return c

def safety(ctx, res, cases, label):
    byname = {c.name: c for c in cases}
    for b, obs in res.items():
        for cname, po in obs.items():
            c = byname[cname]
            MI = int(dict(c.settings).get("max_iter", 250))
            for opno, o in po.items():
                if o.get("op") != "solve": continue
                if o.get("status") not in DOC_STATUS:
                    ctx.violation("C06.status backend=%s %s" % (b, label), "undocumented status %s" % o.get("status"), {"case": c.text(), "backend": b})
                if int(o.get("iter", 0)) > MI or int(o.get("iter", 0)) < 0:
                    ctx.violation("C06.iter backend=%s %s" % (b, label), "iter %s > max_iter %d" % (o.get("iter"), MI), {"case": c.text(), "backend": b})

def stage(ctx):
    rng = ctx.rng
    # exact adversarial: dense vs model (non-convex P makes dense LLT and sparse LDL^T legitimately differ)
    ex = [gen_adversarial(rng, "x%d" % i, exact=True) for i in range(30 if ctx.quick() else 400)]
    text = "".join(c.text() for c in ex)
    res, _ = spine.correspond(ctx, "c06x", text, backends=("dense",))
    # double, ASan + UBSan, all five back ends
    db = [gen_adversarial(rng, "d%d" % i, exact=False) for i in range(40 if ctx.quick() else 1500)]
    r = D.run_double(ctx, db, name="c06d", codes=("C06",), extra_flags=("-fsanitize=address,undefined", "-fno-sanitize-recover=all", "-fsanitize-recover=enum", "-fno-omit-frame-pointer"), tag="_asan")
    safety(ctx, r, db, "asan")
    ctx.trusted.append("sanitizer runtimes (g++ 12 ASan+UBSan) for the 'no out-of-bounds access / UB' clause on the real machine")

def run(ctx):
    return run_solver_property(ctx, "C06", codes=("C06",), focus_mix=("mixed", "bounds"), n_quick=16,
                               extra_theorem_files=("Properties_IPMControl.v", "Properties_Bounds.v", "Properties_C08_interior.v", "Properties_C14.v", "Properties_C02_loop.v"), extra_stage=stage)
