"""C11 -- update() and solve() do not allocate.
Logic part: coq/Properties_C11.v (shapes_invariant: no update / solve of the model changes the length of any solver-owned
array, on any history, block subset, reuse value, bound pattern, fault oracle and exit status).
Runtime part: harness/drv_alloc.cpp + harness/alloc_interpose.cpp on `double`: every operator new/delete and
malloc/calloc/realloc/free/posix_memalign/aligned_alloc of the process is counted while update() / solve() run (all five
back ends, Ruiz and identity preconditioner, both reuse values, bound-pattern changing updates, SOLVED / MAX_ITER /
PRIMAL_INFEASIBLE / DUAL_INFEASIBLE / NUMERICS exits via hook H1, repeated cycles, n up to 150 dense / 400 sparse), with
Eigen's EIGEN_RUNTIME_NO_MALLOC check switched on the way fwd.hpp intends and EIGEN_STACK_ALLOCATION_LIMIT raised; the
size and storage address of every workspace member is compared with its value after setup()."""
import os, re
import vlib

EXPLANATION = ("Properties_C11.v proves on the Gallina model of the dense solver that setup() establishes, and every accepted update() "
               "(any block subset, both reuse values, any change of the finite-bound pattern) and every solve() (any fault oracle of hook H1, "
               "any exit status) preserves, the shape of every solver-owned array (shape_of); the packed bound arrays, whose model length is "
               "n_lb / n_ub, are given the C++ length n with n_lb, n_ub <= n proved.  What Eigen's evaluators allocate is not visible to a "
               "model; harness/drv_alloc.cpp therefore interposes the allocator of the real build: the counters are armed exactly around "
               "update() and solve() and must stay at 0, Eigen's own run-time malloc check must not fire, and size and address of every "
               "workspace member must equal their values after setup() (the implementation-side image of shapes_invariant).")

BACKENDS = [(0, "dense", 150), (1, "sparse_full", 400), (2, "sparse_eq", 400), (3, "sparse_ineq", 400), (4, "sparse_all", 400)]
FLAGS = ("-faligned-new", "-g1", "-rdynamic")

def specs():
    return [dict(src="drv_alloc.cpp", defines=("BACKEND=%d" % b,), extra_flags=FLAGS, libs=("-lpthread",), name="drv_alloc_%s" % name)
            for b, name, _ in BACKENDS]

def run_one(ctx, exe, label, backend, seed, nh, nmax, timeout):
    args = [str(seed), str(nh), str(nmax)]
    rc, out = vlib.sh([exe] + args, timeout=timeout)
    lines = out.splitlines()
    hist = [l for l in lines if l.startswith("HIST ")]
    last = hist[-1] if hist else "(no history started)"
    viol = [l for l in lines if l.startswith("VIOL ")]
    done = [l for l in lines if l.startswith("DONE ")]
    for l in lines:
        if l.startswith("CLASS "): ctx.classes.add(l[6:].strip())
    seen = set(); n_unknown = 0
    known = [k for k in vlib.load_known() if k["property"] == ctx.prop]
    for l in viol:
        parts = [x.strip() for x in l[5:].split(" | ")]
        sig, where, detail = (parts + ["", "", ""])[:3]
        if not any(re.search(k["match"], "C11." + sig) for k in known): n_unknown += 1
        if sig in seen: continue
        seen.add(sig)
        hm = re.search(r"hist=(\d+)", where)
        ctx.violation("C11." + sig, "%s [%s]" % (detail, where),
                      {"driver": "harness/drv_alloc.cpp (+ alloc_interpose.cpp)", "defines": "BACKEND=%d" % backend, "flags": " ".join(FLAGS),
                       "args": args + ([hm.group(1)] if hm else []), "history": where,
                       "how": "build as tools/props/c11.py does, run `drv_alloc %s` (4th argument = only that history)" % " ".join(args + ([hm.group(1)] if hm else []))})
    ok = rc == 0 and n_unknown == 0 and bool(done)        # events that are recorded known findings are reported by finish(), not as a broken obligation
    detail = done[0] if done else ""
    if rc != 0 or not done:
        detail = "driver rc=%d in %s: %s" % (rc, last, out[-500:])
        if not viol:
            hm = re.search(r"hist=(\d+)", last)
            ctx.violation("C11.crash:%s" % label, "driver terminated abnormally (rc=%d) while running %s" % (rc, last),
                          {"driver": "harness/drv_alloc.cpp", "defines": "BACKEND=%d" % backend, "args": args + ([hm.group(1)] if hm else []), "tail": out[-1500:]})
    elif viol:
        detail = "%s; %d event lines of which %d are not known findings; first: %s" % (done[0], len(viol), n_unknown, viol[0][:600])
    ctx.ob("no-allocation:%s" % label, "correspondence", ok, detail)
    m = re.search(r"updates=(\d+) solves=(\d+) members_compared=(\d+)", done[0] if done else "")
    if m:
        ctx.coverage["evaluations"] += int(m.group(1)) + int(m.group(2))
        ctx.coverage["members_compared"] = ctx.coverage.get("members_compared", 0) + int(m.group(3))
    return ok

def run(ctx):
    vlib.regen(ctx, ("consts",))
    vlib.coq_hygiene(ctx)
    vlib.coq_properties(ctx, "C11")
    sp = specs()
    built = vlib.build_many(ctx, sp)
    quick = ctx.quick()
    from concurrent.futures import ThreadPoolExecutor
    jobs = []
    for (b, name, nmax), (exe, msg) in zip(BACKENDS, built):
        if exe is None:
            ctx.ob("no-allocation:%s" % name, "correspondence", False, "harness build: " + msg)
            continue
        jobs.append((exe, name, b, nmax))
    nh = 160 if quick else 5000
    with ThreadPoolExecutor(max_workers=max(1, len(jobs))) as ex:
        futs = [ex.submit(run_one, ctx, exe, name, b, ctx.seed, nh, nmax, 900 if quick else 3000) for exe, name, b, nmax in jobs]
        for f in futs: f.result()
    ctx.coverage["rule"] = ("random histories setup;solve;(update(random block subset, reuse random; 30% forced bound-pattern changes);[update];solve;[solve])*1..4; "
                            "every fourth history at full size (dense n in [75,150], p<=n/4, m<=n/2; sparse n in [200,400]), the others n<=15/40; problem kinds "
                            "feasible / primal infeasible / dual infeasible; max_iter in {1..3, 12, 200}; fault plans of hook H1: none, always fail (NUMERICS at "
                            "the first factorisation), fail from the k-th call on (NUMERICS inside the loop), transient (retries, refinement on); "
                            "iterative_refinement_always_enabled and max_factor_retires varied; a class is (back end, preconditioner, op, status or "
                            "reuse/matrix/pattern-change flags, fault kind, refinement flag, constraint kinds, size class)")
    ctx.coverage["samples"] = ["drv_alloc <seed=%d> <histories=%d> <n_max=150|400>" % (ctx.seed, nh)]
    ctx.trusted += ["Coq 8.16.1 kernel (Properties_C11.v)",
                    "harness/alloc_interpose.cpp: process-wide replacement of malloc/calloc/realloc/free/posix_memalign/aligned_alloc/memalign (forwarding to glibc's "
                    "__libc_* entry points) and of all operator new/delete overloads; it reports `interposer-blind` if it saw no allocation during setup()",
                    "harness/drv_alloc.cpp; Eigen 3.4 with EIGEN_RUNTIME_NO_MALLOC, custom eigen_assert recorder, EIGEN_STACK_ALLOCATION_LIMIT = 32 MiB (worker thread "
                    "with a 1 GiB stack); g++ 12 -O1; hook H1 (fault injection) for the NUMERICS exits",
                    "modelled not verified: temporaries chosen by Eigen's expression evaluators (the model cannot exhibit them, the interposer can)"]
    ctx.assumptions += ["scratch of Eigen's product kernels above EIGEN_STACK_ALLOCATION_LIMIT is excluded by configuring that limit (as the property says)",
                        "verbose = false and compute_timings = false (printing is outside the property)",
                        "the caller passes arguments that bind to Eigen::Ref without a temporary (column-major dense, compressed CSC), as the C++ API intends"]
    return vlib.finish(ctx, level="proof (partial)",
                       checker_cmd="coqc Properties_C11.v (8.16.1) + harness/drv_alloc.cpp (+alloc_interpose.cpp) x 5 back ends against $VERIF_REPO headers with -DPIQP_VERIF",
                       explanation=EXPLANATION)
