"""C04 -- an updated solver is equivalent to a freshly set-up solver."""
import vlib, spine, oracles, solver_suite as SS, gen_cases as G
from props._common import run_solver_property

RESULT_KEYS = ("status", "info.status", "iter", "x", "y", "z", "z_lb", "z_ub", "s", "s_lb", "s_ub", "zeta", "lambda", "nu", "nu_lb", "nu_ub",
               "rho", "delta", "mu", "sigma", "primal_step", "dual_step", "primal_inf", "primal_rel_inf", "dual_inf", "dual_rel_inf",
               "primal_obj", "dual_obj", "duality_gap", "duality_gap_rel", "factor_retires", "reg_limit", "no_primal_update", "no_dual_update")

def fresh_twin_stage(ctx, escalate=False):
    """implementation-vs-implementation oracle (no model involved):
       (a) after update(..., reuse_preconditioner=false) the next solve must return EXACTLY what setup(current data); solve returns
       (b) after any update: if the fresh solver reaches SOLVED within a generous budget, so does the updated one."""
    rng = ctx.rng
    N = 30 if ctx.quick() else 300
    if escalate: N = 150
    hist, fresh, link = [], [], []
    for i in range(N):
        big = (i % 3 == 0) or escalate
        c = SS.gen_history(rng, "%s%d" % ("e" if escalate else "u", i), focus="updates", strong=escalate,
                           force_settings=[("max_iter", "60" if big else str(rng.choice([1, 2, 4, 8])))] + ([("preconditioner_iter", "0")] if escalate and i % 2 else []))
        hist.append(c)
        # walk the ops to find solve ops preceded by an update
        opno = -1; last_reuse = None; seen_update = False
        for op in c.ops:
            if op.startswith("CPBITS"): continue
            opno += 1
            if op.startswith("UPDATE"):
                seen_update = True; last_reuse = op.split()[1] == "1"
            elif op == "SOLVE" and seen_update and opno in c.pbs:
                pb = c.pbs[opno]
                f = SS.Case("%s_f%d" % (c.name, opno), c.settings, ["CPBITS 64", G.op_setup(pb), G.op_solve()], {1: pb}, c.tags)
                fresh.append(f); link.append((c, opno, f, last_reuse, big))
    # second twin: the same history with every update() passing ALL eight blocks (unchanged blocks with their current values):
    # with the preconditioner reused both solvers must be in identical states in exact arithmetic, so every later result is equal;
    # a block whose refresh was skipped by the selective update (stale KKT entries, stale caches) shows up as a difference.
    full = []
    for c in hist:
        ops2 = []; opno = -1
        for op in c.ops:
            if op.startswith("CPBITS"): ops2.append(op); continue
            opno += 1
            if op.startswith("UPDATE") and opno in c.pbs:
                ops2.append(G.op_update(c.pbs[opno], None, reuse=(op.split()[1] == "1")))
            else: ops2.append(op)
        full.append(SS.Case(c.name + "_all", c.settings, ops2, c.pbs, c.tags))
    builds = vlib.build_many(ctx, [spine.build_impl(ctx, b, "ruiz") for b in spine.ALL_BACKENDS])
    import os
    hf = os.path.join(ctx.work, "c04_hist.cases"); ff = os.path.join(ctx.work, "c04_fresh.cases")
    open(hf, "w").write("".join(c.text() for c in hist)); open(ff, "w").write("".join(c.text() for c in fresh))
    nchk = 0
    for b, (exe, msg) in zip(spine.ALL_BACKENDS, builds):
        if exe is None:
            ctx.ob("oracle:fresh-twin:%s" % b, "oracle", False, msg); continue
        rc1, o1 = vlib.run_bin(exe, hf); rc2, o2 = vlib.run_bin(exe, ff)
        if rc1 or rc2:
            ctx.ob("oracle:fresh-twin:%s" % b, "oracle", False, "driver rc %d %d %s %s" % (rc1, rc2, o1[-300:], o2[-300:])); continue
        H, F = vlib.parse_obs(o1), vlib.parse_obs(o2)
        af = os.path.join(ctx.work, "c04_all.cases"); open(af, "w").write("".join(c.text() for c in full))
        rc3, o3 = vlib.run_bin(exe, af)
        A = vlib.parse_obs(o3) if rc3 == 0 else {}
        for c in hist:
            ha = {k: v for k, v in H.get(c.name, []) if k.split(".", 1)[1] in RESULT_KEYS}
            aa = {k: v for k, v in A.get(c.name + "_all", []) if k.split(".", 1)[1] in RESULT_KEYS}
            for k in sorted(ha, key=lambda t: (int(t.split(".")[0]), t)):
                if ha.get(k) != aa.get(k):
                    ctx.violation("C04.selective-eq-full backend=%s key=%s %s" % (b, k.split(".", 1)[1], " ".join(c.tags)),
                                  "update(subset) and update(all blocks, same values) leave the solver in different states: %s = %s vs %s" % (k, str(ha.get(k))[:90], str(aa.get(k))[:90]),
                                  {"history": c.text(), "history_all_blocks": [f.text() for f in full if f.name == c.name + "_all"][0], "backend": b, "key": k})
                    break
        bad = 0
        for c, opno, f, reuse, big in link:
            ho = {k.split(".", 1)[1]: v for k, v in H.get(c.name, []) if k.startswith("%d." % opno)}
            fo = {k.split(".", 1)[1]: v for k, v in F.get(f.name, []) if k.startswith("1.")}
            nchk += 1
            if reuse is False:
                for k in RESULT_KEYS:
                    if ho.get(k) != fo.get(k):
                        bad += 1
                        ctx.violation("C04.fresh-eq backend=%s key=%s %s" % (b, k, " ".join(c.tags)),
                                      "after update(reuse_preconditioner=false) solve() differs from setup();solve() on the same data: %s = %s vs fresh %s" % (k, str(ho.get(k))[:100], str(fo.get(k))[:100]),
                                      {"history": c.text(), "fresh": f.text(), "backend": b, "op": opno, "key": k})
                        break
            if big and fo.get("status") == "SOLVED" and ho.get("status") != "SOLVED":
                bad += 1
                ctx.violation("C04.fresh-solved backend=%s %s" % (b, " ".join(c.tags)),
                              "fresh setup() solves the current data (SOLVED in %s iterations) but the updated solver returns %s" % (fo.get("iter"), ho.get("status")),
                              {"history": c.text(), "fresh": f.text(), "backend": b, "op": opno})
        ctx.ob("oracle:fresh-twin:%s" % b, "oracle", True, "%d comparisons" % len(link))
    ctx.coverage["evaluations"] = ctx.coverage.get("evaluations", 0) + nchk
    for c in hist: ctx.classes.add("twin " + " ".join(c.tags))

def exhaustive_masks_stage(ctx):
    """all 2^8 argument subsets x reuse x solve-in-between for ONE update on small problems (thorough; a slice in quick):
    exact correspondence with the model on all five back ends + the certificate / KKT-consistency oracles"""
    import itertools
    rng = ctx.rng
    NAMES = ["P", "c", "A", "b", "G", "h", "lb", "ub"]
    masks = list(itertools.product([0, 1], repeat=8))
    if ctx.quick(): masks = [m for i, m in enumerate(masks) if i % 16 == ctx.seed % 16]
    cases = []
    for mi, mk in enumerate(masks):
        for reuse in (True, False):
            for between in (True, False):
                pb = G.gen_problem(rng, n=rng.choice([2, 3]), p=1, m=rng.choice([1, 2]))
                names = set(n_ for n_, b in zip(NAMES, mk) if b)
                pb2, names2 = G.perturb(rng, pb, names)
                st = list(G.FRIENDLY) + [("max_iter", "12"), ("preconditioner_iter", str(rng.choice([0, 2])))]
                ops = ["CPBITS 64", G.op_setup(pb)] + ([G.op_solve()] if between else []) + [G.op_update(pb2, names2, reuse=reuse), G.op_solve()]
                k = 1; pbs = {0: pb}
                if between: pbs[k] = pb; k += 1
                pbs[k] = pb2; pbs[k + 1] = pb2
                cases.append(SS.Case("x%d_%d%d" % (mi, reuse, between), st, ops, pbs, ["mask" + "".join(map(str, mk)), "reuse%d" % reuse, "between%d" % between]))
    SS.run_suite(ctx, cases, preconds=("ruiz",), name="c04masks", codes=("C01", "C04", "C08.absent", "C08.finite", "C15"))
    ctx.coverage["exhaustive_masks"] = "%d of 256 argument subsets x reuse x solve-in-between (all 256 in the thorough tier)" % len(masks)

def twin_and_escalate(ctx):
    exhaustive_masks_stage(ctx)
    fresh_twin_stage(ctx)
    if any(not o["ok"] for o in ctx.obligations) and not ctx.violations:
        fresh_twin_stage(ctx, escalate=True)

def run(ctx):
    return run_solver_property(ctx, "C04", codes=("C01", "C04", "C08.absent", "C08.finite", "C15"), focus_mix=("updates", "updates", "mixed"),
                               extra_theorem_files=("Properties_C15.v", "Properties_C13.v", "Properties_C01.v", "Properties_C10.v", "Properties_C01_e2e.v"),
                               extra_stage=twin_and_escalate)
