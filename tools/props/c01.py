"""C01 -- SOLVED implies a valid optimality certificate for the user's problem."""
from props._common import run_solver_property
def run(ctx):
    return run_solver_property(ctx, "C01", codes=("C01", "C08.sign"), extra_theorem_files=("Properties_C01_e2e.v",))
