"""C12 -- factorisation failures are retried, bounded and never poison the result."""
import itertools
import vlib, spine, oracles, solver_suite as SS, gen_cases as G

CONTROL_KEYS = ("op", "status", "info.status", "iter", "factor_retires", "refine", "fact_calls")

def protocol_violations(obs_op, settings):
    """implementation-side check of the retry protocol on the trace of factorisation calls of one solve"""
    V = []
    R = int(settings.get("max_factor_retires", 10)); MI = int(settings.get("max_iter", 250))
    tr = [tuple(int(x) for x in t.split(":")) for t in obs_op.get("trace", "").split()]
    status = obs_op.get("status")
    it = int(obs_op.get("iter", 0))
    if it > MI: V.append(("C12.iter", "iter %d > max_iter %d" % (it, MI)))
    if len(tr) > (MI + 1) * (R + 2) + 2 + (R + 3): V.append(("C12.bound", "%d factorisation calls exceed the bound" % len(tr)))
    if tr and tr[0][2] != 0:
        V.append(("C12.protocol", "retry counter is %d at the first factorisation of a solve (stale from the previous solve)" % tr[0][2]))
    for j, (k, iters, retries, refine, fail) in enumerate(tr):
        nxt = tr[j + 1] if j + 1 < len(tr) else None
        if iters > MI: V.append(("C12.iter", "factorisation at iter %d > max_iter" % iters))
        if fail:
            if not refine:
                if nxt is None:
                    if iters < MI: V.append(("C12.protocol", "solve stopped right after the first failure (call %d) without enabling refinement" % k))
                elif not nxt[3]: V.append(("C12.protocol", "refinement not enabled after failure at call %d" % k))
                elif nxt[2] != retries: V.append(("C12.protocol", "regularisation retry counted before refinement was tried (call %d)" % k))
            elif retries < R:
                if nxt is None: V.append(("C12.protocol", "gave up after %d < max_factor_retires=%d retries (call %d, status %s)" % (retries, R, k, status)))
                elif nxt[2] != retries + 1: V.append(("C12.protocol", "retry counter %d -> %d after failure at call %d" % (retries, nxt[2], k)))
            else:
                if nxt is not None: V.append(("C12.protocol", "continued after max_factor_retires failures (call %d)" % k))
                if status != "NUMERICS": V.append(("C12.protocol", "status %s after exhausting retries" % status))
        else:
            if nxt is not None and nxt[2] != 0: V.append(("C12.protocol", "retry counter not reset after success at call %d" % k))
    if status == "NUMERICS":
        if not tr or not tr[-1][4] or not tr[-1][3] or tr[-1][2] != R:
            V.append(("C12.protocol", "NUMERICS returned without max_factor_retires consecutive retries: last call %s" % (tr[-1] if tr else None,)))
    # never NaN / inf / uninitialised values because of a failure
    for kx in ("x", "y", "z", "s"):
        if kx in obs_op:
            for tkn in obs_op[kx].split()[1:]:
                if tkn in ("?", "nan", "-nan", "inf", "-inf"):
                    if not (status == "NUMERICS" and it == 0): V.append(("C12.poison", "%s contains %s (status %s)" % (kx, tkn, status)))
    return V

def run(ctx):
    vlib.regen(ctx, ("consts",))
    vlib.coq_hygiene(ctx)
    vlib.coq_properties(ctx, "C12", extra_files=("Properties_IPMControl.v", "Properties_C01.v"))
    rng = ctx.rng
    cases = []
    K = 6 if ctx.quick() else 14
    base = SS.gen_history(rng, "b", focus="single")
    # exhaustive failure masks over the first K calls on two fixed problems (first solve and re-solve)
    masks = list(itertools.product([0, 1], repeat=K))
    if ctx.quick(): masks = masks[:]  # 64 masks
    pbs = [G.gen_problem(rng, n=2, p=1, m=1), G.gen_problem(rng, n=3, p=0, m=2)]
    ci = 0
    for pb in pbs:
        for mk in masks:
            R = rng.choice([1, 2, 3])
            st = list(G.FRIENDLY) + [("max_iter", str(rng.choice([2, 3, 5]))), ("max_factor_retires", str(R)), ("preconditioner_iter", "1")]
            ops = ["CPBITS 64", G.op_setup(pb), "FAULTS %d %s" % (K, " ".join(map(str, mk))), G.op_solve()]
            pbm = {1: pb}
            if ci % 3 == 0:
                ops += ["FAULTS %d %s" % (K, " ".join(map(str, reversed(mk)))), G.op_solve()]; pbm[2] = pb
            cases.append(SS.Case("f%d" % ci, st, ops, pbm, ["mask" + "".join(map(str, mk)), "R%d" % R])); ci += 1
    # a solve that exhausts the retries followed by a re-solve with few transient failures
    for pb in pbs:
        for pat in ([1], [1, 1], [0, 1], [1, 0, 1], [1, 1, 1]):
            R = rng.choice([1, 2])
            st = list(G.FRIENDLY) + [("max_iter", "30"), ("max_factor_retires", str(R)), ("preconditioner_iter", "1")]
            ops = ["CPBITS 64", G.op_setup(pb), "FAULTS %d %s" % (R + 3, " ".join(["1"] * (R + 3))), G.op_solve(),
                   "FAULTS %d %s" % (len(pat), " ".join(map(str, pat))), G.op_solve()]
            cases.append(SS.Case("n%d" % ci, st, ops, {1: pb, 2: pb}, ["after-numerics:" + "".join(map(str, pat)), "R%d" % R])); ci += 1
    # random bursts
    for i in range(20 if ctx.quick() else 300):
        h = SS.gen_history(rng, "r%d" % i, focus=("mixed", "updates")[i % 2], force_settings=[("max_factor_retires", str(rng.choice([1, 2, 4])))])
        L = rng.randint(1, 30)
        plan = [1 if rng.random() < rng.choice([0.1, 0.5, 0.9]) else 0 for _ in range(L)]
        h.ops.insert(2, "FAULTS %d %s" % (L, " ".join(map(str, plan))))
        h.tags.append("burst%d" % sum(plan))
        cases.append(h)
    text = "".join(c.text() for c in cases)
    only = {b: (None if b == "dense" else CONTROL_KEYS) for b in spine.ALL_BACKENDS}
    # dense: everything must equal the model; sparse back ends: with refinement on they regularise differently
    # (DESIGN C10), so only the control observables are compared with the model ... and only while they can agree:
    res, mobs = spine.correspond(ctx, "c12", text, backends=("dense",))
    res2, _ = spine.correspond(ctx, "c12s", text, backends=("full", "eq", "ineq", "all"), only=("op",))
    res.update(res2)
    byname = {c.name: c for c in cases}
    for b, (ok, diffs, obs) in res.items():
        for cname, lines in obs.items():
            c = byname.get(cname)
            if not c: continue
            per_op = {}
            for k, v in lines:
                opno, key = k.split(".", 1); per_op.setdefault(int(opno), {})[key] = v
            for opno, o in per_op.items():
                if o.get("op") != "solve": continue
                V = protocol_violations(o, dict(c.settings))
                if opno in c.pbs:
                    V += [(cd, m) for cd, m in oracles.check_result(c.pbs[opno], dict(c.settings), o, exact=True) if cd.startswith("C01") or cd == "C08.finite"]
                for code, msg in V:
                    ctx.violation("%s backend=%s %s" % (code, b, " ".join(c.tags[-2:])), "%s (case %s op %d): %s" % (code, cname, opno, msg),
                                  {"case": c.text(), "backend": b, "op": opno, "observed": o})
    for c in cases: ctx.classes.add(" ".join(c.tags))
    ctx.coverage["evaluations"] = len(cases) * 5
    ctx.coverage["exhaustive"] = False
    ctx.coverage["rule"] = "all 2^%d failure masks over the first %d factorisation calls on 2 problems (first solves and re-solves) + random burst plans on random histories; distinct by (mask, retries setting) resp. history signature" % (K, K)
    ctx.coverage["samples"] = [cases[0].text()[:1500]]
    ctx.trusted += ["Coq 8.16.1 kernel", "hook H1 (fault injection, guard PIQP_VERIF) in dense/sparse KKT::regularize_and_factorize", "extraction and xrat harness as for C01"]
    return vlib.finish(ctx)
