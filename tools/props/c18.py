"""C18 -- the solver templates work for every supported scalar and index type (proof partial: instantiability is the compiler's verdict)."""
from fractions import Fraction as Fr
import os
import vlib, spine, oracles, solver_suite as SS, gen_cases as G, double_suite as D

SET = {"float": [("eps_abs", "1/1024"), ("eps_rel", "1/1024"), ("eps_duality_gap_abs", "1/1024"), ("eps_duality_gap_rel", "1/1024"),
                 ("rho_init", "1/1024"), ("delta_init", "1/256"), ("reg_lower_limit", "1/1048576"), ("reg_finetune_lower_limit", "1/16777216")],
       "double": [],
       "longdouble": [("eps_abs", "1/1000000000000"), ("eps_rel", "1/1000000000000"), ("eps_duality_gap_abs", "1/1000000000000"), ("eps_duality_gap_rel", "1/1000000000000")],
       "mp100": [("eps_abs", "1/10000000000000000000000000"), ("eps_rel", "1/10000000000000000000000000"),
                 ("eps_duality_gap_abs", "1/10000000000000000000000000"), ("eps_duality_gap_rel", "1/10000000000000000000000000"),
                 ("reg_lower_limit", "1/1000000000000000000000000000000"), ("reg_finetune_lower_limit", "1/1000000000000000000000000000000000000"),
                 ("iterative_refinement_eps_abs", "1/1000000000000000000000000000000"), ("iterative_refinement_eps_rel", "1/1000000000000000000000000000000")]}
SLACK = {"float": Fr(1, 2 ** 10), "double": Fr(1, 2 ** 20), "longdouble": Fr(1, 2 ** 20), "mp100": Fr(1, 2 ** 20)}

def run(ctx):
    vlib.regen(ctx, ("consts",))
    vlib.coq_hygiene(ctx)
    vlib.coq_properties(ctx, "C18", extra_files=("Properties_C15.v", "Properties_C13.v", "Properties_C01.v"))
    rng = ctx.rng
    if ctx.quick():
        matrix = [("float", "int", "dense", "ruiz"), ("float", "longlong", "all", "identity"), ("longdouble", "int", "full", "ruiz"),
                  ("longdouble", "longlong", "eq", "ruiz"), ("mp100", "int", "dense", "ruiz"), ("mp100", "longlong", "ineq", "identity"),
                  ("double", "longlong", "all", "ruiz"), ("mp100", "int", "full", "ruiz")]
    else:
        matrix = []
        for sc in ("float", "double", "longdouble", "mp100"):
            for pc in ("ruiz", "identity"):
                matrix.append((sc, "int", "dense", pc))
                for ix in ("int", "longlong"):
                    for b in ("full", "eq", "ineq", "all"): matrix.append((sc, ix, b, pc))
    N = 10 if ctx.quick() else 60
    base = [D.gen_W(rng, "t%d" % i, nmax=8) for i in range(N)]
    # every second problem is followed by update(new values of some blocks, always P) and a second solve: the update path
    # (value copies, re-scaling, KKT refresh) must be scalar-generic too
    for i, c in enumerate(base):
        if i % 2: continue
        pb = G.with_patterns(c.pbs[1]) if "patP" not in c.pbs[1] else c.pbs[1]
        pb2, names = G.perturb(rng, pb, {"P"} | set(k for k in ("c", "A", "G", "h", "lb", "ub") if rng.random() < 0.3), strong=True)
        c.ops = [G.op_setup(pb) if "patP" not in c.pbs[1] else c.ops[0], c.ops[1], G.op_update(pb2, names, reuse=(rng.random() < 0.6)), G.op_solve()]
        c.pbs = {0: pb, 1: pb, 2: pb2, 3: pb2}
        c.tags.append("update")
    specs = [spine.build_impl(ctx, b, pc, scalar=sc, idx=("int" if ix == "int" else "ll")) for (sc, ix, b, pc) in matrix]
    specs.append(spine.build_impl(ctx, "dense", "ruiz", scalar="double"))
    built = vlib.build_many(ctx, specs)
    # reference optimum in double
    refexe, msg = built[-1]
    ref = {}
    if refexe:
        cf = os.path.join(ctx.work, "ref.cases"); open(cf, "w").write("".join(c.text() for c in base))
        rc, o = vlib.run_bin(refexe, cf)
        for cname, lines in vlib.parse_obs(o).items(): ref[cname] = D.per_op(lines)
    nrun = 0
    for (sc, ix, b, pc), (exe, msg) in zip(matrix, built[:-1]):
        tag = "%s/%s/%s/%s" % (sc, ix, b, pc)
        obn = "instantiation:%s" % tag
        if exe is None:
            ctx.ob(obn, "compile", False, msg)
            ctx.violation("C18.compile T=%s I=%s backend=%s precond=%s" % (sc, ix, b, pc), "instantiation does not compile: " + msg[:600], {"instantiation": tag, "compiler_output": msg[:3000]})
            continue
        cases = [SS.Case(c.name, SET[sc], c.ops, c.pbs, c.tags) for c in base]
        cf = os.path.join(ctx.work, "c18_%s_%s_%s_%s.cases" % (sc, ix, b, pc)); open(cf, "w").write("".join(c.text() for c in cases))
        rc, o = vlib.run_bin(exe, cf, timeout=900)
        if rc != 0:
            ctx.ob(obn, "run", False, "rc=%d %s" % (rc, o[-500:]))
            ctx.violation("C18.run T=%s I=%s backend=%s precond=%s" % (sc, ix, b, pc), "instantiation crashed: rc=%d %s" % (rc, o[-400:]), {"instantiation": tag, "cases": open(cf).read()[:3000]}); continue
        ctx.ob(obn, "compile+run", True, "")
        obs = vlib.parse_obs(o)
        for c, opno in [(c_, k_) for c_ in cases for k_ in (1, 3)]:
            ob = D.per_op(obs.get(c.name, [])).get(opno)
            if not ob or ob.get("op") != "solve": continue
            nrun += 1
            V = oracles.check_result(c.pbs[opno], dict(c.settings), ob, exact=False, slack=SLACK[sc])
            for code, m in V:
                if code.startswith("C09") and sc in ("float",): continue
                ctx.violation("C18.%s T=%s I=%s backend=%s precond=%s" % (code, sc, ix, b, pc), "%s (%s, case %s): %s" % (code, tag, c.name, m), {"instantiation": tag, "case": c.text(), "observed": ob})
            if sc in ("longdouble", "mp100", "double"):
                if ob.get("status") != "SOLVED":
                    ctx.violation("C18.unsolved T=%s I=%s backend=%s precond=%s" % (sc, ix, b, pc), "class-W problem not solved at higher precision (solve op %d): %s" % (opno, ob.get("status")), {"instantiation": tag, "case": c.text()})
                elif ref.get(c.name, {}).get(opno, {}).get("status") == "SOLVED":
                    xr = oracles.pvec(ref[c.name][opno]["x"]); xo = oracles.pvec(ob["x"])
                    dx = max([abs(a - b_) for a, b_ in zip(xr, xo)] + [Fr(0)])
                    if dx > Fr(1, 10 ** 4) * (1 + max(abs(v) for v in xr)):
                        ctx.violation("C18.converge T=%s I=%s backend=%s precond=%s" % (sc, ix, b, pc), "solution at higher precision differs from the double optimum by %.3g" % float(dx), {"instantiation": tag, "case": c.text()})
        ctx.classes.add(tag)
    ctx.coverage["evaluations"] = nrun
    ctx.coverage["rule"] = "instantiation matrix (scalar x index type x back end x preconditioner): each entry is compiled from /repo's current headers and run on class-W problems; certificate recomputed in exact arithmetic from the returned values with slack 2^-10 (float) / 2^-20; higher precision must reproduce the double optimum. quick: 8 representative entries; thorough: all 72"
    ctx.coverage["samples"] = [{"instantiation": "%s/%s/%s/%s" % m, "case": base[0].text()[:600]} for m in matrix[:2]]
    ctx.coverage["exhaustive"] = not ctx.quick()
    ctx.trusted += ["g++ 12 (instantiability is decided by the compiler, not by a theorem)", "boost::multiprecision cpp_bin_float<100>", "Coq theorems of C01/C13/C15 are stated over exact rationals with an arbitrary positive sqrt and epsilon: they do not depend on the scalar type"]
    ctx.assumptions.append("default tolerances are adapted per scalar type (float: 2^-10; long double: 1e-12; 100-digit float: 1e-25)")
    return vlib.finish(ctx)
