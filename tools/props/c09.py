"""C09 -- reported diagnostics describe the returned point (first wiring of the pipeline)."""
import vlib, spine, gen_cases as G

def run(ctx):
    vlib.regen(ctx, ("consts",))
    vlib.coq_hygiene(ctx)
    vlib.coq_properties(ctx, "C09")
    rng = ctx.rng
    cases = []
    N = 12 if ctx.quick() else 100
    for i in range(N):
        pb = G.gen_problem(rng)
        st = list(G.FRIENDLY) + [("max_iter", str(rng.choice([1, 2, 3, 6, 12]))), ("preconditioner_iter", str(rng.choice([0, 1, 2, 3])))]
        if rng.random() < 0.3: st.append(("preconditioner_scale_cost", "1"))
        cases.append(G.case_text("c%d" % i, st, ["CPBITS 64", G.op_setup(pb), G.op_solve()]))
        ctx.classes.add(G.signature(pb))
    txt = "".join(cases)
    res, mobs = spine.correspond(ctx, "c09", txt, backends=spine.ALL_BACKENDS)
    ctx.coverage["evaluations"] = N
    ctx.coverage["samples"] = [cases[0]]
    return vlib.finish(ctx)
