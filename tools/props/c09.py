"""C09 -- reported diagnostics describe the returned point."""
from props._common import run_solver_property
def run(ctx):
    return run_solver_property(ctx, "C09", codes=("C09",))
