"""C02 -- well-posed problems are solved by every backend (proof partial: see DESIGN; convergence itself is explored)."""
import vlib, spine, double_suite as D
from props._common import run_solver_property

GRID = [[], [("preconditioner_iter", "0")], [("preconditioner_scale_cost", "1")], [("iterative_refinement_always_enabled", "1")],
        [("preconditioner_iter", "0"), ("iterative_refinement_always_enabled", "1")], [("preconditioner_scale_cost", "1"), ("preconditioner_iter", "3")]]

def stage(ctx):
    rng = ctx.rng
    N = 60 if ctx.quick() else 1500
    cases = [D.gen_W(rng, "w%d" % i, nmax=(14 if ctx.quick() else 60), settings=GRID[i % len(GRID)]) for i in range(N)]
    D.run_double(ctx, cases, name="c02w", codes=("C02", "C01"), expect_solved=True)
    D.run_double(ctx, cases[: N // 3], precond="identity", name="c02wi", codes=("C02", "C01"), expect_solved=True)
    ctx.coverage["search_rule"] = "class-W generator (P = LL^T + mu I, mu >= 1/2; Slater point with margin >= 1/2; A = [I | R]; entries O(1)) x 5 back ends x settings grid, double build, default tolerances; any non-SOLVED is a violation"

def run(ctx):
    return run_solver_property(ctx, "C02", codes=("C02", "C01"), focus_mix=("single", "mixed"), n_quick=24, extra_stage=stage,
                               extra_theorem_files=("Properties_C02_loop.v", "Properties_C13.v", "Properties_C08_interior.v"))
