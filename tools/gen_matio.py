#!/usr/bin/env python3
"""Translator for C20: include/piqp/utils/io_utils.hpp, include/piqp/{dense,sparse}/model.hpp and the dimension
handling of include/piqp/utils/eigen_matio.hpp  ->  coq/gen/MatioFields.v.

What is regenerated (and therefore followed by the proofs when the source is edited):
  * save_{dense,sparse}_stmts      the `file.write_mat("NAME", model.MEMBER);` statements, in order
  * load_{dense,sparse}_stmts      the `file.read_mat("NAME", LOCAL);` statements, in order
  * load_*_locals                  declared kind of every local (Mat<T> / SparseMat<T, I> / Vec<T>)
  * load_*_ctor_args               the argument list of `Model model(...)`
  * {dense,sparse}_ctor_params     constructor parameter names + kinds, {dense,sparse}_ctor_inits (member, parameter)
  * {dense,sparse}_members         struct members + kinds
  * wr_{dense,sparse}_dims         which of rows/cols goes to dims[0], dims[1] in write_mat_impl
  * rd_{dense,sparse}_{rows,cols}_dim, rd_sparse_njc_dim   which dims[] entry is read as rows / cols / used in the njc check
Everything else of eigen_matio.hpp that the hand-written model coq/MatIO.v transcribes is pinned by ANCHORS: each
statement must occur (after whitespace normalisation) exactly the stated number of times in the stated function,
otherwise the model may be stale and the translator fails with exit code 3 (TRANSLATOR-ERROR)."""
import re, sys, os

REPO = os.environ.get("VERIF_REPO", "/repo")
OUT = sys.argv[1] if len(sys.argv) > 1 else os.path.join(os.path.dirname(os.path.abspath(__file__)), "..", "coq", "gen", "MatioFields.v")

class TranslatorError(Exception):
    pass

def strip_comments(s):
    s = re.sub(r"/\*.*?\*/", " ", s, flags=re.S)
    s = re.sub(r"//[^\n]*", "", s)
    return s

def rd(p):
    try:
        return strip_comments(open(os.path.join(REPO, p)).read())
    except OSError as e:
        raise TranslatorError("cannot read %s: %s" % (p, e))

def norm(s):
    return re.sub(r"\s+", "", s)

def match_brace(src, i):
    """src[i] == '{' -> index of the matching '}'"""
    assert src[i] == "{"
    d = 0
    for k in range(i, len(src)):
        if src[k] == "{": d += 1
        elif src[k] == "}":
            d -= 1
            if d == 0: return k
    raise TranslatorError("unbalanced braces")

def match_paren(src, i):
    assert src[i] == "("
    d = 0
    for k in range(i, len(src)):
        if src[k] == "(": d += 1
        elif src[k] == ")":
            d -= 1
            if d == 0: return k
    raise TranslatorError("unbalanced parentheses")

def function_body(src, header_re, what, count=1):
    """bodies of the functions whose header matches header_re (header = text up to the opening brace)"""
    out = []
    for m in re.finditer(header_re, src):
        j = src.find("{", m.end())
        semi = src.find(";", m.end())
        if j < 0 or (0 <= semi < j): continue
        out.append(src[j + 1:match_brace(src, j)])
    if len(out) != count:
        raise TranslatorError("%s: found %d definitions (expected %d)" % (what, len(out), count))
    return out

def statements(body):
    """top-level statements of a brace-free function body"""
    if "{" in body or "}" in body:
        raise TranslatorError("unexpected nested block in a save_/load_ function body")
    return [s.strip() for s in body.split(";") if s.strip()]

KINDS = [(r"Mat<T>", "KDense"), (r"SparseMat<T,I>", "KSparse"), (r"Vec<T>", "KVec"),
         (r"CMatRef<T>", "KDense"), (r"CVecRef<T>", "KVec")]

def kind_of_type(t, what):
    t = norm(t)
    t = re.sub(r"^const", "", t)
    t = re.sub(r"&$", "", t)
    m = re.fullmatch(r"optional<(.*)>", t)
    if m: t = m.group(1)
    for pat, k in KINDS:
        if t == pat: return k
    raise TranslatorError("%s: unknown type %r" % (what, t))

def parse_save(io, fname):
    body, = function_body(io, r"void\s+" + fname + r"\s*\(", fname)
    st = statements(body)
    if len(st) < 3 or norm(st[0]) != "Eigen::MatioFilefile(path.c_str())" or norm(st[-1]) != "file.close()":
        raise TranslatorError("%s: expected `Eigen::MatioFile file(path.c_str()); ... file.close();`" % fname)
    out = []
    for s in st[1:-1]:
        m = re.fullmatch(r'file\.write_mat\(\s*"(\w+)"\s*,\s*model\.(\w+)\s*\)', s)
        if not m: raise TranslatorError("%s: unexpected statement %r" % (fname, s))
        out.append((m.group(1), m.group(2)))
    return out

def parse_load(io, fname, model_type):
    body, = function_body(io, r"Model<[^>]*>\s+" + fname + r"\s*\(", fname)
    st = statements(body)
    locals_, reads, args = [], [], None
    phase = 0
    for s in st:
        m = re.fullmatch(r"((?:Mat|SparseMat|Vec)<[^>]*>)\s+([\w\s,]+)", s)
        if m and phase == 0:
            k = kind_of_type(m.group(1), fname)
            for v in m.group(2).split(","):
                locals_.append((v.strip(), k))
            continue
        if norm(s) == "Eigen::MatioFilefile(path.c_str())" and phase == 0:
            phase = 1; continue
        m = re.fullmatch(r'file\.read_mat\(\s*"(\w+)"\s*,\s*(\w+)\s*\)', s)
        if m and phase == 1:
            reads.append((m.group(1), m.group(2))); continue
        if norm(s) == "file.close()" and phase == 1:
            phase = 2; continue
        m = re.fullmatch(model_type + r"\s+model\s*\(([^()]*)\)", s)
        if m and phase == 2:
            args = [a.strip() for a in m.group(1).split(",")]
            phase = 3; continue
        if norm(s) == "returnmodel" and phase == 3:
            phase = 4; continue
        raise TranslatorError("%s: unexpected statement %r (phase %d)" % (fname, s, phase))
    if phase != 4: raise TranslatorError("%s: incomplete body" % fname)
    names = [v for v, _ in locals_]
    if len(set(names)) != len(names): raise TranslatorError("%s: duplicate local" % fname)
    for a in args:
        if not re.fullmatch(r"\w+", a): raise TranslatorError("%s: constructor argument %r is not a plain local" % (fname, a))
    return locals_, reads, args

def parse_model(src, what):
    i = src.find("struct Model")
    if i < 0: raise TranslatorError("%s: struct Model not found" % what)
    j = src.find("{", i)
    body = src[j + 1:match_brace(src, j)]
    # members: declarations before the constructor
    k = re.search(r"\bModel\s*\(", body)
    if not k: raise TranslatorError("%s: constructor not found" % what)
    members = []
    for s in body[:k.start()].split(";"):
        s = s.strip()
        if not s or s.startswith("using "): continue
        m = re.fullmatch(r"((?:Mat|SparseMat|Vec)<[^>]*>)\s+(\w+)", s)
        if not m: raise TranslatorError("%s: unexpected member declaration %r" % (what, s))
        members.append((m.group(2), kind_of_type(m.group(1), what)))
    po = body.find("(", k.start())
    pc = match_paren(body, po)
    params = []
    depth = 0; cur = ""
    for ch in body[po + 1:pc]:
        if ch in "<(": depth += 1
        if ch in ">)": depth -= 1
        if ch == "," and depth == 0:
            params.append(cur); cur = ""
        else: cur += ch
    params.append(cur)
    plist = []
    for p in params:
        p = p.split("=")[0].strip()
        m = re.fullmatch(r"(.*?)(\w+)", p, flags=re.S)
        if not m: raise TranslatorError("%s: cannot parse parameter %r" % (what, p))
        plist.append((m.group(2), kind_of_type(m.group(1), what)))
    bo = body.find("{", pc)
    init_txt = body[pc + 1:bo]
    cbody = body[bo + 1:match_brace(body, bo)]
    inits = []
    mi = re.fullmatch(r"\s*(?:noexcept)?\s*:\s*(.*)", init_txt, flags=re.S)
    if mi:
        for part in mi.group(1).split(","):
            m = re.fullmatch(r"\s*(\w+)\s*\(\s*(\w+)\s*\)\s*", part)
            if not m: raise TranslatorError("%s: unexpected member initialiser %r" % (what, part))
            inits.append((m.group(1), m.group(2)))
    for m in re.finditer(r"this->(\w+)\s*=\s*([^;]*);", cbody):
        rhs = m.group(2).strip()
        m2 = re.fullmatch(r"(\w+)\.value_or\(.*\)", rhs, flags=re.S)
        if not m2: raise TranslatorError("%s: unexpected assignment to member %s: %r" % (what, m.group(1), rhs))
        inits.append((m.group(1), m2.group(1)))
    # no other writes to members in the constructor body
    for mem, _ in members:
        if re.search(r"(?<![\w>.])" + mem + r"\s*=[^=]", cbody):
            raise TranslatorError("%s: constructor body assigns %s outside this->%s = ..." % (what, mem, mem))
    return members, plist, inits

# ---- eigen_matio.hpp
ANCHORS_WRITE_DENSE = [
    ("size_trows=static_cast<size_t>(matrix.rows());", 1), ("size_tcols=static_cast<size_t>(matrix.cols());", 1),
    ("dst_re.resize(matrix.rows(),matrix.cols());", 2), ("dst_re=matrix.derived().real().templatecast<mat_type>();", 2),
    ("data=dst_re.data();", 1),
    ("matvar_t*var=Mat_VarCreate(matname,cid,tid,2,dims,data,cxflag);", 1),
    ("intstatus=Mat_VarWrite(_file,var,compression);", 1),
]
ANCHORS_WRITE_SPARSE = [
    ("size_trows=static_cast<size_t>(matrix.rows());", 1), ("size_tcols=static_cast<size_t>(matrix.cols());", 1),
    ("matio_classescid=MAT_C_SPARSE;", 1),
    ("SparseMatrix<typenameDerived::Scalar,ColMajor,int>dst(matrix.rows(),matrix.cols());", 1),
    ("dst=matrix;", 1), ("dst.makeCompressed();", 1),
    ("mat_uint32_tnz=static_cast<mat_uint32_t>(dst.nonZeros());", 1),
    ("sparse.nzmax=nz;", 1), ("sparse.nir=nz;", 1), ("sparse.ndata=nz;", 1),
    ("dst_ir=Map<Matrix<int,Dynamic,1>>(dst.innerIndexPtr(),dst.nonZeros()).templatecast<mat_uint32_t>();", 1),
    ("sparse.ir=dst_ir.data();", 1),
    ("dst_jc=Map<Matrix<int,Dynamic,1>>(dst.outerIndexPtr(),dst.outerSize()+1).templatecast<mat_uint32_t>();", 1),
    ("sparse.jc=dst_jc.data();", 1),
    ("sparse.njc=static_cast<mat_uint32_t>(dst.outerSize()+1);", 1),
    ("constMap<Matrix<typenameDerived::Scalar,Dynamic,1>>val_map(dst.valuePtr(),dst.nonZeros());", 2),
    ("dst_re_val=val_map.real().templatecast<mat_type>();", 2),
    ("sparse.data=dst_re_val.data();", 1),
    ("matvar_t*var=Mat_VarCreate(matname,cid,tid,2,dims,&sparse,cxflag);", 1),
    ("intstatus=Mat_VarWrite(_file,var,compression);", 1),
]
ANCHORS_READ_DENSE = [
    ("Map<Matrix<data_t,Dynamic,Dynamic>>map((data_t*)var->data,rows,cols);", 1),
    ("matrix=map.templatecast<Scalar>();", 1),
]
ANCHORS_READ_SPARSE = [
    ("mat_sparse_t*sparse=(mat_sparse_t*)var->data;", 1),
    ("Map<SparseMatrix<data_t,ColMajor,uint32_t>>map(rows,cols,sparse->ndata,sparse->jc,sparse->ir,(data_t*)sparse->data);", 1),
    ("matrix=map.templatecast<Scalar>();", 1),
]
ANCHORS_WRITE_PUBLIC = [("Mat_VarDelete(_file,matname);", 1), ("returnwrite_mat_impl(matname,matrix,compression);", 1)]
ANCHORS_READ_PUBLIC = [
    ("if(var->rank!=2){", 1),
    ("if(static_cast<bool>(var->isComplex)!=static_cast<bool>(NumTraits<typenameDerived::Scalar>::IsComplex)){", 1),
    ("elseif(var->data_type==MAT_T_X)", 1), ("returnmatrix_from_var<data_t>(matrix,var,ele_type);", 1),
    ("MATIO_HANDLE_READ_TYPE(MAT_T_DOUBLE);", 1),
]

def check_anchors(body, anchors, what):
    nb = norm(body)
    for a, cnt in anchors:
        if nb.count(a) != cnt:
            raise TranslatorError("%s: statement `%s` occurs %d times (expected %d): coq/MatIO.v may be stale" % (what, a, nb.count(a), cnt))

def active_branch(body):
    """keep the `#if MATIO_VERSION >= 150` branch (libmatio here is 1.5.23), drop the #else branch"""
    m = re.search(r"#if\s+MATIO_VERSION\s*>=\s*150\s*\n(.*?)#else(.*?)#endif", body, flags=re.S)
    if not m: raise TranslatorError("write_mat_impl: expected #if MATIO_VERSION >= 150 ... #else ... #endif")
    return body[:m.start()] + m.group(1) + body[m.end():]

def dims_order(body, what):
    m = re.findall(r"size_t\s+dims\s*\[\s*2\s*\]\s*=\s*\{\s*(\w+)\s*,\s*(\w+)\s*\}", body)
    if len(m) != 1: raise TranslatorError("%s: `size_t dims[2] = {..}` found %d times" % (what, len(m)))
    sel = []
    for v in m[0]:
        d = re.findall(r"size_t\s+" + v + r"\s*=\s*static_cast<size_t>\(matrix\.(rows|cols)\(\)\)", body)
        if len(d) != 1: raise TranslatorError("%s: cannot resolve dims entry %r" % (what, v))
        sel.append("DRows" if d[0] == "rows" else "DCols")
    return sel

def read_dims(body, what):
    r = re.findall(r"Index\s+rows\s*=\s*static_cast<Index>\(var->dims\[(\d+)\]\)", body)
    c = re.findall(r"Index\s+cols\s*=\s*static_cast<Index>\(var->dims\[(\d+)\]\)", body)
    if len(r) != 1 or len(c) != 1: raise TranslatorError("%s: rows/cols from var->dims not found exactly once" % what)
    return int(r[0]), int(c[0])

def parse_eigen_matio(src):
    wr = function_body(src, r"int\s+write_mat_impl\s*\(", "write_mat_impl", 2)
    heads = [m.group(0) for m in re.finditer(r"int\s+write_mat_impl\s*\([^)]*\)", src)]
    if len(heads) != 2 or "DenseBase<Derived>" not in heads[0] or "SparseMatrixBase<Derived>" not in heads[1]:
        raise TranslatorError("write_mat_impl overloads are not (DenseBase, SparseMatrixBase) in this order")
    wd, ws = active_branch(wr[0]), active_branch(wr[1])
    check_anchors(wd, ANCHORS_WRITE_DENSE, "write_mat_impl(dense)")
    check_anchors(ws, ANCHORS_WRITE_SPARSE, "write_mat_impl(sparse)")
    rdb = function_body(src, r"int\s+matrix_from_var\s*\(", "matrix_from_var", 4)
    heads = [m.group(0) for m in re.finditer(r"int\s+matrix_from_var\s*\([^)]*\)", src)]
    exp = [("PlainObjectBase<Derived>", False), ("PlainObjectBase<Derived>", True), ("SparseMatrixBase<Derived>", False), ("SparseMatrixBase<Derived>", True)]
    for h, (t, cx) in zip(heads, exp):
        if t not in h or (("std::complex" in h) != cx):
            raise TranslatorError("matrix_from_var overloads changed: %r" % h)
    check_anchors(rdb[0], ANCHORS_READ_DENSE, "matrix_from_var(dense)")
    check_anchors(rdb[2], ANCHORS_READ_SPARSE, "matrix_from_var(sparse)")
    m = re.findall(r"if\s*\(\s*sparse->nir\s*!=\s*sparse->ndata\s*\|\|\s*sparse->njc\s*!=\s*var->dims\[(\d+)\]\s*\+\s*1\s*\)\s*\{[^}]*return\s+-1;", rdb[2])
    if len(m) != 1: raise TranslatorError("matrix_from_var(sparse): the nir/ndata/njc format check changed")
    njc_dim = int(m[0])
    pub_w = function_body(src, r"int\s+write_mat\s*\(\s*const\s+char\s*\*\s*matname\s*,\s*const\s+Derived\s*&\s*matrix", "MatioFile::write_mat", 1)
    check_anchors(pub_w[0], ANCHORS_WRITE_PUBLIC, "MatioFile::write_mat")
    pub_r = function_body(src, r"int\s+read_mat\s*\(\s*matvar_t\s*\*\s*var\s*,", "MatioFile::read_mat(var)", 1)
    check_anchors(pub_r[0], ANCHORS_READ_PUBLIC, "MatioFile::read_mat(var)")
    return dict(wr_dense=dims_order(wd, "write dense"), wr_sparse=dims_order(ws, "write sparse"),
                rd_dense=read_dims(rdb[0], "read dense"), rd_sparse=read_dims(rdb[2], "read sparse"), njc_dim=njc_dim)

def coq_str_pairs(l):
    return "[" + "; ".join('("%s", "%s")' % (a, b) for a, b in l) + "]"
def coq_kind_pairs(l):
    return "[" + "; ".join('("%s", %s)' % (a, k) for a, k in l) + "]"
def coq_strs(l):
    return "[" + "; ".join('"%s"' % a for a in l) + "]"

def main():
    io = rd("include/piqp/utils/io_utils.hpp")
    em = rd("include/piqp/utils/eigen_matio.hpp")
    dm = rd("include/piqp/dense/model.hpp")
    sm = rd("include/piqp/sparse/model.hpp")
    sd = parse_save(io, "save_dense_model")
    ss = parse_save(io, "save_sparse_model")
    ldl, ldr, lda = parse_load(io, "load_dense_model", r"dense::Model<T>")
    lsl, lsr, lsa = parse_load(io, "load_sparse_model", r"sparse::Model<T,\s*I>")
    dmem, dpar, dini = parse_model(dm, "dense/model.hpp")
    smem, spar, sini = parse_model(sm, "sparse/model.hpp")
    e = parse_eigen_matio(em)
    o = []
    o.append("(* GENERATED by tools/gen_matio.py from include/piqp/utils/io_utils.hpp, include/piqp/utils/eigen_matio.hpp,")
    o.append("   include/piqp/dense/model.hpp, include/piqp/sparse/model.hpp -- do not edit *)")
    o.append("From Coq Require Import List String.")
    o.append("Import ListNotations.")
    o.append("Local Open Scope string_scope.")
    o.append("")
    o.append("Inductive dimsel := DRows | DCols.")
    o.append("Inductive kind := KDense | KVec | KSparse.")
    o.append("Definition kind_eqb (a b : kind) : bool :=")
    o.append("  match a, b with KDense, KDense => true | KVec, KVec => true | KSparse, KSparse => true | _, _ => false end.")
    o.append("")
    o.append("(* eigen_matio.hpp: size_t dims[2] = {..} in write_mat_impl; var->dims[..] in matrix_from_var *)")
    o.append("Definition wr_dense_dims : list dimsel := [%s]." % "; ".join(e["wr_dense"]))
    o.append("Definition wr_sparse_dims : list dimsel := [%s]." % "; ".join(e["wr_sparse"]))
    o.append("Definition rd_dense_rows_dim : nat := %d." % e["rd_dense"][0])
    o.append("Definition rd_dense_cols_dim : nat := %d." % e["rd_dense"][1])
    o.append("Definition rd_sparse_rows_dim : nat := %d." % e["rd_sparse"][0])
    o.append("Definition rd_sparse_cols_dim : nat := %d." % e["rd_sparse"][1])
    o.append("Definition rd_sparse_njc_dim : nat := %d." % e["njc_dim"])
    o.append("")
    o.append("(* io_utils.hpp: (variable name in the file, member of the model) *)")
    o.append("Definition save_dense_stmts : list (string * string) := %s." % coq_str_pairs(sd))
    o.append("Definition save_sparse_stmts : list (string * string) := %s." % coq_str_pairs(ss))
    o.append("(* io_utils.hpp: (variable name in the file, local variable read into) *)")
    o.append("Definition load_dense_stmts : list (string * string) := %s." % coq_str_pairs(ldr))
    o.append("Definition load_sparse_stmts : list (string * string) := %s." % coq_str_pairs(lsr))
    o.append("Definition load_dense_locals : list (string * kind) := %s." % coq_kind_pairs(ldl))
    o.append("Definition load_sparse_locals : list (string * kind) := %s." % coq_kind_pairs(lsl))
    o.append("Definition load_dense_ctor_args : list string := %s." % coq_strs(lda))
    o.append("Definition load_sparse_ctor_args : list string := %s." % coq_strs(lsa))
    o.append("(* model.hpp: constructor parameters, (member, parameter it is initialised from), struct members *)")
    o.append("Definition dense_ctor_params : list (string * kind) := %s." % coq_kind_pairs(dpar))
    o.append("Definition sparse_ctor_params : list (string * kind) := %s." % coq_kind_pairs(spar))
    o.append("Definition dense_ctor_inits : list (string * string) := %s." % coq_str_pairs(dini))
    o.append("Definition sparse_ctor_inits : list (string * string) := %s." % coq_str_pairs(sini))
    o.append("Definition dense_members : list (string * kind) := %s." % coq_kind_pairs(dmem))
    o.append("Definition sparse_members : list (string * kind) := %s." % coq_kind_pairs(smem))
    txt = "\n".join(o) + "\n"
    os.makedirs(os.path.dirname(OUT), exist_ok=True)
    old = open(OUT).read() if os.path.exists(OUT) else None
    if old != txt:
        open(OUT, "w").write(txt)
    print("gen_matio: %d+%d save statements, %d+%d load statements, dims write %s/%s read %s/%s -> %s%s" % (
        len(sd), len(ss), len(ldr), len(lsr), e["wr_dense"], e["wr_sparse"], e["rd_dense"], e["rd_sparse"], os.path.relpath(OUT),
        "" if old != txt else " (unchanged)"))

if __name__ == "__main__":
    try:
        main()
    except TranslatorError as ex:
        # no stale tables: without a fresh gen/MatioFields.v the model and the proofs must not build
        for ext in (".v", ".vo", ".vos", ".vok", ".glob"):
            try: os.remove(OUT[:-2] + ext)
            except OSError: pass
        print("TRANSLATOR-ERROR gen_matio: %s" % ex)
        sys.exit(3)
