"""C15, sparse transcription: exact correspondence between the Gallina transcription coq/PrecondSparse.v of
piqp::sparse::RuizEquilibration (extracted, ocaml/drv_precsparse_model.ml) and the REAL template instantiated with the exact
scalar, piqp::sparse::RuizEquilibration<xrat,int> on a piqp::sparse::Data<xrat,int> (harness/drv_precsparse.cpp).

    from precsparse_stage import precond_sparse_stage
    extra = precond_sparse_stage(ctx)                 # records obligations, returns "Properties_C15_sparse.v"
    vlib.coq_properties(ctx, "C15", extra_files=(extra,))

Generated scripts: PROBLEM (n, p, m in various sizes; P given as full / upper-only / with missing diagonal entries / empty
columns / explicit zeros; A, G with empty rows and columns; magnitudes that trigger both branches of limit_scaling; bound
patterns none / all / mixed / infinite incl. values beyond +-1e30), INIT, SCALE fresh with preconditioner_iter 0..10 and
scale_cost on/off, ACCESS (the unscale_X family), then update-like rounds UNSCALE; SETDATA (new values, new patterns, new bound
patterns); SCALE reuse|fresh; plus irregular histories (SCALE twice, UNSCALE twice, reuse directly after INIT).
After EVERY operation both sides print the complete preconditioner state (c, c_inv, delta, delta_lb, delta_ub and the three
inverse / scratch vectors at full length, n_lb, n_ub) and the complete Data (raw CSC arrays of P_utri, AT, GT, c, b, h, index lists,
box scalings, packed bounds at full length): every line must be EQUAL.  A difference is reported as a concrete violation whose
replay is the script."""
import os, sys, hashlib, shutil, random, json
from fractions import Fraction as Fr
import vlib

PROPS_FILE = "Properties_C15_sparse.v"
MODEL_SRC = ("Base.v", "Data.v", "CSC.v", "PrecondDense.v", "PrecondSparse.v", os.path.join("gen", "Consts.v"))
OB = "correspondence:precsparse-model"

def fs(x):
    if isinstance(x, str): return x
    x = Fr(x)
    return str(x.numerator) if x.denominator == 1 else "%d/%d" % (x.numerator, x.denominator)

def mat_tok(M, rows, cols):
    ent = sorted(((j, i, v) for (i, j), v in M.items()))
    return "%d %d %d " % (rows, cols, len(ent)) + " ".join("%d %d %s" % (i, j, fs(v)) for j, i, v in ent)

def vec_tok(v): return ("%d " % len(v) + " ".join(fs(x) for x in v)).strip()

# ---------------------------------------------------------------- generators
MAGS = ("small", "small", "small", "mixed", "tiny", "huge", "wild")
def rval(rng, mag):
    s = rng.choice((-1, 1))
    if mag == "small": return s * Fr(rng.randint(1, 9), rng.choice((1, 1, 2, 3, 4, 8)))
    if mag == "tiny": return s * Fr(rng.randint(1, 9), rng.choice((10 ** 3, 10 ** 5, 2 ** 20, 10 ** 9)))
    if mag == "huge": return s * Fr(rng.randint(1, 9) * rng.choice((10 ** 3, 10 ** 5, 2 ** 20, 10 ** 9)), rng.choice((1, 3)))
    if mag == "mixed": return rval(rng, rng.choice(("small", "small", "tiny", "huge")))
    return s * Fr(rng.randint(1, 10 ** 6), rng.randint(1, 10 ** 6))

def gen_P(rng, n, style, mag):
    """dict (i,j) -> value as the user would pass P (any triangle); the library keeps the upper triangle"""
    U = {}
    for j in range(n):
        for i in range(j + 1):
            if style == "dense" or (style in ("sparse", "lower_too", "zeros") and rng.random() < 0.5) or (style == "diag" and i == j) \
               or (style == "nodiag" and i != j and rng.random() < 0.7) or (style == "emptycol" and rng.random() < 0.6):
                U[(i, j)] = rval(rng, mag)
    if style == "emptycol" and n > 0:
        k = rng.randrange(n)
        U = {(i, j): v for (i, j), v in U.items() if j != k}
    if style == "zeros":
        for k in list(U):
            if rng.random() < 0.3: U[k] = Fr(0)
    if style == "empty": U = {}
    P = dict(U)
    if style in ("lower_too", "dense") or rng.random() < 0.3:
        for (i, j), v in U.items():
            if i != j: P[(j, i)] = v if rng.random() < 0.8 else rval(rng, mag)     # the lower triangle is ignored by the library
    return P

def gen_rect(rng, r, c, mag, dens=None):
    dens = rng.choice((0.0, 0.3, 0.6, 1.0)) if dens is None else dens
    M = {}
    for i in range(r):
        for j in range(c):
            if rng.random() < dens: M[(i, j)] = Fr(0) if rng.random() < 0.07 else rval(rng, mag)
    return M

BIG = "2000000000000000000000000000000000"
def gen_bounds(rng, n, kind):
    lb, ub = [], []
    for i in range(n):
        k = kind
        if kind == "mixed": k = rng.choice(("none", "lower", "upper", "both", "inf", "big"))
        v = Fr(rng.randint(-5, 5), rng.choice((1, 2, 3)))
        w = Fr(rng.randint(1, 6), rng.choice((1, 2)))
        if k == "none": lb.append("-inf"); ub.append("inf")
        elif k == "all" or k == "both": lb.append(v - w); ub.append(v + w)
        elif k == "lower": lb.append(v); ub.append("inf")
        elif k == "upper": lb.append("-inf"); ub.append(v)
        elif k == "inf": lb.append("-inf"); ub.append("inf")
        elif k == "big": lb.append("-" + BIG if rng.random() < 0.6 else v); ub.append(BIG if rng.random() < 0.6 else v + w)
        else: raise ValueError(k)
    return lb, ub

P_STYLES = ("dense", "sparse", "sparse", "diag", "nodiag", "emptycol", "lower_too", "zeros", "empty")
B_KINDS = ("none", "all", "mixed", "mixed", "mixed", "lower", "upper", "big")

class Case:
    def __init__(s, name, ops, tags): s.name, s.ops, s.tags = name, ops, tags
    def text(s):
        out = ["CASE %s" % s.name]
        for o in s.ops:
            if o[0] in ("PROBLEM", "SETDATA"):
                b = o[1]; parts = [o[0]]
                for k in ("P", "A", "G"):
                    if k in b: parts.append("%s %s" % (k, mat_tok(*b[k])))
                for k in ("c", "b", "h", "lb", "ub"):
                    if k in b: parts.append("%s %s" % (k, vec_tok(b[k])))
                parts.append("END"); out.append(" " + " ".join(parts))
            elif o[0] == "SCALE": out.append(" SCALE %d %d %d" % (o[1], o[2], o[3]))
            elif o[0] == "ACCESS": out.append(" ACCESS %s %s %s" % (vec_tok(o[1]), vec_tok(o[2]), vec_tok(o[3])))
            else: out.append(" " + o[0])
        out.append("ENDCASE")
        return "\n".join(out) + "\n"

def gen_blocks(rng, n, p, m, mag, pstyle=None, bkind=None, which=None):
    b = {}
    full = {"P": lambda: (gen_P(rng, n, pstyle or rng.choice(P_STYLES), mag), n, n),
            "A": lambda: (gen_rect(rng, p, n, mag), p, n), "G": lambda: (gen_rect(rng, m, n, mag), m, n),
            "c": lambda: [Fr(0) if rng.random() < 0.15 else rval(rng, mag) for _ in range(n)],
            "b": lambda: [rval(rng, "small") for _ in range(p)], "h": lambda: [rval(rng, "small") for _ in range(m)]}
    for k in ("P", "A", "G", "c", "b", "h"):
        if which is None or k in which: b[k] = full[k]()
    if which is None or "lb" in which or "ub" in which:
        lb, ub = gen_bounds(rng, n, bkind or rng.choice(B_KINDS))
        if which is None or "lb" in which: b["lb"] = lb
        if which is None or "ub" in which: b["ub"] = ub
    return b

def access_op(rng, n, p, m):
    f = lambda k: [Fr(rng.randint(-9, 9), rng.choice((1, 2, 3))) for _ in range(k)]
    return ("ACCESS", f(n), f(p), f(m))

def gen_case(rng, name, n=None, p=None, m=None, it=None, sc=None, bkind=None, pstyle=None, hist=None):
    n = rng.randint(1, 6) if n is None else n
    p = rng.choice((0, 0, 1, 2, 3)) if p is None else p
    m = rng.choice((0, 0, 1, 2, 3, 4)) if m is None else m
    mag = rng.choice(MAGS)
    it = rng.randint(0, 10) if it is None else it
    sc = rng.randint(0, 1) if sc is None else sc
    bkind = bkind or rng.choice(B_KINDS)
    pstyle = pstyle or rng.choice(P_STYLES)
    hist = hist or rng.choice(("setup", "setup", "updates", "updates", "updates", "irregular"))
    ops = [("PROBLEM", gen_blocks(rng, n, p, m, mag, pstyle, bkind)), ("INIT",)]
    if hist == "irregular":
        pool = [("SCALE", 1, sc, it), ("SCALE", 0, sc, it), ("SCALE", 0, 1 - sc, rng.randint(0, 4)), ("UNSCALE",), ("UNSCALE",),
                ("SETDATA", gen_blocks(rng, n, p, m, mag, which=rng.sample(("P", "A", "G", "c", "b", "h", "lb", "ub"), rng.randint(1, 4))))]
        for _ in range(rng.randint(2, 6)): ops.append(rng.choice(pool))
        ops.append(access_op(rng, n, p, m))
    else:
        ops.append(("SCALE", 0, sc, it)); ops.append(access_op(rng, n, p, m))
        if hist == "updates":
            for _ in range(rng.randint(1, 3)):
                ops.append(("UNSCALE",))
                which = rng.sample(("P", "A", "G", "c", "b", "h", "lb", "ub"), rng.randint(0, 5))
                if which: ops.append(("SETDATA", gen_blocks(rng, n, p, m, rng.choice((mag, rng.choice(MAGS))), which=which)))
                reuse = rng.randint(0, 1)
                ops.append(("SCALE", reuse, sc if rng.random() < 0.7 else 1 - sc, it if rng.random() < 0.6 else rng.randint(0, 10)))
                if rng.random() < 0.5: ops.append(access_op(rng, n, p, m))
    return Case(name, ops, (hist, "sc%d" % sc, "it%d" % it, bkind, pstyle, "n%dp%dm%d" % (n, p, m)))

def gen_cases(ctx, salt=0, scale=1):
    rng = random.Random((ctx.seed * 1000003 + 15485863 + salt) & 0x7fffffff)
    cases = []
    k = 0
    # systematic part: every preconditioner_iter x scale_cost x bound kind
    for it in range(11):
        for sc in (0, 1):
            for bk in ("none", "all", "mixed", "big"):
                k += 1; cases.append(gen_case(rng, "s%d" % k, it=it, sc=sc, bkind=bk, hist=rng.choice(("setup", "updates"))))
    # sizes incl. the degenerate ones
    for (n, p, m) in ((1, 0, 0), (1, 1, 1), (2, 0, 3), (3, 3, 0), (6, 2, 4), (4, 0, 0), (5, 1, 1), (2, 2, 2)):
        for sc in (0, 1):
            k += 1; cases.append(gen_case(rng, "z%d" % k, n=n, p=p, m=m, sc=sc))
    for ps in P_STYLES:
        for sc in (0, 1):
            k += 1; cases.append(gen_case(rng, "p%d" % k, pstyle=ps, sc=sc, hist="updates"))
    nrand = (120 if ctx.quick() else 8000) * scale
    for _ in range(nrand):
        k += 1; cases.append(gen_case(rng, "r%d" % k))
    return cases

def parse_case_text(text):
    """replay: the case text is run verbatim; only name and text are needed"""
    cs = []
    for part in vlib.split_cases(text, 10 ** 9):
        nm = part.split()[1]
        c = Case(nm, [], ("replay",)); c.text = (lambda t: (lambda: t))(part)
        cs.append(c)
    return cs

# ---------------------------------------------------------------- builds
def build_model(ctx):
    h = hashlib.sha256()
    files = [os.path.join(vlib.COQ, f) for f in MODEL_SRC] + \
            [os.path.join(vlib.VERIF, "ocaml", x) for x in ("drv_precsparse_model.ml", "build_precsparse.sh", "ExtractPrecSparse.v", "zhelp.ml")]
    for f in files:
        if not os.path.exists(f): return None, "missing " + f
        h.update(f.encode()); h.update(open(f, "rb").read())
    exe = os.path.join(vlib.CACHE, "drv_precsparse_model-%s" % h.hexdigest()[:24])
    if os.path.exists(exe):
        os.utime(exe, None); return exe, "cached"
    rc, out = vlib.coq_make(ctx, ["PrecondSparse.vo", os.path.join("gen", "Consts.vo")])
    if rc != 0: return None, "model does not compile: " + out[-1500:]
    wd = os.path.join(vlib.VERIF, "ocaml", "_build", "precsparse-%d" % os.getpid())
    rc, out = vlib.sh([os.path.join(vlib.VERIF, "ocaml", "build_precsparse.sh"), wd], timeout=900)
    built = os.path.join(wd, "drv_precsparse_model")
    if rc != 0 or not os.path.exists(built):
        shutil.rmtree(wd, ignore_errors=True)
        return None, "model build failed: " + out[-1500:]
    tmp = exe + ".tmp%d" % os.getpid()
    shutil.copy2(built, tmp); os.replace(tmp, exe)
    shutil.rmtree(wd, ignore_errors=True)
    return exe, "built"

def _by_case(text):
    d = {}
    for ln in text.splitlines():
        k, _, v = ln.partition(" ")
        parts = k.split(".", 2)
        if len(parts) < 3 or not parts[1].isdigit(): continue
        d.setdefault(parts[0], {}).setdefault(int(parts[1]), {})[parts[2]] = v
    return d

def compare(cases, impl, model):
    """returns (ops compared, lines compared, list of (case, opno, key, impl value, model value)) -- first difference per case"""
    diffs = []; nops = nlines = 0
    for c in cases:
        a, b = impl.get(c.name, {}), model.get(c.name, {})
        bad = None
        for opno in sorted(set(a) | set(b)):
            ia, ib = a.get(opno, {}), b.get(opno, {})
            nops += 1
            for key in sorted(set(ia) | set(ib)):
                nlines += 1
                if ia.get(key) != ib.get(key):
                    bad = (c, opno, key, ia.get(key), ib.get(key)); break
            if bad: break
        if not a and not bad: bad = (c, 0, "impl-no-output", None, None)
        if bad: diffs.append(bad)
    return nops, nlines, diffs

def _opname(case, opno):
    try:
        o = case.ops[opno]
        if o[0] == "SCALE": return "SCALE(reuse=%d,scale_cost=%d)" % (o[1], o[2])
        return o[0]
    except Exception:
        return "op"

def run_cases(ctx, exe, model, cases, label):
    text = "".join(c.text() for c in cases)
    cf = os.path.join(ctx.work, "precsparse_%s.cases" % label)
    open(cf, "w").write(text)
    from concurrent.futures import ThreadPoolExecutor
    with ThreadPoolExecutor(max_workers=2) as ex:
        f1 = ex.submit(vlib.run_bin_chunked, exe, text, ctx.work, "precsparse_%s_impl" % label, (), 900)
        f2 = ex.submit(vlib.run_bin_chunked, model, text, ctx.work, "precsparse_%s_model" % label, (), 900)
        (r1, t1), (r2, t2) = f1.result(), f2.result()
    if r1 != 0:
        for c in cases:
            f = os.path.join(ctx.work, "precsparse_crash.cases"); open(f, "w").write(c.text())
            rr, tt = vlib.run_bin(exe, f, (), 120)
            if rr != 0:
                ctx.violation("precsparse-driver-crash", "sparse RuizEquilibration<xrat,int>: the driver of the real code terminates abnormally (rc=%d) on a valid "
                              "script (case %s): %s" % (rr, c.name, tt[-400:]),
                              {"stage": "precsparse", "case_text": c.text(), "tags": list(c.tags), "how": "write case_text to F; build harness/drv_precsparse.cpp and run it on F"}, concrete=True)
                break
        return None, "implementation driver failed rc=%d: %s" % (r1, t1[-600:])
    if r2 != 0: return None, "model driver failed rc=%d: %s" % (r2, t2[-600:])
    return (_by_case(t1), _by_case(t2)), ""

def precond_sparse_stage(ctx, register_properties=False):
    """builds both sides, compares, records obligations; returns the name of the extra properties file"""
    from concurrent.futures import ThreadPoolExecutor
    t0 = __import__("time").time()
    with ThreadPoolExecutor(max_workers=2) as ex:
        fm = ex.submit(build_model, ctx)
        exe, msg = vlib.build_harness(ctx, src="drv_precsparse.cpp", name="drv_precsparse")
        model, mmsg = fm.result()
    ctx.ob("build:drv_precsparse_model", "machinery", model is not None, mmsg if model is None else "")
    ctx.ob("build:drv_precsparse", "machinery", exe is not None, msg if exe is None else "")
    if register_properties:
        vlib.coq_properties(ctx, "C15_sparse")
    if exe is None or model is None:
        ctx.ob(OB, "correspondence", False, "not run: a build failed")
        return PROPS_FILE
    replay = getattr(ctx, "replay", None)
    if replay:
        rp = json.load(open(replay)).get("replay", {})
        if rp.get("stage") != "precsparse" or not rp.get("case_text"):
            replay = None              # a replay file of another stage of C15: this stage runs its normal cases
    if replay:
        cases = parse_case_text(rp["case_text"])
    else:
        cases = gen_cases(ctx)
    total = dict(cases=0, ops=0, lines=0)
    alld = []; detail = ""
    for rnd in range(1 if replay else 3):
        res, err = run_cases(ctx, exe, model, cases, "r%d" % rnd)
        if res is None:
            detail = err; alld.append(None); break
        nops, nlines, diffs = compare(cases, *res)
        total["cases"] += len(cases); total["ops"] += nops; total["lines"] += nlines
        alld += diffs
        for c in cases: ctx.classes.add("precsparse|" + "|".join(c.tags))
        # escalate (more cases) only when some obligation of this run is broken and no failing input has been found yet
        broken = [o for o in ctx.obligations if not o["ok"]]
        if diffs or not broken or ctx.violations: break
        cases = gen_cases(ctx, salt=rnd + 1, scale=3)
        for c in cases: c.name = "e%d%s" % (rnd, c.name)
    ok = not alld and total["ops"] > 0
    seen = {}
    for dd in alld[:60]:
        if dd is None: continue
        c, opno, key, iv, mv = dd
        sig = "precsparse-model-differs:%s:%s" % (_opname(c, opno), key)
        seen[sig] = seen.get(sig, 0) + 1
        if seen[sig] > 2: continue
        ctx.violation(sig, "sparse RuizEquilibration<xrat,int> (real template, exact scalar) differs from its Gallina transcription coq/PrecondSparse.v (the object of the "
                      "theorems of Properties_C15_sparse.v) in %s after op %d (%s) of case %s [%s]: impl=%s model=%s"
                      % (key, opno, _opname(c, opno), c.name, " ".join(c.tags), str(iv)[:300], str(mv)[:300]),
                      {"stage": "precsparse", "opno": opno, "key": key, "case_text": c.text(), "tags": list(c.tags),
                       "how": "write case_text to F; build harness/drv_precsparse.cpp (g++ -std=c++14 -DPIQP_VERIF -Iharness -I$VERIF_REPO/include -I/usr/include/eigen3 "
                              "-lgmpxx -lgmp) and run it on F; run ocaml/build_precsparse.sh and ocaml/_build/precsparse/drv_precsparse_model F; compare line %s of op %d" % (key, opno)},
                      concrete=True)
    if not detail:
        detail = "%d scripts, %d operations, %d observation lines compared (complete preconditioner state and complete sparse Data after every operation), all equal" % (
            total["cases"], total["ops"], total["lines"])
        if alld: detail = "%d scripts, %d operations compared; %d scripts differ; first: case %s op %d (%s) key %s" % (
            total["cases"], total["ops"], len(alld), alld[0][0].name, alld[0][1], _opname(alld[0][0], alld[0][1]), alld[0][2])
    ctx.ob(OB, "correspondence", ok, detail)
    ctx.coverage["evaluations"] = ctx.coverage.get("evaluations", 0) + total["ops"]
    ctx.coverage.setdefault("precsparse", {}).update(total, seconds=round(__import__("time").time() - t0, 1))
    ctx.trusted += ["precsparse stage: extraction of coq/PrecondSparse.v (ExtrOcamlBasic + ExtrOcamlZBigInt + directives of ocaml/ExtractPrecSparse.v); "
                    "ocaml/drv_precsparse_model.ml and harness/drv_precsparse.cpp build sparse::Data (P_utri = upper triangle, AT, GT, packed bounds; "
                    "never-written tails of the packed arrays := 0) from the case text the way SolverBase::setup_impl / update do",
                    "sqrt of the exact scalar = the power-of-two square root (harness/xrat.hpp == Base.sqrtF)"]
    return PROPS_FILE

if __name__ == "__main__":
    # stand-alone: python3 tools/precsparse_stage.py [quick|thorough] [--replay FILE]   (VERIF_SEED, VERIF_REPO as for ./check)
    os.chdir(vlib.VERIF)
    tier = sys.argv[1] if len(sys.argv) > 1 and not sys.argv[1].startswith("--") else "quick"
    ctx = vlib.Ctx("C15_sparse", tier, int(os.environ.get("VERIF_SEED", "1")))
    ctx.replay = sys.argv[sys.argv.index("--replay") + 1] if "--replay" in sys.argv else None
    vlib.coq_hygiene(ctx)
    precond_sparse_stage(ctx, register_properties=os.path.exists(os.path.join(vlib.COQ, PROPS_FILE)))
    sys.exit(vlib.finish(ctx, explanation="stand-alone run of the sparse Ruiz preconditioner model stage of C15"))
