"""Case generator for the C16 correspondence (harness/drv_capi.cpp): QP data, call sequences through the C API and the
text form read by the driver.  All randomness comes from the `random.Random` passed in (ctx.rng).

Grammar of a case (one token list per line, doubles as C99 hex floats / inf):
    case <id> <n> <p> <m> [dump]
    d <block> <count> v...             data of the next call (row-major for matrices), any number of lines
    setup <settings|NULL|-> <AbGhLU>   1 = pointer passed, 0 = NULL            (P and c are always passed)
    update <PcAbGhLU>
    settings <f=v,...|->               piqp_update_settings(defaults overlaid with the listed fields)
    solve
    end
The driver runs every case through the dense and through the sparse entry points."""
import math

SETTINGS = [("rho_init", "T"), ("delta_init", "T"), ("eps_abs", "T"), ("eps_rel", "T"), ("check_duality_gap", "bool"),
            ("eps_duality_gap_abs", "T"), ("eps_duality_gap_rel", "T"), ("reg_lower_limit", "T"), ("reg_finetune_lower_limit", "T"),
            ("reg_finetune_primal_update_threshold", "isize"), ("reg_finetune_dual_update_threshold", "isize"), ("max_iter", "isize"),
            ("max_factor_retires", "isize"), ("preconditioner_scale_cost", "bool"), ("preconditioner_iter", "isize"), ("tau", "T"),
            ("iterative_refinement_always_enabled", "bool"), ("iterative_refinement_eps_abs", "T"), ("iterative_refinement_eps_rel", "T"),
            ("iterative_refinement_max_iter", "isize"), ("iterative_refinement_min_improvement_rate", "T"),
            ("iterative_refinement_static_regularization_eps", "T"), ("iterative_refinement_static_regularization_rel", "T"),
            ("verbose", "bool"), ("compute_timings", "bool")]

# one-hot values: different from the default, accepted by verify_settings, pairwise distinct among the floating fields
ONE_HOT = {"rho_init": 0.00013, "delta_init": 0.0021, "eps_abs": 3e-7, "eps_rel": 5e-8, "check_duality_gap": 0, "eps_duality_gap_abs": 7e-7,
           "eps_duality_gap_rel": 9e-8, "reg_lower_limit": 2e-9, "reg_finetune_lower_limit": 4e-12, "reg_finetune_primal_update_threshold": 9,
           "reg_finetune_dual_update_threshold": 8, "max_iter": 37, "max_factor_retires": 6, "preconditioner_scale_cost": 1,
           "preconditioner_iter": 4, "tau": 0.97, "iterative_refinement_always_enabled": 1, "iterative_refinement_eps_abs": 6e-11,
           "iterative_refinement_eps_rel": 8e-11, "iterative_refinement_max_iter": 13, "iterative_refinement_min_improvement_rate": 3.5,
           "iterative_refinement_static_regularization_eps": 1.5e-7, "iterative_refinement_static_regularization_rel": 2.5e-31,
           "verbose": 1, "compute_timings": 1}

PALETTE = {"max_iter": [3, 20, 250], "eps_abs": [1e-6, 1e-9], "eps_rel": [1e-7], "preconditioner_iter": [0, 2, 10], "preconditioner_scale_cost": [0, 1],
           "iterative_refinement_always_enabled": [0, 1], "check_duality_gap": [0, 1], "rho_init": [1e-5, 1e-7], "delta_init": [1e-3, 1e-5],
           "tau": [0.9, 0.995], "compute_timings": [0, 1], "reg_finetune_primal_update_threshold": [3], "reg_finetune_dual_update_threshold": [2],
           "max_factor_retires": [2], "iterative_refinement_max_iter": [3], "reg_lower_limit": [1e-9]}

def hx(v):
    if isinstance(v, int): v = float(v)
    if math.isinf(v): return "inf" if v > 0 else "-inf"
    return v.hex()

def spec_text(ov):
    if ov is None: return "NULL"
    if not ov: return "-"
    return ",".join("%s=%s" % (k, hx(float(v))) for k, v in ov)

def rnd(rng, integer=False):
    if integer: return float(rng.randint(-6, 6))
    return rng.choice([rng.uniform(-2, 2), float(rng.randint(-4, 4)), rng.uniform(-0.1, 0.1), rng.uniform(-30, 30)])

def nz(rng, integer=False):
    while True:
        v = rnd(rng, integer)
        if v != 0.0: return v

def gen_pattern(rng, r, c, density):
    return [[rng.random() < density for _ in range(c)] for _ in range(r)]

class Problem:
    """dense row-major blocks with a fixed zero pattern (the sparse entry points require the pattern to stay)"""
    def __init__(self, rng, n, p, m, integer=False, feasible=True, asym_P=False):
        self.n, self.p, self.m, self.integer = n, p, m, integer
        dens = rng.choice([0.3, 0.6, 1.0])
        self.patP = [[False] * n for _ in range(n)]
        for i in range(n):
            for j in range(i + 1, n):
                if rng.random() < dens * 0.7: self.patP[i][j] = self.patP[j][i] = True
        self.patA = gen_pattern(rng, p, n, max(dens, 0.5))
        self.patG = gen_pattern(rng, m, n, max(dens, 0.5))
        for i in range(p): self.patA[i][rng.randrange(n)] = True
        for i in range(m): self.patG[i][rng.randrange(n)] = True
        self.asym_P = asym_P
        self.feasible = feasible
        self.blocks = {}
        for b in ("P", "c", "A", "b", "G", "h", "x_lb", "x_ub"): self.regen(rng, b)

    def regen(self, rng, b):
        n, p, m, I = self.n, self.p, self.m, self.integer
        if b == "P":
            M = [[0.0] * n for _ in range(n)]
            for i in range(n):
                for j in range(i + 1, n):
                    if self.patP[i][j]:
                        v = nz(rng, I) * (1.0 if I else 0.5)
                        M[i][j] = v
                        M[j][i] = nz(rng, I) if self.asym_P else v     # the lower triangle is documented as unused
            for i in range(n):
                M[i][i] = sum(abs(M[min(i, j)][max(i, j)]) for j in range(n) if j != i) + (float(rng.randint(1, 4)) if I else rng.uniform(0.05, 2.0))
            self.blocks["P"] = [v for row in M for v in row]
        elif b in ("A", "G"):
            r, pat = (p, self.patA) if b == "A" else (m, self.patG)
            self.blocks[b] = [nz(rng, I) if pat[i][j] else 0.0 for i in range(r) for j in range(n)]
        elif b == "c":
            self.blocks["c"] = [rnd(rng, I) for _ in range(n)]
        elif b == "b":
            x0 = self.x0(rng)
            A = self.blocks["A"]
            self.blocks["b"] = [sum(A[i * n + j] * x0[j] for j in range(n)) if self.feasible else rnd(rng, I) for i in range(p)]
        elif b == "h":
            x0 = self.x0(rng)
            G = self.blocks["G"]
            h = []
            for i in range(m):
                v = sum(G[i * n + j] * x0[j] for j in range(n)) + (float(rng.randint(0, 3)) if I else rng.uniform(0.0, 2.0)) if self.feasible else rnd(rng, I)
                if not I and rng.random() < 0.06: v = rng.choice([float("inf"), 1e31])
                h.append(v)
            self.blocks["h"] = h
        elif b == "x_lb":
            x0 = self.x0(rng)
            self.blocks["x_lb"] = [(-float("inf") if rng.random() < 0.5 else -1e30) if (not I and rng.random() < 0.3) else x0[j] - (float(rng.randint(0, 3)) if I else rng.uniform(0, 2)) for j in range(n)]
        elif b == "x_ub":
            x0 = self.x0(rng)
            self.blocks["x_ub"] = [(float("inf") if rng.random() < 0.5 else 1e30) if (not I and rng.random() < 0.3) else x0[j] + (float(rng.randint(0, 3)) if I else rng.uniform(0, 2)) for j in range(n)]

    def x0(self, rng):
        if not hasattr(self, "_x0"):
            self._x0 = [float(rng.randint(-2, 2)) if self.integer else rng.uniform(-1, 1) for _ in range(self.n)]
        return self._x0

    def dlines(self, names):
        return "".join("d %s %d %s\n" % (b, len(self.blocks[b]), " ".join(hx(v) for v in self.blocks[b])) for b in names)

def setup_mask(rng, p, m, force=None):
    """AbGhLU: A,b (G,h) must be passed when p>0 (m>0); with p=0 (m=0) each of them is NULL or a zero-length array"""
    if force is not None: return force
    bits = []
    for k in (p, m):
        if k > 0: bits += ["1", "1"]
        else: bits += [rng.choice("01"), rng.choice("01")]
    bits += [rng.choice("01"), rng.choice("01")]
    return "".join(bits)

def random_settings(rng, prob_null=0.25):
    if rng.random() < prob_null: return None
    ov = []
    for f in rng.sample(sorted(PALETTE), rng.randint(0, 4)):
        ov.append((f, rng.choice(PALETTE[f])))
    if rng.random() < 0.04: ov.append(("verbose", 1))
    if rng.random() < 0.04: ov.append(("eps_abs", -1.0))          # rejected by verify_settings: PIQP_INVALID_SETTINGS
    return ov

def gen_case(rng, cid, nmax):
    n = rng.randint(1, nmax)
    p = rng.choice([0, 0, 1, rng.randint(0, n), rng.randint(0, max(1, n // 2))])
    p = min(p, n)
    m = rng.choice([0, 1, rng.randint(0, n + 3), rng.randint(0, 2 * n), n + 1])
    if m == n and rng.random() < 0.8: m = n + rng.choice([-1, 1, 2]) if n > 1 else 2
    pr = Problem(rng, n, p, m, feasible=rng.random() < 0.85, asym_P=rng.random() < 0.5)
    mask = setup_mask(rng, p, m)
    txt = "case %s %d %d %d\n" % (cid, n, p, m)
    txt += pr.dlines(["P", "c"] + [b for b, bit in zip(("A", "b", "G", "h", "x_lb", "x_ub"), mask) if bit == "1"])
    txt += "setup %s %s\n" % (spec_text(random_settings(rng)), mask)
    ops = ["setup:" + mask]
    nops = rng.randint(1, 6)
    solved = False
    for k in range(nops):
        r = rng.random()
        if k == nops - 1 and not solved: r = 0.0
        if r < 0.45:
            txt += "solve\n"; ops.append("solve"); solved = True
        elif r < 0.8:
            names = ("P", "c", "A", "b", "G", "h", "x_lb", "x_ub")
            um = [rng.random() < 0.35 for _ in names]
            if rng.random() < 0.1: um = [True] * 8
            if rng.random() < 0.05: um = [False] * 8
            # keep b consistent with a changed A (feasible family): regenerate dependent blocks too, but pass them only if flagged
            for b, f in zip(names, um):
                if f: pr.regen(rng, b)
            ms = "".join("1" if f else "0" for f in um)
            txt += pr.dlines([b for b, f in zip(names, um) if f]) + "update %s\n" % ms
            ops.append("update:" + ms)
        else:
            ov = random_settings(rng, prob_null=0.0)
            txt += "settings %s\n" % spec_text(ov); ops.append("settings")
    txt += "end\n"
    return txt, {"n": n, "p": p, "m": m, "ops": ops}

def one_hot_cases(rng):
    """every settings field perturbed alone: through piqp_update_settings after a default setup, and through the settings
    argument of piqp_setup_*; followed by a solve (so that a dropped field also shows behaviourally where it matters)"""
    out = []
    for k, (f, ty) in enumerate(SETTINGS):
        pr = Problem(rng, 3, 1, 4, feasible=True)
        head = "case oh%d_%s 3 1 4\n" % (k, f) + pr.dlines(["P", "c", "A", "b", "G", "h", "x_lb", "x_ub"])
        v = ONE_HOT[f]
        t1 = head + "setup NULL 111111\nsettings %s\nsolve\nend\n" % spec_text([(f, v)])
        t2 = head.replace("case oh", "case os") + "setup %s 111111\nsolve\nsettings -\nsolve\nend\n" % spec_text([(f, v)])
        out.append((t1, {"field": f, "via": "update_settings"}))
        out.append((t2, {"field": f, "via": "setup"}))
    return out

def mask_cases(rng):
    """every NULL/present combination of the optional setup arguments (p = m = 0 for the A,b,G,h half) and of the eight update arguments one at a time"""
    out = []
    k = 0
    for lu in ("00", "01", "10", "11"):
        for abgh in range(16):
            pr = Problem(rng, rng.randint(2, 4), 0, 0, feasible=True)
            mask = format(abgh, "04b") + lu
            t = "case mk%d %d 0 0\n" % (k, pr.n) + pr.dlines(["P", "c"] + [b for b, bit in zip(("A", "b", "G", "h", "x_lb", "x_ub"), mask) if bit == "1"])
            t += "setup - %s\nsolve\nend\n" % mask
            out.append((t, {"mask": mask})); k += 1
        pr = Problem(rng, 3, 2, 5, feasible=True)
        mask = "1111" + lu
        t = "case mk%d 3 2 5\n" % k + pr.dlines(["P", "c", "A", "b", "G", "h"] + [b for b, bit in zip(("x_lb", "x_ub"), lu) if bit == "1"])
        t += "setup NULL %s\nsolve\n" % mask
        names = ("P", "c", "A", "b", "G", "h", "x_lb", "x_ub")
        for j, b in enumerate(names):
            pr.regen(rng, b)
            t += pr.dlines([b]) + "update %s\nsolve\n" % "".join("1" if i == j else "0" for i in range(8))
        t += "end\n"
        out.append((t, {"mask": mask, "updates": "one-at-a-time"})); k += 1
    return out

def dump_cases(rng, count):
    """integer data, preconditioner_iter=0 (the stored data are the passed data), non-square shapes: the driver dumps what
    the solver stored right after setup; compared with the Coq functions evaluated on the caller's arrays"""
    out = []
    for k in range(count):
        n = rng.randint(1, 5)
        p = rng.choice([0, 1, 2, min(n, 3)])
        m = rng.choice([0, 1, n + 1, n + 2, 2 * n + 1, max(1, n - 1)])
        pr = Problem(rng, n, p, m, integer=True, feasible=True, asym_P=True)
        mask = ("11" if p > 0 else rng.choice(["00", "11", "10"])) + ("11" if m > 0 else rng.choice(["00", "11", "10"])) + rng.choice(["00", "11", "01", "10"])
        t = "case dm%d %d %d %d dump\n" % (k, n, p, m)
        t += pr.dlines(["P", "c"] + [b for b, bit in zip(("A", "b", "G", "h", "x_lb", "x_ub"), mask) if bit == "1"])
        t += "setup %s %s\nsolve\nend\n" % (spec_text([("preconditioner_iter", 0)]), mask)
        out.append((t, {"n": n, "p": p, "m": m, "mask": mask, "blocks": {b: [int(v) for v in pr.blocks[b]] for b in ("P", "A", "G")}}))
    return out
