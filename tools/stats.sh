#!/bin/sh
# counts quoted in DESIGN.md / MANIFEST: Coq files, lines, theorems in Properties_*.v
cd "$(dirname "$0")/../coq"
echo "coq files: $(ls *.v gen/*.v 2>/dev/null | wc -l)   lines: $(cat *.v gen/*.v | wc -l)"
echo "property files: $(ls Properties_*.v | wc -l)   theorems in them: $(grep -hE '^\s*(Theorem|Lemma) ' Properties_*.v | wc -l)   Print Assumptions: $(grep -h 'Print Assumptions' Properties_*.v | wc -l)"
for f in Properties_*.v; do printf "%-36s %s\n" $f "$(grep -cE '^\s*(Theorem|Lemma) ' $f)"; done
