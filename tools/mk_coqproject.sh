#!/bin/sh
# regenerate coq/_CoqProject and coq/Makefile from the files present
cd "$(dirname "$0")/../coq" || exit 2
{ echo "-Q . PIQP"; echo "-arg -w -arg -notation-overridden,-deprecated-hint-without-locality,-deprecated-instance-without-locality"; ls *.v gen/*.v */*.v 2>/dev/null | sort -u; } > _CoqProject.new
if ! cmp -s _CoqProject.new _CoqProject 2>/dev/null; then mv _CoqProject.new _CoqProject; coq_makefile -f _CoqProject -o Makefile >/dev/null; else rm _CoqProject.new; [ -f Makefile ] || coq_makefile -f _CoqProject -o Makefile >/dev/null; fi
