"""C13: the sparse KKT SOLVE PATH (include/piqp/sparse/kkt.hpp: regularize_and_factorize(false), solve(.., false), multiply) --
exact correspondence between the Gallina transcription coq/KKTSparseSolve.v (extracted together with the four assembly models and
the sparse LDL^T of coq/LDLSparse.v, ocaml/drv_kktsolve_model.ml) and sparse::KKT<xrat,int,Mode> (harness/drv_kkt.cpp,
-DBACKEND=1..4 = KKT_FULL / KKT_EQ_ELIMINATED / KKT_INEQ_ELIMINATED / KKT_ALL_ELIMINATED).

    from kktsolve_stage import kkt_solve_model_stage
    extra = kkt_solve_model_stage(ctx)                   # records obligations, returns "Properties_C13_solve.v"
    vlib.coq_properties(ctx, "C13", extra_files=(..., extra))
Obligations: build:drv_kktsolve_model, build:drv_kktsolve:<mode>, correspondence:kktsolve-model (one, over the four modes; the
detail lists the counts per mode).

What is compared, on every generated script (generators of tools/props/c13.py through kktelim_stage.gen_cases plus dedicated
scripts with singular matrices / repeated factorisations; every FACTOR / SOLVE is run with iterative_refinement = false, which
is the modelled path):
  * FACTOR:   the success flag of regularize_and_factorize(false);
  * SOLVE:    each of the eight returned blocks delta_x, delta_y, delta_z, delta_z_lb, delta_z_ub, delta_s, delta_s_lb, delta_s_ub
              (heads n_lb / n_ub of the bound blocks), or "skipped" when the last factorisation did not succeed;
  * MULTIPLY: each of the eight blocks of the result.
The values must be EQUAL fractions (textual equality of the canonical num/den form).  The model receives the permutation the
implementation's AMD ordering returned (printed by the driver at a DUMP).  Any difference, and any index / division / shape error
of the checked model on a script the implementation ran, is reported as a concrete violation (the script is the replay)."""
import os, sys, hashlib, shutil, random
import vlib

PROPS_FILE = "Properties_C13_solve.v"
MODES = (("full", 1), ("eq", 2), ("ineq", 3), ("all", 4))          # (model mode, BACKEND of harness/drv_kkt.cpp)
DRIVER = "drv_kkt.cpp"
BLOCKS8 = ("x", "y", "z", "z_lb", "z_ub", "s", "s_lb", "s_ub")
MODEL_SRC = ("Base.v", "CSC.v", "LDLSparse.v", "KKTSparseFull.v", "KKTSparseFullPerm.v", "KKTSparseAll.v", "KKTSparseEq.v", "KKTSparseIneq.v",
             "KKTSparseSolve.v")
MODEL_VO = [f[:-2] + ".vo" for f in MODEL_SRC if f not in ("Base.v", "CSC.v")]

def _c13():
    sys.path.insert(0, os.path.join(vlib.VERIF, "tools"))
    from props import c13
    return c13

def build_model(ctx):
    """extract the solve-path model and build ocaml/drv_kktsolve_model.ml; cached by the hash of the sources"""
    h = hashlib.sha256()
    files = [os.path.join(vlib.COQ, f) for f in MODEL_SRC] + \
            [os.path.join(vlib.VERIF, "ocaml", x) for x in ("drv_kktsolve_model.ml", "build_kktsolve.sh", "ExtractKKTSolve.v", "zhelp.ml")]
    for f in files:
        h.update(f.encode()); h.update(open(f, "rb").read())
    exe = os.path.join(vlib.CACHE, "drv_kktsolve_model-%s" % h.hexdigest()[:24])
    if os.path.exists(exe):
        os.utime(exe, None); return exe, "cached"
    rc, out = vlib.coq_make(ctx, MODEL_VO)
    if rc != 0: return None, "model does not compile: " + out[-1500:]
    wd = os.path.join(vlib.VERIF, "ocaml", "_build", "kktsolve-%d" % os.getpid())
    rc, out = vlib.sh([os.path.join(vlib.VERIF, "ocaml", "build_kktsolve.sh"), wd], timeout=900)
    built = os.path.join(wd, "drv_kktsolve_model")
    if rc != 0 or not os.path.exists(built):
        shutil.rmtree(wd, ignore_errors=True)
        return None, "model build failed: " + out[-1500:]
    tmp = exe + ".tmp%d" % os.getpid()
    shutil.copy2(built, tmp); os.replace(tmp, exe)
    shutil.rmtree(wd, ignore_errors=True)
    return exe, "built"

def no_refine(case):
    """the modelled path: every FACTOR / SOLVE with iterative_refinement = false; a MULTIPLY of an explicit vector after each solve block"""
    ops = []
    for o in case.ops:
        if o[0] == "FACTOR": ops.append(("FACTOR", 0))
        elif o[0] == "SOLVE": ops.append(("SOLVE", 0, o[2]))
        else: ops.append(o)
    case.ops = ops
    return case

def sc_singular(c13, rng, name):
    """a diagonal Hessian with rho = -P(j,j): a zero pivot under every ordering; the factorisation must report failure and SOLVE is
    skipped; new scalings (rho > 0) make the matrix regular again: the next factorisation starts from the work arrays the failed one left"""
    Fr = c13.Fr
    n = rng.randint(1, 4)
    pr = c13.gen_prob(rng, n, rng.choice((0, 0, 1)), rng.choice((0, 0, 1, 2)), kinds=["F"] * n, pstyle="diag_only")
    j = rng.randrange(n)
    # keep column j of the Hessian block isolated: no entry of A / G in it (the eliminated modes would add to the diagonal)
    pr.A = {k: v for k, v in pr.A.items() if k[1] != j}
    pr.G = {k: v for k, v in pr.G.items() if k[1] != j}
    pjj = Fr(pr.P.get((j, j), 0))
    delta = c13.rpos(rng)
    ops = [("PROBLEM", pr), ("INIT", -pjj, delta), ("DUMP",), ("FACTOR", 0), ("SOLVE", 0, c13.gen_vec8(rng, pr)), ("MULTIPLY", c13.gen_vec8(rng, pr))]
    for rep in range(rng.randint(1, 3)):
        rho2 = c13.rho_for(rng, pr) if rep % 2 == 0 else -pjj
        ops += [("SCALINGS", rho2, c13.rpos(rng)) + c13.gen_scal(rng, pr), ("DUMP",), ("FACTOR", 0),
                ("SOLVE", 0, c13.gen_vec8(rng, pr)), ("MULTIPLY", "last")]
        if rng.random() < 0.5:      # a second factorisation / solve on the same matrix
            ops += [("FACTOR", 0), ("SOLVE", 0, c13.gen_vec8(rng, pr)), ("MULTIPLY", "last")]
    return c13.Case(name, c13.DEFAULT_SET, ops, ("singular", pr.style, pr.kinds()))

def gen_cases(ctx, salt=0, scale=1):
    import kktelim_stage
    c13 = _c13()
    cases = [no_refine(c) for c in kktelim_stage.gen_cases(ctx, salt=salt + 500, scale=scale)]
    rng = random.Random((ctx.seed * 1000003 + 104729 + salt) & 0x7fffffff)
    try:
        for i in range((12 if ctx.quick() else 300) * scale):
            cases.append(kktelim_stage.with_dumps(sc_singular(c13, rng, "z%d" % i)))
    except Exception:
        pass        # the generators of c13.py changed: the shared scripts are still run
    return cases

def _by_case(text):
    d = {}
    for ln in text.splitlines():
        k, _, v = ln.partition(" ")
        parts = k.split(".", 2)
        if len(parts) < 3: continue
        d.setdefault(parts[0], {}).setdefault(int(parts[1]), {})[parts[2]] = v
    return d

def _hist(case, opno):
    h = []
    for o in case.ops[:opno]:
        if o[0] == "INIT": h = ["init"]
        elif o[0] == "SCALINGS": h.append("scal")
        elif o[0] == "DATA": h.append("data")
        elif o[0] == "FACTOR": h.append("factor")
    return "+".join(sorted(set(h)))

def compare(cases, impl, model):
    """returns (counts, list of (case, opno, what, impl value, model value))"""
    cnt = dict(factor=0, factor_fail=0, solve=0, skipped=0, multiply=0, blocks=0)
    diffs = []
    for c in cases:
        a, b = impl.get(c.name, {}), model.get(c.name, {})
        first = True
        for opno, o in enumerate(c.ops):
            if o[0] not in ("FACTOR", "SOLVE", "MULTIPLY"): continue
            ia, ib = a.get(opno, {}), b.get(opno, {})
            bad = None
            if "op" not in ia: bad = ("impl-no-output", None, None)
            elif "model_error" in ib: bad = ("model_error", ia.get("ok", ia.get("x")), ib["model_error"])
            elif "op" not in ib: bad = ("model-no-output", ia.get("op"), None)
            elif o[0] == "FACTOR":
                cnt["factor"] += 1
                if ia.get("ok") == "0": cnt["factor_fail"] += 1
                if ia.get("ok") != ib.get("ok"): bad = ("factor-ok", ia.get("ok"), ib.get("ok"))
            else:
                kind = "solve" if o[0] == "SOLVE" else "multiply"
                if ia.get("skipped") == "1" or ib.get("skipped") == "1":
                    cnt["skipped"] += 1
                    if ia.get("skipped") != ib.get("skipped"): bad = (kind + "-skipped", ia.get("skipped"), ib.get("skipped"))
                else:
                    cnt[kind] += 1
                    for k in BLOCKS8:
                        cnt["blocks"] += 1
                        if ia.get(k) is None or ia.get(k) != ib.get(k):
                            bad = ("%s-%s" % (kind, k), ia.get(k), ib.get(k)); break
            if bad and first:
                diffs.append((c, opno) + bad); first = False
        for opno, kv in b.items():       # a model error at an assembly operation (the assembly stages report those in detail)
            if "model_error" in kv and first:
                diffs.append((c, opno, "model_error", None, kv["model_error"])); first = False
    return cnt, diffs

def run_cases(ctx, mode, bnum, exe, model, cases, label):
    cf = os.path.join(ctx.work, "kktsolve_%s_%s.cases" % (mode, label))
    text = "".join(c.text() for c in cases)
    open(cf, "w").write(text)
    rc, txt = vlib.run_bin_chunked(exe, text, ctx.work, "kktsolve_%s_%s_impl" % (mode, label), timeout=900)
    if rc != 0:
        for c in cases:
            f1 = os.path.join(ctx.work, "kktsolve_crash.cases"); open(f1, "w").write(c.text())
            r1, t1 = vlib.run_bin(exe, f1, (), 120)
            if r1 != 0:
                ctx.violation("kktsolve-%s-driver-crash" % mode, "sparse KKT (%s): the driver of the real code terminates abnormally (rc=%d) on a valid script (case %s): %s"
                              % (mode, r1, c.name, t1[-400:]),
                              {"backend": mode, "opno": -1, "case_text": c.text(), "tags": list(c.tags),
                               "how": "write case_text to F; build harness/%s with -DBACKEND=%d and run it on F" % (DRIVER, bnum)}, concrete=True)
                break
        return None, "implementation driver failed rc=%d: %s" % (rc, txt[-600:])
    impl = _by_case(txt)
    pf = os.path.join(ctx.work, "kktsolve_%s_%s.perms" % (mode, label))
    with open(pf, "w") as f:
        for c in cases:
            pl = next((kv["perm"] for _, kv in sorted(impl.get(c.name, {}).items()) if "perm" in kv), None)
            if pl is not None: f.write("%s %s\n" % (c.name, pl))
    r1, t1 = vlib.run_bin(model, None, (mode, cf, pf), 900)
    if r1 != 0:
        return None, "model driver failed rc=%d: %s" % (r1, t1[-600:])
    return (impl, _by_case(t1)), ""

def kkt_solve_model_stage(ctx, register_properties=False):
    """builds both sides for the four modes, compares, records obligations; returns the name of the extra properties file"""
    from concurrent.futures import ThreadPoolExecutor
    with ThreadPoolExecutor(max_workers=2) as ex:
        fm = ex.submit(build_model, ctx)
        built = vlib.build_many(ctx, [dict(src=DRIVER, defines=("BACKEND=%d" % b,), name="drv_kkt_%s" % m) for m, b in MODES])
        model, mmsg = fm.result()
    ctx.ob("build:drv_kktsolve_model", "machinery", model is not None, mmsg if model is None else "")
    if register_properties:
        vlib.coq_properties(ctx, "C13_solve")
    all_ok = True; details = []; grand = {}
    nviol0 = len(ctx.violations)
    for (mode, bnum), (exe, msg) in zip(MODES, built):
        ctx.ob("build:drv_kktsolve:%s" % mode, "machinery", exe is not None, msg if exe is None else "")
        if exe is None or model is None:
            all_ok = False; details.append("%s: not run: a build failed" % mode); continue
        if getattr(ctx, "replay", None):
            import json
            rp = json.load(open(ctx.replay))
            if rp["replay"].get("backend") not in (None, mode): continue
            import kktelim_stage
            cases = [kktelim_stage.with_dumps(no_refine(c)) for c in _c13().parse_case_text(rp["replay"]["case_text"])]
        else:
            cases = gen_cases(ctx, salt=10 * bnum)
        total = {}; alld = []; err = ""
        for rnd in range(1 if getattr(ctx, "replay", None) else 3):
            res, err = run_cases(ctx, mode, bnum, exe, model, cases, "r%d" % rnd)
            if res is None:
                alld.append(None); break
            cnt, diffs = compare(cases, *res)
            for k, v in cnt.items(): total[k] = total.get(k, 0) + v
            total["cases"] = total.get("cases", 0) + len(cases)
            alld += diffs
            for c in cases: ctx.classes.add("kktsolve-%s|" % mode + "|".join(c.tags) + "|%d%d%d" % (c.ops[0][1].n, c.ops[0][1].p, c.ops[0][1].m))
            broken = [o for o in ctx.obligations if not o["ok"]]
            if diffs or not broken or len(ctx.violations) > nviol0: break
            cases = gen_cases(ctx, salt=10 * bnum + rnd + 1, scale=2)
            for c in cases: c.name = "e%d%s" % (rnd, c.name)
        ok = not alld and total.get("solve", 0) > 0 and total.get("factor", 0) > 0 and total.get("multiply", 0) > 0
        all_ok = all_ok and ok
        seen = {}
        for dd in alld[:60]:
            if dd is None: continue
            c, opno, what, iv, mv = dd
            sig = "kktsolve-model-differs:%s:%s" % (mode, what)
            seen[sig] = seen.get(sig, 0) + 1
            if seen[sig] > 2: continue
            ctx.violation(sig, "sparse KKT (%s): the implementation's solve path (sparse/kkt.hpp: regularize_and_factorize / solve / multiply, refinement off) differs "
                          "from the Gallina transcription coq/KKTSparseSolve.v (the object of the theorems of %s) in %s at op %d (%s) of case %s (history %s): impl=%s model=%s"
                          % (mode, PROPS_FILE, what, opno, c.ops[opno][0], c.name, _hist(c, opno), str(iv)[:300], str(mv)[:300]),
                          {"backend": mode, "opno": opno, "case_text": c.text(), "tags": list(c.tags),
                           "how": "write case_text to F; build harness/%s with -DBACKEND=%d and run it on F; write the line '<case> <perm line of the DUMP>' to PERMS; run "
                                  "ocaml/build_kktsolve.sh and _build/kktsolve/drv_kktsolve_model %s F PERMS; compare the lines of op %d" % (DRIVER, bnum, mode, opno)}, concrete=True)
        if err: details.append("%s: %s" % (mode, err))
        else:
            details.append("%s: %d scripts, %d factorisations (%d reported a zero pivot), %d solves (+%d skipped), %d multiplies, %d blocks equal as fractions%s" % (
                mode, total.get("cases", 0), total.get("factor", 0), total.get("factor_fail", 0), total.get("solve", 0), total.get("skipped", 0),
                total.get("multiply", 0), total.get("blocks", 0),
                "; first difference: case %s op %d %s" % (alld[0][0].name, alld[0][1], alld[0][2]) if alld and alld[0] else ""))
        grand[mode] = total
        ctx.coverage["evaluations"] = ctx.coverage.get("evaluations", 0) + total.get("factor", 0) + total.get("solve", 0) + total.get("multiply", 0)
    ctx.ob("correspondence:kktsolve-model", "correspondence", all_ok, "; ".join(details))
    ctx.coverage.setdefault("kktsolve", {}).update(grand)
    ctx.trusted += ["kktsolve stage: extraction of coq/KKTSparseSolve.v + LDLSparse.v + the four assembly models (ExtrOcamlBasic + ExtrOcamlZBigInt + directives of "
                    "ocaml/ExtractKKTSolve.v); ocaml/drv_kktsolve_model.ml builds sparse::Data from the case text the way harness/drv_kkt.cpp does and mirrors its "
                    "factor_ok / last-step bookkeeping",
                    "Eigen's sparse matrix-vector products are modelled by their value (exact arithmetic: summation order is immaterial); Eigen's AMD ordering is an "
                    "oracle: the permutation printed by the implementation is handed to the model",
                    "iterative refinement (regularize_and_factorize(true), the refinement loop of solve) is outside this model: every FACTOR / SOLVE of the scripts runs with refine = 0"]
    return PROPS_FILE

if __name__ == "__main__":
    # stand-alone: python3 tools/kktsolve_stage.py [quick|thorough]   (VERIF_SEED, VERIF_REPO as for ./check)
    os.chdir(vlib.VERIF)
    tier = sys.argv[1] if len(sys.argv) > 1 else "quick"
    ctx = vlib.Ctx("C13_solve", tier, int(os.environ.get("VERIF_SEED", "1")))
    ctx.replay = None
    vlib.coq_hygiene(ctx)
    kkt_solve_model_stage(ctx, register_properties=os.path.exists(os.path.join(vlib.COQ, PROPS_FILE)))
    sys.exit(vlib.finish(ctx, explanation="stand-alone run of the sparse KKT solve-path model stage of C13"))
