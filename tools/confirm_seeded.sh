#!/bin/bash
# usage: tools/confirm_seeded.sh <incoming_dir> <seeded_id>
# Confirms a seeded mutation in a scratch worktree: (1) demo exits 0 on the unchanged tree, (2) patch applies, library + tests compile,
# existing test-suite passes as on the unchanged tree (only the known QBEACONF failure), (3) demo exits non-zero with the patch.
# Writes /verif/seeded/<id>/{patch.diff,demo.cpp,meta.json}; removes the worktree.
set -u
in=$1; id=$2
wt=/tmp/cs_$id
out=/verif/seeded/$id
git -C /repo worktree remove --force $wt 2>/dev/null
git -C /repo worktree add -q --detach $wt HEAD || exit 2
cd $wt
extra=""
grep -q "PIQP_VERIF" $in/demo.cpp && extra="-DPIQP_VERIF"
grep -q "matio\|io_utils" $in/demo.cpp && libs="-lmatio" || libs=""
grep -q "piqp.h" $in/demo.cpp && inc="-I$wt/interfaces/c/include" || inc=""
csrc=""; if grep -q "piqp.h" $in/demo.cpp && ! grep -q 'piqp.cpp"' $in/demo.cpp; then csrc="$wt/interfaces/c/src/piqp.cpp"; fi
sed "s#/tmp/wt_[a-z0-9]*#$wt#g" $in/demo.cpp > $wt/demo.cpp
g++ -std=c++14 -O1 $extra -I$wt/include $inc -I/usr/include/eigen3 demo.cpp $csrc -o demo0 $libs > demo0.log 2>&1; c0=$?
r0=-1; [ $c0 = 0 ] && { timeout 600 ./demo0 $wt > demo0.out 2>&1; r0=$?; }
applies=1; git apply $in/patch.diff 2> apply.log || applies=0
r1=-1; tests="not run"; c1=-1
if [ $applies = 1 ]; then
  g++ -std=c++14 -O1 $extra -I$wt/include $inc -I/usr/include/eigen3 demo.cpp $csrc -o demo1 $libs > demo1.log 2>&1; c1=$?
  [ $c1 = 0 ] && { timeout 600 ./demo1 $wt > demo1.out 2>&1; r1=$?; }
  cmake -G Ninja -S . -B _b -DCMAKE_BUILD_TYPE=RelWithDebInfo -DBUILD_TESTS=ON -DBUILD_MAROS_MESZAROS_TEST=ON -DBUILD_C_INTERFACE=ON \
    -DBUILD_WITH_TEMPLATE_INSTANTIATION=ON -DFETCHCONTENT_SOURCE_DIR_GOOGLETEST=/usr/src/googletest -DFETCHCONTENT_FULLY_DISCONNECTED=ON > cmake.log 2>&1 \
    && cmake --build _b -j12 > build.log 2>&1 && tests=$(ctest --test-dir _b/tests -j8 --timeout 900 2>&1 | grep -E "tests passed|FAILED|Failed" | tr '\n' ' ' | cut -c1-300) || tests="BUILD FAILED: $(tail -3 build.log | tr '\n' ' ' | cut -c1-200)"
fi
mkdir -p $out
cp $in/patch.diff $out/patch.diff; cp $in/demo.cpp $out/demo.cpp
python3 - "$in" "$out" "$r0" "$r1" "$applies" "$tests" "$c0" "$c1" <<'PY'
import json, sys
inn, out, r0, r1, applies, tests, c0, c1 = sys.argv[1:9]
try: m = json.load(open(inn + "/meta.json"))
except Exception: m = {}
ok = (r0 == "0" and r1 not in ("0", "-1") and applies == "1" and "tests passed" in tests and ("FAILED" not in tests or tests.count("Failed") <= 1 and "QBEACONF" in tests))
m["confirmed_by_lead"] = {"patch_applies_on_current_HEAD": applies == "1", "demo_exit_unchanged": int(r0), "demo_exit_mutated": int(r1),
                          "demo_compiles": [c0 == "0", c1 == "0"], "ctest_with_mutation": tests, "all_confirmed": bool(ok),
                          "how": "tools/confirm_seeded.sh: scratch worktree of /repo HEAD, demo built with and without the patch, full cmake+ctest with the patch"}
json.dump(m, open(out + "/meta.json", "w"), indent=1)
print(out, "confirmed" if ok else "NOT CONFIRMED", r0, r1, applies, tests[:120])
PY
cd /; git -C /repo worktree remove --force $wt
