"""Double-precision runs of the real code (all five back ends) with the implementation-side oracles (documented slack)."""
import os
from fractions import Fraction as Fr
import vlib, spine, oracles, solver_suite as SS, gen_cases as G

def per_op(lines):
    d = {}
    for k, v in lines:
        opno, key = k.split(".", 1); d.setdefault(int(opno), {})[key] = v
    return d

def run_double(ctx, cases, backends=spine.ALL_BACKENDS, precond="ruiz", name="dbl", codes=None, expect_solved=False, extra_flags=(), cxx="g++", tag=""):
    """returns dict backend -> {case -> {opno -> obs}}"""
    specs = []
    for b in backends:
        s = spine.build_impl(ctx, b, precond, scalar="double")
        if extra_flags:
            s["extra_flags"] = tuple(extra_flags); s["name"] = s["name"] + tag; s["cxx"] = cxx
        specs.append(s)
    built = vlib.build_many(ctx, specs)
    cf = os.path.join(ctx.work, name + ".cases")
    open(cf, "w").write("".join(c.text() for c in cases))
    byname = {c.name: c for c in cases}
    out = {}
    for b, (exe, msg) in zip(backends, built):
        obn = "run:%s:%s:%s%s" % (name, b, precond, tag)
        if exe is None:
            ctx.ob(obn, "harness", False, msg); continue
        rc, o = vlib.run_bin(exe, cf, timeout=1200)
        if rc != 0:
            ctx.ob(obn, "harness", False, "rc=%d %s" % (rc, o[-1500:]))
            ctx.violation("C06.crash backend=%s %s" % (b, tag), "driver exited with rc=%d: %s" % (rc, o[-600:]), {"cases_file_head": open(cf).read()[:3000], "backend": b}, concrete=True)
            continue
        ctx.ob(obn, "harness", True, "")
        # recoverable sanitizer reports (enum loads) are printed on stderr: each distinct report is a violation candidate
        import re as _re
        for m_ in sorted(set(_re.findall(r"([\w./+-]+:\d+):\d+: runtime error: ([^\n]*)", vlib.last_stderr))):
            loc = m_[0].split("/")[-1]
            msg = _re.sub(r"\d{3,}", "N", m_[1])
            ctx.violation("C06.ubsan backend=%s at=%s %s" % (b, loc, msg.replace(" ", "_")[:80]), "UBSan: %s: %s" % m_, {"backend": b, "cases_file_head": open(cf).read()[:2000]})
        obs = vlib.parse_obs(o)
        out[b] = {}
        for cname, lines in obs.items():
            c = byname.get(cname)
            if c is None: continue
            po = per_op(lines); out[b][cname] = po
            for opno, ob in po.items():
                if ob.get("op") != "solve" or opno not in c.pbs: continue
                V = oracles.check_result(c.pbs[opno], dict(c.settings), ob, exact=False)
                if expect_solved and ob.get("status") != "SOLVED":
                    V.append(("C02.unsolved", "well-posed problem not solved: status %s after %s iterations" % (ob.get("status"), ob.get("iter"))))
                for code, m in V:
                    if codes is not None and not any(code.startswith(p) for p in codes): continue
                    ctx.violation("%s backend=%s precond=%s %s" % (code, b, precond, " ".join(c.tags)), "%s (case %s op %d, double): %s" % (code, cname, opno, m),
                                  {"case": c.text(), "backend": b, "precond": precond, "scalar": "double", "op": opno, "observed": ob})
    ctx.coverage["evaluations"] = ctx.coverage.get("evaluations", 0) + len(cases) * len(backends)
    for c in cases: ctx.classes.add("dbl " + " ".join(c.tags))
    return out

def gen_W(rng, name, nmax=12, settings=None):
    """class W: P >= mu I (mu >= 1/2), Slater point with margin, rank(A) = p <= n, entries O(1), every mix of blocks and bound kinds"""
    n = rng.randint(1, nmax)
    p = rng.choice([0, 0, 1, min(2, n), min(n, max(1, n // 3))])
    m = rng.choice([0, 1, 2, rng.randint(0, int(1.3 * n) + 1)])
    kinds = [rng.choice(["free", "lower", "upper", "both"]) for _ in range(n)]
    mode = rng.random()
    if mode < 0.1: kinds = ["free"] * n
    elif mode < 0.2: kinds = ["lower"] * n
    elif mode < 0.3: kinds = ["upper"] * n
    pb = G.gen_problem(rng, n=n, p=p, m=m, convex=True, wellposed=True, bound_kinds=kinds, sparse_prob=rng.choice([0.2, 0.6]), special=1.0, strict_convex=True)
    st = list(settings or [])
    lbp = any(k in ("lower", "both") for k in kinds) or rng.random() < 0.5
    ubp = any(k in ("upper", "both") for k in kinds) or rng.random() < 0.5
    ops = [G.op_setup(pb, lb_present=lbp, ub_present=ubp), G.op_solve()]
    tags = ["n%d" % n, "p%d" % p, "m%d" % m, "b:" + "".join(sorted(set(k[0] for k in kinds))), "s:" + ",".join("%s=%s" % kv for kv in st)]
    return SS.Case(name, st, ops, {0: pb, 1: pb}, tags)
