#!/bin/sh
# Run the repository's test-suite with the verification guard (PIQP_VERIF) OFF, from a scratch copy of /repo's
# working tree configured like the pinned build; prints ctest's summary; removes the scratch directory.
set -e
REPO=${VERIF_REPO:-/repo}
D=$(mktemp -d /var/tmp/piqp_baseline_off.XXXXXX)
trap 'rm -rf "$D"' EXIT
mkdir -p "$D/src"
(cd "$REPO" && git ls-files -z | xargs -0 tar -cf - ) | tar -xf - -C "$D/src"
cmake -G Ninja -S "$D/src" -B "$D/build" -DCMAKE_BUILD_TYPE=RelWithDebInfo -DBUILD_TESTS=ON -DBUILD_MAROS_MESZAROS_TEST=ON \
  -DBUILD_C_INTERFACE=ON -DBUILD_WITH_TEMPLATE_INSTANTIATION=ON -DFETCHCONTENT_SOURCE_DIR_GOOGLETEST=/usr/src/googletest \
  -DFETCHCONTENT_FULLY_DISCONNECTED=ON > "$D/cmake.log" 2>&1 || { tail -30 "$D/cmake.log"; exit 2; }
cmake --build "$D/build" -j16 > "$D/build.log" 2>&1 || { tail -40 "$D/build.log"; exit 2; }
rc=0
for dir in $(cd "$D/build" && find . -name CTestTestfile.cmake -not -path "./_deps/*" | xargs -n1 dirname | sort); do
  # only directories that actually register tests
  if ctest --test-dir "$D/build/$dir" -N 2>/dev/null | grep -q "Total Tests: [1-9]"; then
    echo "== ctest $dir"; ctest --test-dir "$D/build/$dir" -j8 --timeout 900 | tail -6 || rc=1
  fi
done
exit $rc
