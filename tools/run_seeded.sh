#!/bin/bash
# Runs every kept seeded change (seeded/<ID>/patch.diff) against the quick checks that are expected to catch it and writes
# seeded/RESULTS.md.  Uses scratch worktrees of /repo (tools/try_mutation.sh); /repo itself is never modified.
cd /verif
declare -A EXTRA=( [C01]="C08" [C03]="C04" [C10]="C04" [C15]="C01" [C09]="C12" [C13]="" [C14]="C04" )
# optional arguments: seeded IDs to (re-)run; their rows are replaced in RESULTS.md, all other rows are kept
if [ $# -gt 0 ]; then
  for id in "$@"; do
    prop=${id%%-*}; d=seeded/$id
    [ -f $d/patch.diff ] || { echo "no such seeded change: $id"; continue; }
    grep -v "^| $id |" seeded/RESULTS.md > seeded/RESULTS.md.tmp; mv seeded/RESULTS.md.tmp seeded/RESULTS.md
    for chk in $prop ${EXTRA[$prop]}; do
      res=$(timeout 2400 tools/try_mutation.sh $PWD/$d/patch.diff $chk 2>&1)
      if echo "$res" | grep -q "PATCH DOES NOT APPLY"; then r="patch does not apply on current HEAD";
      elif echo "$res" | grep -q "^VIOLATION.*no-failing-input-found" && ! echo "$res" | grep "^VIOLATION" | grep -qv "no-failing-input-found"; then r="caught (tie broken, no-failing-input-found)";
      elif echo "$res" | grep -q "^VIOLATION"; then r="caught, concrete failing input";
      elif echo "$res" | tail -1 | grep -q "violations=[1-9]"; then r="caught, concrete failing input";
      else r="NOT caught: $(echo "$res" | tail -1 | cut -c1-100)"; fi
      echo "| $id | $chk | $r |" >> seeded/RESULTS.md
      echo "$id $chk $r"
    done
  done
  exit 0
fi
out=seeded/RESULTS.md
{ echo "# Seeded changes vs. checks (quick tier, seed ${VERIF_SEED:-1}, /repo HEAD $(git -C /repo log --format=%h -1))"; echo;
  echo "| seeded change | check | result |"; echo "|---|---|---|"; } > $out
for d in seeded/C*-m*; do
  id=$(basename $d); prop=${id%%-*}
  for chk in $prop ${EXTRA[$prop]}; do
    res=$(timeout 2400 tools/try_mutation.sh $PWD/$d/patch.diff $chk 2>&1)
    if echo "$res" | grep -q "PATCH DOES NOT APPLY"; then r="patch does not apply on current HEAD";
    elif echo "$res" | grep -q "^VIOLATION.*no-failing-input-found" && ! echo "$res" | grep "^VIOLATION" | grep -qv "no-failing-input-found"; then r="caught (tie broken, no-failing-input-found)";
    elif echo "$res" | grep -q "^VIOLATION"; then r="caught, concrete failing input";
    elif echo "$res" | tail -1 | grep -q "violations=[1-9]"; then r="caught, concrete failing input";
    else r="NOT caught: $(echo "$res" | tail -1 | cut -c1-100)"; fi
    echo "| $id | $chk | $r |" >> $out
    echo "$id $chk $r"
  done
done
