"""C13: the sparse KKT solve path WITH ITERATIVE REFINEMENT (include/piqp/sparse/kkt.hpp: regularize_and_factorize(true) =
static_kkt_diag_max / max_diag / reg / regularize_kkt / numeric factorisation / unregularize_kkt, and the refinement loop of
KKT::solve(.., true)) -- exact correspondence between the Gallina transcription coq/KKTSparseRefine.v (extracted together with
coq/KKTSparseSolve.v, the four assembly models and the sparse LDL^T of coq/LDLSparse.v, ocaml/drv_kktrefine_model.ml) and
sparse::KKT<xrat,int,Mode> (harness/drv_kkt.cpp, -DBACKEND=1..4 = KKT_FULL / KKT_EQ_ELIMINATED / KKT_INEQ_ELIMINATED /
KKT_ALL_ELIMINATED).

    from kktrefine_stage import kkt_refine_model_stage
    extra = kkt_refine_model_stage(ctx)                  # records obligations, returns "Properties_C13_refine.v"
    vlib.coq_properties(ctx, "C13", extra_files=(..., extra))
Obligations: build:drv_kktrefine_model, build:drv_kktrefine:<mode>, correspondence:kktrefine-model (one, over the four modes; the
detail lists the counts per mode and how the refinement loops ended).

What is compared, on every generated script (dedicated scripts: the six iterative_refinement_* settings varied over valid and
invalid values, rho / delta below and above the static regularisation, FACTOR / SOLVE with refinement on and off in every
combination, right-hand sides for which a refinement step makes the residual worse, singular matrices that only the
regularisation makes factorisable, re-factorisations after update_scalings / update_data):
  * FACTOR r: the success flag of regularize_and_factorize(r);
  * DUMP:     the stored values of PKPt (after FACTOR 1: what unregularize_kkt restored);
  * SOLVE r:  each of the eight returned blocks delta_x, delta_y, delta_z, delta_z_lb, delta_z_ub, delta_s, delta_s_lb, delta_s_ub
              (heads n_lb / n_ub of the bound blocks), or "skipped" when the last factorisation did not succeed;
  * MULTIPLY: each of the eight blocks of the result.
The values must be EQUAL fractions (textual equality of the canonical num/den form).  The model receives the permutation the
implementation's AMD ordering returned (printed by the driver at a DUMP).  Any difference, and any index / division / shape error
of the checked model on a script the implementation ran, is reported as a concrete violation (the script is the replay).
The model driver additionally reports, per refined solve, how the loop ended (tolerance / max_iter / insufficient improvement), the
number of extra LDL^T solves and whether the residual strictly improved: the stage requires every kind to occur (coverage)."""
import os, sys, hashlib, shutil, random
from fractions import Fraction as Fr
import vlib
import kktsolve_stage
from kktsolve_stage import _c13, _by_case, _hist

PROPS_FILE = "Properties_C13_refine.v"
MODES = kktsolve_stage.MODES
DRIVER = kktsolve_stage.DRIVER
BLOCKS8 = kktsolve_stage.BLOCKS8
MODEL_SRC = kktsolve_stage.MODEL_SRC + ("KKTSparseRefine.v",)
MODEL_VO = [f[:-2] + ".vo" for f in MODEL_SRC if f not in ("Base.v", "CSC.v")]

def build_model(ctx):
    """extract the refinement model and build ocaml/drv_kktrefine_model.ml; cached by the hash of the sources"""
    h = hashlib.sha256()
    files = [os.path.join(vlib.COQ, f) for f in MODEL_SRC] + \
            [os.path.join(vlib.VERIF, "ocaml", x) for x in ("drv_kktrefine_model.ml", "build_kktrefine.sh", "ExtractKKTRefine.v", "zhelp.ml")]
    for f in files:
        h.update(f.encode()); h.update(open(f, "rb").read())
    exe = os.path.join(vlib.CACHE, "drv_kktrefine_model-%s" % h.hexdigest()[:24])
    if os.path.exists(exe):
        os.utime(exe, None); return exe, "cached"
    rc, out = vlib.coq_make(ctx, MODEL_VO)
    if rc != 0: return None, "model does not compile: " + out[-1500:]
    wd = os.path.join(vlib.VERIF, "ocaml", "_build", "kktrefine-%d" % os.getpid())
    rc, out = vlib.sh([os.path.join(vlib.VERIF, "ocaml", "build_kktrefine.sh"), wd], timeout=900)
    built = os.path.join(wd, "drv_kktrefine_model")
    if rc != 0 or not os.path.exists(built):
        shutil.rmtree(wd, ignore_errors=True)
        return None, "model build failed: " + out[-1500:]
    tmp = exe + ".tmp%d" % os.getpid()
    shutil.copy2(built, tmp); os.replace(tmp, exe)
    shutil.rmtree(wd, ignore_errors=True)
    return exe, "built"

# ------------------------------------------------------------------ generators
REG_EPS = ("1/8388608", "1/64", "1", "1", "2", "1/2")             # 2^-23 ~ 1.2e-7 (the default is 1e-7), 1/64, 1, ..
REG_REL = ("0", "0", "1/1024", "1/4")
MAX_ITER = ("0", "1", "2", "2", "3", "10", "10")
MIN_RATE = ("1", "5", "5", "3/2", "1/2")                           # 1/2 is rejected by Settings::verify_settings; the KKT code accepts it
EPS_ABS = ("0", "1/1099511627776", "1/1099511627776", "1/1024", "1", "1000")
EPS_REL = ("0", "0", "1/1099511627776", "1/4")

def gen_settings(rng):
    return (("iterative_refinement_eps_abs", rng.choice(EPS_ABS)), ("iterative_refinement_eps_rel", rng.choice(EPS_REL)),
            ("iterative_refinement_max_iter", rng.choice(MAX_ITER)), ("iterative_refinement_min_improvement_rate", rng.choice(MIN_RATE)),
            ("iterative_refinement_static_regularization_eps", rng.choice(REG_EPS)), ("iterative_refinement_static_regularization_rel", rng.choice(REG_REL)))

def small(rng): return Fr(1, 2 ** rng.choice((30, 26, 20, 10, 6)))

def sc_refine(c13, rng, name, mode):
    """regularised factorisation + refined solves; rho / delta below the static regularisation most of the time"""
    Fr_ = c13.Fr
    settings = gen_settings(rng)
    sd = dict(settings)
    reg = Fr_(sd["iterative_refinement_static_regularization_eps"]); rel = Fr_(sd["iterative_refinement_static_regularization_rel"])
    pr = c13.gen_refine_prob(rng) if rng.random() < 0.6 else c13.gen_prob(rng, maxn=3)
    def rd():
        r = rng.random()
        if r < 0.6: return small(rng)
        if r < 0.8: return c13.rpos(rng) / rng.choice((1, 4, 16))
        return reg * rng.choice((1, 2, Fr_(1, 2)))                 # at / around the threshold reg - rho = 0
    rho, delta = rd(), rd()
    if rng.random() < 0.25: rho = c13.rho_for(rng, pr)
    st = c13.State(pr, rho, delta)
    ops = [("PROBLEM", pr), ("INIT", rho, delta), ("DUMP",)]
    if rng.random() < 0.6:
        sc = c13.gen_scal(rng, pr, rng.random() < 0.3)
        ops += [("SCALINGS", rho, delta) + sc, ("DUMP",)]
        st.s, st.slb, st.sub, st.z, st.zlb, st.zub = sc
    ops += [("FACTOR", 1), ("DUMP",)]
    rhss = []
    if rel == 0 and rng.random() < 0.7:
        try:
            v = c13.adversarial_rhs(pr, st, mode, reg)            # one refinement step makes the residual worse
        except Exception:
            v = None
        if v is not None: rhss.append(v)
    rhss.append(c13.gen_vec8(rng, pr))
    if rng.random() < 0.5: rhss.append(c13.gen_vec8(rng, pr, zero=("z_lb", "z_ub", "s", "s_lb", "s_ub")))
    if rng.random() < 0.15: rhss.append(c13.gen_vec8(rng, pr, zero=BLOCKS8))         # rhs = 0: error_norm = 0 at once
    for v in rhss:
        ops += [("SOLVE", 1, v), ("MULTIPLY", "last")]
        if rng.random() < 0.5: ops += [("SOLVE", 0, v)]            # the regularised factorisation without refinement
    r = rng.random()
    if r < 0.35:                                                   # exact factorisation, refinement on in solve
        ops += [("FACTOR", 0), ("SOLVE", 1, rhss[-1]), ("FACTOR", 1), ("DUMP",), ("SOLVE", 1, c13.gen_vec8(rng, pr))]
    elif r < 0.7:                                                  # new scalings: a second regularised factorisation on the restored matrix
        rho2, delta2 = rd(), rd()
        ops += [("SCALINGS", rho2, delta2) + c13.gen_scal(rng, pr), ("DUMP",), ("FACTOR", 1), ("DUMP",), ("SOLVE", 1, c13.gen_vec8(rng, pr)), ("MULTIPLY", "last")]
    elif r < 0.85:
        ch = c13.gen_changes(rng, pr, ["P", "A", "G"]); cur = c13.apply_changes(pr, ch)
        ops += [("DATA", 7, ch, pr), ("DUMP",), ("FACTOR", 1), ("DUMP",), ("SOLVE", 1, c13.gen_vec8(rng, cur))]
    return c13.Case(name, settings, ops, ("refine", pr.style, pr.kinds()))

def sc_singular_reg(c13, rng, name):
    """a diagonal Hessian with rho = -P(j,j): FACTOR 0 meets a zero pivot, FACTOR 1 (rho_reg = reg - rho > 0) does not"""
    settings = gen_settings(rng)
    n = rng.randint(1, 3)
    pr = c13.gen_prob(rng, n, rng.choice((0, 0, 1)), rng.choice((0, 0, 1, 2)), kinds=["F"] * n, pstyle="diag_only")
    j = rng.randrange(n)
    pr.A = {k: v for k, v in pr.A.items() if k[1] != j}
    pr.G = {k: v for k, v in pr.G.items() if k[1] != j}
    pjj = Fr(pr.P.get((j, j), 0))
    delta = small(rng) if rng.random() < 0.5 else c13.rpos(rng)
    v = c13.gen_vec8(rng, pr)
    ops = [("PROBLEM", pr), ("INIT", -pjj, delta), ("DUMP",), ("FACTOR", 0), ("SOLVE", 1, v), ("FACTOR", 1), ("DUMP",), ("SOLVE", 1, v), ("MULTIPLY", "last"),
           ("SOLVE", 0, v), ("FACTOR", 0), ("SOLVE", 0, v)]
    return c13.Case(name, settings, ops, ("singular-reg", pr.style, pr.kinds()))

def gen_cases(ctx, mode, salt=0, scale=1):
    import kktelim_stage
    c13 = _c13()
    rng = random.Random((ctx.seed * 1000003 + 15485863 + salt) & 0x7fffffff)
    cases = []
    for i in range((60 if ctx.quick() else 1200) * scale):
        cases.append(kktelim_stage.with_dumps(sc_refine(c13, rng, "r%d" % i, mode)))
    for i in range((8 if ctx.quick() else 150) * scale):
        cases.append(kktelim_stage.with_dumps(sc_singular_reg(c13, rng, "q%d" % i)))
    # the scripts of c13.py (default settings, FACTOR / SOLVE with the refine flags their generators chose)
    try:
        keep = [c for c in kktelim_stage.gen_cases(ctx, salt=salt + 900, scale=scale) if any(o[0] in ("FACTOR", "SOLVE") and o[1] == 1 for o in c.ops)]
        cases += keep[:(25 if ctx.quick() else 400)]
    except Exception:
        pass
    return cases

# ------------------------------------------------------------------ comparison
def compare(cases, impl, model):
    """returns (counts, list of (case, opno, what, impl value, model value))"""
    cnt = dict(factor=0, factor1=0, factor_fail=0, solve=0, solve1=0, skipped=0, multiply=0, blocks=0, dump=0,
               stop_tol=0, stop_fuel=0, stop_rate=0, stop_off=0, improved=0, it0=0, it1=0, it2plus=0)
    diffs = []
    for c in cases:
        a, b = impl.get(c.name, {}), model.get(c.name, {})
        first = True
        for opno, o in enumerate(c.ops):
            if o[0] not in ("FACTOR", "SOLVE", "MULTIPLY", "DUMP"): continue
            ia, ib = a.get(opno, {}), b.get(opno, {})
            bad = None
            if "op" not in ia: bad = ("impl-no-output", None, None)
            elif "model_error" in ib: bad = ("model_error", ia.get("ok", ia.get("x")), ib["model_error"])
            elif "op" not in ib: bad = ("model-no-output", ia.get("op"), None)
            elif ia.get("op") != ib.get("op"): bad = ("op", ia.get("op"), ib.get("op"))
            elif o[0] == "FACTOR":
                cnt["factor"] += 1; cnt["factor1"] += o[1]
                if ia.get("ok") == "0": cnt["factor_fail"] += 1
                if ia.get("ok") != ib.get("ok"): bad = ("factor%d-ok" % o[1], ia.get("ok"), ib.get("ok"))
            elif o[0] == "DUMP":
                cnt["dump"] += 1
                if ia.get("PKPt") is None or ia.get("PKPt") != ib.get("PKPt"): bad = ("PKPt", ia.get("PKPt"), ib.get("PKPt"))
            else:
                kind = ("solve%d" % o[1]) if o[0] == "SOLVE" else "multiply"
                if ia.get("skipped") == "1" or ib.get("skipped") == "1":
                    cnt["skipped"] += 1
                    if ia.get("skipped") != ib.get("skipped"): bad = (kind + "-skipped", ia.get("skipped"), ib.get("skipped"))
                else:
                    cnt["solve" if o[0] == "SOLVE" else "multiply"] += 1
                    if o[0] == "SOLVE":
                        cnt["solve1"] += o[1]
                        if "rstop" in ib: cnt["stop_" + ib["rstop"]] = cnt.get("stop_" + ib["rstop"], 0) + 1
                        if ib.get("rimproved") == "1": cnt["improved"] += 1
                        if "rsolves" in ib:
                            k = int(ib["rsolves"]); cnt["it0" if k == 0 else "it1" if k == 1 else "it2plus"] += 1
                    for k in BLOCKS8:
                        cnt["blocks"] += 1
                        if ia.get(k) is None or ia.get(k) != ib.get(k):
                            bad = ("%s-%s" % (kind, k), ia.get(k), ib.get(k)); break
            if bad and first:
                diffs.append((c, opno) + bad); first = False
        for opno, kv in b.items():       # a model error at an assembly operation (the assembly stages report those in detail)
            if "model_error" in kv and first:
                diffs.append((c, opno, "model_error", None, kv["model_error"])); first = False
    return cnt, diffs

def run_cases(ctx, mode, bnum, exe, model, cases, label):
    cf = os.path.join(ctx.work, "kktrefine_%s_%s.cases" % (mode, label))
    text = "".join(c.text() for c in cases)
    open(cf, "w").write(text)
    rc, txt = vlib.run_bin_chunked(exe, text, ctx.work, "kktrefine_%s_%s_impl" % (mode, label), timeout=900)
    if rc != 0:
        for c in cases:
            f1 = os.path.join(ctx.work, "kktrefine_crash.cases"); open(f1, "w").write(c.text())
            r1, t1 = vlib.run_bin(exe, f1, (), 120)
            if r1 != 0:
                ctx.violation("kktrefine-%s-driver-crash" % mode, "sparse KKT (%s): the driver of the real code terminates abnormally (rc=%d) on a valid script (case %s): %s"
                              % (mode, r1, c.name, t1[-400:]),
                              {"backend": mode, "opno": -1, "case_text": c.text(), "tags": list(c.tags),
                               "how": "write case_text to F; build harness/%s with -DBACKEND=%d and run it on F" % (DRIVER, bnum)}, concrete=True)
                break
        return None, "implementation driver failed rc=%d: %s" % (rc, txt[-600:])
    impl = _by_case(txt)
    pf = os.path.join(ctx.work, "kktrefine_%s_%s.perms" % (mode, label))
    with open(pf, "w") as f:
        for c in cases:
            pl = next((kv["perm"] for _, kv in sorted(impl.get(c.name, {}).items()) if "perm" in kv), None)
            if pl is not None: f.write("%s %s\n" % (c.name, pl))
    r1, t1 = vlib.run_bin(model, None, (mode, cf, pf), 900)
    if r1 != 0:
        return None, "model driver failed rc=%d: %s" % (r1, t1[-600:])
    return (impl, _by_case(t1)), ""

def kkt_refine_model_stage(ctx, register_properties=False):
    """builds both sides for the four modes, compares, records obligations; returns the name of the extra properties file"""
    from concurrent.futures import ThreadPoolExecutor
    with ThreadPoolExecutor(max_workers=2) as ex:
        fm = ex.submit(build_model, ctx)
        built = vlib.build_many(ctx, [dict(src=DRIVER, defines=("BACKEND=%d" % b,), name="drv_kkt_%s" % m) for m, b in MODES])
        model, mmsg = fm.result()
    ctx.ob("build:drv_kktrefine_model", "machinery", model is not None, mmsg if model is None else "")
    if register_properties:
        vlib.coq_properties(ctx, "C13_refine")
    all_ok = True; details = []; grand = {}
    nviol0 = len(ctx.violations)
    for (mode, bnum), (exe, msg) in zip(MODES, built):
        ctx.ob("build:drv_kktrefine:%s" % mode, "machinery", exe is not None, msg if exe is None else "")
        if exe is None or model is None:
            all_ok = False; details.append("%s: not run: a build failed" % mode); continue
        replay = getattr(ctx, "replay", None)
        if replay:
            import json, kktelim_stage
            rp = json.load(open(replay))
            if rp["replay"].get("backend") not in (None, mode): continue
            cases = [kktelim_stage.with_dumps(c) for c in _c13().parse_case_text(rp["replay"]["case_text"])]
        else:
            cases = gen_cases(ctx, mode, salt=10 * bnum)
        total = {}; alld = []; err = ""
        for rnd in range(1 if replay else 3):
            res, err = run_cases(ctx, mode, bnum, exe, model, cases, "r%d" % rnd)
            if res is None:
                alld.append(None); break
            cnt, diffs = compare(cases, *res)
            for k, v in cnt.items(): total[k] = total.get(k, 0) + v
            total["cases"] = total.get("cases", 0) + len(cases)
            alld += diffs
            for c in cases: ctx.classes.add("kktrefine-%s|" % mode + "|".join(c.tags) + "|%d%d%d" % (c.ops[0][1].n, c.ops[0][1].p, c.ops[0][1].m))
            broken = [o for o in ctx.obligations if not o["ok"]]
            if diffs or not broken or len(ctx.violations) > nviol0: break
            cases = gen_cases(ctx, mode, salt=10 * bnum + rnd + 1, scale=2)
            for c in cases: c.name = "e%d%s" % (rnd, c.name)
        cover = replay or all(total.get(k, 0) > 0 for k in ("stop_tol", "stop_fuel", "stop_rate", "stop_off", "improved", "it0", "it1", "it2plus", "factor1", "solve1", "dump"))
        ok = not alld and total.get("solve", 0) > 0 and total.get("factor", 0) > 0 and bool(cover)
        all_ok = all_ok and ok
        seen = {}
        for dd in alld[:60]:
            if dd is None: continue
            c, opno, what, iv, mv = dd
            sig = "kktrefine-model-differs:%s:%s" % (mode, what)
            seen[sig] = seen.get(sig, 0) + 1
            if seen[sig] > 2: continue
            ctx.violation(sig, "sparse KKT (%s): the implementation's solve path with iterative refinement (sparse/kkt.hpp: regularize_and_factorize / regularize_kkt / "
                          "unregularize_kkt / the refinement loop of solve) differs from the Gallina transcription coq/KKTSparseRefine.v (the object of the theorems of %s) "
                          "in %s at op %d (%s) of case %s (settings %s; history %s): impl=%s model=%s"
                          % (mode, PROPS_FILE, what, opno, " ".join(str(x) for x in c.ops[opno][:2] if not isinstance(x, dict)), c.name,
                             " ".join("%s=%s" % (k.replace("iterative_refinement_", ""), v) for k, v in c.settings), _hist(c, opno), str(iv)[:300], str(mv)[:300]),
                          {"backend": mode, "opno": opno, "case_text": c.text(), "tags": list(c.tags),
                           "how": "write case_text to F; build harness/%s with -DBACKEND=%d and run it on F; write the line '<case> <perm line of the DUMP>' to PERMS; run "
                                  "ocaml/build_kktrefine.sh and _build/kktrefine/drv_kktrefine_model %s F PERMS; compare the lines of op %d" % (DRIVER, bnum, mode, opno)}, concrete=True)
        if err: details.append("%s: %s" % (mode, err))
        else:
            details.append("%s: %d scripts, %d factorisations (%d regularised, %d reported a zero pivot), %d PKPt dumps, %d solves (%d with refinement, +%d skipped), "
                           "%d multiplies, %d blocks equal as fractions; refinement loops ended by tolerance %d / max_iter %d / insufficient improvement %d / not entered %d; "
                           "extra LDL solves 0: %d, 1: %d, >=2: %d; residual strictly improved %d%s%s" % (
                mode, total.get("cases", 0), total.get("factor", 0), total.get("factor1", 0), total.get("factor_fail", 0), total.get("dump", 0), total.get("solve", 0),
                total.get("solve1", 0), total.get("skipped", 0), total.get("multiply", 0), total.get("blocks", 0),
                total.get("stop_tol", 0), total.get("stop_fuel", 0), total.get("stop_rate", 0), total.get("stop_off", 0),
                total.get("it0", 0), total.get("it1", 0), total.get("it2plus", 0), total.get("improved", 0),
                "" if cover else "; COVERAGE: some way of ending the loop was never exercised",
                "; first difference: case %s op %d %s" % (alld[0][0].name, alld[0][1], alld[0][2]) if alld and alld[0] else ""))
        grand[mode] = total
        ctx.coverage["evaluations"] = ctx.coverage.get("evaluations", 0) + total.get("factor", 0) + total.get("solve", 0) + total.get("multiply", 0) + total.get("dump", 0)
    ctx.ob("correspondence:kktrefine-model", "correspondence", all_ok, "; ".join(details))
    ctx.coverage.setdefault("kktrefine", {}).update(grand)
    ctx.trusted += ["kktrefine stage: extraction of coq/KKTSparseRefine.v + KKTSparseSolve.v + LDLSparse.v + the four assembly models (ExtrOcamlBasic + ExtrOcamlZBigInt + "
                    "directives of ocaml/ExtractKKTRefine.v); ocaml/drv_kktrefine_model.ml builds sparse::Data from the case text the way harness/drv_kkt.cpp does, mirrors its "
                    "factor_ok / last-step bookkeeping and keeps PKPt as the last regularize_and_factorize left it",
                    "Eigen's sparse matrix-vector products and the two triangular-view products of the refinement residual are modelled by their value (exact arithmetic: "
                    "summation order is immaterial; PKPt is upper triangular with sorted columns, so the iterator's prefix rule selects every stored entry); Eigen's AMD "
                    "ordering is an oracle: the permutation printed by the implementation is handed to the model",
                    "improvement_rate = prev / 0 follows IEEE rules in the exact scalar of the harness (+inf / NaN: not < min_improvement_rate) and is modelled as 'accepted'"]
    return PROPS_FILE

if __name__ == "__main__":
    # stand-alone: python3 tools/kktrefine_stage.py [quick|thorough]   (VERIF_SEED, VERIF_REPO as for ./check)
    os.chdir(vlib.VERIF)
    tier = sys.argv[1] if len(sys.argv) > 1 else "quick"
    ctx = vlib.Ctx("C13_refine", tier, int(os.environ.get("VERIF_SEED", "1")))
    ctx.replay = None
    vlib.coq_hygiene(ctx)
    kkt_refine_model_stage(ctx, register_properties=os.path.exists(os.path.join(vlib.COQ, PROPS_FILE)))
    sys.exit(vlib.finish(ctx, explanation="stand-alone run of the sparse KKT refinement model stage of C13"))
