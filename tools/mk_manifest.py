#!/usr/bin/env python3
"""Regenerates MANIFEST.json from tools/manifest_data.py (single source of truth for claimed checks)."""
import json, os, sys
here = os.path.dirname(os.path.abspath(__file__))
sys.path.insert(0, here)
import manifest_data as M
props = [json.loads(l)["id"] for l in open(os.path.join(here, "..", "properties.jsonl"))]
checks = []
for pid in props:
    if pid in M.CHECKS:
        c = M.CHECKS[pid]
        checks.append({"property_id": pid, "quick_cmd": "./check %s --tier quick" % pid, "thorough_cmd": "./check %s --tier thorough" % pid,
                       "evidence_file": "/verif/evidence/%s.json" % pid, "replay_cmd_template": "./check %s --replay {path}" % pid,
                       "engine": "coq-exact-correspondence",
                       "level_claimed": {"category": "proof", "text": c["text"], "design_ref": c.get("design_ref", "DESIGN.md section 6")},
                       "level_note": c["note"], "technique": c["technique"]})
na = [{"property_id": p, "reason": M.NOT_APPLICABLE.get(p, "check not built yet in this round (see DESIGN.md section 6 for the plan); not claimed")} for p in props if p not in M.CHECKS]
man = {"version": 1,
       "setup_cmd": "./setup.sh",
       "hooks": {"guard": "PIQP_VERIF", "enable": "harness translation units are compiled with -DPIQP_VERIF against /repo/include (header-only library); /repo's own build is not used",
                 "baseline_off_cmd": "/verif/tools/baseline_off.sh", "source_commits": M.HOOK_COMMITS, "add_only": True},
       "engines": [{"name": "coq-exact-correspondence", "path": "/verif/check", "serves_properties": sorted(M.CHECKS),
                    "kind_free_text": "Coq 8.16 theorems over a Gallina model (coq/), tied to /repo by translators (tools/gen_*.py -> coq/gen/*.v) and by exact-rational correspondence (xrat instantiation of the C++ templates vs the extracted model)"}],
       "checks": checks, "notes": M.NOTES, "not_applicable": na}
json.dump(man, open(os.path.join(here, "..", "MANIFEST.json"), "w"), indent=1)
print("MANIFEST.json: %d checks, %d not claimed" % (len(checks), len(na)))
