"""Core library of the check driver: regeneration, Coq build, harness cache, model build, correspondence,
evidence, violations and known findings.  Standard library only."""
import os, sys, re, json, time, hashlib, subprocess, shutil, random, glob

VERIF = os.path.dirname(os.path.dirname(os.path.abspath(__file__)))
REPO = os.environ.get("VERIF_REPO", "/repo")
CACHE = os.path.join(VERIF, ".cache")
COQ = os.path.join(VERIF, "coq")
NPROC = os.cpu_count() or 8

def sh(cmd, timeout=600, cwd=None, env=None, inp=None):
    """run a command, return (rc, stdout+stderr); rc=124 on timeout"""
    e = dict(os.environ)
    if env: e.update(env)
    try:
        p = subprocess.run(cmd, shell=isinstance(cmd, str), cwd=cwd, env=e, input=inp, timeout=timeout,
                           stdout=subprocess.PIPE, stderr=subprocess.STDOUT, universal_newlines=True, errors="replace")
        return p.returncode, p.stdout
    except subprocess.TimeoutExpired as ex:
        out = ex.stdout or ""
        if isinstance(out, bytes): out = out.decode(errors="replace")
        return 124, out + "\n[timeout after %ss]" % timeout

class Ctx:
    def __init__(self, prop, tier, seed):
        self.prop, self.tier, self.seed = prop, tier, seed
        self.t0 = time.time()
        self.work = os.path.join(VERIF, ".work", "%s-%d" % (prop, os.getpid()))
        os.makedirs(self.work, exist_ok=True)
        os.makedirs(CACHE, exist_ok=True)
        self.obligations = []      # dicts: name, kind, ok, detail
        self.violations = []       # dicts: signature, detail, replay (dict), concrete(bool)
        self.coverage = {"evaluations": 0, "samples": [], "rule": ""}
        self.classes = set()
        self.trusted = []
        self.assumptions = []
        self.notes = []
        self.rng = random.Random(seed)
    def quick(self): return self.tier != "thorough"
    def ob(self, name, kind, ok, detail=""):
        self.obligations.append({"name": name, "kind": kind, "ok": bool(ok), "detail": detail[:2000]})
        return ok
    def violation(self, signature, detail, replay, concrete=True):
        self.violations.append({"signature": signature, "detail": detail[:4000], "replay": replay, "concrete": concrete})
    def cleanup(self):
        shutil.rmtree(self.work, ignore_errors=True)

# ---------------------------------------------------------------- translators
def regen(ctx, which=("consts",)):
    """run the translators; returns list of (name, ok, msg)"""
    res = []
    os.makedirs(os.path.join(COQ, "gen"), exist_ok=True)
    for w in which:
        script = os.path.join(VERIF, "tools", "gen_%s.py" % w)
        rc, out = sh([sys.executable, script], timeout=120, env={"VERIF_REPO": REPO})
        ok = rc == 0
        res.append((w, ok, out.strip()))
        ctx.ob("translator:gen_%s" % w, "translator", ok, out.strip())
    return res

# ---------------------------------------------------------------- coq
_GREP_BAD = re.compile(r"\b(Admitted|admit|Axiom|Parameter|Conjecture|Unset Guard|bypass_check|Admit Obligations)\b")

def coq_hygiene(ctx):
    bad = []
    for f in glob.glob(os.path.join(COQ, "**", "*.v"), recursive=True):
        txt = open(f).read()
        txt = re.sub(r"\(\*.*?\*\)", "", txt, flags=re.S)
        for m in _GREP_BAD.finditer(txt):
            bad.append("%s: %s" % (os.path.relpath(f, COQ), m.group(0)))
    ctx.ob("coq:no-admitted-no-axioms", "hygiene", not bad, "; ".join(bad[:20]))
    return not bad

def coq_make(ctx, targets, timeout=1500):
    sh([os.path.join(VERIF, "tools", "mk_coqproject.sh")], timeout=60)
    rc, out = sh(["make", "-k", "-j%d" % NPROC] + targets, cwd=COQ, timeout=timeout)
    return rc, out

def coq_properties(ctx, prop, extra_files=()):
    """build dependencies with make -k, then compile each properties file afresh and parse theorems + assumptions.
    Every `Theorem name` in a Properties file is one obligation; it is discharged iff the file compiled and
    Print Assumptions printed 'Closed under the global context' or only allowed (stdlib) axioms."""
    files = ["Properties_%s.v" % prop] + list(extra_files)
    files = [f for f in files if os.path.exists(os.path.join(COQ, f))]
    allok = True
    # dependencies
    deps_targets = []
    for f in files:
        txt = open(os.path.join(COQ, f)).read()
        for m in re.finditer(r"From PIQP(?:\.(\w+))? Require (?:Import|Export) ([^.]+)\.", txt):
            sub = m.group(1)
            for mod in m.group(2).split():
                deps_targets.append((sub + "/" if sub else "") + mod + ".vo")
    deps_targets = sorted(set(deps_targets))
    rc, out = coq_make(ctx, deps_targets) if deps_targets else (0, "")
    dep_err = ""
    if rc != 0:
        errs = re.findall(r'File "([^"]+)", line (\d+)[^\n]*\n(Error:[^\n]*(?:\n[^\n]+){0,3})', out)
        dep_err = "; ".join("%s:%s %s" % (a, b, c.replace("\n", " ")[:200]) for a, b, c in errs[:5]) or out[-500:]
    from concurrent.futures import ThreadPoolExecutor
    with ThreadPoolExecutor(max_workers=min(8, max(1, len(files)))) as ex:
        compiled = dict(zip(files, ex.map(lambda f_: sh(["coqc", "-Q", ".", "PIQP", f_], cwd=COQ, timeout=900), files)))
    for f in files:
        txt = open(os.path.join(COQ, f)).read()
        thms = re.findall(r"^\s*(?:Theorem|Lemma)\s+(\w+)", txt, flags=re.M)
        rc2, out2 = compiled[f]
        # parse Print Assumptions blocks
        blocks = {}
        cur = None
        for ln in out2.splitlines():
            pass
        closed = out2.count("Closed under the global context")
        axioms = re.findall(r"^Axioms:\n((?:.+\n?)+?)(?=^\S|\Z)", out2, flags=re.M)
        for t in thms:
            ok = rc2 == 0
            detail = "" if ok else (dep_err or out2[-1500:])
            ctx.ob("theorem:%s.%s" % (f[:-2], t), "theorem", ok, detail)
            allok = allok and ok
        if rc2 == 0:
            n_pa = len(re.findall(r"Print Assumptions", txt))
            okpa = (closed + len(axioms)) >= n_pa and not axioms
            ctx.ob("assumptions:%s" % f[:-2], "assumptions", okpa or not axioms,
                   "closed=%d of %d; axioms=%s" % (closed, n_pa, "|".join(a.strip().replace("\n", " ") for a in axioms)[:500]))
            if axioms:
                ctx.trusted.append("axioms reported for %s: %s" % (f, " | ".join(a.strip() for a in axioms)[:400]))
            else:
                ctx.trusted.append("%s: Print Assumptions under %d theorems: Closed under the global context" % (f, closed))
    if not ctx.quick() and allok:
        coqchk(ctx, [f[:-2] for f in files])
    return allok

def coqchk(ctx, modules):
    """thorough tier: re-check the compiled property files and everything they depend on with the independent checker and record
    the axioms it reports (-o): the development must rely on none.  One invocation for all files of the property, so that the
    shared dependencies (the model and the big proof files) are re-checked once."""
    t0 = time.time()
    rc, out = sh(["coqchk", "-silent", "-o", "-Q", "coq", "PIQP"] + ["PIQP." + m for m in modules], cwd=VERIF, timeout=7200)
    names = ",".join(modules)
    if rc == 124 or rc < 0 or rc == 137:
        # the independent checker did not finish (time limit, or killed for memory): not a verdict either way; coqc's own check stands
        ctx.notes.append("coqchk %s: not finished within the time limit (no verdict)" % names)
        return
    ax = re.search(r"\* Axioms:(.*?)\n\s*\n", out + "\n\n", flags=re.S)
    axs = ax.group(1).strip() if ax else "?"
    bad = [k for k in ("type-in-type", "unsafe (co)fixpoints", "positivity is assumed") if not re.search(re.escape(k) + r":\s*<none>", out)]
    ok = rc == 0 and axs == "<none>" and not bad
    for m in modules:
        ctx.ob("coqchk:%s" % m, "coqchk", ok, "rc=%d axioms=%s %s %s" % (rc, axs[:300], bad, "" if ok else out[-300:]))
    ctx.trusted.append("coqchk -o %s (one run, %.0f s): axioms %s" % (names, time.time() - t0, axs[:200]))

# ---------------------------------------------------------------- harness cache
def _hash(b):
    return hashlib.sha256(b if isinstance(b, bytes) else b.encode()).hexdigest()[:24]

def build_harness(ctx, src, defines=(), extra_flags=(), libs=("-lgmpxx", "-lgmp"), cxx="g++", opt="-O1", std="c++14", name=None):
    """compile harness/<src> against REPO's current headers; cached by the hash of the preprocessed TU"""
    srcp = os.path.join(VERIF, "harness", src)
    flags = ["-std=" + std, "-DPIQP_VERIF"] + ["-D" + d for d in defines] + list(extra_flags) + \
            ["-I" + os.path.join(VERIF, "harness"), "-I" + os.path.join(REPO, "include"), "-I" + os.path.join(REPO, "interfaces/c/include"), "-I/usr/include/eigen3"]
    rc, pre = sh([cxx] + flags + ["-E", "-P", srcp], timeout=300)
    if rc != 0:
        return None, "preprocess failed: " + pre[-1500:]
    key = _hash(pre + " ".join([cxx, opt] + flags + list(libs)))
    exe = os.path.join(CACHE, "%s-%s" % (name or os.path.splitext(src)[0], key))
    if os.path.exists(exe):
        os.utime(exe, None)
        return exe, "cached"
    tmp = exe + ".tmp%d" % os.getpid()
    rc, out = sh([cxx, opt] + flags + [srcp, "-o", tmp] + list(libs), timeout=900)
    if rc != 0 or not os.path.exists(tmp):
        return None, "compile failed: " + "\n".join(l for l in out.splitlines() if "error" in l.lower())[:1500] + out[-800:]
    os.replace(tmp, exe)
    _evict()
    return exe, "built"

def build_many(ctx, specs):
    """specs: list of dict(src=, defines=, ...) -> list of (exe, msg); compiled in parallel"""
    from concurrent.futures import ThreadPoolExecutor
    with ThreadPoolExecutor(max_workers=min(NPROC, max(1, len(specs)))) as ex:
        futs = [ex.submit(build_harness, ctx, **s) for s in specs]
        return [f.result() for f in futs]

def _evict(limit=3 * 1024 ** 3):
    ents = []
    for f in os.listdir(CACHE):
        p = os.path.join(CACHE, f)
        if os.path.isfile(p): ents.append((os.path.getmtime(p), os.path.getsize(p), p))
    tot = sum(e[1] for e in ents)
    for _, sz, p in sorted(ents):
        if tot <= limit: break
        try: os.remove(p); tot -= sz
        except OSError: pass

def build_model(ctx, kind="fast"):
    """extract the model and build the OCaml driver; cached by the hash of the Coq sources + driver"""
    h = hashlib.sha256()
    for f in sorted(glob.glob(os.path.join(COQ, "*.v")) + glob.glob(os.path.join(COQ, "gen", "*.v")) + glob.glob(os.path.join(VERIF, "ocaml", "*.ml")) +
                    glob.glob(os.path.join(VERIF, "ocaml", "*.v")) + [os.path.join(VERIF, "ocaml", "build.sh")]):
        if os.path.basename(f).startswith("Properties_") or f.endswith("Proofs.v"): continue
        h.update(f.encode()); h.update(open(f, "rb").read())
    exe = os.path.join(CACHE, "drv_model-%s-%s" % (kind, h.hexdigest()[:24]))
    if os.path.exists(exe):
        os.utime(exe, None)
        return exe, "cached"
    # the extraction needs the model .vo files
    deps = ["API.vo", "gen/Consts.vo"]
    rc, out = coq_make(ctx, deps)
    if rc != 0:
        return None, "model does not compile: " + out[-1500:]
    rc, out = sh([os.path.join(VERIF, "ocaml", "build.sh"), kind], timeout=900)
    built = os.path.join(VERIF, "ocaml", "_build", kind, "drv_model")
    if rc != 0 or not os.path.exists(built):
        return None, "model build failed: " + out[-1500:]
    shutil.copy2(built, exe)
    return exe, "built"

# ---------------------------------------------------------------- correspondence
def parse_obs(text):
    """observation lines 'case.op.key v...' -> dict case -> list of (opkey, value)"""
    d = {}
    for ln in text.splitlines():
        ln = ln.rstrip()
        if not ln or ln.startswith("#"): continue
        k, _, v = ln.partition(" ")
        parts = k.split(".", 2)
        if len(parts) < 3: continue
        d.setdefault(parts[0], []).append((parts[1] + "." + parts[2], v))
    return d

def diff_obs(a, b, ignore=("nonfinite", "trace"), only=None):
    """compare two observation dicts; returns list of (case, key, a, b)"""
    out = []
    for c in sorted(set(a) | set(b)):
        def keep(k):
            kk = k.split(".", 1)[1]
            return kk not in ignore and not kk.startswith(("kkt.", "rt.", "tr.")) and (only is None or kk in only)
        la = {k: v for k, v in a.get(c, []) if keep(k)}
        lb = {k: v for k, v in b.get(c, []) if keep(k)}
        # a model error (checked division by zero / index error in the Gallina model) ends the comparison of that case:
        # for DivZero the implementation must have flagged a non-finite arithmetic result in the same call
        merr = [k for k in lb if k.endswith(".model_error")]
        stop_op = None
        if merr:
            k0 = sorted(merr, key=lambda s: int(s.split(".")[0]))[0]
            stop_op = int(k0.split(".")[0])
            nf = dict(a.get(c, [])).get("%d.nonfinite" % stop_op)
            if not (lb[k0] == "DivZero" and nf == "1"):
                out.append((c, k0, "nonfinite=%s" % nf, lb[k0]))
                continue
        for k in sorted(set(la) | set(lb), key=lambda s: (int(s.split(".")[0]) if s.split(".")[0].isdigit() else 0, s)):
            if stop_op is not None and int(k.split(".")[0]) >= stop_op: continue
            if la.get(k) != lb.get(k):
                out.append((c, k, la.get(k), lb.get(k)))
                break   # first difference per case is enough
    return out

last_stderr = ""

def split_cases(text, nchunks):
    """split a case file into nchunks files' worth of text at CASE boundaries"""
    parts = text.split("\nCASE ")
    cases = [parts[0]] + ["CASE " + p_ for p_ in parts[1:]]
    cases = [c if c.endswith("\n") else c + "\n" for c in cases if c.strip()]
    k = max(1, min(nchunks, len(cases)))
    size = (len(cases) + k - 1) // k
    return ["".join(cases[i:i + size]) for i in range(0, len(cases), size)]

def run_bin_chunked(exe, text, workdir, tag, args=(), timeout=900, env=None, nchunks=None):
    """run a driver over a large case set in parallel chunks; returns (rc, concatenated stdout)"""
    from concurrent.futures import ThreadPoolExecutor
    ncases = text.count("\nCASE ") + 1
    if nchunks is None: nchunks = 1 if ncases < 400 else NPROC
    chunks = split_cases(text, nchunks)
    files = []
    for i, ch in enumerate(chunks):
        f = os.path.join(workdir, "%s.%d.cases" % (tag, i)); open(f, "w").write(ch); files.append(f)
    def one(f):
        e = dict(os.environ)
        if env: e.update(env)
        try:
            p = subprocess.run([exe] + list(args) + [f], env=e, timeout=timeout, stdout=subprocess.PIPE, stderr=subprocess.PIPE, universal_newlines=True, errors="replace")
            return p.returncode, p.stdout, p.stderr
        except subprocess.TimeoutExpired:
            return 124, "", "[timeout after %ss]" % timeout
    with ThreadPoolExecutor(max_workers=NPROC) as ex:
        res = list(ex.map(one, files))
    global last_stderr
    last_stderr = "".join(r[2] for r in res)
    rc = max([r[0] for r in res] + [0], key=abs) if res else 0
    out = "".join(r[1] for r in res)
    if rc != 0: out += "\n[stderr] " + last_stderr[-800:]
    return rc, out

def run_bin(exe, casefile, args=(), timeout=600, env=None):
    """run a driver; stdout only (the library prints warnings on stderr)"""
    e = dict(os.environ)
    if env: e.update(env)
    try:
        p = subprocess.run([exe] + list(args) + ([casefile] if casefile else []), env=e, timeout=timeout, stdout=subprocess.PIPE,
                           stderr=subprocess.PIPE, universal_newlines=True, errors="replace")
        global last_stderr
        last_stderr = p.stderr
        if p.returncode != 0:
            return p.returncode, p.stdout + "\n[stderr] " + p.stderr[-800:]
        return 0, p.stdout
    except subprocess.TimeoutExpired as ex:
        return 124, "[timeout after %ss]" % timeout

# ---------------------------------------------------------------- evidence / reporting
def load_known():
    p = os.path.join(VERIF, "known_findings.txt")
    ks = []
    if os.path.exists(p):
        for ln in open(p):
            ln = ln.strip()
            if not ln or ln.startswith("#"): continue
            m = re.match(r"finding:\s+property=(\S+)\s+match=(\S+)\s+(.*)", ln)
            if m: ks.append({"property": m.group(1), "match": m.group(2), "desc": m.group(3)})
    return ks

def finish(ctx, level="proof", checker_cmd="", explanation=""):
    if level not in ("exploration", "fault_enumeration", "model_checking", "proof", "translation_validation", "other"):
        if not explanation: explanation = "level detail: " + level
        level = "proof"
    known = load_known()
    unknown, printed = [], []
    for v in ctx.violations:
        hit = None
        for k in known:
            if k["property"] == ctx.prop and re.search(k["match"], v["signature"]):
                hit = k; break
        if hit:
            line = "KNOWN-FINDING: property=%s %s [%s]" % (ctx.prop, hit["desc"], v["signature"])
            if line not in printed: printed.append(line)
        else:
            unknown.append(v)
    failed = [o for o in ctx.obligations if not o["ok"]]
    # a failed proof/correspondence obligation with no concrete violation attached is itself a violation
    if failed and not unknown:
        ctx.violation("obligation-failed:" + ",".join(o["name"] for o in failed[:6]),
                      "; ".join("%s: %s" % (o["name"], o["detail"][:300]) for o in failed[:6]),
                      {"failed_obligations": failed}, concrete=False)
        unknown = unknown + [ctx.violations[-1]]
    for l in printed: print(l)
    rc = 0
    EVD = os.environ.get("VERIF_EVIDENCE_DIR", os.path.join(VERIF, "evidence"))   # mutation experiments write elsewhere
    os.makedirs(os.path.join(EVD, "replays"), exist_ok=True)
    for i, v in enumerate(unknown):
        rp = os.path.join(EVD, "replays", "%s-%d-%d.json" % (ctx.prop, ctx.seed, i))
        json.dump({"property": ctx.prop, "signature": v["signature"], "detail": v["detail"], "replay": v["replay"],
                   "failed_obligations": failed, "seed": ctx.seed, "tier": ctx.tier,
                   "command": "cd /verif && VERIF_SEED=%d ./check %s --tier %s" % (ctx.seed, ctx.prop, ctx.tier)}, open(rp, "w"), indent=1)
        print("VIOLATION property=%s replay=%s%s" % (ctx.prop, rp, "" if v["concrete"] else " no-failing-input-found"))
        rc = 1
        if i >= 4: break
    obl = [o for o in ctx.obligations]
    cov = dict(ctx.coverage)
    cov["obligations"] = len(obl)
    cov["discharged"] = len([o for o in obl if o["ok"]])
    cov["checker_cmd"] = checker_cmd or "make -C coq Properties_%s.vo (coqc 8.16.1) + exact correspondence (xrat build of /repo headers vs extracted model)" % ctx.prop
    cov["trusted_base"] = ctx.trusted
    cov["distinct_nontrivial"] = len(ctx.classes)
    cov["obligation_list"] = [{"name": o["name"], "kind": o["kind"], "ok": o["ok"]} for o in obl]
    if explanation: cov["explanation"] = explanation
    cov["samples"] = cov.get("samples", [])[:8]
    if ctx.notes: cov["notes"] = ctx.notes
    ev = {"property_id": ctx.prop, "tier": "thorough" if ctx.tier == "thorough" else "quick", "seed": ctx.seed, "level": level,
          "coverage": cov, "assumptions": ctx.assumptions, "wall_s": round(time.time() - ctx.t0, 2),
          "violations": len(unknown), "known_findings_reported": printed}
    os.makedirs(EVD, exist_ok=True)
    json.dump(ev, open(os.path.join(EVD, "%s.json" % ctx.prop), "w"), indent=1)
    ctx.cleanup()
    print("check %s tier=%s seed=%d: obligations %d/%d discharged, evaluations=%d, classes=%d, violations=%d, %.1fs" %
          (ctx.prop, ctx.tier, ctx.seed, cov["discharged"], cov["obligations"], cov.get("evaluations", 0), len(ctx.classes), len(unknown), time.time() - ctx.t0))
    return rc
