// C11 "update() and solve() do not allocate" -- implementation-side check (double).
//
//   -DBACKEND=0 DenseSolver<double>; 1..4 SparseSolver<double,int,Mode> (KKT_FULL, EQ_ELIMINATED, INEQ_ELIMINATED, ALL_ELIMINATED)
//   both the Ruiz and the identity preconditioner are run in every build.
//
// (1) alloc_interpose.cpp counts every operator new/delete and malloc/calloc/realloc/free/posix_memalign/aligned_alloc of the
//     whole process; the counters are armed exactly around update() and solve().  Any event is a violation.
// (2) Eigen's own run-time check is on as the library intends it (fwd.hpp: PIQP_EIGEN_CHECK_MALLOC -> EIGEN_RUNTIME_NO_MALLOC,
//     Eigen::internal::set_is_malloc_allowed(false) around the calls); eigen_assert is routed to a recorder instead of abort().
//     EIGEN_STACK_ALLOCATION_LIMIT is raised (the property excludes the product kernels' scratch, which Eigen places on the
//     heap only above that limit); the work runs in a thread with a large stack.
// (3) The size (and the storage address) of every workspace member of the solver is recorded after setup() and compared after
//     every update()/solve(): the implementation-side image of theorem shapes_invariant (Properties_C11.v).
//
// histories: setup ; (update(random block subset, reuse random, bound pattern changes) | solve)* with feasible, primal
// infeasible and dual infeasible problems, tiny max_iter, and fault plans for hook H1 (NUMERICS exits, retries).
// usage: drv_alloc <seed> <n_histories> <n_max> [only_history_index]
#define PIQP_EIGEN_CHECK_MALLOC
#define EIGEN_RUNTIME_NO_MALLOC
#ifndef EIGEN_STACK_ALLOCATION_LIMIT
#define EIGEN_STACK_ALLOCATION_LIMIT (32 * 1024 * 1024)
#endif
#include <cstdio>
static long g_eigen_asserts = 0; static char g_eigen_msg[512];
static void verif_eigen_assert_fail(const char* expr, const char* file, int line)
{
    if (g_eigen_asserts++ == 0) snprintf(g_eigen_msg, sizeof g_eigen_msg, "%s (%s:%d)", expr, file, line);
}
#define eigen_assert(x) do { if (!(x)) verif_eigen_assert_fail(#x, __FILE__, __LINE__); } while (0)

#include "alloc_interpose.cpp"

#include <cstdlib>
#include <cstring>
#include <cstdint>
#include <cmath>
#include <string>
#include <vector>
#include <set>
#include <map>
#include <sstream>
#include <memory>
#include <functional>
#include <limits>
#include <algorithm>
#include <pthread.h>
#include <Eigen/Dense>
#include <Eigen/Sparse>
#include <Eigen/Cholesky>

#ifndef BACKEND
#define BACKEND 0
#endif

#include "verif_hooks.hpp"
#include "piqp/utils/optional.hpp"
#define private public
#define protected public
#define class struct
#include "piqp/piqp.hpp"
#undef class
#undef private
#undef protected

#include "qp_gen.hpp"

using namespace piqp;

#if BACKEND == 0
static const bool kSparse = false; static const char* kBackend = "dense";
template<typename Pre> struct SolverOf { typedef DenseSolver<double, Pre> type; };
typedef dense::RuizEquilibration<double> PreRuiz; typedef dense::IdentityPreconditioner<double> PreIdent;
typedef Mat<double> MatT;
#else
static const bool kSparse = true;
#if BACKEND == 1
static const int kMode = KKTMode::KKT_FULL; static const char* kBackend = "sparse_full";
#elif BACKEND == 2
static const int kMode = KKTMode::KKT_EQ_ELIMINATED; static const char* kBackend = "sparse_eq";
#elif BACKEND == 3
static const int kMode = KKTMode::KKT_INEQ_ELIMINATED; static const char* kBackend = "sparse_ineq";
#else
static const int kMode = KKTMode::KKT_ALL_ELIMINATED; static const char* kBackend = "sparse_all";
#endif
template<typename Pre> struct SolverOf { typedef SparseSolver<double, int, kMode, Pre> type; };
typedef sparse::RuizEquilibration<double, int> PreRuiz; typedef sparse::IdentityPreconditioner<double, int> PreIdent;
typedef SparseMat<double, int> MatT;
#endif

// ------------------------------------------------------------------ reporting
static long g_viol = 0, g_updates = 0, g_solves = 0, g_members = 0;
static std::string g_hist;
static std::set<std::string> g_classes;
static void viol(const std::string& sig, const std::string& detail)
{
    g_viol++;
    static std::map<std::string, int> printed;          // at most 3 lines per distinct signature (the total is in DONE)
    if (printed[sig]++ < 3) { printf("VIOL %s | %s | %s\n", sig.c_str(), g_hist.c_str(), detail.c_str()); fflush(stdout); }
}
#include <cxxabi.h>
// "piqp::dense::KKT<double>::solve(...)" -> "piqp::dense::KKT::solve"
static std::string short_name(const std::string& mangled)
{
    int st = 0; char* d = abi::__cxa_demangle(mangled.c_str(), nullptr, nullptr, &st);
    std::string full = (st == 0 && d) ? d : mangled; free(d);
    std::string out; int depth = 0;
    for (char ch : full) { if (ch == '<') depth++; else if (ch == '>') depth--; else if (ch == '(' && depth == 0) break; else if (depth == 0) out += ch; }
    size_t sp = out.rfind(' '); if (sp != std::string::npos) out = out.substr(sp + 1);       // drop a leading return type
    return out;
}
static std::string frame_fn(const char* sym)
{
    std::string s = sym; size_t a = s.find('('), b = s.find('+', a == std::string::npos ? 0 : a);
    if (a != std::string::npos && b != std::string::npos && b > a + 1) return s.substr(a + 1, b - a - 1);
    return "";
}
// the allocation sites of the last armed window: text for the detail, and the innermost piqp function of each site
static std::string events_text(std::set<std::string>* sites)
{
    std::vector<std::pair<std::string, long>> agg;      // (description, count), distinct call chains merged
    for (int k = 0; k < aint::g_nev; k++) {
        const aint::Event& e = aint::g_ev[k];
        if (e.kind == 'f') continue;
        char** sy = backtrace_symbols(e.frames, e.nframes);
        std::string site, chain; int shown = 0;
        for (int i = 1; sy && i < e.nframes; i++) {
            std::string fn = frame_fn(sy[i]); if (fn.empty()) continue;
            std::string sh = short_name(fn);
            if (sh.find("aint") != std::string::npos || sh == "malloc" || sh == "free" || sh == "posix_memalign" || sh.find("operator new") != std::string::npos || sh.find("operator delete") != std::string::npos) continue;
            if (site.empty() && sh.find("piqp::") == 0) site = sh;
            if (shown < 5) { chain += " <- " + sh; shown++; }
        }
        free(sy);
        if (site.empty()) site = "unknown";
        if (sites) sites->insert(site);
        std::ostringstream os; os << "site " << site << ": " << (e.kind == 'r' ? "realloc" : e.kind == 'n' ? "operator new" : "malloc-family") << " of " << e.size << " bytes, stack" << chain;
        bool found = false; for (auto& a : agg) if (a.first == os.str()) { a.second += e.count; found = true; break; }
        if (!found) agg.push_back(std::make_pair(os.str(), e.count));
    }
    std::ostringstream out; for (auto& a : agg) out << " [" << a.second << " x " << a.first << "]";
    return out.str();
}

// ------------------------------------------------------------------ workspace snapshot: (name, size, storage address)
struct Member { std::string name; long size; const void* ptr; };
typedef std::vector<Member> Snapshot;
template<typename V> static void add_vec(Snapshot& S, const char* name, const V& v) { S.push_back({name, (long) v.size(), (const void*) v.data()}); }
static void add_mat(Snapshot& S, const char* name, const Mat<double>& m)
{ S.push_back({std::string(name) + ".rows", (long) m.rows(), nullptr}); S.push_back({std::string(name) + ".cols", (long) m.cols(), (const void*) m.data()}); }
static void add_mat(Snapshot& S, const char* name, const SparseMat<double, int>& m)
{
    S.push_back({std::string(name) + ".rows", (long) m.rows(), nullptr}); S.push_back({std::string(name) + ".cols", (long) m.cols(), (const void*) m.outerIndexPtr()});
    S.push_back({std::string(name) + ".nnz", (long) m.nonZeros(), (const void*) m.valuePtr()});
    S.push_back({std::string(name) + ".capacity", (long) m.data().allocatedSize(), (const void*) m.innerIndexPtr()});
    S.push_back({std::string(name) + ".compressed", (long) m.isCompressed(), nullptr});
}
template<typename Pre> static void snap_pre(Snapshot& S, const Pre& pc, typename std::enable_if<std::is_same<Pre, PreRuiz>::value>::type* = nullptr)
{
    add_vec(S, "preconditioner.delta", pc.delta); add_vec(S, "preconditioner.delta_lb", pc.delta_lb); add_vec(S, "preconditioner.delta_ub", pc.delta_ub);
    add_vec(S, "preconditioner.delta_inv", pc.delta_inv); add_vec(S, "preconditioner.delta_lb_inv", pc.delta_lb_inv); add_vec(S, "preconditioner.delta_ub_inv", pc.delta_ub_inv);
}
template<typename Pre> static void snap_pre(Snapshot&, const Pre&, typename std::enable_if<!std::is_same<Pre, PreRuiz>::value>::type* = nullptr) {}

template<typename Solver> static Snapshot snapshot(const Solver& s)
{
    Snapshot S; long saved_asserts = g_eigen_asserts;      // accessors such as LLT::matrixLLT() assert "initialized"; not of interest here
#define V(path) add_vec(S, #path, s.path);
#define M(path) add_mat(S, #path, s.path);
    V(m_result.x) V(m_result.y) V(m_result.z) V(m_result.z_lb) V(m_result.z_ub) V(m_result.s) V(m_result.s_lb) V(m_result.s_ub)
    V(m_result.zeta) V(m_result.lambda) V(m_result.nu) V(m_result.nu_lb) V(m_result.nu_ub)
    V(rx) V(ry) V(rz) V(rz_lb) V(rz_ub) V(rs) V(rs_lb) V(rs_ub) V(rx_nr) V(ry_nr) V(rz_nr) V(rz_lb_nr) V(rz_ub_nr)
    V(dx) V(dy) V(dz) V(dz_lb) V(dz_ub) V(ds) V(ds_lb) V(ds_ub)
    M(m_data.P_utri) M(m_data.AT) M(m_data.GT) V(m_data.c) V(m_data.b) V(m_data.h)
    V(m_data.x_lb_idx) V(m_data.x_ub_idx) V(m_data.x_lb_scaling) V(m_data.x_ub_scaling) V(m_data.x_lb_n) V(m_data.x_ub)
    snap_pre(S, s.m_preconditioner);
    V(m_kkt.m_s) V(m_kkt.m_s_lb) V(m_kkt.m_s_ub) V(m_kkt.m_z_inv) V(m_kkt.m_z_lb_inv) V(m_kkt.m_z_ub_inv)
    V(m_kkt.kkt_diag) V(m_kkt.rhs_z_bar) V(m_kkt.rhs)
#if BACKEND == 0
    M(m_kkt.kkt_mat) M(m_kkt.llt.matrixLLT()) M(m_kkt.AT_A) M(m_kkt.W_delta_inv_G) V(m_kkt.sol) V(m_kkt.err_corr) V(m_kkt.ref_sol)
#else
    M(m_kkt.PKPt) V(m_kkt.PKi) V(m_kkt.ordering.P) V(m_kkt.ordering.P_inv)
    V(m_kkt.ldlt.etree) V(m_kkt.ldlt.L_cols) V(m_kkt.ldlt.L_nnz) V(m_kkt.ldlt.L_ind) V(m_kkt.ldlt.L_vals) V(m_kkt.ldlt.D) V(m_kkt.ldlt.D_inv)
    V(m_kkt.ldlt.work.flag) V(m_kkt.ldlt.work.pattern) V(m_kkt.ldlt.work.y)
    V(m_kkt.rhs_perm) V(m_kkt.sol_perm) V(m_kkt.err_corr_perm) V(m_kkt.ref_sol_perm)
    V(m_kkt.P_utri_to_Ki)
#if BACKEND == 1
    V(m_kkt.P_diagonal) V(m_kkt.AT_to_Ki) V(m_kkt.GT_to_Ki)
#elif BACKEND == 2
    M(m_kkt.A) M(m_kkt.AT_A) V(m_kkt.tmp_scatter) V(m_kkt.AT_A_to_Ki) V(m_kkt.GT_to_Ki)
#elif BACKEND == 3
    M(m_kkt.G) M(m_kkt.GT_W_delta_inv_G) V(m_kkt.tmp_scatter) V(m_kkt.AT_to_Ki) V(m_kkt.GT_G_to_Ki)
#else
    M(m_kkt.A) M(m_kkt.G) M(m_kkt.AT_A) M(m_kkt.GT_W_delta_inv_G) V(m_kkt.tmp_scatter) V(m_kkt.AT_A_to_Ki) V(m_kkt.GT_G_to_Ki)
#endif
#endif
#undef V
#undef M
    g_eigen_asserts = saved_asserts;
    return S;
}
// sizes member by member; storage addresses as a multiset (the library may std::swap two equally sized vectors, e.g. sol/ref_sol)
static void compare_snapshots(const Snapshot& a, const Snapshot& b, const char* pre, const std::string& op, const std::string& dims)
{
    g_members += (long) a.size();
    for (size_t i = 0; i < a.size() && i < b.size(); i++)
        if (a[i].size != b[i].size) {
            std::ostringstream os; os << a[i].name << " had size " << a[i].size << " after setup and " << b[i].size << " after " << op << " (" << dims << ")";
            viol(std::string("shape:") + kBackend + ":" + pre + ":" + a[i].name, os.str());
        }
    std::vector<const void*> pa, pb; for (auto& m : a) if (m.ptr) pa.push_back(m.ptr); for (auto& m : b) if (m.ptr) pb.push_back(m.ptr);
    std::sort(pa.begin(), pa.end()); std::sort(pb.begin(), pb.end());
    if (pa != pb) {
        std::string who;
        for (size_t i = 0; i < a.size() && i < b.size(); i++) if (a[i].ptr != b[i].ptr && !std::binary_search(pa.begin(), pa.end(), b[i].ptr)) { who = a[i].name; break; }
        viol(std::string("storage:") + kBackend + ":" + pre + ":" + who, "the storage of " + who + " moved during " + op + " (" + dims + ")");
    }
}

// ------------------------------------------------------------------ arguments (built BEFORE the counters are armed)
typedef Eigen::Map<const Vec<double>> CVMap;
#if BACKEND == 0
typedef CMatRef<double> MRef;
static MatT build(const DMat& M) { MatT A(M.r, M.c); for (int j = 0; j < M.c; j++) for (int i = 0; i < M.r; i++) A(i, j) = M.at(i, j); return A; }
#else
typedef CSparseMatRef<double, int> MRef;
static MatT build(const DMat& M)
{
    MatT A(M.r, M.c); std::vector<int> cnt(M.c, 0);
    for (int j = 0; j < M.c; j++) for (int i = 0; i < M.r; i++) if (M.mk(i, j)) cnt[j]++;
    A.reserve(cnt);
    for (int j = 0; j < M.c; j++) for (int i = 0; i < M.r; i++) if (M.mk(i, j)) A.insert(i, j) = M.at(i, j);
    A.makeCompressed(); return A;
}
#endif
template<typename O, typename X> static optional<O> mk_opt(bool present, const X& x) { if (present) return optional<O>(O(x)); return nullopt; }
static Vec<double> to_vec(bool present, const std::vector<double>& v) { Vec<double> r(present ? (Eigen::Index) v.size() : 0); if (present) for (size_t i = 0; i < v.size(); i++) r((Eigen::Index) i) = v[i]; return r; }
struct Args {
    MatT P, A, G; Vec<double> c, b, h, lb, ub;
    optional<MRef> oP, oA, oG; optional<CVecRef<double>> oc, ob, oh, olb, oub;
    Args(const Problem& pb, int mask)
        : P((mask & U_P) ? build(pb.P) : MatT()), A((mask & U_A) ? build(pb.A) : MatT()), G((mask & U_G) ? build(pb.G) : MatT()),
          c(to_vec(mask & U_c, pb.c)), b(to_vec(mask & U_b, pb.b)), h(to_vec(mask & U_h, pb.h)), lb(to_vec(mask & U_lb, pb.lb)), ub(to_vec(mask & U_ub, pb.ub)),
          oP(mk_opt<MRef>(mask & U_P, P)), oA(mk_opt<MRef>(mask & U_A, A)), oG(mk_opt<MRef>(mask & U_G, G)),
          oc(mk_opt<CVecRef<double>>(mask & U_c, c)), ob(mk_opt<CVecRef<double>>(mask & U_b, b)), oh(mk_opt<CVecRef<double>>(mask & U_h, h)),
          olb(mk_opt<CVecRef<double>>(mask & U_lb, lb)), oub(mk_opt<CVecRef<double>>(mask & U_ub, ub)) {}
    Args(const Args&) = delete;
};

static const char* status_name(Status s)
{
    switch (s) { case PIQP_SOLVED: return "SOLVED"; case PIQP_MAX_ITER_REACHED: return "MAX_ITER_REACHED"; case PIQP_PRIMAL_INFEASIBLE: return "PRIMAL_INFEASIBLE";
                 case PIQP_DUAL_INFEASIBLE: return "DUAL_INFEASIBLE"; case PIQP_NUMERICS: return "NUMERICS"; case PIQP_UNSOLVED: return "UNSOLVED"; case PIQP_INVALID_SETTINGS: return "INVALID_SETTINGS"; }
    return "OTHER";
}

struct HistPlan { int nmin, nmax; int cycles; int kind; };

template<typename Solver> static void run_history(Rng& R, const HistPlan& hp, const char* pre)
{
    Problem pb = kSparse ? gen_problem(R, hp.nmax, true, hp.nmin, std::max(1, hp.nmax / 4), std::max(2, hp.nmax / 2), std::min(0.5, 4.0 / hp.nmax + 0.02 * R.unit()))
                         : gen_problem(R, hp.nmax, false, hp.nmin, std::max(1, hp.nmax / 4), std::max(2, hp.nmax / 2));
    int kind = hp.kind;
    if (kind == 1 && !make_primal_infeasible(pb)) kind = 0;
    if (kind == 2) make_dual_infeasible(pb);
    std::unique_ptr<Solver> S(new Solver());
    S->settings().verbose = false;
    int mi = R.range(0, 4); S->settings().max_iter = mi == 0 ? R.range(1, 3) : (mi == 1 ? 12 : 200);
    S->settings().preconditioner_scale_cost = R.coin(0.3);
    if (R.coin(0.2)) S->settings().iterative_refinement_always_enabled = true;
    if (R.coin(0.2)) S->settings().max_factor_retires = R.range(1, 3);
    std::ostringstream dd; dd << "n=" << pb.n << " p=" << pb.p << " m=" << pb.m << " kind=" << kind << " max_iter=" << S->settings().max_iter;
    const std::string dims0 = dd.str();
    int full = U_P | U_c | (pb.p > 0 ? (U_A | U_b) : 0) | (pb.m > 0 ? (U_G | U_h) : 0) | (pb.has_lb ? U_lb : 0) | (pb.has_ub ? U_ub : 0);
    vhook::reset_fault_plan();
    { Args a(pb, full); S->setup(*a.oP, *a.oc, a.oA, a.ob, a.oG, a.oh, a.olb, a.oub); }
    if (!S->m_setup_done) { viol(std::string("setup-rejected:") + kBackend, dims0); return; }
    const Snapshot snap0 = snapshot(*S);
    long unarmed_seen = aint::g_total_unarmed;
    if (unarmed_seen == 0) viol(std::string("interposer-blind:") + kBackend, "no allocation was seen during setup: the interposer is not in effect");

    auto after = [&](const char* opkind, const std::string& op, const aint::Counters& c, const std::string& extra) {
        std::ostringstream dims; dims << dims0 << " n_lb=" << S->m_data.n_lb << " n_ub=" << S->m_data.n_ub << extra;
        std::string ref = std::string(":refine=") + (S->m_enable_iterative_refinement ? "1" : "0");
        if (c.n_alloc || c.n_free || c.n_realloc) {
            std::set<std::string> sites; std::string ev = events_text(&sites);
            std::string sl; for (auto& x : sites) sl += (sl.empty() ? "" : "+") + x;
            std::ostringstream os; os << op << ": " << c.n_alloc << " allocations (" << c.bytes << " bytes), " << c.n_realloc << " reallocations, " << c.n_free << " frees; " << dims.str() << ev;
            if (g_eigen_asserts) os << "; Eigen's EIGEN_RUNTIME_NO_MALLOC check fired " << g_eigen_asserts << " time(s): " << g_eigen_msg;
            viol(std::string("alloc:") + kBackend + ":" + pre + ":" + opkind + ref + ":site=" + sl, os.str()); g_eigen_asserts = 0;
        }
        if (g_eigen_asserts) {
            std::ostringstream os; os << op << ": eigen_assert failed " << g_eigen_asserts << " time(s), first: " << g_eigen_msg << "; " << dims.str();
            viol(std::string("eigen-assert:") + kBackend + ":" + pre + ":" + opkind + ref, os.str()); g_eigen_asserts = 0;
        }
        compare_snapshots(snap0, snapshot(*S), pre, op, dims.str());
    };
    auto do_solve = [&](int fault_kind, const std::string& op) {
        std::vector<int> plan;
        if (fault_kind == 1) plan.assign(4000, 1);                                                  // never factorises: NUMERICS at the initial factorisation
        else if (fault_kind == 2) { plan.assign(2 + R.range(0, 6), 0); plan.resize(plan.size() + 40, 1); }   // gives up inside the main loop
        else if (fault_kind == 3) { for (int i = 0; i < 60; i++) plan.push_back(R.coin(0.3)); }          // transient failures, retries
        vhook::set_fault_plan(plan);
        PIQP_EIGEN_MALLOC_NOT_ALLOWED(); aint::arm();
        Status st = S->solve();
        aint::Counters c = aint::disarm(); PIQP_EIGEN_MALLOC_ALLOWED();
        vhook::reset_fault_plan();
        g_solves++;
        std::ostringstream ex; ex << " status=" << status_name(st) << " iter=" << S->result().info.iter << " faults=" << fault_kind << " refinement=" << (int) S->m_enable_iterative_refinement;
        after("solve", op, c, ex.str());
        std::ostringstream cl; cl << kBackend << ":" << pre << ":solve:" << status_name(st) << ":f" << fault_kind << ":ref" << (int) S->m_enable_iterative_refinement << ":p" << (pb.p > 0) << "m" << (pb.m > 0) << "lb" << (S->m_data.n_lb > 0) << "ub" << (S->m_data.n_ub > 0)
                               << ":big" << (pb.n >= 64);
        g_classes.insert(cl.str());
    };
    auto do_update = [&](int mask, bool reuse, const std::string& op) {
        isize nlb0 = S->m_data.n_lb, nub0 = S->m_data.n_ub;
        Args a(pb, mask);
        PIQP_EIGEN_MALLOC_NOT_ALLOWED(); aint::arm();
        S->update(a.oP, a.oc, a.oA, a.ob, a.oG, a.oh, a.olb, a.oub, reuse);
        aint::Counters c = aint::disarm(); PIQP_EIGEN_MALLOC_ALLOWED();
        g_updates++;
        std::ostringstream ex; ex << " mask=" << mask << " reuse=" << reuse << " n_lb:" << nlb0 << "->" << S->m_data.n_lb << " n_ub:" << nub0 << "->" << S->m_data.n_ub;
        after("update", op, c, ex.str());
        std::ostringstream cl; cl << kBackend << ":" << pre << ":update:reuse" << reuse << ":mat" << ((mask & (U_P | U_A | U_G)) != 0) << ":pattern" << (nlb0 != S->m_data.n_lb || nub0 != S->m_data.n_ub) << ":big" << (pb.n >= 64);
        g_classes.insert(cl.str());
    };
    int k0 = R.range(0, 9); do_solve(k0 <= 6 ? 0 : k0 - 6, "solve#0");
    for (int k = 0; k < hp.cycles; k++) {
        int mask = (int) (R.next() & 255); if (pb.p == 0) mask &= ~(U_A | U_b); if (pb.m == 0) mask &= ~(U_G | U_h);
        if (kind == 2) mask &= ~(U_P | U_c | U_ub);          // keep the problem unbounded
        if (R.coin(0.1)) mask = 0;
        if (R.coin(0.3)) mask |= (U_lb | U_ub) & (kind == 2 ? U_lb : 255);    // bound-pattern changes are the interesting updates
        bool reuse = R.coin(0.5);
        perturb(R, pb, mask);
        if (kind == 1) make_primal_infeasible(pb);
        if (kind == 2) for (auto& x : pb.lb) if (!(x > -1e29)) x = -1.0;
        do_update(mask, reuse, "update#" + std::to_string(k + 1));
        if (R.coin(0.3)) { int m2 = (int) (R.next() & (U_c | U_b | U_h)); if (pb.p == 0) m2 &= ~U_b; if (pb.m == 0) m2 &= ~U_h; if (kind == 2) m2 &= ~U_c; perturb(R, pb, m2); if (kind == 1) make_primal_infeasible(pb);
                           do_update(m2, R.coin(), "update#" + std::to_string(k + 1) + "b"); }
        int fk = R.range(0, 9); do_solve(fk <= 6 ? 0 : fk - 6, "solve#" + std::to_string(k + 1));
        if (R.coin(0.25)) do_solve(0, "solve#" + std::to_string(k + 1) + "again");
    }
}

struct MainArgs { int argc; char** argv; int rc; };
static void* real_main(void* vp)
{
    MainArgs* ma = (MainArgs*) vp; int argc = ma->argc; char** argv = ma->argv;
    uint64_t seed = strtoull(argv[1], nullptr, 10); int nh = atoi(argv[2]); int nmax = atoi(argv[3]); int only = argc > 4 ? atoi(argv[4]) : -1;
    aint::warm_up();
    { void* f[2]; int k = backtrace(f, 2); char** s = backtrace_symbols(f, k); free(s); }
    for (int i = 0; i < nh; i++) {
        Rng R(seed * 1000003ull + (uint64_t) i * 7919ull + (uint64_t) BACKEND * 104729ull);
        HistPlan hp; hp.cycles = R.range(1, 4); hp.kind = (i % 5 == 3) ? 1 : (i % 5 == 4 ? 2 : 0);
        // most histories small (many of them), every fourth one at full size
        if (i % 4 == 0) { hp.nmax = nmax; hp.nmin = std::max(1, nmax / 2); } else { hp.nmax = std::max(3, nmax / 10); hp.nmin = 1; }
        int precond = (i / 2) % 2;
        if (only >= 0 && i != only) continue;
        std::ostringstream os; os << "backend=" << kBackend << " precond=" << (precond == 0 ? "ruiz" : "identity") << " seed=" << seed << " hist=" << i << " kind=" << hp.kind << " cycles=" << hp.cycles << " nmax=" << hp.nmax;
        g_hist = os.str();
        printf("HIST %d %s\n", i, g_hist.c_str()); fflush(stdout);
        if (precond == 0) run_history<typename SolverOf<PreRuiz>::type>(R, hp, "ruiz"); else run_history<typename SolverOf<PreIdent>::type>(R, hp, "identity");
    }
    for (auto& c : g_classes) printf("CLASS %s\n", c.c_str());
    printf("DONE backend=%s histories=%d updates=%ld solves=%ld members_compared=%ld violations=%ld stack_limit=%ld\n", kBackend, nh, g_updates, g_solves, g_members, g_viol, (long) EIGEN_STACK_ALLOCATION_LIMIT);
    ma->rc = 0; return nullptr;
}
int main(int argc, char** argv)
{
    if (argc < 4) { fprintf(stderr, "usage: %s seed n_histories n_max [only]\n", argv[0]); return 2; }
    setvbuf(stdout, nullptr, _IOLBF, 1 << 16);
    MainArgs ma = {argc, argv, 1};
    pthread_attr_t at; pthread_attr_init(&at); pthread_attr_setstacksize(&at, (size_t) 1 << 30);     // alloca'd product scratch up to the raised limit
    pthread_t th; if (pthread_create(&th, &at, real_main, &ma) != 0) { fprintf(stderr, "cannot create the worker thread\n"); return 3; }
    pthread_join(th, nullptr);
    return ma.rc;
}
