// C20 driver: save_*_model / load_*_model round trip on the real code (double), bit-for-bit, plus a plain-libmatio
// dump of the written file (dims / ir / jc / data of every variable) for comparison with the Gallina codec
// (coq/MatIO.v: encode_dense / encode_sparse / save_model).
//
//   drv_matio <workdir> <casefile>          all temporary .mat files are created inside <workdir> (the process
//                                           also chdir()s there: Mat_VarDelete creates its temporary file in the cwd)
//
// Case file (whitespace separated tokens, one item per line):
//   case <id> dense|sparse pre=<0|1>        pre=1: the target file already holds another model (save over it)
//   den <name> <rows> <cols> <hex64>*       dense matrix, column-major coefficients as raw IEEE-754 bit patterns
//   vec <name> <len> <hex64>*
//   spm <name> <rows> <cols> <extra> <nnz> outer <cols+1 ints> inner <nnz ints> vals <nnz hex64>
//                                           compressed CSC arrays, copied verbatim into the Eigen::SparseMatrix;
//                                           extra>0: the matrix is then switched to un-compressed mode with
//                                           `extra` reserved free slots per column (reserve()).
//   end
// Output, one observation per line:  <id>.<op>.<key> <tokens>
//   <id>.in.<name>    the model object handed to save_*  (canonical dump, see dump_*)
//   <id>.out.<name>   the model object returned by load_*
//   <id>.file.<k>     k-th variable of the written file as plain libmatio returns it
//   <id>.status.rc    0
// Dumps:  dense/vec:  D <rows> <cols> | <hex64 column-major, via operator()(i,j)>
//         sparse   :  S <rows> <cols> comp=<0|1> | <outer of the compressed image> | <inner> | <vals>   (storage order)
//         file     :  name=<s> rank=<r> class=<c> dtype=<t> complex=<b> dims=<d0>,<d1> dense | <hex64*>
//                     name=... sparse nzmax=<> nir=<> njc=<> ndata=<> | <ir> | <jc> | <hex64*>
#include <cstdio>
#include <cstdlib>
#include <cstring>
#include <cstdint>
#include <string>
#include <vector>
#include <map>
#include <iostream>
#include <fstream>
#include <sstream>
#include <unistd.h>
#include <Eigen/Dense>
#include <Eigen/Sparse>
#include "piqp/utils/io_utils.hpp"

#ifdef IDX64
typedef long long I;
#else
typedef int I;
#endif
typedef double T;
using namespace piqp;
typedef SparseMat<T, I> SpM;

static uint64_t bits(double d) { uint64_t u; std::memcpy(&u, &d, 8); return u; }
static double from_bits(uint64_t u) { double d; std::memcpy(&d, &u, 8); return d; }
static uint64_t parse_hex(const std::string& s) { return std::strtoull(s.c_str(), nullptr, 16); }

static std::string hx(uint64_t u) { char b[32]; std::snprintf(b, sizeof b, "%016llx", (unsigned long long) u); return b; }

template<class M> static std::string dump_dense(const M& m)
{
    std::ostringstream o;
    o << "D " << m.rows() << " " << m.cols() << " |";
    for (Eigen::Index j = 0; j < m.cols(); j++)
        for (Eigen::Index i = 0; i < m.rows(); i++) o << " " << hx(bits(m(i, j)));
    return o.str();
}

static std::string dump_sparse(const SpM& m)
{
    std::ostringstream o, oi, ov, oo;
    o << "S " << m.rows() << " " << m.cols() << " comp=" << (m.isCompressed() ? 1 : 0) << " |";
    const I* outer = m.outerIndexPtr();
    const I* innz = m.innerNonZeroPtr();
    const I* inner = m.innerIndexPtr();
    const T* val = m.valuePtr();
    long long cnt = 0;
    for (Eigen::Index j = 0; j < m.outerSize(); j++) {
        oo << " " << cnt;
        long long s = outer[j], e = innz ? (long long) outer[j] + innz[j] : (long long) outer[j + 1];
        for (long long p = s; p < e; p++) { oi << " " << (long long) inner[p]; ov << " " << hx(bits(val[p])); cnt++; }
    }
    oo << " " << cnt;
    o << oo.str() << " |" << oi.str() << " |" << ov.str();
    return o.str();
}

static void dump_file(const std::string& id, const std::string& path)
{
    mat_t* f = Mat_Open(path.c_str(), MAT_ACC_RDONLY);
    if (!f) { std::printf("%s.file.error cannot-open\n", id.c_str()); return; }
    int k = 0;
    matvar_t* v;
    while ((v = Mat_VarReadNext(f)) != nullptr) {
        std::ostringstream o;
        o << "name=" << (v->name ? v->name : "?") << " rank=" << v->rank << " class=" << (int) v->class_type
          << " dtype=" << (int) v->data_type << " complex=" << (v->isComplex ? 1 : 0) << " dims=";
        size_t numel = 1;
        for (int d = 0; d < v->rank; d++) { o << (d ? "," : "") << v->dims[d]; numel *= v->dims[d]; }
        if (v->class_type == MAT_C_SPARSE) {
            mat_sparse_t* s = (mat_sparse_t*) v->data;
            if (!s) { o << " sparse NULL"; }
            else {
                o << " sparse nzmax=" << s->nzmax << " nir=" << s->nir << " njc=" << s->njc << " ndata=" << s->ndata << " |";
                for (mat_uint32_t q = 0; q < s->nir; q++) o << " " << s->ir[q];
                o << " |";
                for (mat_uint32_t q = 0; q < s->njc; q++) o << " " << s->jc[q];
                o << " |";
                if (v->data_type == MAT_T_DOUBLE && !v->isComplex)
                    for (mat_uint32_t q = 0; q < s->ndata; q++) o << " " << hx(bits(((double*) s->data)[q]));
                else o << " ?";
            }
        } else {
            o << " dense |";
            if (v->data_type == MAT_T_DOUBLE && !v->isComplex) {
                if (v->data) for (size_t q = 0; q < numel; q++) o << " " << hx(bits(((double*) v->data)[q]));
            } else o << " ?";
        }
        std::printf("%s.file.%d %s\n", id.c_str(), k, o.str().c_str());
        k++;
        Mat_VarFree(v);
    }
    std::printf("%s.file.count %d\n", id.c_str(), k);
    Mat_Close(f);
}

struct Item { std::string kind, name; long long rows = 0, cols = 0, extra = 0; std::vector<long long> outer, inner; std::vector<uint64_t> vals; };
struct Case { std::string id, kind; int pre = 0; std::map<std::string, Item> items; };

static Mat<T> mk_dense(const Item& it)
{
    Mat<T> m(it.rows, it.cols);
    for (long long j = 0; j < it.cols; j++) for (long long i = 0; i < it.rows; i++) m(i, j) = from_bits(it.vals[(size_t) (i + j * it.rows)]);
    return m;
}
static Vec<T> mk_vec(const Item& it)
{
    Vec<T> v(it.rows);
    for (long long i = 0; i < it.rows; i++) v(i) = from_bits(it.vals[(size_t) i]);
    return v;
}
static void mk_sparse(const Item& it, SpM& m)
{
    m.resize(it.rows, it.cols);
    m.resizeNonZeros((Eigen::Index) it.inner.size());
    for (size_t j = 0; j < it.outer.size(); j++) m.outerIndexPtr()[j] = (I) it.outer[j];
    for (size_t q = 0; q < it.inner.size(); q++) { m.innerIndexPtr()[q] = (I) it.inner[q]; m.valuePtr()[q] = from_bits(it.vals[q]); }
    if (it.extra > 0) m.reserve(Eigen::Matrix<I, Eigen::Dynamic, 1>::Constant(it.cols, (I) it.extra));
}

static const char* NAMES[8] = {"P", "c", "A", "b", "G", "h", "x_lb", "x_ub"};

static int run_case(const Case& c, const std::string& work)
{
    const std::string path = work + "/" + c.id + ".mat";
    std::remove(path.c_str());
    for (int k = 0; k < 8; k++) if (!c.items.count(NAMES[k])) { std::printf("%s.status.error missing-%s\n", c.id.c_str(), NAMES[k]); return 1; }
    const Item &iP = c.items.at("P"), &iA = c.items.at("A"), &iG = c.items.at("G");
    Vec<T> cc = mk_vec(c.items.at("c")), b = mk_vec(c.items.at("b")), h = mk_vec(c.items.at("h")),
           xl = mk_vec(c.items.at("x_lb")), xu = mk_vec(c.items.at("x_ub"));
    if (c.kind == "dense") {
        if (c.pre) {   // the file already holds a model of another shape with other values
            Mat<T> P0 = Mat<T>::Constant(2, 2, 7.5); Vec<T> c0 = Vec<T>::Constant(2, -1.25);
            Mat<T> A0 = Mat<T>::Constant(1, 2, 3.0); Vec<T> b0 = Vec<T>::Constant(1, 9.0);
            dense::Model<T> pre(P0, c0, A0, b0, A0, b0, c0, c0);
            save_dense_model(pre, path);
        }
        dense::Model<T> model(Mat<T>::Zero(1, 1), Vec<T>::Zero(1));
        model.P = mk_dense(iP); model.A = mk_dense(iA); model.G = mk_dense(iG);
        model.c = cc; model.b = b; model.h = h; model.x_lb = xl; model.x_ub = xu;
        std::printf("%s.in.P %s\n%s.in.c %s\n%s.in.A %s\n%s.in.b %s\n%s.in.G %s\n%s.in.h %s\n%s.in.x_lb %s\n%s.in.x_ub %s\n",
                    c.id.c_str(), dump_dense(model.P).c_str(), c.id.c_str(), dump_dense(model.c).c_str(), c.id.c_str(), dump_dense(model.A).c_str(),
                    c.id.c_str(), dump_dense(model.b).c_str(), c.id.c_str(), dump_dense(model.G).c_str(), c.id.c_str(), dump_dense(model.h).c_str(),
                    c.id.c_str(), dump_dense(model.x_lb).c_str(), c.id.c_str(), dump_dense(model.x_ub).c_str());
        std::fflush(stdout);
        save_dense_model(model, path);
        dump_file(c.id, path);
        std::fflush(stdout);
        dense::Model<T> out = load_dense_model<T>(path);
        std::printf("%s.out.P %s\n%s.out.c %s\n%s.out.A %s\n%s.out.b %s\n%s.out.G %s\n%s.out.h %s\n%s.out.x_lb %s\n%s.out.x_ub %s\n",
                    c.id.c_str(), dump_dense(out.P).c_str(), c.id.c_str(), dump_dense(out.c).c_str(), c.id.c_str(), dump_dense(out.A).c_str(),
                    c.id.c_str(), dump_dense(out.b).c_str(), c.id.c_str(), dump_dense(out.G).c_str(), c.id.c_str(), dump_dense(out.h).c_str(),
                    c.id.c_str(), dump_dense(out.x_lb).c_str(), c.id.c_str(), dump_dense(out.x_ub).c_str());
    } else {
        if (c.pre) {
            SpM P0(2, 2); P0.insert(0, 0) = 7.5; P0.insert(1, 1) = 2.5; P0.makeCompressed();
            SpM A0(1, 2); A0.insert(0, 1) = 3.0; A0.makeCompressed();
            Vec<T> c0 = Vec<T>::Constant(2, -1.25); Vec<T> b0 = Vec<T>::Constant(1, 9.0);
            sparse::Model<T, I> pre(P0, c0, A0, b0, A0, b0, c0, c0);
            save_sparse_model(pre, path);
        }
        SpM P1(1, 1);
        sparse::Model<T, I> model(P1, Vec<T>::Zero(1), nullopt, nullopt, nullopt, nullopt, nullopt, nullopt);
        mk_sparse(iP, model.P); mk_sparse(iA, model.A); mk_sparse(iG, model.G);
        model.c = cc; model.b = b; model.h = h; model.x_lb = xl; model.x_ub = xu;
        std::printf("%s.in.P %s\n%s.in.c %s\n%s.in.A %s\n%s.in.b %s\n%s.in.G %s\n%s.in.h %s\n%s.in.x_lb %s\n%s.in.x_ub %s\n",
                    c.id.c_str(), dump_sparse(model.P).c_str(), c.id.c_str(), dump_dense(model.c).c_str(), c.id.c_str(), dump_sparse(model.A).c_str(),
                    c.id.c_str(), dump_dense(model.b).c_str(), c.id.c_str(), dump_sparse(model.G).c_str(), c.id.c_str(), dump_dense(model.h).c_str(),
                    c.id.c_str(), dump_dense(model.x_lb).c_str(), c.id.c_str(), dump_dense(model.x_ub).c_str());
        std::fflush(stdout);
        save_sparse_model(model, path);
        dump_file(c.id, path);
        std::fflush(stdout);
        sparse::Model<T, I> out = load_sparse_model<T, I>(path);
        std::printf("%s.out.P %s\n%s.out.c %s\n%s.out.A %s\n%s.out.b %s\n%s.out.G %s\n%s.out.h %s\n%s.out.x_lb %s\n%s.out.x_ub %s\n",
                    c.id.c_str(), dump_sparse(out.P).c_str(), c.id.c_str(), dump_dense(out.c).c_str(), c.id.c_str(), dump_sparse(out.A).c_str(),
                    c.id.c_str(), dump_dense(out.b).c_str(), c.id.c_str(), dump_sparse(out.G).c_str(), c.id.c_str(), dump_dense(out.h).c_str(),
                    c.id.c_str(), dump_dense(out.x_lb).c_str(), c.id.c_str(), dump_dense(out.x_ub).c_str());
    }
    std::printf("%s.status.rc 0\n", c.id.c_str());
    std::fflush(stdout);
    std::remove(path.c_str());
    return 0;
}

int main(int argc, char** argv)
{
    if (argc < 3) { std::fprintf(stderr, "usage: drv_matio <workdir> <casefile>\n"); return 2; }
    std::string work = argv[1];
    if (work.find("/.work") == std::string::npos && !std::getenv("DRV_MATIO_ANYDIR")) { std::fprintf(stderr, "workdir must be inside .work\n"); return 2; }
    if (chdir(work.c_str()) != 0) { std::perror("chdir"); return 2; }
    std::ifstream in(argv[2]);
    if (!in) { std::fprintf(stderr, "cannot read %s\n", argv[2]); return 2; }
    // only this one case? (argv[3])
    std::string only = argc > 3 ? argv[3] : "";
    std::string line;
    Case cur; bool open = false;
    int nerr = 0;
    while (std::getline(in, line)) {
        std::istringstream ss(line);
        std::string tok;
        if (!(ss >> tok) || tok[0] == '#') continue;
        if (tok == "case") {
            cur = Case(); open = true;
            std::string pre;
            ss >> cur.id >> cur.kind >> pre;
            cur.pre = pre == "pre=1";
        } else if (tok == "den" || tok == "vec") {
            Item it; it.kind = tok; ss >> it.name >> it.rows;
            if (tok == "den") ss >> it.cols; else it.cols = 1;
            std::string h;
            while (ss >> h) it.vals.push_back(parse_hex(h));
            if ((long long) it.vals.size() != it.rows * it.cols) { std::printf("%s.status.error bad-count-%s\n", cur.id.c_str(), it.name.c_str()); nerr++; }
            cur.items[it.name] = it;
        } else if (tok == "spm") {
            Item it; it.kind = tok; long long nnz = 0; std::string kw;
            ss >> it.name >> it.rows >> it.cols >> it.extra >> nnz >> kw;
            for (long long j = 0; j <= it.cols; j++) { long long x; ss >> x; it.outer.push_back(x); }
            ss >> kw;
            for (long long q = 0; q < nnz; q++) { long long x; ss >> x; it.inner.push_back(x); }
            ss >> kw;
            for (long long q = 0; q < nnz; q++) { std::string h; ss >> h; it.vals.push_back(parse_hex(h)); }
            if (!ss) { std::printf("%s.status.error bad-spm-%s\n", cur.id.c_str(), it.name.c_str()); nerr++; }
            cur.items[it.name] = it;
        } else if (tok == "end") {
            if (open && (only.empty() || only == cur.id)) nerr += run_case(cur, work);
            open = false;
        }
    }
    return nerr ? 1 : 0;
}
