// Harness side of hook H1 (guard PIQP_VERIF in /repo): a fault plan over factorization calls.
#ifndef VERIF_HOOKS_HPP
#define VERIF_HOOKS_HPP
#include <vector>
namespace vhook {
struct FaultState { std::vector<int> plan; long calls = 0; void (*on_call)(long k, bool fail) = nullptr; };
inline FaultState& fs() { static thread_local FaultState F; return F; }
inline void reset_fault_plan() { fs().plan.clear(); fs().calls = 0; }
inline void set_fault_plan(const std::vector<int>& p) { fs().plan = p; fs().calls = 0; }
inline long fact_calls() { return fs().calls; }
}
namespace piqp { namespace verif {
inline bool inject_factor_failure()
{
    auto& F = ::vhook::fs();
    long k = F.calls++;
    bool fail = k < (long) F.plan.size() && F.plan[k] != 0;
    if (F.on_call) F.on_call(k, fail);
    return fail;
}
} }
#endif
