// C19 "problem data are copied, never aliased or modified" -- implementation-side twin check (double, bitwise).
//
//   -DBACKEND=0 C++ DenseSolver<double>            (caller data: dense column-major)
//            1..4 C++ SparseSolver<double,int,Mode> (KKT_FULL, EQ_ELIMINATED, INEQ_ELIMINATED, ALL_ELIMINATED; CSC arrays)
//            5 C interface: piqp_setup_dense / piqp_update_dense (row-major) and piqp_setup_sparse / piqp_update_sparse
//              (interfaces/c/src/piqp.cpp is compiled into this TU)
//   for BACKEND 0..4 both the Ruiz and the identity preconditioner are run.
//
// Twin solvers run the same random call history  setup ; solve ; (update ; solve)*  on the same numbers:
//   A: every caller buffer ever passed stays allocated and untouched until the end of the history;
//   B: after EVERY setup/update call the caller's buffers are scribbled (NaN / 0xFF / random patterns) and then, depending
//      on the history's mode, kept (KEEP), freed (FREE), or freed and the memory re-occupied by garbage blocks of the same
//      and of different sizes (DECOY).  All buffers come from posix_memalign so that ASan sees a use-after-free.
// Checked: (1) every caller buffer has the same checksum before and after each library call, and the buffers of A (and the
// scribbled KEEP buffers of B) still have it at the end of the history; (2) after every call the solver-owned copy of the
// problem data, and after every solve all result vectors and info fields, are bit-for-bit equal in A and B.
//
// usage: drv_alias <seed> <n_histories> <n_max> [only_history_index]
// output lines:  HIST <i> <description> | VIOL <signature> | <detail> | CLASS <signature> | DONE ...
#include <cstdio>
#include <cstdlib>
#include <cstring>
#include <cstdint>
#include <cmath>
#include <string>
#include <vector>
#include <set>
#include <map>
#include <sstream>
#include <memory>
#include <functional>
#include <limits>
#include <Eigen/Dense>
#include <Eigen/Sparse>
#include <Eigen/Cholesky>

#ifndef BACKEND
#define BACKEND 0
#endif

#include "verif_hooks.hpp"
#include "piqp/utils/optional.hpp"
#if BACKEND != 5
#define private public
#define protected public
#define class struct
#include "piqp/piqp.hpp"
#undef class
#undef private
#undef protected
#else
#include "piqp.cpp"     // the C interface, found through -I$VERIF_REPO/interfaces/c/src
#endif

#include "qp_gen.hpp"

// ------------------------------------------------------------------ caller memory
static void* xalloc(size_t bytes) { void* p = nullptr; if (posix_memalign(&p, 64, bytes ? bytes : 8) != 0 || !p) { fprintf(stderr, "out of memory\n"); exit(3); } return p; }
static uint64_t fnv(const void* p, size_t n) { const unsigned char* b = (const unsigned char*) p; uint64_t h = 1469598103934665603ull; for (size_t i = 0; i < n; i++) { h ^= b[i]; h *= 1099511628211ull; } return h; }

enum Slot { S_Pv, S_Pi, S_Po, S_c, S_Av, S_Ai, S_Ao, S_b, S_Gv, S_Gi, S_Go, S_h, S_lb, S_ub, S_aux0, S_aux1, S_aux2, S_aux3, S_aux4, NSLOT };
static const char* slot_name[NSLOT] = { "P.values", "P.inner", "P.outer", "c", "A.values", "A.inner", "A.outer", "b", "G.values", "G.inner", "G.outer",
                                        "h", "x_lb", "x_ub", "struct.data", "struct.P", "struct.A", "struct.G", "struct.settings" };
struct CallerData {
    void* ptr[NSLOT]; size_t bytes[NSLOT]; uint64_t sum[NSLOT]; long nnz[3];
    CallerData() { for (int i = 0; i < NSLOT; i++) { ptr[i] = nullptr; bytes[i] = 0; sum[i] = 0; } nnz[0] = nnz[1] = nnz[2] = 0; }
    void put(int s, const void* src, size_t n) { ptr[s] = xalloc(n); bytes[s] = n; if (n) memcpy(ptr[s], src, n); }
    void reserve(int s, size_t n) { ptr[s] = xalloc(n); bytes[s] = n; memset(ptr[s], 0, n ? n : 8); }
    void checksum() { for (int i = 0; i < NSLOT; i++) sum[i] = ptr[i] ? fnv(ptr[i], bytes[i]) : 0; }
    int first_changed() const { for (int i = 0; i < NSLOT; i++) if (ptr[i] && fnv(ptr[i], bytes[i]) != sum[i]) return i; return -1; }
    double* d(int s) const { return (double*) ptr[s]; } int* i(int s) const { return (int*) ptr[s]; }
    void release() { for (int i = 0; i < NSLOT; i++) { free(ptr[i]); ptr[i] = nullptr; } }
};
enum Layout { L_COLMAJOR, L_ROWMAJOR, L_CSC };
static void put_matrix(CallerData& D, int sv, int si, int so, int which, const DMat& M, Layout lay)
{
    if (lay == L_COLMAJOR) { D.put(sv, M.v.data(), M.v.size() * sizeof(double)); return; }
    if (lay == L_ROWMAJOR) { std::vector<double> t((size_t) M.r * M.c); for (int i = 0; i < M.r; i++) for (int j = 0; j < M.c; j++) t[(size_t) i * M.c + j] = M.at(i, j);
                             D.put(sv, t.data(), t.size() * sizeof(double)); return; }
    std::vector<double> x; std::vector<int> ii, oo(M.c + 1, 0);
    for (int j = 0; j < M.c; j++) { for (int i = 0; i < M.r; i++) if (M.mk(i, j)) { x.push_back(M.at(i, j)); ii.push_back(i); } oo[j + 1] = (int) x.size(); }
    D.put(sv, x.data(), x.size() * sizeof(double)); D.put(si, ii.data(), ii.size() * sizeof(int)); D.put(so, oo.data(), oo.size() * sizeof(int));
    D.nnz[which] = (long) x.size();
}
// the caller's buffers for one call; [mask] = blocks passed (setup: P and c always)
static CallerData make_caller_data(const Problem& pb, int mask, Layout lay)
{
    CallerData D;
    if (mask & U_P) put_matrix(D, S_Pv, S_Pi, S_Po, 0, pb.P, lay);
    if (mask & U_c) D.put(S_c, pb.c.data(), pb.c.size() * sizeof(double));
    if (mask & U_A) put_matrix(D, S_Av, S_Ai, S_Ao, 1, pb.A, lay);
    if (mask & U_b) D.put(S_b, pb.b.data(), pb.b.size() * sizeof(double));
    if (mask & U_G) put_matrix(D, S_Gv, S_Gi, S_Go, 2, pb.G, lay);
    if (mask & U_h) D.put(S_h, pb.h.data(), pb.h.size() * sizeof(double));
    if (mask & U_lb) D.put(S_lb, pb.lb.data(), pb.lb.size() * sizeof(double));
    if (mask & U_ub) D.put(S_ub, pb.ub.data(), pb.ub.size() * sizeof(double));
    return D;
}
enum Mode { M_KEEP = 0, M_FREE = 1, M_DECOY = 2 };
static std::vector<void*> g_decoys;
static void scribble(Rng& R, CallerData& D, int mode)
{
    for (int s = 0; s < NSLOT; s++) {
        if (!D.ptr[s]) continue;
        int pat = R.range(0, 3);
        unsigned char* b = (unsigned char*) D.ptr[s]; size_t n = D.bytes[s];
        if (pat == 0) memset(b, 0xFF, n);                                     // all-ones: NaN as double, -1 as int
        else if (pat == 1) { for (size_t i = 0; i + 8 <= n; i += 8) { uint64_t q = 0x7FF8DEADBEEF0000ull | (i & 0xFFFF); memcpy(b + i, &q, 8); } }   // quiet NaNs with payload
        else if (pat == 2) { for (size_t i = 0; i < n; i++) b[i] = (unsigned char) R.next(); }
        else { for (size_t i = 0; i + 8 <= n; i += 8) { double q = 1e300 * (R.coin() ? 1 : -1); memcpy(b + i, &q, 8); } }
    }
    if (mode == M_KEEP) { D.checksum(); return; }     // stays allocated; must still look like this at the end
    size_t sizes[NSLOT]; for (int s = 0; s < NSLOT; s++) sizes[s] = D.ptr[s] ? D.bytes[s] : 0;
    D.release();
    if (mode == M_DECOY) {
        for (int s = 0; s < NSLOT; s++) {
            if (!sizes[s]) continue;
            for (int k = 0; k < 3; k++) {                       // same size, then different sizes
                size_t n = k == 0 ? sizes[s] : (k == 1 ? sizes[s] / 2 + 8 : sizes[s] * 2 + 24);
                void* q = xalloc(n); memset(q, k == 0 ? 0xFF : 0x7F, n); g_decoys.push_back(q);
            }
        }
    }
}
static void drop_decoys() { for (void* q : g_decoys) free(q); g_decoys.clear(); }

// ------------------------------------------------------------------ reporting
static long g_viol = 0, g_calls = 0, g_solves = 0, g_cmp = 0;
static std::string g_hist;
static std::set<std::string> g_classes;
static void viol(const std::string& sig, const std::string& detail)
{
    g_viol++;
    static std::map<std::string, int> printed;          // at most 3 lines per distinct signature (the total is in DONE)
    if (printed[sig]++ < 3) { printf("VIOL %s | %s | %s\n", sig.c_str(), g_hist.c_str(), detail.c_str()); fflush(stdout); }
}
static std::string hexd(double x) { char b[64]; snprintf(b, sizeof b, "%a", x); return b; }
// bitwise comparison of two arrays
template<typename S> static bool same_bits(const S* a, const S* b, size_t n, size_t* where) { for (size_t i = 0; i < n; i++) if (memcmp(a + i, b + i, sizeof(S)) != 0) { *where = i; return false; } return true; }
static void cmp_vec(const char* backend, const char* what, const char* op, const double* a, const double* b, size_t n)
{
    g_cmp++; size_t w = 0;
    if (!same_bits(a, b, n, &w)) {
        std::ostringstream os; os << what << "[" << w << "] untouched twin " << hexd(a[w]) << " scribbled twin " << hexd(b[w]) << " after " << op;
        viol(std::string("alias:") + backend + ":" + what, os.str());
    }
}
static void cmp_int(const char* backend, const char* what, const char* op, long a, long b)
{
    g_cmp++; if (a != b) { std::ostringstream os; os << what << " untouched twin " << a << " scribbled twin " << b << " after " << op; viol(std::string("alias:") + backend + ":" + what, os.str()); }
}
static void check_unmodified(const char* backend, const CallerData& D, const char* twin, const char* when)
{
    int s = D.first_changed();
    if (s >= 0) viol(std::string("modified:") + backend + ":" + slot_name[s], std::string("caller buffer ") + slot_name[s] + " of twin " + twin + " changed " + when);
}

struct HistPlan { int nmax; int mode; int cycles; };

#if BACKEND != 5
// =================================================================== C++ interfaces
using namespace piqp;
#if BACKEND == 0
static const bool kSparse = false; static const char* kBackend = "dense";
template<typename Pre> struct SolverOf { typedef DenseSolver<double, Pre> type; };
typedef dense::RuizEquilibration<double> PreRuiz; typedef dense::IdentityPreconditioner<double> PreIdent;
#else
static const bool kSparse = true;
#if BACKEND == 1
static const int kMode = KKTMode::KKT_FULL; static const char* kBackend = "sparse_full";
#elif BACKEND == 2
static const int kMode = KKTMode::KKT_EQ_ELIMINATED; static const char* kBackend = "sparse_eq";
#elif BACKEND == 3
static const int kMode = KKTMode::KKT_INEQ_ELIMINATED; static const char* kBackend = "sparse_ineq";
#else
static const int kMode = KKTMode::KKT_ALL_ELIMINATED; static const char* kBackend = "sparse_all";
#endif
template<typename Pre> struct SolverOf { typedef SparseSolver<double, int, kMode, Pre> type; };
typedef sparse::RuizEquilibration<double, int> PreRuiz; typedef sparse::IdentityPreconditioner<double, int> PreIdent;
#endif

typedef Eigen::Map<const Vec<double>> CVMap;
static optional<CVecRef<double>> ovec(const CallerData& D, int s, int n) { if (!D.ptr[s]) return nullopt; return optional<CVecRef<double>>(CVecRef<double>(CVMap(D.d(s), n))); }
#if BACKEND == 0
typedef Eigen::Map<const Mat<double>> CMMap;
typedef CMatRef<double> MRef;
static optional<MRef> omat(const CallerData& D, int sv, int, int, int, int r, int c) { if (!D.ptr[sv]) return nullopt; return optional<MRef>(MRef(CMMap(D.d(sv), r, c))); }
#else
typedef Eigen::Map<const SparseMat<double, int>> CSMap;
typedef CSparseMatRef<double, int> MRef;
static optional<MRef> omat(const CallerData& D, int sv, int si, int so, int which, int r, int c)
{ if (!D.ptr[sv]) return nullopt; return optional<MRef>(MRef(CSMap(r, c, D.nnz[which], D.i(so), D.i(si), D.d(sv)))); }
#endif

template<typename Solver> static void do_call(Solver& S, bool is_setup, const CallerData& D, const Problem& pb, bool reuse)
{
    optional<MRef> oP = omat(D, S_Pv, S_Pi, S_Po, 0, pb.n, pb.n), oA = omat(D, S_Av, S_Ai, S_Ao, 1, pb.p, pb.n), oG = omat(D, S_Gv, S_Gi, S_Go, 2, pb.m, pb.n);
    optional<CVecRef<double>> oc = ovec(D, S_c, pb.n), ob = ovec(D, S_b, pb.p), oh = ovec(D, S_h, pb.m), olb = ovec(D, S_lb, pb.n), oub = ovec(D, S_ub, pb.n);
    if (is_setup) S.setup(*oP, *oc, oA, ob, oG, oh, olb, oub);
    else S.update(oP, oc, oA, ob, oG, oh, olb, oub, reuse);
}
#if BACKEND == 0
static void cmp_mat(const char* what, const char* op, const Mat<double>& a, const Mat<double>& b)
{ cmp_int(kBackend, (std::string(what) + ".size").c_str(), op, (long) a.size(), (long) b.size()); if (a.size() == b.size()) cmp_vec(kBackend, what, op, a.data(), b.data(), (size_t) a.size()); }
#else
static void cmp_mat(const char* what, const char* op, const SparseMat<double, int>& a, const SparseMat<double, int>& b)
{
    cmp_int(kBackend, (std::string(what) + ".nnz").c_str(), op, (long) a.nonZeros(), (long) b.nonZeros());
    if (a.nonZeros() != b.nonZeros() || a.outerSize() != b.outerSize()) return;
    cmp_vec(kBackend, what, op, a.valuePtr(), b.valuePtr(), (size_t) a.nonZeros());
    size_t w = 0; g_cmp++;
    if (!same_bits(a.innerIndexPtr(), b.innerIndexPtr(), (size_t) a.nonZeros(), &w) || !same_bits(a.outerIndexPtr(), b.outerIndexPtr(), (size_t) a.outerSize() + 1, &w))
        viol(std::string("alias:") + kBackend + ":" + what + ".pattern", std::string("pattern differs after ") + op);
}
#endif
template<typename Solver> static void cmp_data(Solver& A, Solver& B, const char* op)
{
    auto& a = A.m_data; auto& b = B.m_data;
    cmp_int(kBackend, "n_lb", op, (long) a.n_lb, (long) b.n_lb); cmp_int(kBackend, "n_ub", op, (long) a.n_ub, (long) b.n_ub);
    cmp_mat("data.P_utri", op, a.P_utri, b.P_utri); cmp_mat("data.AT", op, a.AT, b.AT); cmp_mat("data.GT", op, a.GT, b.GT);
    cmp_vec(kBackend, "data.c", op, a.c.data(), b.c.data(), (size_t) a.c.size()); cmp_vec(kBackend, "data.b", op, a.b.data(), b.b.data(), (size_t) a.b.size());
    cmp_vec(kBackend, "data.h", op, a.h.data(), b.h.data(), (size_t) a.h.size());
    if (a.n_lb == b.n_lb) { cmp_vec(kBackend, "data.x_lb_n", op, a.x_lb_n.data(), b.x_lb_n.data(), (size_t) a.n_lb);
                            for (isize i = 0; i < a.n_lb; i++) cmp_int(kBackend, "data.x_lb_idx", op, (long) a.x_lb_idx(i), (long) b.x_lb_idx(i)); }
    if (a.n_ub == b.n_ub) { cmp_vec(kBackend, "data.x_ub", op, a.x_ub.data(), b.x_ub.data(), (size_t) a.n_ub);
                            for (isize i = 0; i < a.n_ub; i++) cmp_int(kBackend, "data.x_ub_idx", op, (long) a.x_ub_idx(i), (long) b.x_ub_idx(i)); }
    cmp_vec(kBackend, "data.x_lb_scaling", op, a.x_lb_scaling.data(), b.x_lb_scaling.data(), (size_t) a.x_lb_scaling.size());
    cmp_vec(kBackend, "data.x_ub_scaling", op, a.x_ub_scaling.data(), b.x_ub_scaling.data(), (size_t) a.x_ub_scaling.size());
}
static void cmp_result(const Result<double>& a, const Result<double>& b, const char* op)
{
#define CV(f) cmp_int(kBackend, "result." #f ".size", op, (long) a.f.size(), (long) b.f.size()); if (a.f.size() == b.f.size()) cmp_vec(kBackend, "result." #f, op, a.f.data(), b.f.data(), (size_t) a.f.size());
    CV(x) CV(y) CV(z) CV(z_lb) CV(z_ub) CV(s) CV(s_lb) CV(s_ub) CV(zeta) CV(lambda) CV(nu) CV(nu_lb) CV(nu_ub)
#undef CV
#define CS(f) cmp_vec(kBackend, "info." #f, op, &a.info.f, &b.info.f, 1);
    CS(rho) CS(delta) CS(mu) CS(sigma) CS(primal_step) CS(dual_step) CS(primal_inf) CS(primal_rel_inf) CS(dual_inf) CS(dual_rel_inf)
    CS(primal_obj) CS(dual_obj) CS(duality_gap) CS(duality_gap_rel) CS(reg_limit)
#undef CS
    cmp_int(kBackend, "info.status", op, (long) a.info.status, (long) b.info.status); cmp_int(kBackend, "info.iter", op, (long) a.info.iter, (long) b.info.iter);
    cmp_int(kBackend, "info.factor_retires", op, (long) a.info.factor_retires, (long) b.info.factor_retires);
    cmp_int(kBackend, "info.no_primal_update", op, (long) a.info.no_primal_update, (long) b.info.no_primal_update);
    cmp_int(kBackend, "info.no_dual_update", op, (long) a.info.no_dual_update, (long) b.info.no_dual_update);
}

template<typename Solver> static void run_history(Rng& R, const HistPlan& hp, const char* pre)
{
    Problem pb = gen_problem(R, hp.nmax, kSparse);
    Layout lay = kSparse ? L_CSC : L_COLMAJOR;
    std::unique_ptr<Solver> SA(new Solver()), SB(new Solver());
    int max_iter = R.range(0, 3) == 0 ? R.range(1, 4) : 40;
    SA->settings().max_iter = max_iter; SB->settings().max_iter = max_iter;
    bool sc = R.coin(0.3); SA->settings().preconditioner_scale_cost = sc; SB->settings().preconditioner_scale_cost = sc;
    std::vector<CallerData> keepA, keepB;
    auto one_call = [&](bool is_setup, int mask, bool reuse, const char* opname) {
        CallerData DA = make_caller_data(pb, mask, lay), DB = make_caller_data(pb, mask, lay);
        DA.checksum(); DB.checksum();
        do_call(*SA, is_setup, DA, pb, reuse); do_call(*SB, is_setup, DB, pb, reuse); g_calls += 2;
        check_unmodified(kBackend, DA, "A", (std::string("during ") + opname).c_str()); check_unmodified(kBackend, DB, "B", (std::string("during ") + opname).c_str());
        scribble(R, DB, hp.mode);
        keepA.push_back(DA); if (hp.mode == M_KEEP) keepB.push_back(DB);
        cmp_data(*SA, *SB, opname);
    };
    auto one_solve = [&](const char* opname) {
        Status a = SA->solve(); Status b = SB->solve(); g_solves += 2;
        cmp_int(kBackend, "status", opname, (long) a, (long) b); cmp_result(SA->result(), SB->result(), opname); cmp_data(*SA, *SB, opname);
        for (auto& D : keepA) check_unmodified(kBackend, D, "A", (std::string("by a later ") + opname).c_str());
        for (auto& D : keepB) check_unmodified(kBackend, D, "B(scribbled)", (std::string("by a later ") + opname).c_str());
        std::ostringstream cl; cl << kBackend << ":" << pre << ":st" << (int) a << ":p" << (pb.p > 0) << "m" << (pb.m > 0) << "lb" << (SA->m_data.n_lb > 0) << "ub" << (SA->m_data.n_ub > 0) << ":mode" << hp.mode;
        g_classes.insert(cl.str());
    };
    int full = U_P | U_c | (pb.p > 0 ? (U_A | U_b) : 0) | (pb.m > 0 ? (U_G | U_h) : 0) | (pb.has_lb ? U_lb : 0) | (pb.has_ub ? U_ub : 0);
    one_call(true, full, false, "setup");
    if (R.coin(0.8)) one_solve("solve#0");
    for (int k = 0; k < hp.cycles; k++) {
        int mask = (int) (R.next() & 255); if (pb.p == 0) mask &= ~(U_A | U_b); if (pb.m == 0) mask &= ~(U_G | U_h);
        if (R.coin(0.1)) mask = 0;
        bool reuse = R.coin(0.6);
        perturb(R, pb, mask);
        std::string on = "update#" + std::to_string(k + 1) + (reuse ? "(reuse)" : "(fresh)") + "mask" + std::to_string(mask);
        one_call(false, mask, reuse, on.c_str());
        if (R.coin(0.85)) one_solve(("solve#" + std::to_string(k + 1)).c_str());
    }
    one_solve("solve#last");
    for (auto& D : keepA) D.release(); for (auto& D : keepB) D.release(); drop_decoys();
}

static void run_one(Rng& R, const HistPlan& hp, int precond)
{
    if (precond == 0) run_history<typename SolverOf<PreRuiz>::type>(R, hp, "ruiz"); else run_history<typename SolverOf<PreIdent>::type>(R, hp, "identity");
}
static const char* variant_name(int v) { return v == 0 ? "ruiz" : "identity"; }
static const int kVariants = 2;

#else
// =================================================================== C interface
static const char* kBackend = "c_api";
struct CWork { piqp_workspace* w = nullptr; };
static piqp_csc* put_csc(CallerData& D, int slot, int sv, int si, int so, int which, int r, int c)
{
    if (!D.ptr[sv]) return nullptr;
    piqp_csc t; t.m = r; t.n = c; t.nnz = (piqp_int) D.nnz[which]; t.p = D.i(so); t.i = D.i(si); t.x = D.d(sv);
    D.put(slot, &t, sizeof t); return (piqp_csc*) D.ptr[slot];
}
static void c_call(CWork& W, bool dense, bool is_setup, CallerData& D, const Problem& pb, int max_iter, bool sc)
{
    if (dense) {
        if (is_setup) {
            piqp_data_dense dd; dd.n = pb.n; dd.p = pb.p; dd.m = pb.m; dd.P = D.d(S_Pv); dd.c = D.d(S_c); dd.A = D.d(S_Av); dd.b = D.d(S_b); dd.G = D.d(S_Gv); dd.h = D.d(S_h);
            dd.x_lb = D.d(S_lb); dd.x_ub = D.d(S_ub);
            D.put(S_aux0, &dd, sizeof dd);
            piqp_settings st; piqp_set_default_settings(&st); st.max_iter = max_iter; st.preconditioner_scale_cost = sc; D.put(S_aux4, &st, sizeof st);
            D.checksum();
            piqp_setup_dense(&W.w, (piqp_data_dense*) D.ptr[S_aux0], (piqp_settings*) D.ptr[S_aux4]);
        } else { D.checksum(); piqp_update_dense(W.w, D.d(S_Pv), D.d(S_c), D.d(S_Av), D.d(S_b), D.d(S_Gv), D.d(S_h), D.d(S_lb), D.d(S_ub)); }
    } else {
        piqp_csc* cP = put_csc(D, S_aux1, S_Pv, S_Pi, S_Po, 0, pb.n, pb.n); piqp_csc* cA = put_csc(D, S_aux2, S_Av, S_Ai, S_Ao, 1, pb.p, pb.n); piqp_csc* cG = put_csc(D, S_aux3, S_Gv, S_Gi, S_Go, 2, pb.m, pb.n);
        if (is_setup) {
            piqp_data_sparse ds; ds.n = pb.n; ds.p = pb.p; ds.m = pb.m; ds.P = cP; ds.c = D.d(S_c); ds.A = cA; ds.b = D.d(S_b); ds.G = cG; ds.h = D.d(S_h); ds.x_lb = D.d(S_lb); ds.x_ub = D.d(S_ub);
            D.put(S_aux0, &ds, sizeof ds);
            piqp_settings st; piqp_set_default_settings(&st); st.max_iter = max_iter; st.preconditioner_scale_cost = sc; D.put(S_aux4, &st, sizeof st);
            D.checksum();
            piqp_setup_sparse(&W.w, (piqp_data_sparse*) D.ptr[S_aux0], (piqp_settings*) D.ptr[S_aux4]);
        } else { D.checksum(); piqp_update_sparse(W.w, cP, D.d(S_c), cA, D.d(S_b), cG, D.d(S_h), D.d(S_lb), D.d(S_ub)); }
    }
}
static void c_cmp_result(const piqp_workspace* a, const piqp_workspace* b, const Problem& pb, const char* op)
{
    const piqp_result* x = a->result; const piqp_result* y = b->result;
#define CV(f, len) cmp_vec(kBackend, "result." #f, op, x->f, y->f, (size_t) (len));
    CV(x, pb.n) CV(y, pb.p) CV(z, pb.m) CV(z_lb, pb.n) CV(z_ub, pb.n) CV(s, pb.m) CV(s_lb, pb.n) CV(s_ub, pb.n) CV(zeta, pb.n) CV(lambda, pb.p) CV(nu, pb.m) CV(nu_lb, pb.n) CV(nu_ub, pb.n)
#undef CV
#define CS(f) cmp_vec(kBackend, "info." #f, op, &x->info.f, &y->info.f, 1);
    CS(rho) CS(delta) CS(mu) CS(sigma) CS(primal_step) CS(dual_step) CS(primal_inf) CS(primal_rel_inf) CS(dual_inf) CS(dual_rel_inf)
    CS(primal_obj) CS(dual_obj) CS(duality_gap) CS(duality_gap_rel) CS(reg_limit)
#undef CS
    cmp_int(kBackend, "info.status", op, (long) x->info.status, (long) y->info.status); cmp_int(kBackend, "info.iter", op, (long) x->info.iter, (long) y->info.iter);
    cmp_int(kBackend, "info.factor_retires", op, (long) x->info.factor_retires, (long) y->info.factor_retires);
    cmp_int(kBackend, "info.no_primal_update", op, (long) x->info.no_primal_update, (long) y->info.no_primal_update);
    cmp_int(kBackend, "info.no_dual_update", op, (long) x->info.no_dual_update, (long) y->info.no_dual_update);
}
static void run_one(Rng& R, const HistPlan& hp, int variant)
{
    bool dense = variant == 0;
    Problem pb = gen_problem(R, hp.nmax, !dense);
    Layout lay = dense ? L_ROWMAJOR : L_CSC;
    CWork WA, WB;
    int max_iter = R.range(0, 3) == 0 ? R.range(1, 4) : 40; bool sc = R.coin(0.3);
    std::vector<CallerData> keepA, keepB;
    const char* vn = dense ? "dense" : "sparse";
    auto one_call = [&](bool is_setup, int mask, const char* opname) {
        CallerData DA = make_caller_data(pb, mask, lay), DB = make_caller_data(pb, mask, lay);
        c_call(WA, dense, is_setup, DA, pb, max_iter, sc); c_call(WB, dense, is_setup, DB, pb, max_iter, sc); g_calls += 2;
        check_unmodified(kBackend, DA, "A", (std::string("during ") + opname).c_str()); check_unmodified(kBackend, DB, "B", (std::string("during ") + opname).c_str());
        scribble(R, DB, hp.mode);
        keepA.push_back(DA); if (hp.mode == M_KEEP) keepB.push_back(DB);
        c_cmp_result(WA.w, WB.w, pb, opname);
    };
    auto one_solve = [&](const char* opname) {
        piqp_status a = piqp_solve(WA.w); piqp_status b = piqp_solve(WB.w); g_solves += 2;
        cmp_int(kBackend, "status", opname, (long) a, (long) b); c_cmp_result(WA.w, WB.w, pb, opname);
        for (auto& D : keepA) check_unmodified(kBackend, D, "A", (std::string("by a later ") + opname).c_str());
        for (auto& D : keepB) check_unmodified(kBackend, D, "B(scribbled)", (std::string("by a later ") + opname).c_str());
        std::ostringstream cl; cl << kBackend << ":" << vn << ":st" << (int) a << ":p" << (pb.p > 0) << "m" << (pb.m > 0) << "lb" << pb.has_lb << "ub" << pb.has_ub << ":mode" << hp.mode;
        g_classes.insert(cl.str());
    };
    auto one_settings = [&](const char* opname) {
        piqp_settings st; piqp_set_default_settings(&st); st.max_iter = max_iter;
        sc = !sc; st.preconditioner_scale_cost = sc; st.preconditioner_iter = (piqp_int) (R.range(0, 4) * 3);
        piqp_update_settings(WA.w, &st); piqp_update_settings(WB.w, &st); g_calls += 2;
        c_cmp_result(WA.w, WB.w, pb, opname);
        for (auto& D : keepA) check_unmodified(kBackend, D, "A", (std::string("by a later ") + opname).c_str());
        for (auto& D : keepB) check_unmodified(kBackend, D, "B(scribbled)", (std::string("by a later ") + opname).c_str());
    };
    // NULL optionals: A/b, G/h when p = 0 / m = 0, and the bounds at random
    int full = U_P | U_c | (pb.p > 0 ? (U_A | U_b) : 0) | (pb.m > 0 ? (U_G | U_h) : 0) | (pb.has_lb ? U_lb : 0) | (pb.has_ub ? U_ub : 0);
    one_call(true, full, "setup");
    if (R.coin(0.8)) one_solve("solve#0");
    for (int k = 0; k < hp.cycles; k++) {
        int mask = (int) (R.next() & 255); if (pb.p == 0) mask &= ~(U_A | U_b); if (pb.m == 0) mask &= ~(U_G | U_h);
        if (R.coin(0.1)) mask = 0;
        perturb(R, pb, mask);
        std::string on = "update#" + std::to_string(k + 1) + "mask" + std::to_string(mask);
        one_call(false, mask, on.c_str());
        // settings updates between data updates: a binding that kept pointers into the caller's setup/update buffers (all scribbled or
        // freed by now in twin B) and re-reads them when a setting changes is exposed by the following solves
        if (R.coin(0.5)) one_settings(("settings#" + std::to_string(k + 1)).c_str());
        if (R.coin(0.85)) one_solve(("solve#" + std::to_string(k + 1)).c_str());
    }
    if (R.coin(0.5)) one_settings("settings#last");
    one_solve("solve#last");
    piqp_cleanup(WA.w); piqp_cleanup(WB.w);
    for (auto& D : keepA) D.release(); for (auto& D : keepB) D.release(); drop_decoys();
}
static const char* variant_name(int v) { return v == 0 ? "dense_rowmajor" : "sparse_csc"; }
static const int kVariants = 2;
#endif

int main(int argc, char** argv)
{
    if (argc < 4) { fprintf(stderr, "usage: %s seed n_histories n_max [only]\n", argv[0]); return 2; }
    uint64_t seed = strtoull(argv[1], nullptr, 10); int nh = atoi(argv[2]); int nmax = atoi(argv[3]); int only = argc > 4 ? atoi(argv[4]) : -1;
    for (int i = 0; i < nh; i++) {
        // every history has its own generator: replay of one history does not depend on the others
        Rng R(seed * 1000003ull + (uint64_t) i * 7919ull + (uint64_t) BACKEND * 104729ull);
        HistPlan hp; hp.mode = i % 3; hp.cycles = R.range(1, 4); hp.nmax = (i % 7 == 6) ? nmax : std::max(2, nmax / 3);
        int variant = (i / 3) % kVariants;
        if (only >= 0 && i != only) continue;
        std::ostringstream os; os << "backend=" << kBackend << " variant=" << variant_name(variant) << " seed=" << seed << " hist=" << i << " mode=" << (hp.mode == 0 ? "KEEP" : hp.mode == 1 ? "FREE" : "DECOY") << " cycles=" << hp.cycles;
        g_hist = os.str();
        printf("HIST %d %s\n", i, g_hist.c_str()); fflush(stdout);
        run_one(R, hp, variant);
    }
    for (auto& c : g_classes) printf("CLASS %s\n", c.c_str());
    printf("DONE backend=%s histories=%d calls=%ld solves=%ld comparisons=%ld violations=%ld\n", kBackend, nh, g_calls, g_solves, g_cmp, g_viol);
    return 0;
}
