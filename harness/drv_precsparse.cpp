// Component-level driver for property C15 (sparse Ruiz preconditioner): drives piqp::sparse::RuizEquilibration<xrat,int>
// of /repo directly (no solver around it) in exact rational arithmetic on a piqp::sparse::Data<xrat,int> that is filled the way
// SolverBase::setup_impl / update fill it.  The Gallina transcription coq/PrecondSparse.v (ocaml/drv_precsparse_model.ml) reads the
// same case files and must print the same lines.
// Case file (whitespace separated tokens; vectors "k v1 .. vk", matrices "rows cols nnz (i j v)*" column-major sorted, explicit
// zeros are kept: the pattern is part of the input; bounds "inf" / "-inf" or values beyond +-1e30 are infinite):
//   CASE name
//     PROBLEM P <mat> A <mat> G <mat> c <vec> b <vec> h <vec> lb <vec> ub <vec> END     (all blocks required; A / G may be 0 x n)
//     INIT                                preconditioner.init(data)
//     SCALE reuse scale_cost max_iter     preconditioner.scale_data(data, reuse, scale_cost, max_iter)      (default epsilon)
//     UNSCALE                             preconditioner.unscale_data(data)
//     SETDATA [P <mat>] [A <mat>] [G <mat>] [c <vec>] [b <vec>] [h <vec>] [lb <vec>] [ub <vec>] END
//                                         what update() does between unscale_data and scale_data: P_utri = P.triangularView<Upper>(),
//                                         AT = A.transpose(), ..., setup_lb_data / setup_ub_data (re-pack the finite bounds)
//     ACCESS <vec n> <vec p> <vec m>      the unscale_X family applied to the heads of these vectors
//   ENDCASE
// After every operation the complete preconditioner state and the complete Data are printed: "name.opno.key value..".
#include <cstdio>
#include <cstdlib>
#include <cstring>
#include <string>
#include <vector>
#include <iostream>
#include <fstream>
#include <sstream>
#include <Eigen/Dense>
#include <Eigen/Sparse>
#include <gmpxx.h>
#include "xrat.hpp"
typedef xr::xrat T;

#include "verif_hooks.hpp"

#include "piqp/utils/optional.hpp"
#define private public
#define protected public
#define class struct
#include "piqp/piqp.hpp"
#undef class
#undef private
#undef protected

using namespace piqp;
typedef sparse::Data<T, int> DataT;
typedef sparse::RuizEquilibration<T, int> PrecT;
typedef SparseMat<T, int> MatT;

static std::string fmt(const T& x) { return x.str(); }
template<typename V> static std::string fmtv(const V& v)
{
    std::ostringstream os; os << v.size(); for (Eigen::Index i = 0; i < v.size(); i++) os << " " << fmt(T(v(i))); return os.str();
}
template<typename V> static std::string fmti(const V& v)
{
    std::ostringstream os; os << v.size(); for (Eigen::Index i = 0; i < v.size(); i++) os << " " << (long) v(i); return os.str();
}
static std::string fmtm(const MatT& M)
{
    std::ostringstream os; os << M.rows() << " " << M.cols() << " " << (M.isCompressed() ? 1 : 0) << " |";
    for (Eigen::Index j = 0; j <= M.outerSize(); j++) os << " " << M.outerIndexPtr()[j];
    os << " |";
    for (Eigen::Index k = 0; k < M.nonZeros(); k++) os << " " << M.innerIndexPtr()[k];
    os << " |";
    for (Eigen::Index k = 0; k < M.nonZeros(); k++) os << " " << fmt(M.valuePtr()[k]);
    return os.str();
}

struct Tok {
    std::vector<std::string> t; size_t i = 0;
    bool eof() const { return i >= t.size(); }
    const std::string& peek() const { return t[i]; }
    std::string next() { if (eof()) { fprintf(stderr, "unexpected eof\n"); exit(2); } return t[i++]; }
    long nextl() { return atol(next().c_str()); }
};
struct Trip { long r, c; T v; };
struct MatIn { bool present = false; long rows = 0, cols = 0; std::vector<Trip> e; };
struct VecIn { bool present = false; Vec<T> v; };

static MatIn read_mat(Tok& tk)
{
    MatIn m; m.present = true; m.rows = tk.nextl(); m.cols = tk.nextl(); long nnz = tk.nextl();
    for (long q = 0; q < nnz; q++) { Trip t; t.r = tk.nextl(); t.c = tk.nextl(); t.v = T(tk.next()); m.e.push_back(t); }
    return m;
}
static VecIn read_vec(Tok& tk)
{
    VecIn v; v.present = true; long n = tk.nextl(); v.v.resize(n);
    for (long i = 0; i < n; i++) v.v(i) = T(tk.next());
    return v;
}
static MatT build(const MatIn& m)
{
    MatT M(m.rows, m.cols);
    std::vector<int> cnt(m.cols, 0);
    for (auto& t : m.e) cnt[t.c]++;
    M.reserve(cnt);
    for (auto& t : m.e) M.insert(t.r, t.c) = t.v;
    M.makeCompressed();
    return M;
}
struct Blocks { MatIn P, A, G; VecIn c, b, h, lb, ub; };
static Blocks read_blocks(Tok& tk)
{
    Blocks B;
    while (true) {
        std::string k = tk.next();
        if (k == "END") break;
        if (k == "P") B.P = read_mat(tk); else if (k == "A") B.A = read_mat(tk); else if (k == "G") B.G = read_mat(tk);
        else if (k == "c") B.c = read_vec(tk); else if (k == "b") B.b = read_vec(tk); else if (k == "h") B.h = read_vec(tk);
        else if (k == "lb") B.lb = read_vec(tk); else if (k == "ub") B.ub = read_vec(tk);
        else { fprintf(stderr, "bad block %s\n", k.c_str()); exit(2); }
    }
    return B;
}

static std::string pfx;
static void out(const std::string& k, const std::string& v) { std::cout << pfx << k << " " << v << "\n"; }

// setup_lb_data / setup_ub_data of solver.hpp
static void setup_lb(DataT& d, const Vec<T>& x_lb)
{
    isize n_lb = 0, i_lb = 0;
    for (isize i = 0; i < d.n; i++) if (x_lb(i) > -PIQP_INF) { n_lb += 1; d.x_lb_n(i_lb) = -x_lb(i); d.x_lb_idx(i_lb) = i; i_lb++; }
    d.n_lb = n_lb;
}
static void setup_ub(DataT& d, const Vec<T>& x_ub)
{
    isize n_ub = 0, i_ub = 0;
    for (isize i = 0; i < d.n; i++) if (x_ub(i) < PIQP_INF) { n_ub += 1; d.x_ub(i_ub) = x_ub(i); d.x_ub_idx(i_ub) = i; i_ub++; }
    d.n_ub = n_ub;
}

static void set_data(DataT& d, const Blocks& B, bool first)
{
    if (B.P.present) { MatT P = build(B.P); d.P_utri = P.template triangularView<Eigen::Upper>(); }
    if (B.A.present) { MatT A = build(B.A); d.AT = A.transpose(); }
    if (B.G.present) { MatT G = build(B.G); d.GT = G.transpose(); }
    if (first) {
        d.n = d.P_utri.rows(); d.p = d.AT.cols(); d.m = d.GT.cols();
        // the storage the solver leaves unwritten (tails of the packed arrays) gets a defined value here: 0
        d.x_lb_idx = Vec<Eigen::Index>::Zero(d.n); d.x_ub_idx = Vec<Eigen::Index>::Zero(d.n);
        d.x_lb_scaling = Vec<T>::Constant(d.n, T(1)); d.x_ub_scaling = Vec<T>::Constant(d.n, T(1));
        d.x_lb_n = Vec<T>::Zero(d.n); d.x_ub = Vec<T>::Zero(d.n);
        d.n_lb = 0; d.n_ub = 0;
    }
    if (B.c.present) d.c = B.c.v;
    if (B.b.present) d.b = B.b.v;
    if (B.h.present) d.h = B.h.v;
    if (B.lb.present) setup_lb(d, B.lb.v);
    if (B.ub.present) setup_ub(d, B.ub.v);
    if (d.P_utri.rows() != d.n || d.P_utri.cols() != d.n || d.AT.rows() != d.n || d.AT.cols() != d.p || d.GT.rows() != d.n || d.GT.cols() != d.m ||
        d.c.size() != d.n || d.b.size() != d.p || d.h.size() != d.m) { fprintf(stderr, "inconsistent dimensions\n"); exit(2); }
}

static void dump(const PrecT& pc, const DataT& d)
{
    out("pc.dims", std::to_string(pc.n) + " " + std::to_string(pc.p) + " " + std::to_string(pc.m) + " " + std::to_string(pc.n_lb) + " " + std::to_string(pc.n_ub));
    out("pc.c", fmt(pc.c)); out("pc.c_inv", fmt(pc.c_inv));
    out("pc.delta", fmtv(pc.delta)); out("pc.delta_lb", fmtv(pc.delta_lb)); out("pc.delta_ub", fmtv(pc.delta_ub));
    out("pc.delta_inv", fmtv(pc.delta_inv)); out("pc.delta_lb_inv", fmtv(pc.delta_lb_inv)); out("pc.delta_ub_inv", fmtv(pc.delta_ub_inv));
    out("d.dims", std::to_string(d.n) + " " + std::to_string(d.p) + " " + std::to_string(d.m) + " " + std::to_string(d.n_lb) + " " + std::to_string(d.n_ub));
    out("d.P_utri", fmtm(d.P_utri)); out("d.AT", fmtm(d.AT)); out("d.GT", fmtm(d.GT));
    out("d.c", fmtv(d.c)); out("d.b", fmtv(d.b)); out("d.h", fmtv(d.h));
    out("d.x_lb_idx", fmti(d.x_lb_idx)); out("d.x_ub_idx", fmti(d.x_ub_idx));
    out("d.x_lb_scaling", fmtv(d.x_lb_scaling)); out("d.x_ub_scaling", fmtv(d.x_ub_scaling));
    out("d.x_lb_n", fmtv(d.x_lb_n)); out("d.x_ub", fmtv(d.x_ub));
    out("nonfinite", xr::g().nonfinite_arith ? "1" : "0");
}

int main(int argc, char** argv)
{
    if (argc < 2) { fprintf(stderr, "usage: %s CASEFILE\n", argv[0]); return 2; }
    std::ifstream f(argv[1]); if (!f) { fprintf(stderr, "cannot open %s\n", argv[1]); return 2; }
    Tok tk; { std::string s; while (f >> s) tk.t.push_back(s); }
    while (!tk.eof()) {
        if (tk.next() != "CASE") { fprintf(stderr, "CASE expected\n"); return 2; }
        std::string name = tk.next();
        DataT d; PrecT pc; bool have = false; long opno = 0;
        xr::g().nonfinite_arith = false;
        while (true) {
            std::string op = tk.next();
            if (op == "ENDCASE") break;
            pfx = name + "." + std::to_string(opno) + ".";
            if (op == "PROBLEM") { Blocks B = read_blocks(tk); set_data(d, B, true); have = true; }
            else if (!have) { fprintf(stderr, "PROBLEM first\n"); return 2; }
            else if (op == "INIT") pc.init(d);
            else if (op == "SCALE") { long reuse = tk.nextl(), sc = tk.nextl(), it = tk.nextl(); pc.scale_data(d, reuse != 0, sc != 0, (isize) it); }
            else if (op == "UNSCALE") pc.unscale_data(d);
            else if (op == "SETDATA") { Blocks B = read_blocks(tk); set_data(d, B, false); }
            else if (op == "ACCESS") {
                Vec<T> vx = read_vec(tk).v, vy = read_vec(tk).v, vz = read_vec(tk).v;
                Vec<T> vlb = vx.head(pc.n_lb), vub = vx.head(pc.n_ub);
                out("acc.unscale_cost", fmt(pc.unscale_cost(vx.size() ? vx(0) : T(1))));
                out("acc.unscale_primal", fmtv(Vec<T>(pc.unscale_primal(vx))));
                out("acc.unscale_dual_eq", fmtv(Vec<T>(pc.unscale_dual_eq(vy))));
                out("acc.unscale_dual_ineq", fmtv(Vec<T>(pc.unscale_dual_ineq(vz))));
                out("acc.unscale_dual_lb", fmtv(Vec<T>(pc.unscale_dual_lb(vlb))));
                out("acc.unscale_dual_ub", fmtv(Vec<T>(pc.unscale_dual_ub(vub))));
                out("acc.unscale_slack_ineq", fmtv(Vec<T>(pc.unscale_slack_ineq(vz))));
                out("acc.unscale_slack_lb", fmtv(Vec<T>(pc.unscale_slack_lb(vlb))));
                out("acc.unscale_slack_ub", fmtv(Vec<T>(pc.unscale_slack_ub(vub))));
                out("acc.unscale_primal_res_eq", fmtv(Vec<T>(pc.unscale_primal_res_eq(vy))));
                out("acc.unscale_primal_res_ineq", fmtv(Vec<T>(pc.unscale_primal_res_ineq(vz))));
                out("acc.unscale_primal_res_lb", fmtv(Vec<T>(pc.unscale_primal_res_lb(vlb))));
                out("acc.unscale_primal_res_ub", fmtv(Vec<T>(pc.unscale_primal_res_ub(vub))));
                out("acc.unscale_dual_res", fmtv(Vec<T>(pc.unscale_dual_res(vx))));
            }
            else { fprintf(stderr, "bad op %s\n", op.c_str()); return 2; }
            if (op != "PROBLEM") dump(pc, d);
            opno++;
        }
    }
    return 0;
}
