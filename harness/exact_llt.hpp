// Exact substitute for Eigen::LLT<Matrix<xrat>, Lower> (the dense back end's factorisation oracle).
// Contract (same as Eigen's LLT in exact arithmetic):
//   compute(A) reads the lower triangle of A only; info()==Success iff every pivot of the
//   LDL^T elimination is > 0 (i.e. A is positive definite); solveInPlace(b) then returns A^{-1} b.
// Algorithm: unpivoted LDL^T (row by row, "up-looking"), identical to coq/LDLDense.v : llt_compute / llt_solve.
#ifndef VERIF_EXACT_LLT_HPP
#define VERIF_EXACT_LLT_HPP

#include <Eigen/Dense>
#include "xrat.hpp"

namespace Eigen {

template<>
class LLT<Matrix<xr::xrat, Dynamic, Dynamic>, Lower>
{
public:
    typedef Matrix<xr::xrat, Dynamic, Dynamic> MatrixType;
    typedef xr::xrat Scalar;

    LLT() : m_ok(false) {}
    explicit LLT(Index size) : m_L(size, size), m_D(size), m_ok(false) {}

    template<typename InputType>
    LLT& compute(const EigenBase<InputType>& a)
    {
        const InputType& A = a.derived();
        const Index n = A.rows();
        m_L = MatrixType::Zero(n, n);
        m_D = Matrix<Scalar, Dynamic, 1>::Zero(n);
        m_ok = true;
        for (Index i = 0; i < n; i++)
        {
            // L(i,j) for j < i
            for (Index j = 0; j < i; j++)
            {
                Scalar acc = A(i, j);
                for (Index k = 0; k < j; k++) acc -= m_L(i, k) * m_D(k) * m_L(j, k);
                m_L(i, j) = acc / m_D(j);
            }
            Scalar d = A(i, i);
            for (Index k = 0; k < i; k++) d -= m_L(i, k) * m_L(i, k) * m_D(k);
            m_D(i) = d;
            m_L(i, i) = Scalar(1);
            if (!(d > Scalar(0))) { m_ok = false; m_fail = i; return *this; }
        }
        return *this;
    }

    ComputationInfo info() const { return m_ok ? Success : NumericalIssue; }

    template<typename Derived>
    void solveInPlace(const MatrixBase<Derived>& bAndX) const
    {
        Derived& x = const_cast<Derived&>(bAndX.derived());
        const Index n = m_D.size();
        // forward: L y = b
        for (Index i = 0; i < n; i++)
            for (Index k = 0; k < i; k++) x(i) -= m_L(i, k) * x(k);
        for (Index i = 0; i < n; i++) x(i) = x(i) / m_D(i);
        // backward: L^T x = y
        for (Index i = n - 1; i >= 0; i--)
            for (Index k = i + 1; k < n; k++) x(i) -= m_L(k, i) * x(k);
    }

    MatrixType m_L;
    Matrix<Scalar, Dynamic, 1> m_D;
    bool m_ok;
    Index m_fail = -1;
};

} // namespace Eigen

#endif
