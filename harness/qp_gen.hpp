// Random QP generator shared by the double-precision twin / allocation drivers (drv_alias.cpp, drv_alloc.cpp).
// Values live in std::vector storage of the driver; the drivers copy them into whatever "caller memory" they test.
#ifndef QP_GEN_HPP
#define QP_GEN_HPP
#include <cstdint>
#include <cmath>
#include <vector>
#include <limits>
#include <algorithm>

// ------------------------------------------------------------------ rng
struct Rng {
    uint64_t s;
    explicit Rng(uint64_t seed) : s(seed * 0x9E3779B97F4A7C15ull + 0x1234567ull) { for (int i = 0; i < 4; i++) next(); }
    uint64_t next() { s ^= s << 13; s ^= s >> 7; s ^= s << 17; return s; }
    int range(int lo, int hi) { return lo + (int) (next() % (uint64_t) (hi - lo + 1)); }   // inclusive
    double unit() { return (double) (next() >> 11) / 9007199254740992.0; }
    double val(double a = -2.0, double b = 2.0) { return a + (b - a) * unit(); }
    bool coin(double p = 0.5) { return unit() < p; }
};

// ------------------------------------------------------------------ problem (values only; std::vector storage of the driver)
struct DMat { int r = 0, c = 0; std::vector<double> v; std::vector<char> mask;   // column-major; mask = sparsity pattern
    double& at(int i, int j) { return v[(size_t) j * r + i]; } double at(int i, int j) const { return v[(size_t) j * r + i]; }
    char& mk(int i, int j) { return mask[(size_t) j * r + i]; } char mk(int i, int j) const { return mask[(size_t) j * r + i]; } };
struct Problem { int n = 0, p = 0, m = 0; DMat P, A, G; std::vector<double> c, b, h, lb, ub; bool has_lb = false, has_ub = false; };

static const double kInf = std::numeric_limits<double>::infinity();

static void fill_bounds(Rng& R, Problem& pb)
{
    pb.lb.assign(pb.n, 0); pb.ub.assign(pb.n, 0);
    for (int i = 0; i < pb.n; i++) {
        int k = R.range(0, 5);
        pb.lb[i] = k <= 2 ? -1.0 - R.unit() : (k == 3 ? -kInf : (k == 4 ? -1e30 : -2e30));
        k = R.range(0, 5);
        pb.ub[i] = k <= 2 ? 1.0 + R.unit() : (k == 3 ? kInf : (k == 4 ? 1e30 : 2e30));
    }
}
static void fill_h(Rng& R, Problem& pb)
{
    pb.h.assign(pb.m, 0);
    for (int i = 0; i < pb.m; i++) { pb.h[i] = 1.0 + 2.0 * R.unit(); if (R.coin(0.12)) pb.h[i] = R.coin() ? kInf : 3e30; }
}
static void fill_values(Rng& R, DMat& M, bool symmetric_psd)
{
    if (!symmetric_psd) { for (int j = 0; j < M.c; j++) for (int i = 0; i < M.r; i++) M.at(i, j) = M.mk(i, j) ? R.val() : 0.0; return; }
    // symmetric, diagonally dominant => positive definite, on the given symmetric pattern
    int n = M.r;
    for (int j = 0; j < n; j++) for (int i = 0; i < j; i++) { double x = M.mk(i, j) ? R.val(-1, 1) : 0.0; M.at(i, j) = x; M.at(j, i) = x; }
    for (int i = 0; i < n; i++) { double s = 0; for (int j = 0; j < n; j++) if (j != i) s += std::fabs(M.at(i, j)); M.at(i, i) = s + 0.5 + R.unit(); }
}
// pmax / mmax < 0: the small defaults (p <= 3, m <= 5); dens < 0: random density for sparse problems, full for dense ones
static Problem gen_problem(Rng& R, int nmax, bool sparse, int nmin = 1, int pmax = -1, int mmax = -1, double dens_in = -1.0)
{
    Problem pb; pb.n = R.range(std::min(nmin, nmax), nmax); pb.p = R.range(0, std::min(pb.n, pmax < 0 ? 3 : pmax)); pb.m = R.range(0, mmax < 0 ? 5 : mmax);
    if (R.coin(0.15)) pb.p = 0; if (R.coin(0.15)) pb.m = 0;
    double dens = dens_in >= 0 ? dens_in : (sparse ? 0.15 + 0.5 * R.unit() : 1.0);
    int n = pb.n;
    pb.P.r = pb.P.c = n; pb.P.v.assign((size_t) n * n, 0); pb.P.mask.assign((size_t) n * n, 0);
    for (int j = 0; j < n; j++) for (int i = 0; i <= j; i++) { char k = (i == j) || R.coin(dens); pb.P.mk(i, j) = k; pb.P.mk(j, i) = k; }
    fill_values(R, pb.P, true);
    pb.A.r = pb.p; pb.A.c = n; pb.A.v.assign((size_t) pb.p * n, 0); pb.A.mask.assign((size_t) pb.p * n, 0);
    for (int i = 0; i < pb.p; i++) { for (int j = 0; j < n; j++) pb.A.mk(i, j) = R.coin(dens); pb.A.mk(i, R.range(0, n - 1)) = 1; }
    fill_values(R, pb.A, false);
    pb.G.r = pb.m; pb.G.c = n; pb.G.v.assign((size_t) pb.m * n, 0); pb.G.mask.assign((size_t) pb.m * n, 0);
    for (int i = 0; i < pb.m; i++) { for (int j = 0; j < n; j++) pb.G.mk(i, j) = R.coin(dens); pb.G.mk(i, R.range(0, n - 1)) = 1; }
    fill_values(R, pb.G, false);
    pb.c.assign(n, 0); for (auto& x : pb.c) x = R.val();
    // b = A x0 with |x0| <= 1/2 so that the equalities are consistent with the box
    std::vector<double> x0(n); for (auto& x : x0) x = R.val(-0.5, 0.5);
    pb.b.assign(pb.p, 0); for (int i = 0; i < pb.p; i++) { double s = 0; for (int j = 0; j < n; j++) s += pb.A.at(i, j) * x0[j]; pb.b[i] = s; }
    fill_h(R, pb);
    for (int i = 0; i < pb.m; i++) { double s = 0; for (int j = 0; j < n; j++) s += pb.G.at(i, j) * x0[j]; if (std::isfinite(pb.h[i]) && pb.h[i] < 1e29) pb.h[i] += s; }
    fill_bounds(R, pb);
    pb.has_lb = R.coin(0.75); pb.has_ub = R.coin(0.75);
    return pb;
}
enum { U_P = 1, U_c = 2, U_A = 4, U_b = 8, U_G = 16, U_h = 32, U_lb = 64, U_ub = 128 };
// change the numbers of the blocks in [mask] (patterns are kept: the sparse interface requires it)
static void perturb(Rng& R, Problem& pb, int mask)
{
    if (mask & U_P) fill_values(R, pb.P, true);
    if (mask & U_c) for (auto& x : pb.c) x = R.val();
    if (mask & U_A) fill_values(R, pb.A, false);
    if (mask & U_b) for (auto& x : pb.b) x += R.val(-0.1, 0.1);
    if (mask & U_G) fill_values(R, pb.G, false);
    if (mask & U_h) { fill_h(R, pb); for (auto& x : pb.h) if (std::isfinite(x) && x < 1e29) x += 1.0; }
    if (mask & (U_lb | U_ub)) { std::vector<double> l = pb.lb, u = pb.ub; fill_bounds(R, pb); if (!(mask & U_lb)) pb.lb = l; if (!(mask & U_ub)) pb.ub = u; }
}


// contradictory inequality rows  x_0 <= -5  and  -x_0 <= -5  (needs m >= 2; the pattern is widened before setup)
static bool make_primal_infeasible(Problem& pb)
{
    if (pb.m < 2) return false;
    for (int j = 0; j < pb.n; j++) for (int i = 0; i < 2; i++) { pb.G.at(i, j) = 0.0; }
    pb.G.mk(0, 0) = 1; pb.G.mk(1, 0) = 1; pb.G.at(0, 0) = 1.0; pb.G.at(1, 0) = -1.0; pb.h[0] = -5.0; pb.h[1] = -5.0;
    return true;
}
// zero curvature, cost -sum x, no constraints but lower bounds: unbounded below
static void make_dual_infeasible(Problem& pb)
{
    for (auto& x : pb.P.v) x = 0.0;
    for (auto& x : pb.c) x = -1.0;
    pb.p = 0; pb.m = 0; pb.A.r = 0; pb.A.v.clear(); pb.A.mask.clear(); pb.G.r = 0; pb.G.v.clear(); pb.G.mask.clear(); pb.b.clear(); pb.h.clear();
    pb.has_ub = false; pb.has_lb = true; for (auto& x : pb.lb) x = -1.0;
}

#endif
