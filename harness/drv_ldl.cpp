// C14 driver: runs the REAL factorisation and sparse kernels of /repo (current headers) on exact rationals.
//   piqp::sparse::LDLt<xrat,int> (symbolic + numeric + lsolve/dsolve/ltsolve/solve_inplace),
//   permute_sparse_symmetric_matrix, transpose_no_allocation, pre/post_mult_diagonal, AMDOrdering,
//   dense::internal::ldlt_no_pivot_inplace<Lower>::{unblocked,blocked}, dense::LDLTNoPivot (compute + solve).
// Reads cases from argv[1] (or stdin); prints one "case.op.key values" line per observation (exact fractions,
// integer arrays).  Keys starting with "oracle_" and the key "nonfinite" are implementation-side oracles that
// do not involve the Gallina model (residuals computed here in exact arithmetic).
//   -DSCALAR=0 xrat (default) ; -DSCALAR=1 double (dense ops only, values printed with %a)
#include <cstdio>
#include <cstdlib>
#include <cstring>
#include <string>
#include <vector>
#include <map>
#include <iostream>
#include <fstream>
#include <sstream>
#include <stdexcept>
#ifndef SCALAR
#define SCALAR 0
#endif
// failed Eigen assertions become exceptions that are reported as observations
#define eigen_assert(x) do { if (!(x)) throw std::runtime_error(std::string("eigen_assert:") + #x); } while (0)
#include <Eigen/Dense>
#include <Eigen/Sparse>
#include <Eigen/OrderingMethods>
#include <gmpxx.h>
#include "xrat.hpp"
#if SCALAR == 0
typedef xr::xrat T;
#else
typedef double T;
#endif

#define private public
#define protected public
#include "piqp/sparse/ldlt.hpp"
#include "piqp/sparse/utils.hpp"
#include "piqp/sparse/ordering.hpp"
#include "piqp/dense/ldlt_no_pivot.hpp"
#undef private
#undef protected

using namespace piqp;
typedef SparseMat<T, int> SpM;
typedef Eigen::Matrix<T, Eigen::Dynamic, Eigen::Dynamic> DM;
typedef Eigen::Matrix<T, Eigen::Dynamic, 1> DV;
typedef Eigen::Matrix<int, Eigen::Dynamic, 1> IV;

static T parse_scalar(const std::string& s)
{
#if SCALAR == 0
    return xr::xrat(s);
#else
    mpq_class q(s); q.canonicalize(); return q.get_d();
#endif
}
static std::string fmt(const T& x)
{
#if SCALAR == 0
    if (x.taint) return "?";
    return x.str();
#else
    char buf[64]; snprintf(buf, sizeof buf, "%a", x); return buf;
#endif
}
static bool is_zero(const T& x)
{
#if SCALAR == 0
    return x.tag == xr::FIN && !x.taint && x.v == 0;
#else
    return x == 0.0;
#endif
}

struct Tok {
    std::vector<std::string> t; size_t i = 0;
    bool eof() const { return i >= t.size(); }
    std::string next() { if (eof()) { fprintf(stderr, "unexpected eof\n"); exit(2); } return t[i++]; }
    long nextl() { return atol(next().c_str()); }
};

struct SpIn { long rows = 0, cols = 0; std::vector<int> ap, ai; std::vector<T> ax; };

static SpM build(const SpIn& m)
{
    SpM M; M.resize(m.rows, m.cols); M.resizeNonZeros((Eigen::Index) m.ai.size());
    for (long j = 0; j <= m.cols; j++) M.outerIndexPtr()[j] = m.ap[j];
    for (size_t k = 0; k < m.ai.size(); k++) { M.innerIndexPtr()[k] = m.ai[k]; M.valuePtr()[k] = m.ax[k]; }
    return M;
}
static DM to_dense(const SpM& M)
{
    DM R = DM::Constant(M.rows(), M.cols(), T(0));
    for (Eigen::Index j = 0; j < M.outerSize(); j++)
        for (int p = M.outerIndexPtr()[j]; p < M.outerIndexPtr()[j + 1]; p++) R(M.innerIndexPtr()[p], j) += M.valuePtr()[p];
    return R;
}

static std::string pfx;
static void out(const std::string& k, const std::string& v) { std::cout << pfx << k << " " << v << "\n"; std::cout.flush(); }
template<typename It> static std::string join_i(It b, It e) { std::ostringstream os; os << (e - b); for (; b != e; ++b) os << " " << *b; return os.str(); }
static std::string fmt_ip(const int* p, long n) { std::ostringstream os; os << n; for (long i = 0; i < n; i++) os << " " << p[i]; return os.str(); }
static std::string fmt_tp(const T* p, long n) { std::ostringstream os; os << n; for (long i = 0; i < n; i++) os << " " << fmt(p[i]); return os.str(); }
static std::string fmt_iv(const IV& v) { return fmt_ip(v.data(), v.size()); }
static std::string fmt_tv(const DV& v, long n = -1) { return fmt_tp(v.data(), n < 0 ? v.size() : n); }
static std::string ltos(long x) { return std::to_string(x); }

static void out_csc(const char* p, const SpM& C)
{
    std::string s(p);
    out(s + "p", fmt_ip(C.outerIndexPtr(), C.outerSize() + 1));
    out(s + "i", fmt_ip(C.innerIndexPtr(), C.outerIndexPtr()[C.outerSize()]));
    out(s + "x", fmt_tp(C.valuePtr(), C.outerIndexPtr()[C.outerSize()]));
}

static void nf_reset() { xr::g().nonfinite_arith = false; xr::g().nonfinite_count = 0; }
static void nf_out() { out("nonfinite", xr::g().nonfinite_arith ? "1" : "0"); }

struct GivenOrdering { std::vector<int> pinv; int inv(isize i) const { return pinv[(size_t) i]; } };

// ---------------------------------------------------------------- sparse LDL
static void ldl_core(const SpM& A, const DV& b)
{
    const long n = A.rows();
    sparse::LDLt<T, int> ldlt;
    ldlt.factorize_symbolic_upper_triangular(A);
    out("etree", fmt_iv(ldlt.etree)); out("Lcols", fmt_iv(ldlt.L_cols)); out("Lnnz0", fmt_iv(ldlt.L_nnz));
    long ret = (long) ldlt.factorize_numeric_upper_triangular(A);
    out("ret", ltos(ret));
    out("Lnnz", fmt_iv(ldlt.L_nnz));
    long done = ret < n ? ret + 1 : n;      // columns of L / entries of D that have been written
    {
        std::ostringstream oi, ov; long cnt = 0;
        for (long i = 0; i < done; i++)
            for (int p = ldlt.L_cols[i]; p < ldlt.L_cols[i] + ldlt.L_nnz[i]; p++) { oi << " " << ldlt.L_ind[p]; ov << " " << fmt(ldlt.L_vals[p]); cnt++; }
        out("Lind", ltos(cnt) + oi.str()); out("Lvals", ltos(cnt) + ov.str());
    }
    out("D", fmt_tv(ldlt.D, done));
    // oracle: L D L^T == A on the leading [done x done] block (A symmetric from its upper triangle); D[ret] == 0 on failure
    {
        DM L = DM::Constant(n, n, T(0));
        for (long i = 0; i < done; i++) {
            L(i, i) = T(1);
            for (int p = ldlt.L_cols[i]; p < ldlt.L_cols[i] + ldlt.L_nnz[i]; p++) L(ldlt.L_ind[p], i) += ldlt.L_vals[p];
        }
        DM Ad = to_dense(A);
        long bad = 0; std::string first;
        for (long i = 0; i < done; i++) for (long j = 0; j <= i; j++) {
            T s(0);
            for (long c = 0; c <= j; c++) s += L(i, c) * ldlt.D[c] * L(j, c);
            if (!is_zero(s - Ad(j, i))) { if (!bad) first = ltos(i) + "," + ltos(j); bad++; }
        }
        out("oracle_ldl_resid", ltos(bad) + (bad ? " at " + first : ""));
        if (ret < n) out("oracle_zero_pivot", is_zero(ldlt.D[ret]) ? "1" : "0");
        long unit_lower_bad = 0;
        for (long i = 0; i < done; i++)
            for (int p = ldlt.L_cols[i]; p < ldlt.L_cols[i] + ldlt.L_nnz[i]; p++) if (!(ldlt.L_ind[p] > i && ldlt.L_ind[p] < n)) unit_lower_bad++;
        out("oracle_unit_lower", ltos(unit_lower_bad));
    }
    if (ret == n) {
        out("Dinv", fmt_tv(ldlt.D_inv));
        DV x = b; ldlt.lsolve(x); out("lsolve", fmt_tv(x));
        x = b; ldlt.dsolve(x); out("dsolve", fmt_tv(x));
        x = b; ldlt.ltsolve(x); out("ltsolve", fmt_tv(x));
        x = b; ldlt.solve_inplace(x); out("solve", fmt_tv(x));
        // oracle: A x == b with A = symmetric completion of the stored upper triangle
        DM Ad = to_dense(A);
        long bad = 0;
        for (long i = 0; i < n; i++) {
            T s(0);
            for (long j = 0; j < n; j++) s += (i <= j ? Ad(i, j) : Ad(j, i)) * x(j);
            if (!is_zero(s - b(i))) bad++;
        }
        out("oracle_solve_resid", ltos(bad));
    }
}

static void op_ldl(const SpIn& Ain, const DV& b) { SpM A = build(Ain); ldl_core(A, b); }
// permute with the real kernel, then factorise the permuted matrix: L D L^T == P A P^T
static void op_ldlperm(const SpIn& Ain, const std::vector<int>& p, const DV& b)
{
    SpM A = build(Ain);
    const long n = A.rows();
    GivenOrdering ord; ord.pinv.assign((size_t) n, 0);
    for (long i = 0; i < n; i++) ord.pinv[(size_t) p[(size_t) i]] = (int) i;
    SpM C;
    Vec<int> map = sparse::permute_sparse_symmetric_matrix(A, C, ord);
    out_csc("C", C);
    ldl_core(C, b);
}

// ---------------------------------------------------------------- permute
static void op_permute(const SpIn& Ain, const std::vector<int>& p)
{
    SpM A = build(Ain);
    const long n = A.rows();
    GivenOrdering ord; ord.pinv.assign((size_t) n, 0);
    for (long i = 0; i < n; i++) ord.pinv[(size_t) p[(size_t) i]] = (int) i;
    // the output matrix is deliberately REUSED across calls (as sparse::KKT::init does with its PKPt member on a repeated setup()):
    // the kernel must not depend on what the output held before
    static SpM C;
    Vec<int> map = sparse::permute_sparse_symmetric_matrix(A, C, ord);
    out_csc("C", C);
    out("map", fmt_iv(map));
    // oracle: C is upper triangular with sorted columns, C == upper(A(p,p)), and the map
    DM Ad = to_dense(A), Cd = to_dense(C);
    long bad = 0, shape = 0;
    for (long j = 0; j < n; j++)
        for (int q = C.outerIndexPtr()[j]; q < C.outerIndexPtr()[j + 1]; q++) {
            if (C.innerIndexPtr()[q] > j) shape++;
            if (q > C.outerIndexPtr()[j] && C.innerIndexPtr()[q - 1] >= C.innerIndexPtr()[q]) shape++;
        }
    for (long a = 0; a < n; a++) for (long c = 0; c < n; c++) {
        long i = p[(size_t) a], j = p[(size_t) c];
        T want = a <= c ? (i <= j ? Ad(i, j) : Ad(j, i)) : T(0);
        if (!is_zero(Cd(a, c) - want)) bad++;
    }
    out("oracle_perm_shape", ltos(shape)); out("oracle_perm_resid", ltos(bad));
    long mbad = 0;
    std::vector<int> colof((size_t) C.nonZeros(), -1);
    for (long j = 0; j < n; j++) for (int q = C.outerIndexPtr()[j]; q < C.outerIndexPtr()[j + 1]; q++) colof[(size_t) q] = (int) j;
    std::vector<int> hit((size_t) C.nonZeros(), 0);
    for (long j = 0; j < n; j++)
        for (int k = A.outerIndexPtr()[j]; k < A.outerIndexPtr()[j + 1]; k++) {
            long i = A.innerIndexPtr()[k];
            if (i > j) continue;
            if (k >= map.size()) { mbad++; continue; }
            long q = map[k];
            if (q < 0 || q >= C.nonZeros()) { mbad++; continue; }
            long i2 = ord.pinv[(size_t) i], j2 = ord.pinv[(size_t) j];
            hit[(size_t) q]++;
            if (C.innerIndexPtr()[q] != (i2 < j2 ? i2 : j2) || colof[(size_t) q] != (i2 < j2 ? j2 : i2) || !is_zero(C.valuePtr()[q] - A.valuePtr()[k])) mbad++;
        }
    for (int h : hit) if (h != 1) mbad++;
    out("oracle_map_bad", ltos(mbad));
}

// ---------------------------------------------------------------- ordering
static void ordering_outputs(sparse::AMDOrdering<int>& ord, const DV& b)
{
    const long n = b.size();
    DV x(n), y(n);
    ord.template perm<T>(x, b); out("perm", fmt_tv(x));
    ord.template permt<T>(y, b); out("permt", fmt_tv(y));
    DV z(n), w(n);
    ord.template permt<T>(z, x); ord.template perm<T>(w, y);
    long bad = 0;
    for (long i = 0; i < n; i++) { if (!is_zero(z(i) - b(i))) bad++; if (!is_zero(w(i) - b(i))) bad++; }
    out("oracle_roundtrip", ltos(bad));
}
static void op_ordering(const std::vector<int>& p, const DV& b)
{
    sparse::AMDOrdering<int> ord;
    const long n = (long) p.size();
    ord.P.resize(n); ord.P_inv.resize(n);
    for (long i = 0; i < n; i++) ord.P[i] = p[(size_t) i];
    for (long i = 0; i < n; i++) ord.P_inv[ord.P[i]] = (int) i;   // harness copy of the loop of init()
    ordering_outputs(ord, b);
}
static void op_amd(const SpIn& Ain, const DV& b)
{
    SpM A = build(Ain);
    const long n = A.rows();
    sparse::AMDOrdering<int> ord;
    ord.init(A);
    out("P", fmt_iv(ord.P)); out("Pinv", fmt_iv(ord.P_inv));
    long bad = (ord.P.size() != n) + (ord.P_inv.size() != n);
    std::vector<int> seen((size_t) n, 0);
    for (long i = 0; i < ord.P.size(); i++) { if (ord.P[i] < 0 || ord.P[i] >= n) { bad++; continue; } seen[(size_t) ord.P[i]]++; }
    for (int s : seen) if (s != 1) bad++;
    if (!bad) for (long i = 0; i < n; i++) { if (ord.inv(ord[i]) != i || ord[ord.inv(i)] != i || ord(i) != ord[i]) bad++; }
    out("oracle_is_perm", ltos(bad));
    if (!bad) ordering_outputs(ord, b);
}

// ---------------------------------------------------------------- transpose / diagonal scaling
static void op_transpose(const SpIn& Gin)
{
    SpM G = build(Gin);
    SpM C = G.transpose();                   // allocates the pattern of G^T
    C.makeCompressed();
    std::vector<int> cp0(C.outerIndexPtr(), C.outerIndexPtr() + C.outerSize() + 1);
    for (Eigen::Index k = 0; k < C.nonZeros(); k++) { C.innerIndexPtr()[k] = 0; C.valuePtr()[k] = T(); }   // junk values (tainted)
    sparse::transpose_no_allocation<T, int>(G, C);
    out_csc("C", C);
    long bad = 0;
    for (size_t j = 0; j < cp0.size(); j++) if (cp0[j] != C.outerIndexPtr()[j]) bad++;
    out("oracle_cp_restored", ltos(bad));
    DM Gd = to_dense(G), Cd = to_dense(C);
    bad = 0;
    for (long i = 0; i < Gd.rows(); i++) for (long j = 0; j < Gd.cols(); j++) if (!is_zero(Cd(j, i) - Gd(i, j))) bad++;
    out("oracle_tr_resid", ltos(bad));
}
static void op_scale(const SpIn& Gin, const DV& d, bool pre)
{
    SpM G = build(Gin);
    DM G0 = to_dense(G);
    if (pre) sparse::pre_mult_diagonal<T, int>(G, d); else sparse::post_mult_diagonal<T, int>(G, d);
    out_csc("A", G);
    DM G1 = to_dense(G);
    long bad = 0;
    for (long i = 0; i < G0.rows(); i++) for (long j = 0; j < G0.cols(); j++) if (!is_zero(G1(i, j) - G0(i, j) * (pre ? d(i) : d(j)))) bad++;
    out("oracle_scale_resid", ltos(bad));
}

// ---------------------------------------------------------------- dense
static void out_dense(const DM& M)
{
    std::ostringstream lo, up; long n = M.rows(), cl = 0, cu = 0;
    for (long i = 0; i < n; i++) for (long j = 0; j < n; j++) {
        if (j <= i) { lo << " " << fmt(M(i, j)); cl++; } else { up << " " << fmt(M(i, j)); cu++; }
    }
    out("low", ltos(cl) + lo.str()); out("upp", ltos(cu) + up.str());
}
static long dense_resid(const DM& A0, const DM& M, long done)
{
    long bad = 0;
    for (long i = 0; i < done; i++) for (long j = 0; j <= i; j++) {
        T s(0);
        for (long c = 0; c <= j; c++) s += (c == i ? T(1) : M(i, c)) * M(c, c) * (c == j ? T(1) : M(j, c));
        if (!is_zero(s - A0(i, j))) bad++;
    }
    return bad;
}
static void op_dense_inplace(const DM& A0, bool blocked)
{
    DM M = A0; DV temp(M.rows());
    long ret = blocked ? (long) dense::internal::ldlt_no_pivot_inplace<Eigen::Lower>::blocked(M, temp)
                       : (long) dense::internal::ldlt_no_pivot_inplace<Eigen::Lower>::unblocked(M, temp);
    out("ret", ltos(ret));
    out_dense(M);
    long n = M.rows();
    long done = ret < 0 ? n : ret + 1;
    out("oracle_ldl_resid", ltos(dense_resid(A0, M, done)));
    if (ret >= 0) out("oracle_zero_pivot", is_zero(M(ret, ret)) ? "1" : "0");
}
static void op_dense_compute(const DM& A0, const DV& b)
{
    dense::LDLTNoPivot<DM, Eigen::Lower> ldlt;
    ldlt.compute(A0);
    bool ok = ldlt.info() == Eigen::Success;
    out("info", ok ? "0" : "1");
    if (!ok) return;
    long n = A0.rows();
    out("oracle_ldl_resid", ltos(dense_resid(A0, ldlt.matrixLDLT(), n)));
    DV x = ldlt.solve(b);
    out("x", fmt_tv(x));
    DV y = b; ldlt.solveInPlace(y);
    long bad = 0;
    for (long i = 0; i < n; i++) {
        T s(0);
        for (long j = 0; j < n; j++) s += (j <= i ? A0(i, j) : A0(j, i)) * x(j);
        if (!is_zero(s - b(i))) bad++;
        if (!is_zero(y(i) - x(i))) bad++;
    }
    out("oracle_solve_resid", ltos(bad));
}

int main(int argc, char** argv)
{
    std::ifstream f; std::istream* in = &std::cin;
    if (argc > 1) { f.open(argv[1]); if (!f) { fprintf(stderr, "cannot open %s\n", argv[1]); return 2; } in = &f; }
    Tok tk; { std::string s; while (*in >> s) tk.t.push_back(s); }
    xr::g().junk_mode = 0;
    while (!tk.eof()) {
        std::string k = tk.next();
        if (k != "CASE") { fprintf(stderr, "expected CASE, got %s\n", k.c_str()); return 2; }
        std::string name = tk.next();
        std::cout << "# begin " << name << "\n"; std::cout.flush();
        std::map<std::string, SpIn> mats; std::map<std::string, DV> vecs; std::map<std::string, std::vector<int>> ivecs; std::map<std::string, DM> dmats;
        int opidx = 0;
        while (true) {
            std::string w = tk.next();
            if (w == "ENDCASE") break;
            if (w == "MAT") {
                std::string id = tk.next(); SpIn m; m.rows = tk.nextl(); m.cols = tk.nextl(); long nnz = tk.nextl();
                for (long j = 0; j <= m.cols; j++) m.ap.push_back((int) tk.nextl());
                for (long q = 0; q < nnz; q++) m.ai.push_back((int) tk.nextl());
                for (long q = 0; q < nnz; q++) m.ax.push_back(parse_scalar(tk.next()));
                mats[id] = m;
            } else if (w == "VEC") {
                std::string id = tk.next(); long n = tk.nextl(); DV v(n); for (long i = 0; i < n; i++) v(i) = parse_scalar(tk.next()); vecs[id] = v;
            } else if (w == "IVEC") {
                std::string id = tk.next(); long n = tk.nextl(); std::vector<int> v; for (long i = 0; i < n; i++) v.push_back((int) tk.nextl()); ivecs[id] = v;
            } else if (w == "DMAT") {
                std::string id = tk.next(); long n = tk.nextl(); DM M(n, n);
                for (long i = 0; i < n; i++) for (long j = 0; j < n; j++) M(i, j) = parse_scalar(tk.next());
                dmats[id] = M;
            } else if (w == "OP") {
                std::string op = tk.next();
                pfx = name + "." + std::to_string(opidx++) + ".";
                nf_reset();
                try {
#if SCALAR == 0
                    if (op == "ldl") { std::string a = tk.next(), b = tk.next(); op_ldl(mats.at(a), vecs.at(b)); }
                    else if (op == "ldlperm") { std::string a = tk.next(), p = tk.next(), b = tk.next(); op_ldlperm(mats.at(a), ivecs.at(p), vecs.at(b)); }
                    else if (op == "permute") { std::string a = tk.next(), p = tk.next(); op_permute(mats.at(a), ivecs.at(p)); }
                    else if (op == "ordering") { std::string p = tk.next(), b = tk.next(); op_ordering(ivecs.at(p), vecs.at(b)); }
                    else if (op == "amd") { std::string a = tk.next(), b = tk.next(); op_amd(mats.at(a), vecs.at(b)); }
                    else if (op == "transpose") { std::string a = tk.next(); op_transpose(mats.at(a)); }
                    else if (op == "premult") { std::string a = tk.next(), d = tk.next(); op_scale(mats.at(a), vecs.at(d), true); }
                    else if (op == "postmult") { std::string a = tk.next(), d = tk.next(); op_scale(mats.at(a), vecs.at(d), false); }
                    else
#endif
                    if (op == "dense_unblocked") { std::string a = tk.next(); op_dense_inplace(dmats.at(a), false); }
                    else if (op == "dense_blocked") { std::string a = tk.next(); op_dense_inplace(dmats.at(a), true); }
                    else if (op == "dense_compute") { std::string a = tk.next(), b = tk.next(); op_dense_compute(dmats.at(a), vecs.at(b)); }
                    else { fprintf(stderr, "bad op %s\n", op.c_str()); return 2; }
                } catch (const std::exception& e) {
                    std::string m = e.what(); for (auto& c : m) if (c == ' ' || c == '\n') c = '_';
                    out("exception", m);
                }
                nf_out();
            } else { fprintf(stderr, "bad token %s\n", w.c_str()); return 2; }
        }
        std::cout << "# end " << name << "\n"; std::cout.flush();
    }
    return 0;
}
