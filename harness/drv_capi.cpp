// C16 correspondence driver: the C interface ($VERIF_REPO/interfaces/c/src/piqp.cpp, compiled into this TU) against the
// C++ DenseSolver<double> / SparseSolver<double,int> driven identically.  double arithmetic, every comparison bit for bit.
//
//   drv_capi <casefile>          run the call sequences of the case file (see tools/props/c16.py for the grammar), each one
//                                twice: through piqp_setup_dense/piqp_update_dense and through piqp_setup_sparse/piqp_update_sparse
//   drv_capi --defaults          print piqp_set_default_settings vs piqp::Settings<double>{} field by field
//
// After EVERY call the driver compares
//   * every result vector read THROUGH work->result-><ptr> with the reference solver's vector            (field=<name>)
//   * every work->result-><ptr> with <solver behind the handle>.result().<name>.data(), non-NULL if size>0 (field=ptr.<name>)
//   * every non-timing piqp_info field with the reference solver's Info                                  (field=info.<name>)
//   * the return value of piqp_solve with the reference solve()                                          (field=status)
//   * all 25 settings of the solver behind the handle with the reference solver's settings               (field=settings.<name>)
//   * every caller array / struct, byte for byte, with its copy taken before the call                    (field=caller.<name>)
// Output (on the original stdout; the library's own printing is sent to /dev/null):
//   MIS case=<id> input=<dense|sparse> call=<k> op=<op> field=<f> idx=<i> c=<v> cxx=<v>
//   OK case=<id> input=<..> calls=<k> cmp=<number of compared items> st=<status after each solve>
//   DUMP <id> <input> <mat> <ncols> <nrows> <entries column by column>   (only for cases flagged `dump`: what the solver stored)
//   CSCIN <id> <mat> <m> <n> <nnz> p <..> i <..> x <..>                  (the CSC arrays handed to piqp_setup_sparse)
#include <cstdio>
#include <cstdlib>
#include <cstring>
#include <cmath>
#include <string>
#include <vector>
#include <map>
#include <sstream>
#include <fstream>
#include <iostream>
#include <memory>
#include <limits>
#include <algorithm>
#include <unistd.h>
#include <Eigen/Dense>
#include <Eigen/Sparse>

#include "verif_hooks.hpp"

#include "piqp/utils/optional.hpp"
#define private public
#define protected public
#include "piqp/piqp.hpp"
#undef private
#undef protected

#include "piqp.h"
#include "piqp.cpp"   // the C interface under test, from -I$VERIF_REPO/interfaces/c/src

namespace hv {

typedef piqp::DenseSolver<double> XDense;
typedef piqp::SparseSolver<double, int> XSparse;   // what piqp.cpp instantiates: I = piqp_int = int, Mode = KKT_FULL
typedef Eigen::Matrix<double, Eigen::Dynamic, Eigen::Dynamic> XMat;   // column major (piqp::Mat<double>)
typedef Eigen::SparseMatrix<double, Eigen::ColMajor, int> XSp;
typedef Eigen::Matrix<double, Eigen::Dynamic, 1> XVec;

static FILE* out = nullptr;
static bool trace = false;   // C16_TRACE=1: print every call before it is made (to locate a crash)

// F = floating, I = isize, B = bool
#define SETTINGS_F(X) \
    X(rho_init) X(delta_init) X(eps_abs) X(eps_rel) X(check_duality_gap) X(eps_duality_gap_abs) X(eps_duality_gap_rel) \
    X(reg_lower_limit) X(reg_finetune_lower_limit) X(reg_finetune_primal_update_threshold) X(reg_finetune_dual_update_threshold) \
    X(max_iter) X(max_factor_retires) X(preconditioner_scale_cost) X(preconditioner_iter) X(tau) \
    X(iterative_refinement_always_enabled) X(iterative_refinement_eps_abs) X(iterative_refinement_eps_rel) \
    X(iterative_refinement_max_iter) X(iterative_refinement_min_improvement_rate) \
    X(iterative_refinement_static_regularization_eps) X(iterative_refinement_static_regularization_rel) X(verbose) X(compute_timings)

#define INFO_F(X) \
    X(iter) X(rho) X(delta) X(mu) X(sigma) X(primal_step) X(dual_step) X(primal_inf) X(primal_rel_inf) X(dual_inf) X(dual_rel_inf) \
    X(primal_obj) X(dual_obj) X(duality_gap) X(duality_gap_rel) X(factor_retires) X(reg_limit) X(no_primal_update) X(no_dual_update)

#define VEC_F(X) X(x) X(y) X(z) X(z_lb) X(z_ub) X(s) X(s_lb) X(s_ub) X(zeta) X(lambda) X(nu) X(nu_lb) X(nu_ub)

// value -> text, exact: doubles as %a, integers/bools/enums as integers
static std::string txt(double v) { char b[64]; snprintf(b, sizeof b, "%a", v); return b; }
static std::string txt(float v) { return txt((double) v); }
static std::string txt(long long v) { return std::to_string(v); }
static std::string txt(long v) { return std::to_string(v); }
static std::string txt(int v) { return std::to_string(v); }
static std::string txt(bool v) { return v ? "1" : "0"; }

struct Spec { bool null = false; std::vector<std::pair<std::string, double>> ov; };

static Spec parse_spec(const std::string& s)
{
    Spec sp;
    if (s == "NULL") { sp.null = true; return sp; }
    if (s == "-") return sp;
    std::stringstream ss(s); std::string item;
    while (std::getline(ss, item, ',')) {
        size_t e = item.find('=');
        sp.ov.push_back(std::make_pair(item.substr(0, e), strtod(item.c_str() + e + 1, nullptr)));
    }
    return sp;
}

static bool set_c_field(piqp_settings& cs, const std::string& f, double v)
{
#define X(n) if (f == #n) { cs.n = (decltype(cs.n)) v; return true; }
    SETTINGS_F(X)
#undef X
    return false;
}
static bool set_x_field(piqp::Settings<double>& xs, const std::string& f, double v)
{
#define X(n) if (f == #n) { xs.n = (decltype(xs.n)) v; return true; }
    SETTINGS_F(X)
#undef X
    return false;
}

struct Op {
    std::string kind;   // setup | update | solve | settings
    std::string spec;   // settings spec
    std::string mask;   // setup: AbGhLU   update: PcAbGhLU
    std::map<std::string, std::vector<double>> d;
};
struct Case { std::string id; int n = 0, p = 0, m = 0; bool dump = false; std::vector<Op> ops; };

struct Report {
    const Case* c; const char* input; int call = 0; std::string op; long cmp = 0; int mis = 0; std::string st;
    void mis_(const std::string& field, long idx, const std::string& a, const std::string& b)
    {
        if (mis < 6)
            fprintf(out, "MIS case=%s input=%s call=%d op=%s field=%s idx=%ld c=%s cxx=%s\n", c->id.c_str(), input, call, op.c_str(), field.c_str(), idx, a.c_str(), b.c_str());
        mis++;
    }
};

// a caller-owned buffer with a copy for the never-written check
struct Guard {
    std::vector<std::pair<std::string, std::pair<const void*, std::vector<unsigned char>>>> items;
    void add(const std::string& name, const void* p, size_t bytes)
    {
        std::vector<unsigned char> cp(bytes);
        if (bytes) memcpy(cp.data(), p, bytes);
        items.push_back(std::make_pair(name, std::make_pair(p, cp)));
    }
    void check(Report& R)
    {
        for (auto& it : items) {
            R.cmp++;
            if (it.second.second.size() && memcmp(it.second.first, it.second.second.data(), it.second.second.size()) != 0) {
                size_t k = 0; const unsigned char* q = (const unsigned char*) it.second.first;
                while (q[k] == it.second.second[k]) k++;
                R.mis_("caller." + it.first, (long) k, "modified", "unmodified");
            }
        }
    }
};

// caller array: the values, preceded and followed by a sentinel, so that a present zero-length block still has a non-NULL pointer
struct Arr {
    std::vector<double> buf;
    explicit Arr(const std::vector<double>& v) { buf.push_back(-7.25); buf.insert(buf.end(), v.begin(), v.end()); buf.push_back(-9.5); }
    double* ptr() { return buf.data() + 1; }
    void guard(Guard& g, const std::string& n) { g.add(n, buf.data(), buf.size() * sizeof(double)); }
};

// hand-made CSC arrays of a row-major r x c array (exact zeros dropped, row indices increasing)
struct Csc {
    std::vector<piqp_int> p, i; std::vector<double> x; piqp_int r, c; piqp_csc* h = nullptr;
    Csc(const std::vector<double>& a, int r_, int c_) : r(r_), c(c_)
    {
        p.push_back(0);
        for (int j = 0; j < c; j++) {
            for (int k = 0; k < r; k++) { double v = a[(size_t) k * c + j]; if (!(v == 0.0)) { i.push_back(k); x.push_back(v); } }
            p.push_back((piqp_int) x.size());
        }
        i.push_back(-1); x.push_back(-9.5);   // sentinels past nnz (keep data() non-NULL)
        h = piqp_csc_matrix(r, c, (piqp_int) x.size() - 1, p.data(), i.data(), x.data());
    }
    ~Csc() { free(h); }
    Csc(const Csc&) = delete;
    void guard(Guard& g, const std::string& n)
    {
        g.add(n + ".struct", h, sizeof(piqp_csc));
        g.add(n + ".p", p.data(), p.size() * sizeof(piqp_int));
        g.add(n + ".i", i.data(), i.size() * sizeof(piqp_int));
        g.add(n + ".x", x.data(), x.size() * sizeof(double));
    }
    void print(const Case& cs, const char* name)
    {
        fprintf(out, "CSCIN %s %s %d %d %d p", cs.id.c_str(), name, (int) h->m, (int) h->n, (int) h->nnz);
        for (int k = 0; k <= c; k++) fprintf(out, " %d", (int) p[k]);
        fprintf(out, " i"); for (int k = 0; k < h->nnz; k++) fprintf(out, " %d", (int) i[k]);
        fprintf(out, " x"); for (int k = 0; k < h->nnz; k++) fprintf(out, " %a", x[k]);
        fprintf(out, "\n");
    }
};

// reference-side matrices, built by plain loops from the same row-major values
static XMat ref_dense(const std::vector<double>& a, int r, int c)
{
    XMat M(r, c);
    for (int i = 0; i < r; i++) for (int j = 0; j < c; j++) M(i, j) = a[(size_t) i * c + j];
    return M;
}
static XSp ref_sparse(const std::vector<double>& a, int r, int c)
{
    std::vector<Eigen::Triplet<double, int>> t;
    for (int i = 0; i < r; i++) for (int j = 0; j < c; j++) { double v = a[(size_t) i * c + j]; if (!(v == 0.0)) t.push_back(Eigen::Triplet<double, int>(i, j, v)); }
    XSp M(r, c); M.setFromTriplets(t.begin(), t.end()); M.makeCompressed();
    return M;
}
static XVec ref_vec(const std::vector<double>& a) { XVec v(a.size()); for (size_t i = 0; i < a.size(); i++) v((Eigen::Index) i) = a[i]; return v; }

static bool same_bits(double a, double b) { return memcmp(&a, &b, sizeof(double)) == 0; }

template<class XS>
static void compare_all(Report& R, piqp_workspace* w, XS& ref)
{
    XS* us = reinterpret_cast<XS*>(w->solver_handle);   // the solver behind the handle
    R.cmp++;
    if (!w->result) { R.mis_("ptr.result", 0, "NULL", "non-NULL"); return; }
    const piqp::Result<double>& rr = ref.result();
    const piqp::Result<double>& ur = us->result();
    // result vectors through the C pointers, and pointer identity with the live C++ vectors
#define X(f) { \
        Eigen::Index len = rr.f.size(); R.cmp += 2; \
        const double* cp = w->result->f; \
        if (cp != ur.f.data()) R.mis_("ptr." #f, 0, "stale-or-foreign", "result()." #f ".data()"); \
        else if (len > 0 && cp == nullptr) R.mis_("ptr." #f, 0, "NULL", "non-NULL"); \
        else if (ur.f.size() != len) R.mis_("len." #f, 0, txt((long) ur.f.size()), txt((long) len)); \
        else for (Eigen::Index k = 0; k < len; k++) if (!same_bits(cp[k], rr.f(k))) { R.mis_(#f, (long) k, txt(cp[k]), txt(rr.f(k))); break; } }
    VEC_F(X)
#undef X
    // info (timings aside)
    const piqp_info& ci = w->result->info;
    R.cmp++;
    if ((int) ci.status != (int) rr.info.status) R.mis_("info.status", 0, txt((int) ci.status), txt((int) rr.info.status));
#define X(f) { R.cmp++; decltype(rr.info.f) xv = rr.info.f; \
        if (std::is_floating_point<decltype(xv)>::value) { if (!same_bits((double) ci.f, (double) xv)) R.mis_("info." #f, 0, txt(ci.f), txt(xv)); } \
        else if ((long long) ci.f != (long long) xv) R.mis_("info." #f, 0, txt((long long) ci.f), txt((long long) xv)); }
    INFO_F(X)
#undef X
    // settings of the solver behind the handle
#define X(f) { R.cmp++; auto a = us->settings().f; auto b = ref.settings().f; \
        if (std::is_floating_point<decltype(a)>::value ? !same_bits((double) a, (double) b) : !(a == b)) R.mis_("settings." #f, 0, txt(a), txt(b)); }
    SETTINGS_F(X)
#undef X
}

static void fill_c_settings(piqp_settings& cs, const Spec& sp)
{
    memset(&cs, 0x5a, sizeof cs);
    piqp_set_default_settings(&cs);
    for (auto& o : sp.ov) if (!set_c_field(cs, o.first, o.second)) { fprintf(out, "BADCASE unknown settings field %s\n", o.first.c_str()); }
}
static void fill_x_settings(piqp::Settings<double>& xs, const Spec& sp)
{
    xs = piqp::Settings<double>();
    for (auto& o : sp.ov) set_x_field(xs, o.first, o.second);
}

static const std::vector<double>& dat(const Op& o, const char* n)
{
    static const std::vector<double> empty;
    auto it = o.d.find(n);
    return it == o.d.end() ? empty : it->second;
}

static void dump_cols(const Case& c, const char* input, const char* name, const XMat& M)   // M(i,j), column by column
{
    fprintf(out, "DUMP %s %s %s %d %d", c.id.c_str(), input, name, (int) M.cols(), (int) M.rows());
    for (Eigen::Index j = 0; j < M.cols(); j++) for (Eigen::Index i = 0; i < M.rows(); i++) fprintf(out, " %a", M(i, j));
    fprintf(out, "\n");
}

// reference calls, dense
static void call_setup(XDense& s, const Op& o, int n, int p, int m, bool hA, bool hG, const XVec& c,
                       const piqp::optional<XVec>& b, const piqp::optional<XVec>& h, const piqp::optional<XVec>& l, const piqp::optional<XVec>& u)
{
    XMat P = ref_dense(dat(o, "P"), n, n);
    piqp::optional<XMat> A, G;
    if (hA) A = ref_dense(dat(o, "A"), p, n);
    if (hG) G = ref_dense(dat(o, "G"), m, n);
    s.setup(P, c, A, b, G, h, l, u);
}
static void call_setup(XSparse& s, const Op& o, int n, int p, int m, bool hA, bool hG, const XVec& c,
                       const piqp::optional<XVec>& b, const piqp::optional<XVec>& h, const piqp::optional<XVec>& l, const piqp::optional<XVec>& u)
{
    XSp P = ref_sparse(dat(o, "P"), n, n);
    piqp::optional<XSp> A, G;
    if (hA) A = ref_sparse(dat(o, "A"), p, n);
    if (hG) G = ref_sparse(dat(o, "G"), m, n);
    s.setup(P, c, A, b, G, h, l, u);
}
static void call_update(XDense& s, const Op& o, int n, int p, int m, bool hP, bool hA, bool hG, const piqp::optional<XVec>& c,
                        const piqp::optional<XVec>& b, const piqp::optional<XVec>& h, const piqp::optional<XVec>& l, const piqp::optional<XVec>& u)
{
    piqp::optional<XMat> P, A, G;
    if (hP) P = ref_dense(dat(o, "P"), n, n);
    if (hA) A = ref_dense(dat(o, "A"), p, n);
    if (hG) G = ref_dense(dat(o, "G"), m, n);
    s.update(P, c, A, b, G, h, l, u);
}
static void call_update(XSparse& s, const Op& o, int n, int p, int m, bool hP, bool hA, bool hG, const piqp::optional<XVec>& c,
                        const piqp::optional<XVec>& b, const piqp::optional<XVec>& h, const piqp::optional<XVec>& l, const piqp::optional<XVec>& u)
{
    piqp::optional<XSp> P, A, G;
    if (hP) P = ref_sparse(dat(o, "P"), n, n);
    if (hA) A = ref_sparse(dat(o, "A"), p, n);
    if (hG) G = ref_sparse(dat(o, "G"), m, n);
    s.update(P, c, A, b, G, h, l, u);
}

template<bool SP> struct Kind;
template<> struct Kind<false> { typedef XDense XS; static const char* name() { return "dense"; } };
template<> struct Kind<true> { typedef XSparse XS; static const char* name() { return "sparse"; } };

template<bool SP>
static void run_case(const Case& c)
{
    typedef typename Kind<SP>::XS XS;
    Report R; R.c = &c; R.input = Kind<SP>::name();
    piqp_workspace* w = nullptr;
    std::unique_ptr<XS> ref(new XS());
    const int n = c.n, p = c.p, m = c.m;
    for (size_t k = 0; k < c.ops.size(); k++) {
        const Op& o = c.ops[k];
        R.call = (int) k; R.op = o.kind + (o.mask.empty() ? "" : ":" + o.mask);
        Guard g;
        if (trace) { fprintf(out, "TRACE %s %s %d %s\n", c.id.c_str(), R.input, (int) k, R.op.c_str()); fflush(out); }
        if (o.kind == "setup") {
            if (w) { fprintf(out, "BADCASE second setup\n"); break; }
            Spec sp = parse_spec(o.spec);
            piqp_settings cs; fill_c_settings(cs, sp);
            piqp::Settings<double> xs; fill_x_settings(xs, sp);
            g.add("settings", &cs, sizeof cs);
            bool hA = o.mask[0] == '1', hb = o.mask[1] == '1', hG = o.mask[2] == '1', hh = o.mask[3] == '1', hl = o.mask[4] == '1', hu = o.mask[5] == '1';
            Arr ac(dat(o, "c")), ab(dat(o, "b")), ah(dat(o, "h")), al(dat(o, "x_lb")), au(dat(o, "x_ub"));
            ac.guard(g, "c"); ab.guard(g, "b"); ah.guard(g, "h"); al.guard(g, "x_lb"); au.guard(g, "x_ub");
            if (!SP) {
                Arr aP(dat(o, "P")), aA(dat(o, "A")), aG(dat(o, "G"));
                aP.guard(g, "P"); aA.guard(g, "A"); aG.guard(g, "G");
                piqp_data_dense dd;
                dd.n = n; dd.p = p; dd.m = m; dd.P = aP.ptr(); dd.c = ac.ptr();
                dd.A = hA ? aA.ptr() : nullptr; dd.b = hb ? ab.ptr() : nullptr; dd.G = hG ? aG.ptr() : nullptr; dd.h = hh ? ah.ptr() : nullptr;
                dd.x_lb = hl ? al.ptr() : nullptr; dd.x_ub = hu ? au.ptr() : nullptr;
                g.add("data", &dd, sizeof dd);
                piqp_setup_dense(&w, &dd, sp.null ? nullptr : &cs);
                g.check(R);
            } else {
                Csc sP(dat(o, "P"), n, n), sA(dat(o, "A"), hA ? p : 0, n), sG(dat(o, "G"), hG ? m : 0, n);
                sP.guard(g, "P"); sA.guard(g, "A"); sG.guard(g, "G");
                if (c.dump) { sP.print(c, "P"); if (hA) sA.print(c, "A"); if (hG) sG.print(c, "G"); }
                piqp_data_sparse ds;
                ds.n = n; ds.p = p; ds.m = m; ds.P = sP.h; ds.c = ac.ptr();
                ds.A = hA ? sA.h : nullptr; ds.b = hb ? ab.ptr() : nullptr; ds.G = hG ? sG.h : nullptr; ds.h = hh ? ah.ptr() : nullptr;
                ds.x_lb = hl ? al.ptr() : nullptr; ds.x_ub = hu ? au.ptr() : nullptr;
                g.add("data", &ds, sizeof ds);
                piqp_setup_sparse(&w, &ds, sp.null ? nullptr : &cs);
                g.check(R);
            }
            if (!w) { R.mis_("ptr.workspace", 0, "NULL", "non-NULL"); break; }
            // reference: the same calls on the C++ class
            if (!sp.null) ref->settings() = xs;
            {
                XVec vc = ref_vec(dat(o, "c")), vb = ref_vec(dat(o, "b")), vh = ref_vec(dat(o, "h")), vl = ref_vec(dat(o, "x_lb")), vu = ref_vec(dat(o, "x_ub"));
                piqp::optional<XVec> ob, oh, ol, ou;
                if (hb) ob = vb; if (hh) oh = vh; if (hl) ol = vl; if (hu) ou = vu;
                call_setup(*ref, o, n, p, m, hA, hG, vc, ob, oh, ol, ou);
            }
            R.cmp += 4;
            if ((w->solver_info.is_dense != 0) != !SP) R.mis_("solver_info.is_dense", 0, txt((int) w->solver_info.is_dense), txt((int) !SP));
            if (w->solver_info.n != n) R.mis_("solver_info.n", 0, txt((int) w->solver_info.n), txt(n));
            if (w->solver_info.p != p) R.mis_("solver_info.p", 0, txt((int) w->solver_info.p), txt(p));
            if (w->solver_info.m != m) R.mis_("solver_info.m", 0, txt((int) w->solver_info.m), txt(m));
            if (c.dump) {
                XS* us = reinterpret_cast<XS*>(w->solver_handle);
                dump_cols(c, R.input, "P", XMat(us->m_data.P_utri));
                dump_cols(c, R.input, "A", XMat(XMat(us->m_data.AT).transpose()));
                dump_cols(c, R.input, "G", XMat(XMat(us->m_data.GT).transpose()));
            }
        } else if (!w) {
            fprintf(out, "BADCASE %s before setup\n", o.kind.c_str()); break;
        } else if (o.kind == "settings") {
            Spec sp = parse_spec(o.spec);
            piqp_settings cs; fill_c_settings(cs, sp);
            piqp::Settings<double> xs; fill_x_settings(xs, sp);
            g.add("settings", &cs, sizeof cs);
            piqp_update_settings(w, &cs);
            g.check(R);
            ref->settings() = xs;
        } else if (o.kind == "solve") {
            piqp_status cst = piqp_solve(w);
            piqp::Status xst = ref->solve();
            R.cmp++;
            if ((int) cst != (int) xst) R.mis_("status", 0, txt((int) cst), txt((int) xst));
            R.st += (R.st.empty() ? "" : ",") + std::to_string((int) xst);
        } else if (o.kind == "update") {
            bool hP = o.mask[0] == '1', hc = o.mask[1] == '1', hA = o.mask[2] == '1', hb = o.mask[3] == '1', hG = o.mask[4] == '1', hh = o.mask[5] == '1', hl = o.mask[6] == '1', hu = o.mask[7] == '1';
            Arr ac(dat(o, "c")), ab(dat(o, "b")), ah(dat(o, "h")), al(dat(o, "x_lb")), au(dat(o, "x_ub"));
            ac.guard(g, "c"); ab.guard(g, "b"); ah.guard(g, "h"); al.guard(g, "x_lb"); au.guard(g, "x_ub");
            if (!SP) {
                Arr aP(dat(o, "P")), aA(dat(o, "A")), aG(dat(o, "G"));
                aP.guard(g, "P"); aA.guard(g, "A"); aG.guard(g, "G");
                piqp_update_dense(w, hP ? aP.ptr() : nullptr, hc ? ac.ptr() : nullptr, hA ? aA.ptr() : nullptr, hb ? ab.ptr() : nullptr,
                                  hG ? aG.ptr() : nullptr, hh ? ah.ptr() : nullptr, hl ? al.ptr() : nullptr, hu ? au.ptr() : nullptr);
                g.check(R);
            } else {
                Csc sP(dat(o, "P"), hP ? n : 0, n), sA(dat(o, "A"), hA ? p : 0, n), sG(dat(o, "G"), hG ? m : 0, n);
                sP.guard(g, "P"); sA.guard(g, "A"); sG.guard(g, "G");
                piqp_update_sparse(w, hP ? sP.h : nullptr, hc ? ac.ptr() : nullptr, hA ? sA.h : nullptr, hb ? ab.ptr() : nullptr,
                                   hG ? sG.h : nullptr, hh ? ah.ptr() : nullptr, hl ? al.ptr() : nullptr, hu ? au.ptr() : nullptr);
                g.check(R);
            }
            XVec vc = ref_vec(dat(o, "c")), vb = ref_vec(dat(o, "b")), vh = ref_vec(dat(o, "h")), vl = ref_vec(dat(o, "x_lb")), vu = ref_vec(dat(o, "x_ub"));
            piqp::optional<XVec> oc, ob, oh, ol, ou;
            if (hc) oc = vc; if (hb) ob = vb; if (hh) oh = vh; if (hl) ol = vl; if (hu) ou = vu;
            call_update(*ref, o, n, p, m, hP, hA, hG, oc, ob, oh, ol, ou);
        } else {
            fprintf(out, "BADCASE unknown op %s\n", o.kind.c_str()); break;
        }
        compare_all<XS>(R, w, *ref);
        if (R.mis) break;   // later calls of a diverged pair are not informative
    }
    fprintf(out, "%s case=%s input=%s calls=%d cmp=%ld st=%s\n", R.mis ? "FAIL" : "OK", c.id.c_str(), R.input, (int) c.ops.size(), R.cmp, R.st.c_str());
    piqp_cleanup(w);
}

static void print_defaults()
{
    piqp_settings cs; memset(&cs, 0x5a, sizeof cs);
    piqp_set_default_settings(&cs);
    piqp::Settings<double> xs;
#define X(f) fprintf(out, "DEF %s c=%s cxx=%s\n", #f, txt(cs.f).c_str(), std::is_floating_point<decltype(xs.f)>::value ? txt((double) xs.f).c_str() : txt((long long) xs.f).c_str());
    SETTINGS_F(X)
#undef X
    // a second struct with a different pre-state: the function must not depend on what the struct held before
    piqp_settings c2; memset(&c2, 0, sizeof c2);
    piqp_set_default_settings(&c2);
    bool stable = true;
#define X(f) stable = stable && (std::is_floating_point<decltype(cs.f)>::value ? same_bits((double) cs.f, (double) c2.f) : cs.f == c2.f);
    SETTINGS_F(X)
#undef X
    fprintf(out, "DEFSTABLE %d\n", stable ? 1 : 0);
}

} // namespace hv

int main(int argc, char** argv)
{
    // the library prints (verbose=1) with printf: keep the real stdout for the observations only
    fflush(stdout);
    int saved = dup(1);
    hv::out = fdopen(saved, "w");
    if (!freopen("/dev/null", "w", stdout)) return 3;
    hv::trace = getenv("C16_TRACE") != nullptr;
    if (argc < 2) { fprintf(hv::out, "usage: drv_capi <casefile>|--defaults\n"); return 2; }
    if (std::string(argv[1]) == "--defaults") { hv::print_defaults(); fflush(hv::out); return 0; }
    std::ifstream in(argv[1]);
    if (!in) { fprintf(hv::out, "cannot open %s\n", argv[1]); return 2; }
    std::string line;
    hv::Case cur; bool have = false;
    std::map<std::string, std::vector<double>> pend;
    long ncase = 0;
    while (std::getline(in, line)) {
        if (line.empty() || line[0] == '#') continue;
        std::stringstream ss(line); std::string kw; ss >> kw;
        if (kw == "case") {
            cur = hv::Case(); have = true; pend.clear();
            ss >> cur.id >> cur.n >> cur.p >> cur.m; std::string fl; if (ss >> fl) cur.dump = (fl == "dump");
        } else if (kw == "d") {
            std::string name; size_t cnt; ss >> name >> cnt;
            std::vector<double> v; std::string tok;
            while (ss >> tok) v.push_back(strtod(tok.c_str(), nullptr));
            if (v.size() != cnt) { fprintf(hv::out, "BADCASE %s: %s has %zu values, expected %zu\n", cur.id.c_str(), name.c_str(), v.size(), cnt); return 2; }
            pend[name] = v;
        } else if (kw == "setup" || kw == "update" || kw == "solve" || kw == "settings") {
            hv::Op o; o.kind = kw;
            if (kw == "setup") ss >> o.spec >> o.mask;
            else if (kw == "update") ss >> o.mask;
            else if (kw == "settings") ss >> o.spec;
            o.d = pend; pend.clear();
            cur.ops.push_back(o);
        } else if (kw == "end") {
            if (have) { hv::run_case<false>(cur); hv::run_case<true>(cur); ncase++; }
            have = false;
            fflush(hv::out);
        }
    }
    fprintf(hv::out, "DONE %ld\n", ncase);
    fflush(hv::out);
    return 0;
}
