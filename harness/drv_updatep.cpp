// drv_updatep.cpp -- C10 (sparse half): what setup() and update(P) of the SPARSE interface store for P, on raw caller CSC arrays.
// Compared with the Gallina model coq/SparseUpdateP.v (triu, update_P_check, update_P_copy) by tools/props/c10.py (updatep_stage).
// Scalar double with small integer values (no arithmetic touches P: identity preconditioner), index int.
// input:  per case:  CASE name n | cp0.. | ri0.. | vx0.. | cp1.. | ri1.. | vx1..   (each list: count then entries)
// output: per case:  name S <n> cp.. | ri.. | vx..   (P_utri after setup)   and   name U ...   (P_utri after update(P1))
#include <cstdio>
#include <cstdlib>
#include <string>
#include <vector>
#include <iostream>
#include <fstream>
#include <sstream>
#include <Eigen/Dense>
#include <Eigen/Sparse>
#include "verif_hooks.hpp"
#include "piqp/utils/optional.hpp"
#define private public
#define protected public
#define class struct
#include "piqp/piqp.hpp"
#undef class
#undef private
#undef protected

typedef piqp::SparseSolver<double, int, piqp::KKTMode::KKT_FULL, piqp::sparse::IdentityPreconditioner<double, int>> Solver;
typedef Eigen::SparseMatrix<double, Eigen::ColMajor, int> SpMat;

static std::vector<long> rdl(std::istream& in) { long k; in >> k; std::vector<long> v(k); for (auto& x : v) in >> x; return v; }

static void dump(const std::string& name, const char* tag, Solver& S)
{
    auto& P = S.m_data.P_utri;
    std::cout << name << " " << tag << " " << P.rows() << " " << P.cols();
    std::cout << " |"; for (int j = 0; j <= P.outerSize(); j++) std::cout << " " << P.outerIndexPtr()[j];
    long nnz = P.outerIndexPtr()[P.outerSize()];
    std::cout << " |"; for (long k = 0; k < nnz; k++) std::cout << " " << P.innerIndexPtr()[k];
    std::cout << " |"; for (long k = 0; k < nnz; k++) std::cout << " " << (long) P.valuePtr()[k];
    std::cout << "\n";
}

int main(int argc, char** argv)
{
    if (argc < 2) return 2;
    std::ifstream in(argv[1]);
    std::string tok;
    while (in >> tok) {
        if (tok != "CASE") return 3;
        std::string name; long n; in >> name >> n;
        std::vector<long> cp0 = rdl(in), ri0 = rdl(in), vx0 = rdl(in), cp1 = rdl(in), ri1 = rdl(in), vx1 = rdl(in);
        std::vector<int> c0(cp0.begin(), cp0.end()), r0(ri0.begin(), ri0.end()), c1(cp1.begin(), cp1.end()), r1(ri1.begin(), ri1.end());
        std::vector<double> v0(vx0.begin(), vx0.end()), v1(vx1.begin(), vx1.end());
        r0.push_back(0); v0.push_back(0); r1.push_back(0); v1.push_back(0);   // never-read sentinels: keep data() non-null
        Eigen::Map<const SpMat> P0(n, n, (long) vx0.size(), c0.data(), r0.data(), v0.data());
        Eigen::Map<const SpMat> P1(n, n, (long) vx1.size(), c1.data(), r1.data(), v1.data());
        Eigen::VectorXd c = Eigen::VectorXd::Zero(n);
        Solver* S = new Solver();
        S->settings().verbose = false;
        S->setup(P0, c);
        dump(name, "S", *S);
        S->update(piqp::optional<Eigen::Ref<const SpMat>>(P1));
        dump(name, "U", *S);
        delete S;
    }
    return 0;
}
