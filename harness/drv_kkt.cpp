// Component-level driver for property C13: drives the public KKT structs of /repo directly (no solver around them)
// in exact rational arithmetic, with arbitrary (not solver-generated) data, box scalings, scalings and right-hand sides.
//   -DBACKEND=0 piqp::dense::KKT<xrat>
//   -DBACKEND=1..4 piqp::sparse::KKT<xrat,int,Mode>, Mode = KKT_FULL / KKT_EQ_ELIMINATED / KKT_INEQ_ELIMINATED / KKT_ALL_ELIMINATED
// Case file (whitespace separated tokens; vectors are "k v1 .. vk", matrices "rows cols nnz (i j v)*" column-major sorted,
// explicit zeros are kept: the pattern is part of the input):
//   CASE name
//     SET key value                                   Settings<T> field
//     PROBLEM P <mat> [A <mat>] [G <mat>] [lb <vec>] [ub <vec>] [lbs <vec n_lb>] [ubs <vec n_ub>] END
//                                                     builds Data exactly as SolverBase::setup_impl does (P_utri = upper
//                                                     triangle, AT, GT, packed bounds); lbs/ubs overwrite the heads of
//                                                     x_lb_scaling / x_ub_scaling (what a preconditioner would leave there)
//     INIT rho delta                                  (re)constructs the KKT object and calls init
//     SCALINGS rho delta s s_lb s_ub z z_lb z_ub      update_scalings (s_lb.. given packed: n_lb / n_ub entries)
//     DATA mask [P <mat>] [A <mat>] [G <mat>] [lbs <vec>] [ubs <vec>] END
//                                                     overwrites the VALUES of the given blocks in data (same pattern), then
//                                                     update_data(mask) -- the mask is independent of the blocks given
//     FACTOR refine                                   regularize_and_factorize(refine)
//     SOLVE refine rx ry rz rz_lb rz_ub rs rs_lb rs_ub   (skipped unless the last FACTOR succeeded)
//     MULTIPLY vx vy vz vz_lb vz_ub vs vs_lb vs_ub | MULTIPLY last    ("last" = the step of the last SOLVE)
//     DUMP                                            the assembled matrix
//   ENDCASE
// Output: one line "name.opno.key value.." per observation.
#include <cstdio>
#include <cstdlib>
#include <cstring>
#include <string>
#include <vector>
#include <map>
#include <set>
#include <iostream>
#include <fstream>
#include <sstream>
#include <memory>
#include <functional>
#include <Eigen/Dense>
#include <Eigen/Sparse>
#include <Eigen/Cholesky>
#include <gmpxx.h>
#ifndef BACKEND
#define BACKEND 0
#endif
#include "xrat.hpp"
#include "exact_llt.hpp"
typedef xr::xrat T;

#include "verif_hooks.hpp"

#include "piqp/utils/optional.hpp"
#define private public
#define protected public
#define class struct
#include "piqp/piqp.hpp"
#undef class
#undef private
#undef protected

using namespace piqp;

#if BACKEND == 0
typedef dense::Data<T> DataT;
typedef dense::KKT<T> KKTT;
typedef Mat<T> MatT;
typedef CMatRef<T> MatRefT;
#else
#if BACKEND == 1
static const int kMode = KKTMode::KKT_FULL;
#elif BACKEND == 2
static const int kMode = KKTMode::KKT_EQ_ELIMINATED;
#elif BACKEND == 3
static const int kMode = KKTMode::KKT_INEQ_ELIMINATED;
#else
static const int kMode = KKTMode::KKT_ALL_ELIMINATED;
#endif
typedef sparse::Data<T, int> DataT;
typedef sparse::KKT<T, int, kMode> KKTT;
typedef SparseMat<T, int> MatT;
typedef CSparseMatRef<T, int> MatRefT;
#endif

// ---------- scalar io ----------
static T parse_scalar(const std::string& s) { return xr::xrat(s); }
static std::string fmt(const T& x) { if (x.taint) return "?"; return x.str(); }
template<typename V> static std::string fmtv(const V& v, Eigen::Index k = -1)
{
    std::ostringstream os; Eigen::Index n = k < 0 ? v.size() : k;
    os << n; for (Eigen::Index i = 0; i < n; i++) os << " " << fmt(v(i)); return os.str();
}

struct Tok {
    std::vector<std::string> t; size_t i = 0;
    bool eof() const { return i >= t.size(); }
    const std::string& peek() const { return t[i]; }
    std::string next() { if (eof()) { fprintf(stderr, "unexpected eof\n"); exit(2); } return t[i++]; }
    long nextl() { return atol(next().c_str()); }
};

struct Trip { long r, c; T v; };
struct MatIn { bool present = false; long rows = 0, cols = 0; std::vector<Trip> e; };
struct VecIn { bool present = false; Vec<T> v; };

static MatIn read_mat(Tok& tk)
{
    MatIn m; std::string k = tk.next();
    if (k == "none") return m;
    m.present = true; m.rows = atol(k.c_str()); m.cols = tk.nextl(); long nnz = tk.nextl();
    for (long q = 0; q < nnz; q++) { Trip t; t.r = tk.nextl(); t.c = tk.nextl(); t.v = parse_scalar(tk.next()); m.e.push_back(t); }
    return m;
}
static VecIn read_vec(Tok& tk)
{
    VecIn v; std::string k = tk.next();
    if (k == "none") return v;
    v.present = true; long n = atol(k.c_str()); v.v.resize(n);
    for (long i = 0; i < n; i++) v.v(i) = parse_scalar(tk.next());
    return v;
}

#if BACKEND == 0
static MatT build(const MatIn& m)
{
    MatT M = MatT::Zero(m.rows, m.cols);
    for (auto& t : m.e) M(t.r, t.c) = t.v;
    return M;
}
#else
static MatT build(const MatIn& m)
{
    // entries are given column-major sorted; keep explicit zeros (pattern is part of the input)
    MatT M(m.rows, m.cols);
    std::vector<int> cnt(m.cols, 0);
    for (auto& t : m.e) cnt[t.c]++;
    M.reserve(cnt);
    for (auto& t : m.e) M.insert(t.r, t.c) = t.v;
    M.makeCompressed();
    return M;
}
#endif

struct Blocks { MatIn P, A, G; VecIn lb, ub, lbs, ubs; };
static Blocks read_blocks(Tok& tk)
{
    Blocks B;
    while (true) {
        std::string k = tk.next();
        if (k == "END") break;
        if (k == "P") B.P = read_mat(tk); else if (k == "A") B.A = read_mat(tk); else if (k == "G") B.G = read_mat(tk);
        else if (k == "lb") B.lb = read_vec(tk); else if (k == "ub") B.ub = read_vec(tk);
        else if (k == "lbs") B.lbs = read_vec(tk); else if (k == "ubs") B.ubs = read_vec(tk);
        else { fprintf(stderr, "bad block %s\n", k.c_str()); exit(2); }
    }
    return B;
}

static void set_setting(Settings<T>& s, const std::string& k, const std::string& v)
{
#define ST(f) if (k == #f) { s.f = parse_scalar(v); return; }
#define SI(f) if (k == #f) { s.f = atol(v.c_str()); return; }
#define SB(f) if (k == #f) { s.f = atol(v.c_str()) != 0; return; }
    SB(iterative_refinement_always_enabled) ST(iterative_refinement_eps_abs) ST(iterative_refinement_eps_rel) SI(iterative_refinement_max_iter)
    ST(iterative_refinement_min_improvement_rate) ST(iterative_refinement_static_regularization_eps) ST(iterative_refinement_static_regularization_rel)
#undef ST
#undef SI
#undef SB
    fprintf(stderr, "unknown setting %s\n", k.c_str()); exit(2);
}

static std::string pfx;
static void out(const std::string& k, const std::string& v) { std::cout << pfx << k << " " << v << "\n"; }

// ---------- Data, exactly as SolverBase::setup_impl / setup_lb_data / setup_ub_data fill it ----------
static void setup_data(DataT& d, const Blocks& B)
{
    if (!B.P.present) { fprintf(stderr, "PROBLEM needs P\n"); exit(2); }
    MatT P = build(B.P), A, G;
    if (B.A.present) A = build(B.A);
    if (B.G.present) G = build(B.G);
    MatRefT Pr(P);
    d.n = Pr.rows();
    d.p = B.A.present ? A.rows() : 0;
    d.m = B.G.present ? G.rows() : 0;
    d.P_utri = Pr.template triangularView<Eigen::Upper>();
    if (B.A.present) { MatRefT Ar(A); d.AT = Ar.transpose(); } else { d.AT.resize(d.n, 0); }
    if (B.G.present) { MatRefT Gr(G); d.GT = Gr.transpose(); } else { d.GT.resize(d.n, 0); }
    d.c = Vec<T>::Zero(d.n);
    d.b = Vec<T>::Zero(d.p);
    d.h = Vec<T>::Zero(d.m);
    d.x_lb_idx.resize(d.n);
    d.x_ub_idx.resize(d.n);
    d.x_lb_scaling = Vec<T>::Constant(d.n, T(1));
    d.x_ub_scaling = Vec<T>::Constant(d.n, T(1));
    d.x_lb_n.resize(d.n);
    d.x_ub.resize(d.n);
    isize n_lb = 0;
    if (B.lb.present) {
        if (B.lb.v.size() != d.n) { fprintf(stderr, "lb size\n"); exit(2); }
        isize i_lb = 0;
        for (isize i = 0; i < d.n; i++) if (B.lb.v(i) > -PIQP_INF) { n_lb += 1; d.x_lb_n(i_lb) = -B.lb.v(i); d.x_lb_idx(i_lb) = i; i_lb++; }
    }
    d.n_lb = n_lb;
    isize n_ub = 0;
    if (B.ub.present) {
        if (B.ub.v.size() != d.n) { fprintf(stderr, "ub size\n"); exit(2); }
        isize i_ub = 0;
        for (isize i = 0; i < d.n; i++) if (B.ub.v(i) < PIQP_INF) { n_ub += 1; d.x_ub(i_ub) = B.ub.v(i); d.x_ub_idx(i_ub) = i; i_ub++; }
    }
    d.n_ub = n_ub;
    if (B.lbs.present) { if (B.lbs.v.size() != d.n_lb) { fprintf(stderr, "lbs size\n"); exit(2); } d.x_lb_scaling.head(d.n_lb) = B.lbs.v; }
    if (B.ubs.present) { if (B.ubs.v.size() != d.n_ub) { fprintf(stderr, "ubs size\n"); exit(2); } d.x_ub_scaling.head(d.n_ub) = B.ubs.v; }
}

#if BACKEND != 0
// overwrite the values of dst by those of src; both must have the same pattern
static void copy_values(MatT& dst, const MatT& src, const char* what)
{
    bool same = dst.rows() == src.rows() && dst.cols() == src.cols() && dst.nonZeros() == src.nonZeros();
    if (same) {
        for (isize j = 0; j <= dst.outerSize(); j++) if (dst.outerIndexPtr()[j] != src.outerIndexPtr()[j]) same = false;
        for (isize k = 0; same && k < dst.nonZeros(); k++) if (dst.innerIndexPtr()[k] != src.innerIndexPtr()[k]) same = false;
    }
    if (!same) { fprintf(stderr, "DATA: pattern of %s differs from the one given in PROBLEM\n", what); exit(2); }
    for (isize k = 0; k < dst.nonZeros(); k++) dst.valuePtr()[k] = src.valuePtr()[k];
}
#endif

static void overwrite_data(DataT& d, const Blocks& B)
{
    if (B.P.present) {
        MatT P = build(B.P); MatRefT Pr(P);
        if (P.rows() != d.n || P.cols() != d.n) { fprintf(stderr, "DATA: P size\n"); exit(2); }
#if BACKEND == 0
        d.P_utri = Pr.template triangularView<Eigen::Upper>();
#else
        MatT Pu = Pr.template triangularView<Eigen::Upper>(); copy_values(d.P_utri, Pu, "P");
#endif
    }
    if (B.A.present) {
        MatT A = build(B.A); MatRefT Ar(A);
        if (A.rows() != d.p || A.cols() != d.n) { fprintf(stderr, "DATA: A size\n"); exit(2); }
#if BACKEND == 0
        d.AT = Ar.transpose();
#else
        MatT AT = Ar.transpose(); copy_values(d.AT, AT, "A");
#endif
    }
    if (B.G.present) {
        MatT G = build(B.G); MatRefT Gr(G);
        if (G.rows() != d.m || G.cols() != d.n) { fprintf(stderr, "DATA: G size\n"); exit(2); }
#if BACKEND == 0
        d.GT = Gr.transpose();
#else
        MatT GT = Gr.transpose(); copy_values(d.GT, GT, "G");
#endif
    }
    if (B.lbs.present) { if (B.lbs.v.size() != d.n_lb) { fprintf(stderr, "lbs size\n"); exit(2); } d.x_lb_scaling.head(d.n_lb) = B.lbs.v; }
    if (B.ubs.present) { if (B.ubs.v.size() != d.n_ub) { fprintf(stderr, "ubs size\n"); exit(2); } d.x_ub_scaling.head(d.n_ub) = B.ubs.v; }
}

// vectors of the bound blocks have the solver's length n; only the packed head is meaningful
static Vec<T> pad(const Vec<T>& head, isize n, isize k, const char* what)
{
    if (head.size() != k) { fprintf(stderr, "vector %s has %ld entries, expected %ld\n", what, (long) head.size(), (long) k); exit(2); }
    Vec<T> v(n);        // tail: never-written (tainted) scalars, as in the solver's work vectors beyond n_lb / n_ub
    v.head(k) = head;
    return v;
}
static Vec<T> exactly(const Vec<T>& v, isize k, const char* what)
{
    if (v.size() != k) { fprintf(stderr, "vector %s has %ld entries, expected %ld\n", what, (long) v.size(), (long) k); exit(2); }
    return v;
}

struct Step8 { Vec<T> x, y, z, z_lb, z_ub, s, s_lb, s_ub; };
static Step8 read_step(Tok& tk, const DataT& d)
{
    Step8 r;
    r.x = exactly(read_vec(tk).v, d.n, "x"); r.y = exactly(read_vec(tk).v, d.p, "y"); r.z = exactly(read_vec(tk).v, d.m, "z");
    r.z_lb = pad(read_vec(tk).v, d.n, d.n_lb, "z_lb"); r.z_ub = pad(read_vec(tk).v, d.n, d.n_ub, "z_ub");
    r.s = exactly(read_vec(tk).v, d.m, "s");
    r.s_lb = pad(read_vec(tk).v, d.n, d.n_lb, "s_lb"); r.s_ub = pad(read_vec(tk).v, d.n, d.n_ub, "s_ub");
    return r;
}
static Step8 blank_step(const DataT& d)
{
    Step8 r; r.x.resize(d.n); r.y.resize(d.p); r.z.resize(d.m); r.z_lb.resize(d.n); r.z_ub.resize(d.n); r.s.resize(d.m); r.s_lb.resize(d.n); r.s_ub.resize(d.n);
    return r;
}
static void print_step(const Step8& r, const DataT& d)
{
    out("x", fmtv(r.x)); out("y", fmtv(r.y)); out("z", fmtv(r.z)); out("z_lb", fmtv(r.z_lb, d.n_lb)); out("z_ub", fmtv(r.z_ub, d.n_ub));
    out("s", fmtv(r.s)); out("s_lb", fmtv(r.s_lb, d.n_lb)); out("s_ub", fmtv(r.s_ub, d.n_ub));
}

static void dump(KKTT& K, const DataT& d)
{
#if BACKEND == 0
    // lower triangle of kkt_mat by rows (the strict upper triangle is never written by the code)
    std::ostringstream os; os << d.n;
    for (isize i = 0; i < d.n; i++) for (isize j = 0; j <= i; j++) os << " " << fmt(K.kkt_mat(i, j));
    out("kkt_mat", os.str());
#else
    isize nk = K.kkt_size();
    { std::ostringstream os; os << nk; for (isize i = 0; i < nk; i++) os << " " << K.ordering.P[i]; out("perm", os.str()); }
    {   // the stored upper triangle of P K P^T, verbatim
        std::ostringstream os; os << K.PKPt.rows() << " " << K.PKPt.cols() << " " << K.PKPt.nonZeros();
        for (isize j = 0; j < K.PKPt.outerSize(); j++)
            for (isize k = K.PKPt.outerIndexPtr()[j]; k < K.PKPt.outerIndexPtr()[j + 1]; k++)
                os << " " << K.PKPt.innerIndexPtr()[k] << " " << j << " " << fmt(K.PKPt.valuePtr()[k]);
        out("PKPt", os.str());
    }
    {   // K(i,j) = (P K P^T)(inv(i), inv(j)): dense symmetric, permutation undone; lower triangle by rows. Entries not stored: 0.
        Mat<T> D = Mat<T>::Zero(nk, nk);
        bool upper_ok = true;
        for (isize j = 0; j < K.PKPt.outerSize(); j++)
            for (isize k = K.PKPt.outerIndexPtr()[j]; k < K.PKPt.outerIndexPtr()[j + 1]; k++) {
                isize i = K.PKPt.innerIndexPtr()[k];
                if (i > j) upper_ok = false;
                D(i, j) += K.PKPt.valuePtr()[k];
                if (i != j) D(j, i) += K.PKPt.valuePtr()[k];
            }
        std::ostringstream os; os << nk;
        for (isize i = 0; i < nk; i++) for (isize j = 0; j <= i; j++) os << " " << fmt(D(K.ordering.inv(i), K.ordering.inv(j)));
        out("K", os.str());
        out("upper", upper_ok ? "1" : "0");
    }
#endif
}

int main(int argc, char** argv)
{
    std::ios::sync_with_stdio(false);
    std::istream* in = &std::cin; std::ifstream f;
    if (argc > 1) { f.open(argv[1]); if (!f) { fprintf(stderr, "cannot open %s\n", argv[1]); return 2; } in = &f; }
    Tok tk; { std::string w; while (*in >> w) tk.t.push_back(w); }
    while (!tk.eof())
    {
        std::string k = tk.next();
        if (k != "CASE") { fprintf(stderr, "expected CASE, got %s\n", k.c_str()); return 2; }
        std::string name = tk.next();
        Settings<T> settings;
        std::unique_ptr<DataT> data(new DataT());
        std::unique_ptr<KKTT> K;
        vhook::reset_fault_plan();
        xr::g().nonfinite_arith = false; xr::g().nonfinite_count = 0; xr::g().tainted_compare = 0;
        int opno = 0;
        bool have_problem = false, factor_ok = false, have_last = false;
        Step8 last;
        auto need_kkt = [&]() { if (!K) { fprintf(stderr, "%s: operation before INIT\n", name.c_str()); exit(2); } };
        while (true)
        {
            std::string op = tk.next();
            if (op == "ENDCASE") break;
            pfx = name + "." + std::to_string(opno) + ".";
            if (op == "SET") { std::string key = tk.next(); std::string val = tk.next(); set_setting(settings, key, val); continue; }
            if (op == "JUNK") { xr::g().junk_mode = (int) tk.nextl(); continue; }
            if (op == "PROBLEM")
            {
                Blocks B = read_blocks(tk);
                K.reset(); data.reset(new DataT());
                setup_data(*data, B);
                have_problem = true; factor_ok = false; have_last = false;
                out("op", "problem");
                std::ostringstream dims; dims << data->n << " " << data->p << " " << data->m << " " << data->n_lb << " " << data->n_ub;
                out("dims", dims.str());
                { std::ostringstream os; os << data->n_lb; for (isize i = 0; i < data->n_lb; i++) os << " " << data->x_lb_idx(i); out("x_lb_idx", os.str()); }
                { std::ostringstream os; os << data->n_ub; for (isize i = 0; i < data->n_ub; i++) os << " " << data->x_ub_idx(i); out("x_ub_idx", os.str()); }
                opno++; continue;
            }
            if (!have_problem) { fprintf(stderr, "%s: %s before PROBLEM\n", name.c_str(), op.c_str()); return 2; }
            if (op == "INIT")
            {
                T rho = parse_scalar(tk.next()), delta = parse_scalar(tk.next());
                K.reset(new KKTT(*data, settings));
                K->init(rho, delta);
                factor_ok = false;
                out("op", "init");
                opno++; continue;
            }
            if (op == "SCALINGS")
            {
                need_kkt();
                T rho = parse_scalar(tk.next()), delta = parse_scalar(tk.next());
                Vec<T> s = exactly(read_vec(tk).v, data->m, "s");
                Vec<T> s_lb = pad(read_vec(tk).v, data->n, data->n_lb, "s_lb"), s_ub = pad(read_vec(tk).v, data->n, data->n_ub, "s_ub");
                Vec<T> z = exactly(read_vec(tk).v, data->m, "z");
                Vec<T> z_lb = pad(read_vec(tk).v, data->n, data->n_lb, "z_lb"), z_ub = pad(read_vec(tk).v, data->n, data->n_ub, "z_ub");
                K->update_scalings(rho, delta, s, s_lb, s_ub, z, z_lb, z_ub);
                factor_ok = false;
                out("op", "scalings");
                opno++; continue;
            }
            if (op == "DATA")
            {
                need_kkt();
                int mask = (int) tk.nextl();
                Blocks B = read_blocks(tk);
                overwrite_data(*data, B);
                K->update_data(mask);
                factor_ok = false;
                out("op", "data " + std::to_string(mask));
                opno++; continue;
            }
            if (op == "FACTOR")
            {
                need_kkt();
                bool refine = tk.nextl() != 0;
                factor_ok = K->regularize_and_factorize(refine);
                out("op", std::string("factor ") + (refine ? "1" : "0"));
                out("ok", factor_ok ? "1" : "0");
                opno++; continue;
            }
            if (op == "SOLVE")
            {
                need_kkt();
                bool refine = tk.nextl() != 0;
                Step8 r = read_step(tk, *data);
                out("op", std::string("solve ") + (refine ? "1" : "0"));
                if (!factor_ok) { out("skipped", "1"); have_last = false; opno++; continue; }
                Step8 d = blank_step(*data);
                K->solve(r.x, r.y, r.z, r.z_lb, r.z_ub, r.s, r.s_lb, r.s_ub,
                         d.x, d.y, d.z, d.z_lb, d.z_ub, d.s, d.s_lb, d.s_ub, refine);
                print_step(d, *data);
                last = d; have_last = true;
                opno++; continue;
            }
            if (op == "MULTIPLY")
            {
                need_kkt();
                Step8 v;
                bool ok = true;
                if (tk.peek() == "last") { tk.next(); if (have_last) v = last; else ok = false; }
                else v = read_step(tk, *data);
                out("op", "multiply");
                if (!ok) { out("skipped", "1"); opno++; continue; }
                Step8 r = blank_step(*data);
                K->multiply(v.x, v.y, v.z, v.z_lb, v.z_ub, v.s, v.s_lb, v.s_ub,
                            r.x, r.y, r.z, r.z_lb, r.z_ub, r.s, r.s_lb, r.s_ub);
                print_step(r, *data);
                opno++; continue;
            }
            if (op == "DUMP")
            {
                need_kkt();
                out("op", "dump");
                dump(*K, *data);
                opno++; continue;
            }
            fprintf(stderr, "bad op %s\n", op.c_str()); return 2;
        }
    }
    return 0;
}
