// C05 twin-solver driver (double, bitwise), compiled against /repo's current headers.
//   -DBACKEND=0 dense, 1 sparse KKT_FULL, 2 EQ_ELIMINATED, 3 INEQ_ELIMINATED, 4 ALL_ELIMINATED
//   -DPRECOND=0 Ruiz, 1 Identity
// Independent of the Coq model: every case is a VALID call history, run on solver A, and the same history with
// REJECTED calls injected (lines INJ ...) run on solver B.  After every injected call B's observable state must be
// bit-identical to A's (A has not made the call): problem data, preconditioner, KKT matrix and factorisation, result
// vectors and info (except timings; except info.status after a rejected solve(), which must report), flags.
// After every later valid call the full state (and thus every result) must again be bit-identical.
// Both solvers are constructed by placement new in memory pre-filled with 0x5a (compile with -fno-lifetime-dse), so that
// fields the constructor leaves uninitialised (Data::n, p, m, n_lb, n_ub) hold visible garbage before setup().
//
// Input (argv[1]; argv[2] = number of leading cases to skip):
//   CASE name | SET key val | SETUP blocks END | UPDATE reuse blocks END | SOLVE |
//   INJ label UPDATE reuse blocks END | INJ label SOLVE | INJ label SOLVEBAD field value | ENDCASE
// Output (stdout, flushed per line):
//   BEGIN name / CALL name opno label / INJ name opno label call=.. ret=.. info.status=.. msg=".."
//   DIFF name opno phase label key A=.. B=..   /  RES name opno status iter / END name diffs=k
#include <cstdio>
#include <cstdlib>
#include <cstring>
#include <cmath>
#include <string>
#include <vector>
#include <map>
#include <iostream>
#include <fstream>
#include <sstream>
#include <memory>
#include <new>
#include <unistd.h>
#include <csignal>
#include <Eigen/Dense>
#include <Eigen/Sparse>
#include <Eigen/Cholesky>
#ifndef BACKEND
#define BACKEND 0
#endif
#ifndef PRECOND
#define PRECOND 0
#endif
typedef double T;

#include "verif_hooks.hpp"

#include "piqp/utils/optional.hpp"
#define private public
#define protected public
#define class struct
#include "piqp/piqp.hpp"
#undef class
#undef private
#undef protected

using namespace piqp;

#if BACKEND == 0
#if PRECOND == 0
typedef DenseSolver<T, dense::RuizEquilibration<T>> Solver;
#else
typedef DenseSolver<T, dense::IdentityPreconditioner<T>> Solver;
#endif
typedef Mat<T> MatT;
#else
#if BACKEND == 1
static const int kMode = KKTMode::KKT_FULL;
#elif BACKEND == 2
static const int kMode = KKTMode::KKT_EQ_ELIMINATED;
#elif BACKEND == 3
static const int kMode = KKTMode::KKT_INEQ_ELIMINATED;
#else
static const int kMode = KKTMode::KKT_ALL_ELIMINATED;
#endif
#if PRECOND == 0
typedef SparseSolver<T, int, kMode, sparse::RuizEquilibration<T, int>> Solver;
#else
typedef SparseSolver<T, int, kMode, sparse::IdentityPreconditioner<T, int>> Solver;
#endif
typedef SparseMat<T, int> MatT;
#endif

// ---------------------------------------------------------------- io
static T parse_scalar(const std::string& s)
{
    size_t k = s.find('/');
    if (k == std::string::npos) return strtod(s.c_str(), nullptr);
    return strtod(s.substr(0, k).c_str(), nullptr) / strtod(s.substr(k + 1).c_str(), nullptr);
}
static std::string fmt(double x) { char buf[64]; snprintf(buf, sizeof buf, "%a", x); return buf; }
static std::string fmt(long x) { return std::to_string(x); }
static std::string fmt(long long x) { return std::to_string(x); }
static std::string fmt(int x) { return std::to_string(x); }
static std::string fmt(bool x) { return x ? "1" : "0"; }

struct Tok {
    std::vector<std::string> t; size_t i = 0;
    bool eof() const { return i >= t.size(); }
    std::string next() { if (eof()) { fprintf(stderr, "unexpected eof\n"); exit(2); } return t[i++]; }
    long nextl() { return atol(next().c_str()); }
};
struct Trip { long r, c; T v; };
struct MatIn { bool present = false; long rows = 0, cols = 0; std::vector<Trip> e; };
struct VecIn { bool present = false; Vec<T> v; };

static MatIn read_mat(Tok& tk)
{
    MatIn m; std::string k = tk.next();
    if (k == "none") return m;
    m.present = true; m.rows = atol(k.c_str()); m.cols = tk.nextl(); long nnz = tk.nextl();
    for (long q = 0; q < nnz; q++) { Trip t; t.r = tk.nextl(); t.c = tk.nextl(); t.v = parse_scalar(tk.next()); m.e.push_back(t); }
    return m;
}
static VecIn read_vec(Tok& tk)
{
    VecIn v; std::string k = tk.next();
    if (k == "none") return v;
    v.present = true; long n = atol(k.c_str()); v.v.resize(n);
    for (long i = 0; i < n; i++) v.v(i) = parse_scalar(tk.next());
    return v;
}
#if BACKEND == 0
static MatT build(const MatIn& m)
{
    MatT M = MatT::Zero(m.rows, m.cols);
    for (auto& t : m.e) M(t.r, t.c) = t.v;
    return M;
}
#else
static MatT build(const MatIn& m)
{
    MatT M(m.rows, m.cols);
    if (m.e.empty()) return M;   // a fresh matrix is already compressed (makeCompressed() misreads a matrix without columns)
    std::vector<int> cnt(m.cols, 0);
    for (auto& t : m.e) cnt[t.c]++;
    M.reserve(cnt);
    for (auto& t : m.e) M.insert(t.r, t.c) = t.v;
    M.makeCompressed();
    return M;
}
#endif
struct Blocks { MatIn P, A, G; VecIn c, b, h, lb, ub; };
static Blocks read_blocks(Tok& tk)
{
    Blocks B;
    while (true) {
        std::string k = tk.next();
        if (k == "END") break;
        if (k == "P") B.P = read_mat(tk); else if (k == "A") B.A = read_mat(tk); else if (k == "G") B.G = read_mat(tk);
        else if (k == "c") B.c = read_vec(tk); else if (k == "b") B.b = read_vec(tk); else if (k == "h") B.h = read_vec(tk);
        else if (k == "lb") B.lb = read_vec(tk); else if (k == "ub") B.ub = read_vec(tk);
        else { fprintf(stderr, "bad block %s\n", k.c_str()); exit(2); }
    }
    return B;
}
static const char* status_name(Status s)
{
    switch (s) {
        case PIQP_SOLVED: return "SOLVED"; case PIQP_MAX_ITER_REACHED: return "MAX_ITER_REACHED";
        case PIQP_PRIMAL_INFEASIBLE: return "PRIMAL_INFEASIBLE"; case PIQP_DUAL_INFEASIBLE: return "DUAL_INFEASIBLE";
        case PIQP_NUMERICS: return "NUMERICS"; case PIQP_UNSOLVED: return "UNSOLVED"; case PIQP_INVALID_SETTINGS: return "INVALID_SETTINGS";
    }
    return "OTHER";
}
static bool set_setting(Settings<T>& s, const std::string& k, const std::string& v)
{
#define ST(f) if (k == #f) { s.f = parse_scalar(v); return true; }
#define SI(f) if (k == #f) { s.f = atol(v.c_str()); return true; }
#define SB(f) if (k == #f) { s.f = atol(v.c_str()) != 0; return true; }
    ST(rho_init) ST(delta_init) ST(eps_abs) ST(eps_rel) SB(check_duality_gap) ST(eps_duality_gap_abs) ST(eps_duality_gap_rel)
    ST(reg_lower_limit) ST(reg_finetune_lower_limit) SI(reg_finetune_primal_update_threshold) SI(reg_finetune_dual_update_threshold)
    SI(max_iter) SI(max_factor_retires) SB(preconditioner_scale_cost) SI(preconditioner_iter) ST(tau)
    SB(iterative_refinement_always_enabled) ST(iterative_refinement_eps_abs) ST(iterative_refinement_eps_rel) SI(iterative_refinement_max_iter)
    ST(iterative_refinement_min_improvement_rate) ST(iterative_refinement_static_regularization_eps) ST(iterative_refinement_static_regularization_rel)
    SB(verbose) SB(compute_timings)
#undef ST
#undef SI
#undef SB
    return false;
}

// ---------------------------------------------------------------- state snapshot
typedef std::vector<std::pair<std::string, std::string>> Snap;
template<typename V> static std::string fmtv(const V& v)
{
    std::ostringstream os; os << v.size();
    for (Eigen::Index i = 0; i < v.size(); i++) os << " " << fmt(v(i));
    return os.str();
}
template<typename V> static std::string fmth(const V& v, long long k)
{
    // the first k entries (clipped to the size): the rest of an over-allocated array is never written by the library
    Eigen::Index n = k < 0 ? 0 : (k > (long long) v.size() ? v.size() : (Eigen::Index) k);
    std::ostringstream os; os << v.size() << "/" << n;
    for (Eigen::Index i = 0; i < n; i++) os << " " << fmt(v(i));
    return os.str();
}
template<typename M> static std::string fmt_lower(const M& A)
{
    // lower triangle incl. diagonal (the library only ever writes / reads this part)
    std::ostringstream os; os << A.rows() << "x" << A.cols() << " lower";
    for (Eigen::Index j = 0; j < A.cols(); j++) for (Eigen::Index i = j; i < A.rows(); i++) os << " " << fmt(A(i, j));
    return os.str();
}
template<typename M> static std::string fmt_dense(const M& A)
{
    std::ostringstream os; os << A.rows() << "x" << A.cols();
    for (Eigen::Index j = 0; j < A.cols(); j++) for (Eigen::Index i = 0; i < A.rows(); i++) os << " " << fmt(A(i, j));
    return os.str();
}
template<typename SM> static std::string fmt_sparse(const SM& A)
{
    // raw compressed storage: dimensions, outer index array, inner indices and values as stored
    std::ostringstream os; os << A.rows() << "x" << A.cols() << " comp=" << (int) A.isCompressed() << " outer";
    if (A.outerIndexPtr()) for (Eigen::Index j = 0; j <= A.outerSize(); j++) os << " " << A.outerIndexPtr()[j];
    Eigen::Index nz = (A.outerIndexPtr() && A.isCompressed()) ? A.outerIndexPtr()[A.outerSize()] : 0;
    os << " inner"; for (Eigen::Index k = 0; k < nz; k++) os << " " << A.innerIndexPtr()[k];
    os << " vals"; for (Eigen::Index k = 0; k < nz; k++) os << " " << fmt(A.valuePtr()[k]);
    return os.str();
}
#if BACKEND == 0
static std::string fmt_mat(const MatT& A) { return fmt_dense(A); }
struct LLTPeek : public Eigen::LLT<Mat<T>, Eigen::Lower> {
    static const Mat<T>& mat(const Eigen::LLT<Mat<T>, Eigen::Lower>& l) { return static_cast<const LLTPeek&>(l).m_matrix; }
};
#else
static std::string fmt_mat(const MatT& A) { return fmt_sparse(A); }
#endif

static void snap_id(Snap&, const dense::IdentityPreconditioner<T>&) {}
static void snap_id(Snap&, const sparse::IdentityPreconditioner<T, int>&) {}
template<typename PC> static void snap_id(Snap& s, const PC& pc)
{
    s.emplace_back("pc.c", fmt(pc.c)); s.emplace_back("pc.c_inv", fmt(pc.c_inv));
    s.emplace_back("pc.delta", fmtv(pc.delta)); s.emplace_back("pc.delta_inv", fmtv(pc.delta_inv));
    s.emplace_back("pc.delta_lb", fmtv(pc.delta_lb)); s.emplace_back("pc.delta_lb_inv", fmtv(pc.delta_lb_inv));
    s.emplace_back("pc.delta_ub", fmtv(pc.delta_ub)); s.emplace_back("pc.delta_ub_inv", fmtv(pc.delta_ub_inv));
}

static Snap snapshot(Solver& S, bool factorized)
{
    Snap s;
    auto& d = S.m_data;
    long long nlb = S.m_setup_done ? (long long) d.n_lb : 0, nub = S.m_setup_done ? (long long) d.n_ub : 0;
    s.emplace_back("flag.setup_done", fmt(S.m_setup_done));
    s.emplace_back("flag.kkt_init_state", fmt(S.m_kkt_init_state));
    s.emplace_back("flag.refine", fmt(S.m_enable_iterative_refinement));
    s.emplace_back("data.n", fmt((long long) d.n)); s.emplace_back("data.p", fmt((long long) d.p)); s.emplace_back("data.m", fmt((long long) d.m));
    s.emplace_back("data.n_lb", fmt((long long) d.n_lb)); s.emplace_back("data.n_ub", fmt((long long) d.n_ub));
    s.emplace_back("data.P_utri", fmt_mat(d.P_utri)); s.emplace_back("data.AT", fmt_mat(d.AT)); s.emplace_back("data.GT", fmt_mat(d.GT));
    s.emplace_back("data.c", fmtv(d.c)); s.emplace_back("data.b", fmtv(d.b)); s.emplace_back("data.h", fmtv(d.h));
    s.emplace_back("data.x_lb_idx", fmth(d.x_lb_idx, nlb)); s.emplace_back("data.x_ub_idx", fmth(d.x_ub_idx, nub));
    s.emplace_back("data.x_lb_n", fmth(d.x_lb_n, nlb)); s.emplace_back("data.x_ub", fmth(d.x_ub, nub));
    s.emplace_back("data.x_lb_scaling", fmtv(d.x_lb_scaling)); s.emplace_back("data.x_ub_scaling", fmtv(d.x_ub_scaling));
    snap_id(s, S.m_preconditioner);
    auto& k = S.m_kkt;
    if (S.m_setup_done) { s.emplace_back("kkt.rho", fmt(k.m_rho)); s.emplace_back("kkt.delta", fmt(k.m_delta)); }
    s.emplace_back("kkt.s", fmtv(k.m_s)); s.emplace_back("kkt.s_lb", fmth(k.m_s_lb, nlb)); s.emplace_back("kkt.s_ub", fmth(k.m_s_ub, nub));
    s.emplace_back("kkt.z_inv", fmtv(k.m_z_inv)); s.emplace_back("kkt.z_lb_inv", fmth(k.m_z_lb_inv, nlb)); s.emplace_back("kkt.z_ub_inv", fmth(k.m_z_ub_inv, nub));
#if BACKEND == 0
    s.emplace_back("kkt.mat", fmt_lower(k.kkt_mat));   // kkt_diag is scratch of regularize_and_factorize
    s.emplace_back("kkt.AT_A", fmt_lower(k.AT_A));
    // the factor is defined once the first factorisation of this set-up has run
    if (factorized) s.emplace_back("kkt.llt", fmt_lower(LLTPeek::mat(k.llt)));
#else
    s.emplace_back("kkt.PKPt", fmt_sparse(k.PKPt)); s.emplace_back("kkt.PKi", fmtv(k.PKi));
    s.emplace_back("kkt.ldlt.etree", fmtv(k.ldlt.etree)); s.emplace_back("kkt.ldlt.L_cols", fmtv(k.ldlt.L_cols));
    if (factorized) {
        // the numeric factor is defined once the first factorisation of this set-up has run
        s.emplace_back("kkt.ldlt.L_nnz", fmtv(k.ldlt.L_nnz));
        std::ostringstream li, lv;
        for (Eigen::Index c = 0; c + 1 < k.ldlt.L_cols.size(); c++)
            for (Eigen::Index q = k.ldlt.L_cols(c); q < k.ldlt.L_cols(c) + k.ldlt.L_nnz(c); q++) { li << " " << k.ldlt.L_ind(q); lv << " " << fmt(k.ldlt.L_vals(q)); }
        s.emplace_back("kkt.ldlt.L_ind", li.str()); s.emplace_back("kkt.ldlt.L_vals", lv.str());
        s.emplace_back("kkt.ldlt.D", fmtv(k.ldlt.D)); s.emplace_back("kkt.ldlt.D_inv", fmtv(k.ldlt.D_inv));
    }
#endif
    const Result<T>& r = S.m_result;
    s.emplace_back("res.x", fmtv(r.x)); s.emplace_back("res.y", fmtv(r.y)); s.emplace_back("res.z", fmtv(r.z));
    s.emplace_back("res.z_lb", fmtv(r.z_lb)); s.emplace_back("res.z_ub", fmtv(r.z_ub));
    s.emplace_back("res.s", fmtv(r.s)); s.emplace_back("res.s_lb", fmtv(r.s_lb)); s.emplace_back("res.s_ub", fmtv(r.s_ub));
    s.emplace_back("res.zeta", fmtv(r.zeta)); s.emplace_back("res.lambda", fmtv(r.lambda)); s.emplace_back("res.nu", fmtv(r.nu));
    s.emplace_back("res.nu_lb", fmtv(r.nu_lb)); s.emplace_back("res.nu_ub", fmtv(r.nu_ub));
    if (S.m_setup_done) {
        // Info has no initialisers: defined from setup() on
        s.emplace_back("info.status", status_name(r.info.status));
        s.emplace_back("info.iter", fmt((long long) r.info.iter));
        s.emplace_back("info.rho", fmt(r.info.rho)); s.emplace_back("info.delta", fmt(r.info.delta));
        s.emplace_back("info.mu", fmt(r.info.mu)); s.emplace_back("info.sigma", fmt(r.info.sigma));
        s.emplace_back("info.primal_step", fmt(r.info.primal_step)); s.emplace_back("info.dual_step", fmt(r.info.dual_step));
        s.emplace_back("info.primal_inf", fmt(r.info.primal_inf)); s.emplace_back("info.primal_rel_inf", fmt(r.info.primal_rel_inf));
        s.emplace_back("info.dual_inf", fmt(r.info.dual_inf)); s.emplace_back("info.dual_rel_inf", fmt(r.info.dual_rel_inf));
        s.emplace_back("info.primal_obj", fmt(r.info.primal_obj)); s.emplace_back("info.dual_obj", fmt(r.info.dual_obj));
        s.emplace_back("info.duality_gap", fmt(r.info.duality_gap)); s.emplace_back("info.duality_gap_rel", fmt(r.info.duality_gap_rel));
        s.emplace_back("info.factor_retires", fmt((long long) r.info.factor_retires)); s.emplace_back("info.reg_limit", fmt(r.info.reg_limit));
        s.emplace_back("info.no_primal_update", fmt((long long) r.info.no_primal_update));
        s.emplace_back("info.no_dual_update", fmt((long long) r.info.no_dual_update));
    }
    return s;
}

static std::string g_case;
static bool g_factorized = false;   // a valid solve() has run since the last setup() (on both twins)
static int compare(Solver& A, Solver& B, int opno, const char* phase, const std::string& label, bool ignore_status)
{
    Snap a = snapshot(A, g_factorized), b = snapshot(B, g_factorized);
    int nd = 0;
    for (size_t i = 0; i < a.size() && i < b.size(); i++) {
        if (ignore_status && a[i].first == "info.status") continue;
        if (a[i].first != b[i].first || a[i].second != b[i].second) {
            if (nd < 3) {
                std::string va = a[i].second, vb = b[i].second;
                if (va.size() > 400) va = va.substr(0, 400) + "...";
                if (vb.size() > 400) vb = vb.substr(0, 400) + "...";
                std::cout << "DIFF " << g_case << " " << opno << " " << phase << " " << label << " " << a[i].first << " A=[" << va << "] B=[" << vb << "]" << std::endl;
            }
            nd++;
        }
    }
    if (a.size() != b.size()) { std::cout << "DIFF " << g_case << " " << opno << " " << phase << " " << label << " snapshot-size A=[" << a.size() << "] B=[" << b.size() << "]" << std::endl; nd++; }
    return nd;
}

// ---------------------------------------------------------------- stderr capture (the rejection message)
static int g_cap_saved = -1, g_cap_fd = -1;   // for the SIGABRT handler: where the real stderr is, what was captured
struct ErrCap {
    int saved = -1; FILE* tmp = nullptr;
    void begin() { fflush(stderr); tmp = tmpfile(); if (!tmp) return; saved = dup(2); dup2(fileno(tmp), 2); g_cap_saved = saved; g_cap_fd = fileno(tmp); }
    std::string end() {
        std::string out;
        if (!tmp) return out;
        fflush(stderr); dup2(saved, 2); close(saved); g_cap_saved = g_cap_fd = -1;
        rewind(tmp); char buf[512]; size_t k;
        while ((k = fread(buf, 1, sizeof buf, tmp)) > 0) out.append(buf, k);
        fclose(tmp); tmp = nullptr;
        for (auto& ch : out) if (ch == '\n' || ch == '"') ch = ' ';
        while (!out.empty() && out.back() == ' ') out.pop_back();
        return out;
    }
};
// an assertion inside a captured call (abort): hand the captured text (the assertion message) to the real stderr
static void on_abort(int)
{
    if (g_cap_saved >= 0 && g_cap_fd >= 0) {
        char buf[1024]; ssize_t k;
        lseek(g_cap_fd, 0, SEEK_SET);
        while ((k = read(g_cap_fd, buf, sizeof buf)) > 0) { ssize_t w = write(g_cap_saved, buf, (size_t) k); (void) w; }
    }
    signal(SIGABRT, SIG_DFL);
}

// ---------------------------------------------------------------- solvers in garbage memory
struct Held {
    void* mem; Solver* S;
    Held() { mem = ::operator new(sizeof(Solver)); memset(mem, 0x5a, sizeof(Solver)); S = new (mem) Solver; }   // default-initialisation (as `Solver s;`): no zero-fill
    ~Held() { S->~Solver(); ::operator delete(mem); }
};

template<typename O, typename X> static optional<O> mk_opt(bool present, const X& x)
{
    if (present) return optional<O>(O(x)); return nullopt;
}
#if BACKEND == 0
typedef CMatRef<T> MR;
#else
typedef CSparseMatRef<T, int> MR;
#endif
typedef CVecRef<T> VR;

static void do_setup_or_update(Solver& S, bool is_setup, bool reuse, const Blocks& B, const MatT& P, const MatT& A, const MatT& G)
{
    optional<MR> oP = mk_opt<MR>(B.P.present, P), oA = mk_opt<MR>(B.A.present, A), oG = mk_opt<MR>(B.G.present, G);
    optional<VR> oc = mk_opt<VR>(B.c.present, B.c.v), ob = mk_opt<VR>(B.b.present, B.b.v), oh = mk_opt<VR>(B.h.present, B.h.v),
                 olb = mk_opt<VR>(B.lb.present, B.lb.v), oub = mk_opt<VR>(B.ub.present, B.ub.v);
    if (is_setup) S.setup(*oP, *oc, oA, ob, oG, oh, olb, oub);
    else S.update(oP, oc, oA, ob, oG, oh, olb, oub, reuse);
}

int main(int argc, char** argv)
{
    signal(SIGABRT, on_abort);
    std::istream* in = &std::cin; std::ifstream f;
    if (argc > 1) { f.open(argv[1]); if (!f) { fprintf(stderr, "cannot open %s\n", argv[1]); return 2; } in = &f; }
    long skip = argc > 2 ? atol(argv[2]) : 0;
    Tok tk; { std::string w; while (*in >> w) tk.t.push_back(w); }
    long caseno = 0;
    while (!tk.eof())
    {
        std::string k = tk.next();
        if (k != "CASE") { fprintf(stderr, "expected CASE, got %s\n", k.c_str()); return 2; }
        g_case = tk.next();
        bool run = caseno++ >= skip;
        if (!run) { while (tk.next() != "ENDCASE") {} continue; }
        std::cout << "BEGIN " << g_case << std::endl;
        g_factorized = false;
        Held HA, HB;
        Solver& SA = *HA.S; Solver& SB = *HB.S;
        vhook::reset_fault_plan();
        int opno = 0, diffs = 0;
        bool status_dirty = false;   // B's info.status was (legitimately) overwritten by a rejected solve()
        while (true)
        {
            std::string op = tk.next();
            if (op == "ENDCASE") break;
            if (op == "SET") {
                std::string key = tk.next(), val = tk.next();
                if (!set_setting(SA.settings(), key, val) || !set_setting(SB.settings(), key, val)) { fprintf(stderr, "unknown setting %s\n", key.c_str()); return 2; }
                continue;
            }
            bool inj = false; std::string label = "-";
            if (op == "INJ") { inj = true; label = tk.next(); op = tk.next(); }
            if (op == "SETUP" || op == "UPDATE")
            {
                bool reuse = true;
                if (op == "UPDATE") reuse = tk.nextl() != 0;
                Blocks B = read_blocks(tk);
                MatT P, A, G;
                if (B.P.present) P = build(B.P);
                if (B.A.present) A = build(B.A);
                if (B.G.present) G = build(B.G);
                if (op == "SETUP" && (inj || !B.P.present || !B.c.present)) { fprintf(stderr, "bad SETUP op\n"); return 2; }
                if (inj) {
                    std::cout << "CALL " << g_case << " " << opno << " " << label << std::endl;
                    ErrCap ec; ec.begin();
                    do_setup_or_update(SB, false, reuse, B, P, A, G);
                    std::string msg = ec.end();
                    std::cout << "INJ " << g_case << " " << opno << " " << label << " call=update ret=- info.status=- msg=\"" << msg << "\"" << std::endl;
                    diffs += compare(SA, SB, opno, "inject", label, status_dirty);
                } else {
                    do_setup_or_update(SA, op == "SETUP", reuse, B, P, A, G);
                    do_setup_or_update(SB, op == "SETUP", reuse, B, P, A, G);
                    if (op == "SETUP") { status_dirty = false; g_factorized = false; }
                    diffs += compare(SA, SB, opno, "valid", op == "SETUP" ? "setup" : "update", status_dirty);
                }
                opno++; continue;
            }
            if (op == "SOLVE" || op == "SOLVEBAD")
            {
                if (op == "SOLVEBAD" && !inj) { fprintf(stderr, "SOLVEBAD must be injected\n"); return 2; }
                if (inj) {
                    Settings<T> saved = SB.settings();
                    if (op == "SOLVEBAD") {
                        std::string key = tk.next(), val = tk.next();
                        if (!set_setting(SB.settings(), key, val)) { fprintf(stderr, "unknown setting %s\n", key.c_str()); return 2; }
                    }
                    std::cout << "CALL " << g_case << " " << opno << " " << label << std::endl;
                    ErrCap ec; ec.begin();
                    Status st = SB.solve();
                    std::string msg = ec.end();
                    SB.settings() = saved;
                    std::cout << "INJ " << g_case << " " << opno << " " << label << " call=solve ret=" << status_name(st)
                              << " info.status=" << status_name(SB.result().info.status) << " msg=\"" << msg << "\"" << std::endl;
                    status_dirty = true;
                    diffs += compare(SA, SB, opno, "inject", label, true);
                } else {
                    Status sa = SA.solve();
                    Status sb = SB.solve();
                    status_dirty = false; g_factorized = true;
                    std::cout << "RES " << g_case << " " << opno << " " << status_name(sa) << " " << SA.result().info.iter << std::endl;
                    if (sa != sb) { std::cout << "DIFF " << g_case << " " << opno << " valid solve returned-status A=[" << status_name(sa) << "] B=[" << status_name(sb) << "]" << std::endl; diffs++; }
                    diffs += compare(SA, SB, opno, "valid", "solve", false);
                }
                opno++; continue;
            }
            fprintf(stderr, "bad op %s\n", op.c_str()); return 2;
        }
        std::cout << "END " << g_case << " diffs=" << diffs << std::endl;
    }
    return 0;
}
