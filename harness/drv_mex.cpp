// C17 dynamic part: runs the REAL interfaces/matlab/piqp_mex.cpp (included below, compiled against harness/mock_mex)
// through its mexFunction entry point and prints every value that crosses the binding, next to the value of the
// core field read directly from the C++ solver object.  tools/mex_dynamic.py writes the command script, generates
// mex_fields.inc (X-macro lists of the core fields, from the regenerated tables) and compares the output with the
// prediction of the tables.
//
// usage: drv_mex <script>      script lines:
//   new dense|sparse
//   get_settings <tag> [keep]          'keep' stores the returned struct as the base for update_settings / setup
//   update_settings <tag> [name=value ...]   base struct with the given fields replaced (values: strtod syntax)
//   setup_solve <tag>                  tiny QP through 'setup' and 'solve'
//   planted <tag> <status>             result_to_mx_struct on a Result filled with distinctive values
//   delete
// output lines:  <tag> struct|core|structinfo:<f>|coreinfo|structvec|corevec|structtop <name> <value>,  LOG ..., ERROR <tag> ...,
//                LOCK <mexLock count after delete>, ARITY settings|info|result <number of members of the C++ aggregate>
#include <cstdio>
#include <cstdlib>
#include <fstream>
#include <sstream>
#include <iostream>
#include <map>
#include <utility>
#include <type_traits>

#ifdef PIQP_VERIF
#include "verif_hooks.hpp"   // hook H1 needs a definition of piqp::verif::inject_factor_failure (empty plan: never injects)
#endif
#include "mex.h"
#include "piqp_mex.cpp"      // found via -I$VERIF_REPO/interfaces/matlab
#include "mex_fields.inc"

// number of members of an aggregate (C++14: brace-initialisable with N values convertible to anything) -- cross-checks that the
// translator did not miss a member of Settings/Info/Result
struct any_t { template<class U> constexpr operator U() const noexcept; };
template<class T, class Seq, class = void> struct braces_ok : std::false_type {};
template<class T, std::size_t... I> struct braces_ok<T, std::index_sequence<I...>, decltype(void(T{ (void(I), any_t{})... }))> : std::true_type {};
template<class T, std::size_t N> struct arity_from { static constexpr std::size_t value = braces_ok<T, std::make_index_sequence<N>>::value ? N : arity_from<T, N - 1>::value; };
template<class T> struct arity_from<T, 0> { static constexpr std::size_t value = 0; };

static void flush_log()
{
    for (auto& l : mock_mex::log()) std::printf("LOG %s\n", l.c_str());
    mock_mex::log().clear();
}

static std::string show(const mxArray* a)
{
    char buf[64];
    if (!a) return "NULL";
    if (a->cls == mxCHAR_CLASS) return "s:" + a->str;
    if (a->cls == mxSTRUCT_CLASS) return "struct";
    if (a->cls == mxDOUBLE_CLASS && !a->is_sparse)
    {
        std::string s;
        if (a->pr.empty()) return "empty";
        for (size_t i = 0; i < a->pr.size(); i++) { std::snprintf(buf, sizeof buf, "%a", a->pr[i]); if (i) s += ","; s += buf; }
        return s;
    }
    return "other";
}

static std::string showv(const Vec& v)
{
    char buf[64];
    std::string s;
    if (v.size() == 0) return "empty";
    for (Eigen::Index i = 0; i < v.size(); i++) { std::snprintf(buf, sizeof buf, "%a", v(i)); if (i) s += ","; s += buf; }
    return s;
}

static void print_struct(const std::string& tag, const char* kind, const mxArray* s)
{
    if (!s || s->cls != mxSTRUCT_CLASS) { std::printf("ERROR %s expected a struct\n", tag.c_str()); return; }
    for (size_t i = 0; i < s->fieldnames.size(); i++)
        std::printf("%s %s %s %s\n", tag.c_str(), kind, s->fieldnames[i].c_str(), show(s->fields[i]).c_str());
}

static void print_core_settings(const std::string& tag, const piqp::Settings<double>& s)
{
#define X(f) std::printf("%s core %s %a\n", tag.c_str(), #f, (double) s.f);
    PIQP_SETTINGS_LIST(X)
#undef X
}

static void print_core_result(const std::string& tag, const piqp::Result<double>& r)
{
#define X(f) std::printf("%s coreinfo %s %a\n", tag.c_str(), #f, (double) r.info.f);
    PIQP_INFO_NUM_LIST(X)
    PIQP_INFO_STATUS_LIST(X)
#undef X
#define X(f) std::printf("%s corevec %s %s\n", tag.c_str(), #f, showv(r.f).c_str());
    PIQP_RESULT_VEC_LIST(X)
#undef X
}

static void print_result_struct(const std::string& tag, const mxArray* res)
{
    if (!res || res->cls != mxSTRUCT_CLASS) { std::printf("ERROR %s expected a result struct\n", tag.c_str()); return; }
    for (size_t i = 0; i < res->fieldnames.size(); i++)
    {
        const mxArray* f = res->fields[i];
        if (f && f->cls == mxSTRUCT_CLASS)
        {
            std::printf("%s structtop %s struct\n", tag.c_str(), res->fieldnames[i].c_str());
            print_struct(tag, ("structinfo:" + res->fieldnames[i]).c_str(), f);
        }
        else
            std::printf("%s structvec %s %s\n", tag.c_str(), res->fieldnames[i].c_str(), show(f).c_str());
    }
}

static mxArray* dense(int m, int n, std::initializer_list<double> colmajor)
{
    mxArray* a = mxCreateDoubleMatrix(m, n, mxREAL);
    size_t i = 0;
    for (double v : colmajor) a->pr[i++] = v;
    return a;
}

static mxArray* sparse_from(const mxArray* d, bool upper)
{
    size_t nnz = 0;
    for (size_t j = 0; j < d->n; j++) for (size_t i = 0; i < d->m; i++) if (d->pr[j * d->m + i] != 0 && (!upper || i <= j)) nnz++;
    mxArray* a = mxCreateSparse(d->m, d->n, nnz, mxREAL);
    a->nzmax = nnz; a->pr.resize(nnz ? nnz : 1); a->ir.resize(nnz ? nnz : 1);
    size_t k = 0;
    for (size_t j = 0; j < d->n; j++)
    {
        a->jc[j] = k;
        for (size_t i = 0; i < d->m; i++) if (d->pr[j * d->m + i] != 0 && (!upper || i <= j)) { a->pr[k] = d->pr[j * d->m + i]; a->ir[k] = i; k++; }
    }
    a->jc[d->n] = k;
    return a;
}

static mxArray* copy_struct_with(const mxArray* base, const std::map<std::string, double>& over, const std::string& tag)
{
    std::vector<const char*> names;
    for (auto& n : base->fieldnames) names.push_back(n.c_str());
    mxArray* s = mxCreateStructMatrix(1, 1, (int) names.size(), names.data());
    for (size_t i = 0; i < base->fieldnames.size(); i++)
    {
        auto it = over.find(base->fieldnames[i]);
        if (it != over.end()) s->fields[i] = mxCreateDoubleScalar(it->second);
        else s->fields[i] = base->fields[i];
    }
    for (auto& kv : over)
        if (mxGetFieldNumber(base, kv.first.c_str()) < 0) std::printf("ERROR %s struct returned by get_settings has no field %s\n", tag.c_str(), kv.first.c_str());
    return s;
}

int main(int argc, char** argv)
{
    if (argc < 2) { std::fprintf(stderr, "usage: drv_mex <script>\n"); return 2; }
    std::ifstream in(argv[1]);
    if (!in) { std::fprintf(stderr, "cannot open %s\n", argv[1]); return 2; }
    std::printf("ARITY settings %zu\n", arity_from<piqp::Settings<double>, 96>::value);
    std::printf("ARITY info %zu\n", arity_from<piqp::Info<double>, 96>::value);
    std::printf("ARITY result %zu\n", arity_from<piqp::Result<double>, 48>::value);
    mxArray* handle = nullptr;
    mxArray* base = nullptr;
    bool is_dense = true;
    std::string line;
    while (std::getline(in, line))
    {
        std::istringstream ss(line);
        std::string cmd, tag;
        ss >> cmd;
        if (cmd.empty() || cmd[0] == '#') continue;
        try
        {
            if (cmd == "new")
            {
                std::string backend; ss >> backend; tag = "new";
                is_dense = backend == "dense";
                mxArray* plhs[1] = {nullptr};
                const mxArray* prhs[2] = {mxCreateString("new"), mxCreateString(backend.c_str())};
                mexFunction(1, plhs, 2, prhs);
                handle = plhs[0];
                base = nullptr;
            }
            else if (cmd == "get_settings")
            {
                std::string keep; ss >> tag >> keep;
                mxArray* plhs[1] = {nullptr};
                const mxArray* prhs[2] = {mxCreateString("get_settings"), handle};
                mexFunction(1, plhs, 2, prhs);
                print_struct(tag, "struct", plhs[0]);
                piqp_mex_handle* h = get_mex_handle(handle);
                if (is_dense) print_core_settings(tag, h->as_dense_ptr()->settings()); else print_core_settings(tag, h->as_sparse_ptr()->settings());
                if (keep == "keep") base = plhs[0];
            }
            else if (cmd == "update_settings")
            {
                ss >> tag;
                std::map<std::string, double> over;
                std::string kv;
                while (ss >> kv)
                {
                    size_t e = kv.find('=');
                    if (e == std::string::npos) { std::printf("ERROR %s bad override %s\n", tag.c_str(), kv.c_str()); continue; }
                    over[kv.substr(0, e)] = std::strtod(kv.c_str() + e + 1, nullptr);
                }
                if (!base) { std::printf("ERROR %s no base struct\n", tag.c_str()); continue; }
                mxArray* s = copy_struct_with(base, over, tag);
                const mxArray* prhs[3] = {mxCreateString("update_settings"), handle, s};
                mxArray* plhs[1] = {nullptr};
                mexFunction(0, plhs, 3, prhs);
                piqp_mex_handle* h = get_mex_handle(handle);
                if (is_dense) print_core_settings(tag, h->as_dense_ptr()->settings()); else print_core_settings(tag, h->as_sparse_ptr()->settings());
            }
            else if (cmd == "setup_solve")
            {
                ss >> tag;
                if (!base) { std::printf("ERROR %s no base struct\n", tag.c_str()); continue; }
                mxArray* P = dense(2, 2, {4, 1, 1, 2});
                mxArray* A = dense(1, 2, {1, 1});
                mxArray* G = dense(1, 2, {1, 0});
                if (!is_dense) { P = sparse_from(P, true); A = sparse_from(A, false); G = sparse_from(G, false); }
                const mxArray* prhs[14] = {mxCreateString("setup"), handle, mxCreateDoubleScalar(2), mxCreateDoubleScalar(1), mxCreateDoubleScalar(1),
                                           P, dense(2, 1, {1, 1}), A, dense(1, 1, {1}), G, dense(1, 1, {0.75}),
                                           dense(2, 1, {-1, -1}), dense(2, 1, {1, 1}), base};
                mxArray* plhs[3] = {nullptr, nullptr, nullptr};
                mexFunction(0, plhs, 14, prhs);
                const mxArray* prhs2[2] = {mxCreateString("solve"), handle};
                mexFunction(1, plhs, 2, prhs2);
                print_result_struct(tag, plhs[0]);
                piqp_mex_handle* h = get_mex_handle(handle);
                if (is_dense) print_core_result(tag, h->as_dense_ptr()->result()); else print_core_result(tag, h->as_sparse_ptr()->result());
            }
            else if (cmd == "planted")
            {
                int status = 0; ss >> tag >> status;
                piqp::Result<double> r;
                int k = 0;
#define X(f) { k++; r.f.resize(2); r.f(0) = 16 * k + 0.5; r.f(1) = -(16 * k + 0.25); }
                PIQP_RESULT_VEC_LIST(X)
#undef X
                k = 0;
#define X(f) { k++; r.info.f = (decltype(r.info.f)) (1000 + 3 * k); }
                PIQP_INFO_NUM_LIST(X)
#undef X
#define X(f) r.info.f = (piqp::Status) status;
                PIQP_INFO_STATUS_LIST(X)
#undef X
                mxArray* res = result_to_mx_struct(r);
                print_result_struct(tag, res);
                print_core_result(tag, r);
            }
            else if (cmd == "delete")
            {
                tag = "delete";
                const mxArray* prhs[2] = {mxCreateString("delete"), handle};
                mxArray* plhs[1] = {nullptr};
                mexFunction(0, plhs, 2, prhs);
                handle = nullptr;
                std::printf("LOCK %d\n", mock_mex::lock_count());
            }
            else
                std::printf("ERROR script unknown command %s\n", cmd.c_str());
        }
        catch (const mock_mex::error& e)
        {
            std::printf("ERROR %s %s\n", tag.c_str(), e.what());
        }
        flush_log();
    }
    return 0;
}
