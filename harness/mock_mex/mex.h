// Minimal mock of MATLAB's mex.h, see matrix.h in this directory.
#ifndef PIQP_VERIF_MOCK_MEX_H
#define PIQP_VERIF_MOCK_MEX_H

#include "matrix.h"
#include <cstdio>

inline void mexErrMsgTxt(const char* msg) { throw mock_mex::error(std::string("mexErrMsgTxt: ") + (msg ? msg : "")); }
inline void mexWarnMsgTxt(const char* msg) { mock_mex::log().push_back(std::string("mexWarnMsgTxt: ") + (msg ? msg : "")); }
inline void mexLock() { mock_mex::lock_count()++; }
inline void mexUnlock() { mock_mex::lock_count()--; }
template<typename... A> inline int mexPrintf(const char* fmt, A... a) { return std::printf(fmt, a...); }

extern "C++" void mexFunction(int nlhs, mxArray* plhs[], int nrhs, const mxArray* prhs[]);

#endif
