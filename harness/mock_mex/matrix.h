// Minimal mock of MATLAB's matrix.h (mxArray API) -- just enough to compile and run interfaces/matlab/piqp_mex.cpp
// outside MATLAB (property C17, dynamic part).  Not a general replacement: real doubles, uint64 scalars, char strings,
// 1x1 structs and real sparse matrices only.  Deviations from MATLAB are deliberate and loud:
//  * mexErrMsgTxt throws mock_mex::error (MATLAB longjmps out of the MEX function),
//  * mxSetField on a field name the struct was not created with is recorded in mock_mex::log() (MATLAB ignores it / asserts),
//  * mxGetScalar / mxGetPr / ... on a NULL array throw (MATLAB crashes).
#ifndef PIQP_VERIF_MOCK_MATRIX_H
#define PIQP_VERIF_MOCK_MATRIX_H

#include <cstddef>
#include <cstdint>
#include <cstring>
#include <string>
#include <vector>
#include <stdexcept>

typedef size_t mwSize;
typedef size_t mwIndex;
typedef ptrdiff_t mwSignedIndex;
typedef char mxChar;

typedef enum {
    mxUNKNOWN_CLASS = 0, mxCELL_CLASS, mxSTRUCT_CLASS, mxLOGICAL_CLASS, mxCHAR_CLASS, mxVOID_CLASS, mxDOUBLE_CLASS,
    mxSINGLE_CLASS, mxINT8_CLASS, mxUINT8_CLASS, mxINT16_CLASS, mxUINT16_CLASS, mxINT32_CLASS, mxUINT32_CLASS,
    mxINT64_CLASS, mxUINT64_CLASS, mxFUNCTION_CLASS
} mxClassID;

typedef enum { mxREAL = 0, mxCOMPLEX } mxComplexity;

struct mxArray_tag
{
    mxClassID cls = mxUNKNOWN_CLASS;
    size_t m = 0, n = 0;
    bool is_sparse = false;
    std::vector<double> pr;            // mxDOUBLE_CLASS data (dense: m*n, sparse: nzmax)
    std::vector<uint64_t> u64;         // mxUINT64_CLASS data
    std::string str;                   // mxCHAR_CLASS
    std::vector<std::string> fieldnames;   // mxSTRUCT_CLASS (1x1)
    std::vector<mxArray_tag*> fields;
    std::vector<mwIndex> jc, ir;       // sparse
    size_t nzmax = 0;
};
typedef struct mxArray_tag mxArray;

namespace mock_mex
{
struct error : public std::runtime_error { explicit error(const std::string& s) : std::runtime_error(s) {} };
inline std::vector<std::string>& log() { static std::vector<std::string> l; return l; }
inline int& lock_count() { static int c = 0; return c; }
inline const mxArray* need(const mxArray* a, const char* fn) { if (!a) throw error(std::string(fn) + " called with a NULL mxArray (field missing?)"); return a; }
}

inline mxArray* mxCreateNumericMatrix(mwSize m, mwSize n, mxClassID cls, mxComplexity c)
{
    if (c != mxREAL) throw mock_mex::error("mock: complex arrays not supported");
    mxArray* a = new mxArray; a->cls = cls; a->m = m; a->n = n;
    if (cls == mxUINT64_CLASS) a->u64.assign(m * n, 0);
    else if (cls == mxDOUBLE_CLASS) a->pr.assign(m * n, 0.0);
    else throw mock_mex::error("mock: mxCreateNumericMatrix: class not supported");
    return a;
}
inline mxArray* mxCreateDoubleMatrix(mwSize m, mwSize n, mxComplexity c) { return mxCreateNumericMatrix(m, n, mxDOUBLE_CLASS, c); }
inline mxArray* mxCreateDoubleScalar(double v) { mxArray* a = mxCreateDoubleMatrix(1, 1, mxREAL); a->pr[0] = v; return a; }
inline mxArray* mxCreateString(const char* s) { mxArray* a = new mxArray; a->cls = mxCHAR_CLASS; a->str = s ? s : ""; a->m = 1; a->n = a->str.size(); return a; }
inline mxArray* mxCreateSparse(mwSize m, mwSize n, mwSize nzmax, mxComplexity c)
{
    if (c != mxREAL) throw mock_mex::error("mock: complex arrays not supported");
    mxArray* a = new mxArray; a->cls = mxDOUBLE_CLASS; a->m = m; a->n = n; a->is_sparse = true;
    a->nzmax = nzmax < 1 ? 1 : nzmax; a->pr.assign(a->nzmax, 0.0); a->ir.assign(a->nzmax, 0); a->jc.assign(n + 1, 0);
    return a;
}
inline mxArray* mxCreateStructMatrix(mwSize m, mwSize n, int nfields, const char** names)
{
    if (m != 1 || n != 1) throw mock_mex::error("mock: only 1x1 structs supported");
    mxArray* a = new mxArray; a->cls = mxSTRUCT_CLASS; a->m = 1; a->n = 1;
    for (int i = 0; i < nfields; i++) { a->fieldnames.push_back(names[i]); a->fields.push_back(nullptr); }
    return a;
}
inline int mxGetFieldNumber(const mxArray* a, const char* name)
{
    mock_mex::need(a, "mxGetFieldNumber");
    for (size_t i = 0; i < a->fieldnames.size(); i++) if (a->fieldnames[i] == name) return (int) i;
    return -1;
}
inline int mxGetNumberOfFields(const mxArray* a) { return (int) mock_mex::need(a, "mxGetNumberOfFields")->fieldnames.size(); }
inline const char* mxGetFieldNameByNumber(const mxArray* a, int i) { return mock_mex::need(a, "mxGetFieldNameByNumber")->fieldnames.at(i).c_str(); }
inline void mxSetField(mxArray* a, mwIndex idx, const char* name, mxArray* v)
{
    mock_mex::need(a, "mxSetField");
    if (a->cls != mxSTRUCT_CLASS || idx != 0) throw mock_mex::error("mock: mxSetField on a non-struct / index != 0");
    int k = mxGetFieldNumber(a, name);
    if (k < 0) { mock_mex::log().push_back(std::string("mxSetField: struct has no field named ") + name); return; }
    if (a->fields[k]) mock_mex::log().push_back(std::string("mxSetField: field set twice: ") + name);
    a->fields[k] = v;
}
inline mxArray* mxGetField(const mxArray* a, mwIndex idx, const char* name)
{
    mock_mex::need(a, "mxGetField");
    if (a->cls != mxSTRUCT_CLASS || idx != 0) return nullptr;
    int k = mxGetFieldNumber(a, name);
    return k < 0 ? nullptr : a->fields[k];
}
inline double mxGetScalar(const mxArray* a)
{
    mock_mex::need(a, "mxGetScalar");
    if (a->cls == mxDOUBLE_CLASS && !a->pr.empty()) return a->pr[0];
    if (a->cls == mxUINT64_CLASS && !a->u64.empty()) return (double) a->u64[0];
    throw mock_mex::error("mock: mxGetScalar on an empty / non-numeric array");
}
inline double* mxGetPr(const mxArray* a) { mock_mex::need(a, "mxGetPr"); return const_cast<double*>(a->pr.data()); }
inline void* mxGetData(const mxArray* a)
{
    mock_mex::need(a, "mxGetData");
    if (a->cls == mxUINT64_CLASS) return const_cast<uint64_t*>(a->u64.data());
    return const_cast<double*>(a->pr.data());
}
inline mwIndex* mxGetJc(const mxArray* a) { mock_mex::need(a, "mxGetJc"); if (!a->is_sparse) throw mock_mex::error("mock: mxGetJc on a full matrix"); return const_cast<mwIndex*>(a->jc.data()); }
inline mwIndex* mxGetIr(const mxArray* a) { mock_mex::need(a, "mxGetIr"); if (!a->is_sparse) throw mock_mex::error("mock: mxGetIr on a full matrix"); return const_cast<mwIndex*>(a->ir.data()); }
inline mwSize mxGetNzmax(const mxArray* a) { mock_mex::need(a, "mxGetNzmax"); return a->nzmax; }
inline mwSize mxGetM(const mxArray* a) { return mock_mex::need(a, "mxGetM")->m; }
inline mwSize mxGetN(const mxArray* a) { return mock_mex::need(a, "mxGetN")->n; }
inline size_t mxGetNumberOfElements(const mxArray* a) { mock_mex::need(a, "mxGetNumberOfElements"); return a->m * a->n; }
inline bool mxIsEmpty(const mxArray* a) { mock_mex::need(a, "mxIsEmpty"); return a->m * a->n == 0; }
inline bool mxIsComplex(const mxArray*) { return false; }
inline bool mxIsSparse(const mxArray* a) { return mock_mex::need(a, "mxIsSparse")->is_sparse; }
inline bool mxIsStruct(const mxArray* a) { return mock_mex::need(a, "mxIsStruct")->cls == mxSTRUCT_CLASS; }
inline bool mxIsChar(const mxArray* a) { return mock_mex::need(a, "mxIsChar")->cls == mxCHAR_CLASS; }
inline bool mxIsDouble(const mxArray* a) { return mock_mex::need(a, "mxIsDouble")->cls == mxDOUBLE_CLASS; }
inline mxClassID mxGetClassID(const mxArray* a) { return mock_mex::need(a, "mxGetClassID")->cls; }
inline int mxGetString(const mxArray* a, char* buf, mwSize buflen)
{
    if (!a || a->cls != mxCHAR_CLASS || buflen == 0) return 1;
    if (a->str.size() + 1 > buflen) { std::memcpy(buf, a->str.data(), buflen - 1); buf[buflen - 1] = 0; return 1; }
    std::memcpy(buf, a->str.c_str(), a->str.size() + 1);
    return 0;
}
inline void mxDestroyArray(mxArray*) {}   // the mock never frees (short-lived test processes)

#endif
