#include <boost/multiprecision/cpp_bin_float.hpp>
#include <boost/multiprecision/eigen.hpp>
#include "piqp/piqp.hpp"
using T = boost::multiprecision::number<boost::multiprecision::cpp_bin_float<100>, boost::multiprecision::et_off>;
int main(){
  piqp::DenseSolver<T> s;
  piqp::Mat<T> P(2,2); P<<2,0,0,2; piqp::Vec<T> c(2); c<<1,-1;
  s.setup(P,c); auto st=s.solve(); std::cout<<st<<" "<<s.result().x.transpose()<<"\n"; return st==piqp::PIQP_SOLVED?0:1; }
