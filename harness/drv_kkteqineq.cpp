// Driver for the KKT_EQ_ELIMINATED / KKT_INEQ_ELIMINATED model stage of C13 (tools/kkteqineq_stage.py).
//   -DBACKEND=2  piqp::sparse::KKT<xrat,int,KKT_EQ_ELIMINATED>      -DBACKEND=3  ... KKT_INEQ_ELIMINATED
// It IS harness/drv_kkt.cpp (same case format, same operations, same observation lines: that file is included verbatim), plus, on
// every DUMP, the internal members of the KKTImpl specialisation that the Gallina models coq/KKTSparseEq.v / KKTSparseIneq.v
// also carry, under mode-independent keys:
//     P2K   P_utri_to_Ki                     X2K   AT_A_to_Ki | GT_G_to_Ki            R2K   GT_to_Ki | AT_to_Ki
//     PKi   the map of permute_sparse_symmetric_matrix
//     Xc    the cached transpose A | G  (rows cols nnz (i j v)*, verbatim storage order)
//     XX    the cached product AT_A | GT_W_delta_inv_G  (same format)        tmp   tmp_scatter
// How the extra lines are attached without copying or editing drv_kkt.cpp: every operation of its main loop that needs the KKT
// object starts with the call  need_kkt();  of a local lambda.  The function-like macro below appends the extra dump to that call
// when the current operation is DUMP (the definition `auto need_kkt = [&]() ..` is not followed by `(` and is left alone).
// If drv_kkt.cpp changes shape so that the hook no longer fires, no P2K / X2K / .. lines appear and the stage reports a failed
// correspondence ("impl-no-output"): the hook fails closed.
#if !defined(BACKEND) || (BACKEND != 2 && BACKEND != 3)
#error "drv_kkteqineq.cpp: -DBACKEND=2 (KKT_EQ_ELIMINATED) or -DBACKEND=3 (KKT_INEQ_ELIMINATED)"
#endif
template<class KK, class DD> static void dump_extra(KK& K, const DD& d);
#define need_kkt() need_kkt(); if (op == "DUMP") dump_extra(*K, *data)
#include "drv_kkt.cpp"
#undef need_kkt

template<class V> static std::string fmti(const V& v)
{
    std::ostringstream os; os << v.size(); for (Eigen::Index i = 0; i < v.size(); i++) os << " " << v(i); return os.str();
}
template<class M> static std::string fmtraw(const M& A)
{
    std::ostringstream os; os << A.rows() << " " << A.cols() << " " << A.nonZeros();
    for (isize j = 0; j < A.outerSize(); j++)
        for (isize k = A.outerIndexPtr()[j]; k < A.outerIndexPtr()[j + 1]; k++)
            os << " " << A.innerIndexPtr()[k] << " " << j << " " << fmt(A.valuePtr()[k]);
    return os.str();
}
template<class KK, class DD> static void dump_extra(KK& K, const DD& d)
{
    (void) d;
    out("P2K", fmti(K.P_utri_to_Ki));
    out("PKi", fmti(K.PKi));
    out("tmp", fmtv(K.tmp_scatter));
#if BACKEND == 2
    out("X2K", fmti(K.AT_A_to_Ki)); out("R2K", fmti(K.GT_to_Ki));
    out("Xc", fmtraw(K.A)); out("XX", fmtraw(K.AT_A));
#else
    out("X2K", fmti(K.GT_G_to_Ki)); out("R2K", fmti(K.AT_to_Ki));
    out("Xc", fmtraw(K.G)); out("XX", fmtraw(K.GT_W_delta_inv_G));
#endif
}
