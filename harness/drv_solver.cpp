// Generic whole-solver driver, compiled against /repo's current headers.
//   -DBACKEND=0 dense, 1 sparse KKT_FULL, 2 EQ_ELIMINATED, 3 INEQ_ELIMINATED, 4 ALL_ELIMINATED
//   -DPRECOND=0 Ruiz, 1 Identity
//   -DSCALAR=0 xrat (exact), 1 double
// Reads cases from argv[1] (or stdin), prints one "key value..." line per observation.
#include <cstdio>
#include <cstdlib>
#include <cstring>
#include <string>
#include <vector>
#include <map>
#include <set>
#include <iostream>
#include <fstream>
#include <sstream>
#include <memory>
#include <functional>
#include <Eigen/Dense>
#include <Eigen/Sparse>
#include <Eigen/Cholesky>
#include <gmpxx.h>
#ifndef SCALAR
#define SCALAR 0
#endif
#ifndef BACKEND
#define BACKEND 0
#endif
#ifndef PRECOND
#define PRECOND 0
#endif
#ifndef IDX
#define IDX 0
#endif
#if SCALAR == 4
#include <boost/multiprecision/cpp_bin_float.hpp>
#include <boost/multiprecision/eigen.hpp>
#endif
#include "xrat.hpp"
#if SCALAR == 0
#include "exact_llt.hpp"
typedef xr::xrat T;
#elif SCALAR == 1
typedef double T;
#elif SCALAR == 2
typedef float T;
#elif SCALAR == 3
typedef long double T;
#else
typedef boost::multiprecision::number<boost::multiprecision::cpp_bin_float<100>, boost::multiprecision::et_off> T;
#endif
#if IDX == 0
typedef int IdxT;
#else
typedef long long IdxT;
#endif

#include "verif_hooks.hpp"

#include "piqp/utils/optional.hpp"
#define private public
#define protected public
#define class struct
#include "piqp/piqp.hpp"
#undef class
#undef private
#undef protected

using namespace piqp;

#if SCALAR == 0
namespace piqp { namespace verif {
template<> struct Checkpoint<xr::xrat> {
    static inline void vec(Vec<xr::xrat>& v) { long k = xr::g().cp_bits; if (k > 0) for (Eigen::Index i = 0; i < v.size(); i++) v(i) = xr::round_cp(v(i), k); }
    static inline void scalar(xr::xrat& x) { long k = xr::g().cp_bits; if (k > 0) x = xr::round_cp(x, k); }
};
} }
#endif

#if BACKEND == 0
#if PRECOND == 0
typedef DenseSolver<T, dense::RuizEquilibration<T>> Solver;
#else
typedef DenseSolver<T, dense::IdentityPreconditioner<T>> Solver;
#endif
typedef Mat<T> MatT;
static const bool kSparse = false;
#else
#if BACKEND == 1
static const int kMode = KKTMode::KKT_FULL;
#elif BACKEND == 2
static const int kMode = KKTMode::KKT_EQ_ELIMINATED;
#elif BACKEND == 3
static const int kMode = KKTMode::KKT_INEQ_ELIMINATED;
#else
static const int kMode = KKTMode::KKT_ALL_ELIMINATED;
#endif
#if PRECOND == 0
typedef SparseSolver<T, IdxT, kMode, sparse::RuizEquilibration<T, IdxT>> Solver;
#else
typedef SparseSolver<T, IdxT, kMode, sparse::IdentityPreconditioner<T, IdxT>> Solver;
#endif
typedef SparseMat<T, IdxT> MatT;
static const bool kSparse = true;
#endif

// ---------- scalar io ----------
static T parse_scalar(const std::string& s)
{
#if SCALAR == 0
    return xr::xrat(s);
#else
    if (s == "inf" || s == "+inf") return std::numeric_limits<T>::infinity();
    if (s == "-inf") return -std::numeric_limits<T>::infinity();
    if (s == "nan") return std::numeric_limits<T>::quiet_NaN();
    mpq_class q(s); q.canonicalize();
#if SCALAR == 1 || SCALAR == 2
    return (T) q.get_d();
#else
    // numerator / denominator in the target precision
    T num = T(0), den = T(0);
    { std::string a = q.get_num().get_str(), b = q.get_den().get_str();
      bool neg = a[0] == '-'; for (char ch : a) if (ch != '-') num = num * T(10) + T(int(ch - '0')); if (neg) num = -num;
      for (char ch : b) den = den * T(10) + T(int(ch - '0')); }
    return num / den;
#endif
#endif
}
static std::string fmt(const T& x)
{
#if SCALAR == 0
    if (x.taint) return "?";
    return x.str();
#elif SCALAR == 1
    char buf[64]; snprintf(buf, sizeof buf, "%a", x); return buf;
#elif SCALAR == 2
    char buf[64]; snprintf(buf, sizeof buf, "%a", (double) x); return buf;
#elif SCALAR == 3
    if (std::isinf(x)) return x > 0 ? "inf" : "-inf";
    if (std::isnan(x)) return "nan";
    char buf[96]; snprintf(buf, sizeof buf, "%.24Le", x); return buf;
#else
    if (boost::math::isinf(x)) return x > 0 ? "inf" : "-inf";
    if (boost::math::isnan(x)) return "nan";
    std::ostringstream os; os.precision(60); os << std::scientific << x; return os.str();
#endif
}
template<typename V> static std::string fmtv(const V& v, Eigen::Index k = -1)
{
    std::ostringstream os; Eigen::Index n = k < 0 ? v.size() : k;
    os << n; for (Eigen::Index i = 0; i < n; i++) os << " " << fmt(v(i)); return os.str();
}

struct Tok {
    std::vector<std::string> t; size_t i = 0;
    bool eof() const { return i >= t.size(); }
    const std::string& peek() const { return t[i]; }
    std::string next() { if (eof()) { fprintf(stderr, "unexpected eof\n"); exit(2); } return t[i++]; }
    long nextl() { return atol(next().c_str()); }
};

struct Trip { long r, c; T v; };
struct MatIn { bool present = false; long rows = 0, cols = 0; std::vector<Trip> e; };
struct VecIn { bool present = false; Vec<T> v; };

static MatIn read_mat(Tok& tk)
{
    MatIn m; std::string k = tk.next();
    if (k == "none") return m;
    m.present = true; m.rows = atol(k.c_str()); m.cols = tk.nextl(); long nnz = tk.nextl();
    for (long q = 0; q < nnz; q++) { Trip t; t.r = tk.nextl(); t.c = tk.nextl(); t.v = parse_scalar(tk.next()); m.e.push_back(t); }
    return m;
}
static VecIn read_vec(Tok& tk)
{
    VecIn v; std::string k = tk.next();
    if (k == "none") return v;
    v.present = true; long n = atol(k.c_str()); v.v.resize(n);
    for (long i = 0; i < n; i++) v.v(i) = parse_scalar(tk.next());
    return v;
}

#if BACKEND == 0
static MatT build(const MatIn& m)
{
    MatT M = MatT::Zero(m.rows, m.cols);
    for (auto& t : m.e) M(t.r, t.c) = t.v;
    return M;
}
#else
static MatT build(const MatIn& m)
{
    // entries are given column-major sorted; keep explicit zeros (pattern is part of the input)
    MatT M(m.rows, m.cols);
    std::vector<IdxT> cnt(m.cols, 0);
    for (auto& t : m.e) cnt[t.c]++;
    M.reserve(cnt);
    for (auto& t : m.e) M.insert(t.r, t.c) = t.v;
    M.makeCompressed();
    return M;
}
#endif

struct Blocks { MatIn P, A, G; VecIn c, b, h, lb, ub; };
static Blocks read_blocks(Tok& tk)
{
    Blocks B;
    while (true) {
        std::string k = tk.next();
        if (k == "END") break;
        if (k == "P") B.P = read_mat(tk); else if (k == "A") B.A = read_mat(tk); else if (k == "G") B.G = read_mat(tk);
        else if (k == "c") B.c = read_vec(tk); else if (k == "b") B.b = read_vec(tk); else if (k == "h") B.h = read_vec(tk);
        else if (k == "lb") B.lb = read_vec(tk); else if (k == "ub") B.ub = read_vec(tk);
        else { fprintf(stderr, "bad block %s\n", k.c_str()); exit(2); }
    }
    return B;
}

static const char* status_name(Status s)
{
    switch (s) {
        case PIQP_SOLVED: return "SOLVED"; case PIQP_MAX_ITER_REACHED: return "MAX_ITER_REACHED";
        case PIQP_PRIMAL_INFEASIBLE: return "PRIMAL_INFEASIBLE"; case PIQP_DUAL_INFEASIBLE: return "DUAL_INFEASIBLE";
        case PIQP_NUMERICS: return "NUMERICS"; case PIQP_UNSOLVED: return "UNSOLVED"; case PIQP_INVALID_SETTINGS: return "INVALID_SETTINGS";
    }
    return "OTHER";
}

static void set_setting(Settings<T>& s, const std::string& k, const std::string& v)
{
#define ST(f) if (k == #f) { s.f = parse_scalar(v); return; }
#define SI(f) if (k == #f) { s.f = atol(v.c_str()); return; }
#define SB(f) if (k == #f) { s.f = atol(v.c_str()) != 0; return; }
    ST(rho_init) ST(delta_init) ST(eps_abs) ST(eps_rel) SB(check_duality_gap) ST(eps_duality_gap_abs) ST(eps_duality_gap_rel)
    ST(reg_lower_limit) ST(reg_finetune_lower_limit) SI(reg_finetune_primal_update_threshold) SI(reg_finetune_dual_update_threshold)
    SI(max_iter) SI(max_factor_retires) SB(preconditioner_scale_cost) SI(preconditioner_iter) ST(tau)
    SB(iterative_refinement_always_enabled) ST(iterative_refinement_eps_abs) ST(iterative_refinement_eps_rel) SI(iterative_refinement_max_iter)
    ST(iterative_refinement_min_improvement_rate) ST(iterative_refinement_static_regularization_eps) ST(iterative_refinement_static_regularization_rel)
    SB(verbose) SB(compute_timings)
#undef ST
#undef SI
#undef SB
    fprintf(stderr, "unknown setting %s\n", k.c_str()); exit(2);
}

template<typename M> static std::string fmt_dense(const M& A)
{
    std::ostringstream os; os << A.rows() << " " << A.cols();
    for (Eigen::Index j = 0; j < A.cols(); j++) for (Eigen::Index i = 0; i < A.rows(); i++) os << " " << fmt(A(i, j));
    return os.str();
}
template<typename SM> static std::string fmt_sparse(const SM& A)
{
    std::ostringstream os; os << A.rows() << " " << A.cols() << " " << A.nonZeros();
    for (Eigen::Index j = 0; j < A.outerSize(); j++)
        for (typename SM::InnerIterator it(A, j); it; ++it) os << " " << it.row() << " " << it.col() << " " << fmt(it.value());
    return os.str();
}
#if BACKEND == 0
static std::string fmt_mat(const MatT& A) { return fmt_dense(A); }
#else
static std::string fmt_mat(const MatT& A) { return fmt_dense(Mat<T>(A)); }
static std::string fmt_pat(const MatT& A) { return fmt_sparse(A); }
#endif

static thread_local std::string pfx;
static thread_local Solver* g_cur = nullptr;
static thread_local std::string g_trace;
static thread_local std::ostringstream* g_out = nullptr;
static void on_fact_call(long k, bool fail)
{
    if (!g_cur) return;
    std::ostringstream os;
    os << " " << k << ":" << g_cur->m_result.info.iter << ":" << g_cur->m_result.info.factor_retires << ":" << (int) g_cur->m_enable_iterative_refinement << ":" << (fail ? 1 : 0);
    g_trace += os.str();
}
static void out(const std::string& k, const std::string& v) { (*g_out) << pfx << k << " " << v << "\n"; }

static void dump_data(Solver& S)
{
    auto& d = S.m_data;
    std::ostringstream dims; dims << d.n << " " << d.p << " " << d.m << " " << d.n_lb << " " << d.n_ub;
    out("dims", dims.str());
    out("P_utri", fmt_mat(d.P_utri)); out("AT", fmt_mat(d.AT)); out("GT", fmt_mat(d.GT));
    out("c", fmtv(d.c)); out("b", fmtv(d.b)); out("h", fmtv(d.h));
    { std::ostringstream os; os << d.n_lb; for (isize i = 0; i < d.n_lb; i++) os << " " << d.x_lb_idx(i); out("x_lb_idx", os.str()); }
    { std::ostringstream os; os << d.n_ub; for (isize i = 0; i < d.n_ub; i++) os << " " << d.x_ub_idx(i); out("x_ub_idx", os.str()); }
    out("x_lb_n", fmtv(d.x_lb_n, d.n_lb)); out("x_ub", fmtv(d.x_ub, d.n_ub));
    out("x_lb_scaling", fmtv(d.x_lb_scaling, d.n_lb)); out("x_ub_scaling", fmtv(d.x_ub_scaling, d.n_ub));
#if PRECOND == 0
    auto& pc = S.m_preconditioner;
    out("pc.c", fmt(pc.c)); out("pc.c_inv", fmt(pc.c_inv));
    out("pc.delta", fmtv(pc.delta)); out("pc.delta_inv", fmtv(pc.delta_inv));
    out("pc.delta_lb", fmtv(pc.delta_lb)); out("pc.delta_lb_inv", fmtv(pc.delta_lb_inv));
    out("pc.delta_ub", fmtv(pc.delta_ub)); out("pc.delta_ub_inv", fmtv(pc.delta_ub_inv));
    // C15: every scale_X / unscale_X accessor pair must be mutually inverse on every active index: rt = unscale(scale(v)),
    // tr = scale(unscale(v)) for v = (2, 3, 4, ...); implementation-side oracle only (not part of the model comparison)
#define VERIF_RT(name, len) { Vec<T> v_(len); for (isize i_ = 0; i_ < (isize)(len); i_++) v_(i_) = T((long) (i_ + 2)); \
        Vec<T> a_ = pc.scale_##name(v_); Vec<T> b_ = pc.unscale_##name(a_); Vec<T> c_ = pc.unscale_##name(v_); Vec<T> d_ = pc.scale_##name(c_); \
        out("rt." #name, fmtv(b_)); out("tr." #name, fmtv(d_)); }
    VERIF_RT(primal, d.n) VERIF_RT(dual_eq, d.p) VERIF_RT(dual_ineq, d.m) VERIF_RT(dual_lb, d.n_lb) VERIF_RT(dual_ub, d.n_ub)
    VERIF_RT(slack_ineq, d.m) VERIF_RT(slack_lb, d.n_lb) VERIF_RT(slack_ub, d.n_ub)
    VERIF_RT(primal_res_eq, d.p) VERIF_RT(primal_res_ineq, d.m) VERIF_RT(primal_res_lb, d.n_lb) VERIF_RT(primal_res_ub, d.n_ub) VERIF_RT(dual_res, d.n)
#undef VERIF_RT
    out("rt.cost", fmt(pc.unscale_cost(pc.scale_cost(T(3L))))); out("tr.cost", fmt(pc.scale_cost(pc.unscale_cost(T(3L)))));
#endif
}

// the KKT object's own state: scalings and the assembled matrix with the permutation undone (lower triangle by rows)
static void dump_kkt(Solver& S)
{
    auto& K = S.m_kkt; auto& d = S.m_data;
    out("kkt.rho", fmt(K.m_rho)); out("kkt.delta", fmt(K.m_delta));
    out("kkt.s", fmtv(K.m_s)); out("kkt.z_inv", fmtv(K.m_z_inv));
    out("kkt.s_lb", fmtv(K.m_s_lb, d.n_lb)); out("kkt.z_lb_inv", fmtv(K.m_z_lb_inv, d.n_lb));
    out("kkt.s_ub", fmtv(K.m_s_ub, d.n_ub)); out("kkt.z_ub_inv", fmtv(K.m_z_ub_inv, d.n_ub));
#if BACKEND == 0
    std::ostringstream os; os << d.n;
    for (isize i = 0; i < d.n; i++) for (isize j = 0; j <= i; j++) os << " " << fmt(K.kkt_mat(i, j));
    out("kkt.K", os.str());
#else
    isize nk = K.kkt_size();
    Mat<T> D = Mat<T>::Zero(nk, nk);
    for (isize j = 0; j < K.PKPt.outerSize(); j++)
        for (isize k = K.PKPt.outerIndexPtr()[j]; k < K.PKPt.outerIndexPtr()[j + 1]; k++) {
            isize i = K.PKPt.innerIndexPtr()[k];
            D(i, j) += K.PKPt.valuePtr()[k];
            if (i != j) D(j, i) += K.PKPt.valuePtr()[k];
        }
    std::ostringstream os; os << nk;
    for (isize i = 0; i < nk; i++) for (isize j = 0; j <= i; j++) os << " " << fmt(D(K.ordering.inv(i), K.ordering.inv(j)));
    out("kkt.K", os.str());
#endif
}

static void dump_result(Solver& S, Status st)
{
    const Result<T>& r = S.result();
    out("status", status_name(st));
    out("info.status", status_name(r.info.status));
    out("iter", std::to_string(r.info.iter));
    out("x", fmtv(r.x)); out("y", fmtv(r.y)); out("z", fmtv(r.z)); out("z_lb", fmtv(r.z_lb)); out("z_ub", fmtv(r.z_ub));
    out("s", fmtv(r.s)); out("s_lb", fmtv(r.s_lb)); out("s_ub", fmtv(r.s_ub));
    out("zeta", fmtv(r.zeta)); out("lambda", fmtv(r.lambda)); out("nu", fmtv(r.nu)); out("nu_lb", fmtv(r.nu_lb)); out("nu_ub", fmtv(r.nu_ub));
    out("rho", fmt(r.info.rho)); out("delta", fmt(r.info.delta)); out("mu", fmt(r.info.mu)); out("sigma", fmt(r.info.sigma));
    out("primal_step", fmt(r.info.primal_step)); out("dual_step", fmt(r.info.dual_step));
    out("primal_inf", fmt(r.info.primal_inf)); out("primal_rel_inf", fmt(r.info.primal_rel_inf));
    out("dual_inf", fmt(r.info.dual_inf)); out("dual_rel_inf", fmt(r.info.dual_rel_inf));
    out("primal_obj", fmt(r.info.primal_obj)); out("dual_obj", fmt(r.info.dual_obj));
    out("duality_gap", fmt(r.info.duality_gap)); out("duality_gap_rel", fmt(r.info.duality_gap_rel));
    out("factor_retires", std::to_string(r.info.factor_retires)); out("reg_limit", fmt(r.info.reg_limit));
    out("no_primal_update", std::to_string(r.info.no_primal_update)); out("no_dual_update", std::to_string(r.info.no_dual_update));
    out("refine", std::to_string((int) S.m_enable_iterative_refinement));
}

template<typename O, typename X> static optional<O> mk_opt(bool present, const X& x)
{
    if (present) return optional<O>(O(x)); return nullopt;
}

// runs one case (tokens [b,e)) and returns its observation lines
static std::string run_case(const std::vector<std::string>& toks, size_t b, size_t e, const void* dirty_mem_unused)
{
    Tok tk; tk.t.assign(toks.begin() + b, toks.begin() + e);
    std::ostringstream os; g_out = &os;
    std::string k = tk.next();
    if (k != "CASE") { fprintf(stderr, "expected CASE, got %s\n", k.c_str()); exit(2); }
    std::string name = tk.next();
    // default-initialisation on purpose: `new Solver()` would zero-fill the object first and hide reads of unset members
    std::unique_ptr<Solver> S(new Solver);
    vhook::reset_fault_plan();
    int opno = 0;
#if SCALAR == 0
    xr::g().nonfinite_arith = false; xr::g().nonfinite_count = 0; xr::g().tainted_compare = 0; xr::g().cp_bits = 0;
#endif
    while (true)
    {
        std::string op = tk.next();
        if (op == "ENDCASE") break;
        pfx = name + "." + std::to_string(opno) + ".";
        if (op == "SET") { std::string key = tk.next(); std::string val = tk.next(); set_setting(S->settings(), key, val); continue; }
        if (op == "JUNK") {
#if SCALAR == 0
            xr::g().junk_mode = (int) tk.nextl();
#else
            tk.nextl();
#endif
            continue; }
        if (op == "CPBITS") {
            long kb = tk.nextl();
#if SCALAR == 0
            xr::g().cp_bits = kb;
#endif
            (void) kb; continue; }
        if (op == "FAULTS") { long n = tk.nextl(); std::vector<int> plan; for (long i = 0; i < n; i++) plan.push_back((int) tk.nextl()); vhook::set_fault_plan(plan); continue; }
        if (op == "SETUP" || op == "UPDATE")
        {
            bool reuse = true;
            if (op == "UPDATE") reuse = tk.nextl() != 0;
            Blocks B = read_blocks(tk);
            MatT P, A, G;
            if (B.P.present) P = build(B.P);
            if (B.A.present) A = build(B.A);
            if (B.G.present) G = build(B.G);
#if BACKEND == 0
            typedef CMatRef<T> MR;
#else
            typedef CSparseMatRef<T, IdxT> MR;
#endif
            typedef CVecRef<T> VR;
            optional<MR> oP = mk_opt<MR>(B.P.present, P), oA = mk_opt<MR>(B.A.present, A), oG = mk_opt<MR>(B.G.present, G);
            optional<VR> oc = mk_opt<VR>(B.c.present, B.c.v), ob = mk_opt<VR>(B.b.present, B.b.v), oh = mk_opt<VR>(B.h.present, B.h.v),
                         olb = mk_opt<VR>(B.lb.present, B.lb.v), oub = mk_opt<VR>(B.ub.present, B.ub.v);
            if (op == "SETUP") {
                if (!B.P.present || !B.c.present) { fprintf(stderr, "setup needs P and c\n"); exit(2); }
                S->setup(*oP, *oc, oA, ob, oG, oh, olb, oub);
                out("op", "setup");
            } else {
                S->update(oP, oc, oA, ob, oG, oh, olb, oub, reuse);
                out("op", std::string("update ") + (reuse ? "1" : "0"));
            }
            if (S->m_setup_done) { dump_data(*S); if (op == "SETUP") dump_kkt(*S); }
            opno++;
            continue;
        }
        if (op == "SOLVE")
        {
            g_cur = S.get(); g_trace.clear(); vhook::fs().on_call = on_fact_call;
            Status st = S->solve();
            g_cur = nullptr;
            out("op", "solve");
            dump_result(*S, st);
            out("fact_calls", std::to_string(vhook::fact_calls()));
            out("trace", g_trace);
            if (S->m_setup_done) dump_kkt(*S);
#if SCALAR == 0
            out("nonfinite", std::to_string((int) xr::g().nonfinite_arith));
#endif
            opno++;
            continue;
        }
        fprintf(stderr, "bad op %s\n", op.c_str()); exit(2);
    }
    g_out = nullptr;
    return os.str();
}

#include <thread>
#include <atomic>
int main(int argc, char** argv)
{
    std::ios::sync_with_stdio(false);
    std::istream* in = &std::cin; std::ifstream f;
    int nthreads = 0; const char* path = nullptr;
    for (int i = 1; i < argc; i++) { if (std::string(argv[i]) == "--threads" && i + 1 < argc) nthreads = atoi(argv[++i]); else path = argv[i]; }
    if (path) { f.open(path); if (!f) { fprintf(stderr, "cannot open %s\n", path); return 2; } in = &f; }
    std::vector<std::string> toks; { std::string w; while (*in >> w) toks.push_back(w); }
    std::vector<std::pair<size_t, size_t>> spans;
    for (size_t i = 0; i < toks.size();) {
        if (toks[i] != "CASE") { fprintf(stderr, "expected CASE, got %s\n", toks[i].c_str()); return 2; }
        size_t j = i; while (j < toks.size() && toks[j] != "ENDCASE") j++;
        if (j >= toks.size()) { fprintf(stderr, "missing ENDCASE\n"); return 2; }
        spans.push_back({i, j + 1}); i = j + 1;
    }
    // observations go to the file named by VERIF_OBS_FILE if set (keeps them apart from the library's own prints), else to stdout
    std::ofstream obsf; std::ostream* obs = &std::cout;
    if (const char* of = getenv("VERIF_OBS_FILE")) { obsf.open(of); obs = &obsf; }
    std::vector<std::string> results(spans.size());
    if (nthreads <= 1) {
        for (size_t c = 0; c < spans.size(); c++) { results[c] = run_case(toks, spans[c].first, spans[c].second, nullptr); (*obs) << results[c]; obs->flush(); }
    } else {
#if SCALAR == 0
        fprintf(stderr, "--threads is only supported for built-in scalars\n"); return 2;
#else
        std::atomic<size_t> next(0);
        std::vector<std::thread> th;
        for (int t = 0; t < nthreads; t++) th.emplace_back([&]() { for (;;) { size_t c = next++; if (c >= spans.size()) break; results[c] = run_case(toks, spans[c].first, spans[c].second, nullptr); } });
        for (auto& t : th) t.join();
        for (auto& r : results) (*obs) << r;
#endif
    }
    return 0;
}
