// Counting allocator interposer for C11 ("update() and solve() do not allocate").
// #include'd by drv_alloc.cpp (one TU).  Replaces, for the whole process,
//   operator new / new[] / delete / delete[]   (all overloads: nothrow, sized, aligned, aligned+nothrow, aligned+sized)
//   malloc / calloc / realloc / free / posix_memalign / aligned_alloc / memalign / valloc / pvalloc
// The C functions are defined in the executable (they take precedence over libc's for every caller in the process, shared
// libraries included) and forward to glibc's __libc_* entry points, so no dlsym() bootstrap recursion is possible.
// Counters tick only while [g_armed] is set (the driver arms them exactly around update() and solve()); every armed
// event is attributed to its call stack (distinct sites are kept with counts) so that a violation can name the allocating expression.
#ifndef ALLOC_INTERPOSE_CPP
#define ALLOC_INTERPOSE_CPP
#include <cstddef>
#include <cstdlib>
#include <cstring>
#include <cerrno>
#include <new>
#include <execinfo.h>

extern "C" {
void* __libc_malloc(size_t);
void  __libc_free(void*);
void* __libc_calloc(size_t, size_t);
void* __libc_realloc(void*, size_t);
void* __libc_memalign(size_t, size_t);
}

namespace aint {
struct Counters { long n_alloc, n_free, n_realloc, bytes; };
static volatile int g_armed = 0;
static Counters g_cnt = {0, 0, 0, 0};
static long g_total_unarmed = 0;             // sanity: the interposer does see the setup-time allocations
enum { kMaxEv = 12, kMaxFrames = 24 };
// one entry per distinct allocation SITE (call stack below the allocator) seen while armed, with its event count
struct Event { char kind; size_t size; long count; int nframes; void* frames[kMaxFrames]; };
static Event g_ev[kMaxEv];
static int g_nev = 0;

static inline void note(char kind, size_t sz)
{
    if (!g_armed) { if (kind != 'f') g_total_unarmed++; return; }
    if (kind == 'f') g_cnt.n_free++; else if (kind == 'r') g_cnt.n_realloc++; else g_cnt.n_alloc++;
    g_cnt.bytes += (long) sz;
    int was = g_armed; g_armed = 0;                           // backtrace() itself must not be counted
    void* fr[kMaxFrames]; int nf = backtrace(fr, kMaxFrames);
    int k = 0;
    for (; k < g_nev; k++) {
        if (g_ev[k].kind != kind || g_ev[k].nframes != nf) continue;
        bool same = true; for (int i = 1; i < nf && i < 8; i++) if (g_ev[k].frames[i] != fr[i]) { same = false; break; }
        if (same) break;
    }
    if (k < g_nev) g_ev[k].count++;
    else if (g_nev < kMaxEv) { Event& e = g_ev[g_nev++]; e.kind = kind; e.size = sz; e.count = 1; e.nframes = nf; memcpy(e.frames, fr, sizeof(void*) * (size_t) nf); }
    g_armed = was;
}
static inline void arm() { g_cnt.n_alloc = g_cnt.n_free = g_cnt.n_realloc = g_cnt.bytes = 0; g_nev = 0; g_armed = 1; }
static inline Counters disarm() { g_armed = 0; return g_cnt; }
static inline void warm_up() { void* f[4]; backtrace(f, 4); }   // loads libgcc's unwinder (allocates) before anything is armed
}

extern "C" {
void* malloc(size_t n) noexcept { aint::note('m', n); return __libc_malloc(n); }
void free(void* p) noexcept { if (p) aint::note('f', 0); __libc_free(p); }
void* calloc(size_t a, size_t b) noexcept { aint::note('c', a * b); return __libc_calloc(a, b); }
void* realloc(void* p, size_t n) noexcept { aint::note('r', n); return __libc_realloc(p, n); }
void* memalign(size_t al, size_t n) noexcept { aint::note('a', n); return __libc_memalign(al, n); }
void* aligned_alloc(size_t al, size_t n) noexcept { aint::note('a', n); return __libc_memalign(al, n); }
int posix_memalign(void** out, size_t al, size_t n) noexcept
{
    aint::note('a', n);
    if (al % sizeof(void*) != 0 || (al & (al - 1)) != 0 || al == 0) return EINVAL;
    void* p = __libc_memalign(al, n); if (!p) return ENOMEM; *out = p; return 0;
}
void* valloc(size_t n) noexcept { aint::note('a', n); return __libc_memalign(4096, n); }
void* pvalloc(size_t n) noexcept { aint::note('a', n); return __libc_memalign(4096, (n + 4095) & ~(size_t) 4095); }
}

static inline void* aint_new(size_t n, bool nothrow)
{
    aint::note('n', n);
    void* p = __libc_malloc(n ? n : 1);
    if (!p && !nothrow) throw std::bad_alloc();
    return p;
}
static inline void* aint_new_al(size_t n, size_t al, bool nothrow)
{
    aint::note('n', n);
    void* p = __libc_memalign(al, n ? n : 1);
    if (!p && !nothrow) throw std::bad_alloc();
    return p;
}
static inline void aint_del(void* p) { if (p) aint::note('f', 0); __libc_free(p); }

void* operator new(size_t n) { return aint_new(n, false); }
void* operator new[](size_t n) { return aint_new(n, false); }
void* operator new(size_t n, const std::nothrow_t&) noexcept { return aint_new(n, true); }
void* operator new[](size_t n, const std::nothrow_t&) noexcept { return aint_new(n, true); }
void operator delete(void* p) noexcept { aint_del(p); }
void operator delete[](void* p) noexcept { aint_del(p); }
void operator delete(void* p, const std::nothrow_t&) noexcept { aint_del(p); }
void operator delete[](void* p, const std::nothrow_t&) noexcept { aint_del(p); }
void operator delete(void* p, size_t) noexcept { aint_del(p); }
void operator delete[](void* p, size_t) noexcept { aint_del(p); }
#if __cplusplus >= 201703L || defined(__cpp_aligned_new)
void* operator new(size_t n, std::align_val_t al) { return aint_new_al(n, (size_t) al, false); }
void* operator new[](size_t n, std::align_val_t al) { return aint_new_al(n, (size_t) al, false); }
void* operator new(size_t n, std::align_val_t al, const std::nothrow_t&) noexcept { return aint_new_al(n, (size_t) al, true); }
void* operator new[](size_t n, std::align_val_t al, const std::nothrow_t&) noexcept { return aint_new_al(n, (size_t) al, true); }
void operator delete(void* p, std::align_val_t) noexcept { aint_del(p); }
void operator delete[](void* p, std::align_val_t) noexcept { aint_del(p); }
void operator delete(void* p, std::align_val_t, const std::nothrow_t&) noexcept { aint_del(p); }
void operator delete[](void* p, std::align_val_t, const std::nothrow_t&) noexcept { aint_del(p); }
void operator delete(void* p, size_t, std::align_val_t) noexcept { aint_del(p); }
void operator delete[](void* p, size_t, std::align_val_t) noexcept { aint_del(p); }
#endif
#endif
