// Exact rational scalar for instantiating PIQP's templates (harness only, not part of /repo).
//
//  value  : GMP rational (always canonical)
//  tag    : FIN, PINF, NINF, NAN  (IEEE-like rules for the specials)
//  taint  : "this number was computed from memory that nobody wrote" (default construction
//           draws a value from the junk filler and sets the taint bit; arithmetic propagates it)
//
// A sticky global flag records every *arithmetic* operation that produced a non-finite value
// (x/0, inf-inf, ...): it corresponds to the model's Err DivZero.
//
// sqrt is the power-of-two square root 2^floor(log4 x) (x>0), sqrt(0)=0: an "any positive
// function" oracle that keeps fractions short; the Gallina model uses the same function.
#ifndef VERIF_XRAT_HPP
#define VERIF_XRAT_HPP

#include <gmpxx.h>
#include <cmath>
#include <cstdint>
#include <limits>
#include <string>
#include <iostream>
#include <sstream>
#include <algorithm>
#include <Eigen/Core>

namespace xr {

enum Tag : unsigned char { FIN = 0, PINF = 1, NINF = 2, NANV = 3 };

struct Globals {
    bool nonfinite_arith = false;   // sticky
    long nonfinite_count = 0;
    long tainted_compare = 0;       // comparisons whose outcome depended on a tainted operand
    unsigned long junk_state = 0x9E3779B97F4A7C15UL;
    int junk_mode = 0;              // 0: small pseudo-random rationals, 1: all 7, 2: large negative, 3: zero
    long junk_draws = 0;
    long cp_bits = 0;               // hook H2: significant bits kept at checkpoints (0 = off)
};
inline Globals& g() { static Globals G; return G; }

class xrat {
public:
    mpq_class v;
    Tag tag = FIN;
    bool taint = false;

    xrat() : v(0), tag(FIN), taint(true) { draw_junk(); }
    xrat(const xrat&) = default;
    xrat(xrat&&) = default;
    xrat& operator=(const xrat&) = default;
    xrat& operator=(xrat&&) = default;

    xrat(double d) { from_double(d); }
    xrat(float d) { from_double((double) d); }
    xrat(long double d) { from_double((double) d); }
    xrat(int i) : v((long) i) {}
    xrat(long i) : v(i) {}
    xrat(long long i) : v((long) i) {}
    xrat(unsigned i) : v((unsigned long) i) {}
    xrat(unsigned long i) : v(i) {}
    xrat(unsigned long long i) : v((unsigned long) i) {}
    explicit xrat(const mpq_class& q) : v(q) { v.canonicalize(); }
    explicit xrat(const std::string& s) { parse(s); }

    static xrat inf() { xrat r(0); r.tag = PINF; return r; }
    static xrat ninf() { xrat r(0); r.tag = NINF; return r; }
    static xrat nan() { xrat r(0); r.tag = NANV; return r; }

    bool finite() const { return tag == FIN; }

    explicit operator double() const {
        switch (tag) { case PINF: return HUGE_VAL; case NINF: return -HUGE_VAL; case NANV: return std::nan(""); default: return v.get_d(); }
    }
    explicit operator float() const { return (float) (double) *this; }
    explicit operator long double() const { return (long double) (double) *this; }
    explicit operator int() const { return (int) v.get_d(); }
    explicit operator long() const { return (long) v.get_d(); }
    explicit operator bool() const { return tag != FIN || v != 0; }

    std::string str() const {
        std::string s;
        switch (tag) { case PINF: s = "inf"; break; case NINF: s = "-inf"; break; case NANV: s = "nan"; break;
            default: s = v.get_str(); }
        if (taint) s += "?";
        return s;
    }

    void parse(const std::string& s0) {
        std::string s = s0; taint = false; tag = FIN;
        if (!s.empty() && s.back() == '?') { taint = true; s.pop_back(); }
        if (s == "inf" || s == "+inf") { tag = PINF; v = 0; return; }
        if (s == "-inf") { tag = NINF; v = 0; return; }
        if (s == "nan") { tag = NANV; v = 0; return; }
        v = mpq_class(s); v.canonicalize();
    }

    xrat& operator+=(const xrat& o) { *this = *this + o; return *this; }
    xrat& operator-=(const xrat& o) { *this = *this - o; return *this; }
    xrat& operator*=(const xrat& o) { *this = *this * o; return *this; }
    xrat& operator/=(const xrat& o) { *this = *this / o; return *this; }

    friend xrat operator-(const xrat& a) {
        xrat r(a);
        if (a.tag == FIN) r.v = -a.v; else if (a.tag == PINF) r.tag = NINF; else if (a.tag == NINF) r.tag = PINF;
        return r;
    }
    friend xrat operator+(const xrat& a) { return a; }

    static xrat mk(Tag t, bool taint, bool arith_special) {
        xrat r(0); r.tag = t; r.taint = taint;
        if (arith_special) { g().nonfinite_arith = true; g().nonfinite_count++; }
        return r;
    }
    static int sgn(const xrat& a) { return a.tag == PINF ? 1 : a.tag == NINF ? -1 : ::sgn(a.v); }

    friend xrat operator+(const xrat& a, const xrat& b) {
        bool t = a.taint || b.taint;
        if (a.tag == FIN && b.tag == FIN) { xrat r(0); r.v = a.v + b.v; r.taint = t; return r; }
        if (a.tag == NANV || b.tag == NANV) return mk(NANV, t, true);
        if (a.tag == FIN) return mk(b.tag, t, true);
        if (b.tag == FIN) return mk(a.tag, t, true);
        if (a.tag == b.tag) return mk(a.tag, t, true);
        return mk(NANV, t, true);
    }
    friend xrat operator-(const xrat& a, const xrat& b) { return a + (-b); }
    friend xrat operator*(const xrat& a, const xrat& b) {
        bool t = a.taint || b.taint;
        if (a.tag == FIN && b.tag == FIN) { xrat r(0); r.v = a.v * b.v; r.taint = t; return r; }
        if (a.tag == NANV || b.tag == NANV) return mk(NANV, t, true);
        int s = sgn(a) * sgn(b);
        if (s == 0) return mk(NANV, t, true);
        return mk(s > 0 ? PINF : NINF, t, true);
    }
    friend xrat operator/(const xrat& a, const xrat& b) {
        bool t = a.taint || b.taint;
        if (a.tag == FIN && b.tag == FIN) {
            if (b.v == 0) {
                int s = ::sgn(a.v);
                return mk(s > 0 ? PINF : s < 0 ? NINF : NANV, t, true);
            }
            xrat r(0); r.v = a.v / b.v; r.taint = t; return r;
        }
        if (a.tag == NANV || b.tag == NANV) return mk(NANV, t, true);
        if (a.tag != FIN && b.tag != FIN) return mk(NANV, t, true);
        if (b.tag != FIN) { xrat r(0); r.taint = t; g().nonfinite_arith = true; g().nonfinite_count++; return r; }
        int s = sgn(a) * (::sgn(b.v) >= 0 ? 1 : -1);
        return mk(s > 0 ? PINF : NINF, t, true);
    }

    // comparisons: IEEE semantics (NaN compares false); a comparison involving a tainted operand is counted
    static int cmp3(const xrat& a, const xrat& b, bool& unordered) {
        if (a.taint || b.taint) g().tainted_compare++;
        unordered = false;
        if (a.tag == NANV || b.tag == NANV) { unordered = true; return 0; }
        if (a.tag == FIN && b.tag == FIN) return cmp(a.v, b.v);
        int ra = a.tag == PINF ? 2 : a.tag == NINF ? -2 : 0;
        int rb = b.tag == PINF ? 2 : b.tag == NINF ? -2 : 0;
        return (ra > rb) - (ra < rb);
    }
    friend bool operator<(const xrat& a, const xrat& b) { bool u; int c = cmp3(a, b, u); return !u && c < 0; }
    friend bool operator>(const xrat& a, const xrat& b) { bool u; int c = cmp3(a, b, u); return !u && c > 0; }
    friend bool operator<=(const xrat& a, const xrat& b) { bool u; int c = cmp3(a, b, u); return !u && c <= 0; }
    friend bool operator>=(const xrat& a, const xrat& b) { bool u; int c = cmp3(a, b, u); return !u && c >= 0; }
    friend bool operator==(const xrat& a, const xrat& b) { bool u; int c = cmp3(a, b, u); return !u && c == 0; }
    friend bool operator!=(const xrat& a, const xrat& b) { return !(a == b); }

    friend std::ostream& operator<<(std::ostream& os, const xrat& a) { return os << a.str(); }

private:
    void from_double(double d) {
        taint = false;
        if (std::isnan(d)) { tag = NANV; v = 0; return; }
        if (std::isinf(d)) { tag = d > 0 ? PINF : NINF; v = 0; return; }
        tag = FIN; v = mpq_class(d); // exact
    }
    void draw_junk() {
        Globals& G = g();
        G.junk_draws++;
        switch (G.junk_mode) {
            case 1: v = 7; break;
            case 2: v = mpq_class(-1000003L - (long) (G.junk_draws % 17)); break;
            case 3: v = 0; break;
            default: {
                G.junk_state ^= G.junk_state << 13; G.junk_state ^= G.junk_state >> 7; G.junk_state ^= G.junk_state << 17;
                long num = (long) (G.junk_state % 2001UL) - 1000;
                long den = (long) ((G.junk_state >> 20) % 7UL) + 1;
                v = mpq_class(num, den); v.canonicalize();
            }
        }
    }
};

#define XR_MIXED(OP, RET) \
    template<typename A, typename = typename std::enable_if<std::is_arithmetic<A>::value>::type> \
    inline RET operator OP(const xrat& a, A b) { return a OP xrat(b); } \
    template<typename A, typename = typename std::enable_if<std::is_arithmetic<A>::value>::type> \
    inline RET operator OP(A a, const xrat& b) { return xrat(a) OP b; }
XR_MIXED(+, xrat) XR_MIXED(-, xrat) XR_MIXED(*, xrat) XR_MIXED(/, xrat)
XR_MIXED(<, bool) XR_MIXED(>, bool) XR_MIXED(<=, bool) XR_MIXED(>=, bool) XR_MIXED(==, bool) XR_MIXED(!=, bool)
#undef XR_MIXED

inline xrat abs(const xrat& a) { xrat r(a); if (a.tag == FIN) r.v = ::abs(a.v); else if (a.tag == NINF) r.tag = PINF; return r; }
inline xrat fabs(const xrat& a) { return abs(a); }
inline xrat abs2(const xrat& a) { return a * a; }
inline bool isfinite(const xrat& a) { return a.tag == FIN; }
inline bool isnan(const xrat& a) { return a.tag == NANV; }
inline bool isinf(const xrat& a) { return a.tag == PINF || a.tag == NINF; }

// power-of-two square root: 2^floor(log4 x) for x > 0 ; 0 for x = 0 ; NaN for x < 0
inline xrat sqrt(const xrat& a) {
    if (a.tag == PINF) return a;
    if (a.tag != FIN) return xrat::mk(NANV, a.taint, true);
    int s = ::sgn(a.v);
    if (s == 0) { xrat r(0); r.taint = a.taint; return r; }
    if (s < 0) return xrat::mk(NANV, a.taint, true);
    // find k with 4^k <= x < 4^(k+1)
    mpz_class num = a.v.get_num(), den = a.v.get_den();
    long e2 = (long) mpz_sizeinbase(num.get_mpz_t(), 2) - (long) mpz_sizeinbase(den.get_mpz_t(), 2); // x in (2^(e2-1), 2^(e2+1))
    // floor(log2 x) is e2 or e2-1
    long fl = e2;
    {   // test 2^e2 <= x  <=>  2^e2 * den <= num
        mpz_class l = den, r = num;
        if (e2 >= 0) l <<= e2; else r <<= (-e2);
        if (l > r) fl = e2 - 1;
    }
    long k = fl >= 0 ? fl / 2 : -((-fl + 1) / 2); // floor(fl/2)
    xrat r(0); r.taint = a.taint;
    mpz_class one = 1;
    if (k >= 0) { mpz_class n = one << k; r.v = mpq_class(n, one); }
    else { mpz_class d = one << (-k); r.v = mpq_class(one, d); }
    return r;
}
// checkpoint rounding (hook H2): truncation towards -infinity to k significant bits (k<=0: identity)
inline xrat round_cp(const xrat& a, long k) {
    if (k <= 0 || a.tag != FIN || ::sgn(a.v) == 0) return a;
    mpz_class n = a.v.get_num(), d = a.v.get_den(), an = ::abs(n);
    long L = ((long) mpz_sizeinbase(an.get_mpz_t(), 2) - 1) - ((long) mpz_sizeinbase(d.get_mpz_t(), 2) - 1);
    long e = k - L;
    mpz_class r;
    if (e >= 0) { mpz_class t = n << e; mpz_fdiv_q(r.get_mpz_t(), t.get_mpz_t(), d.get_mpz_t()); }
    else { mpz_class t = d << (-e); mpz_fdiv_q(r.get_mpz_t(), n.get_mpz_t(), t.get_mpz_t()); }
    xrat out(0); out.taint = a.taint;
    mpz_class one = 1;
    if (e >= 0) { mpz_class den = one << e; out.v = mpq_class(r, den); }
    else { mpz_class mul = one << (-e); out.v = mpq_class(r * mul, one); }
    out.v.canonicalize();
    return out;
}
inline xrat pow(const xrat& a, int e) { xrat r(1); for (int i = 0; i < (e < 0 ? -e : e); i++) r *= a; return e < 0 ? xrat(1) / r : r; }

} // namespace xr

using xr::xrat;

namespace std {
template<> class numeric_limits<xr::xrat> {
public:
    static constexpr bool is_specialized = true;
    static constexpr bool is_signed = true;
    static constexpr bool is_integer = false;
    static constexpr bool is_exact = true;
    static constexpr bool has_infinity = true;
    static constexpr bool has_quiet_NaN = true;
    static constexpr bool has_signaling_NaN = false;
    static constexpr bool is_iec559 = false;
    static constexpr bool is_bounded = false;
    static constexpr bool is_modulo = false;
    static constexpr int digits = 53;
    static constexpr int digits10 = 15;
    static constexpr int max_digits10 = 17;
    static constexpr int radix = 2;
    static xr::xrat epsilon() { return xr::xrat(std::numeric_limits<double>::epsilon()); }
    static xr::xrat min() { return xr::xrat(std::numeric_limits<double>::min()); }
    static xr::xrat max() { return xr::xrat(std::numeric_limits<double>::max()); }
    static xr::xrat lowest() { return xr::xrat(std::numeric_limits<double>::lowest()); }
    static xr::xrat infinity() { return xr::xrat::inf(); }
    static xr::xrat quiet_NaN() { return xr::xrat::nan(); }
    static xr::xrat round_error() { return xr::xrat(0.5); }
    static xr::xrat denorm_min() { return xr::xrat(std::numeric_limits<double>::denorm_min()); }
};
} // namespace std

namespace Eigen {
template<> struct NumTraits<xr::xrat> : GenericNumTraits<xr::xrat> {
    typedef xr::xrat Real;
    typedef xr::xrat NonInteger;
    typedef xr::xrat Nested;
    typedef xr::xrat Literal;
    enum { IsComplex = 0, IsInteger = 0, IsSigned = 1, RequireInitialization = 1, ReadCost = 10, AddCost = 50, MulCost = 100 };
    static inline Real epsilon() { return std::numeric_limits<xr::xrat>::epsilon(); }
    static inline Real dummy_precision() { return xr::xrat(0); }
    static inline Real highest() { return xr::xrat::inf(); }
    static inline Real lowest() { return xr::xrat::ninf(); }
    static inline int digits10() { return 15; }
    static inline Real infinity() { return xr::xrat::inf(); }
    static inline Real quiet_NaN() { return xr::xrat::nan(); }
};
namespace numext {
template<> EIGEN_STRONG_INLINE bool (isfinite)(const xr::xrat& x) { return x.tag == xr::FIN; }
template<> EIGEN_STRONG_INLINE bool (isnan)(const xr::xrat& x) { return x.tag == xr::NANV; }
template<> EIGEN_STRONG_INLINE bool (isinf)(const xr::xrat& x) { return x.tag == xr::PINF || x.tag == xr::NINF; }
}
} // namespace Eigen

#endif
