#!/bin/sh
# build the extracted sparse Ruiz preconditioner model + driver: ./build_precsparse.sh [workdir] -> <workdir>/drv_precsparse_model
# (default ocaml/_build/precsparse).  Needs coq/{Base,Data,CSC,PrecondDense,PrecondSparse}.vo and coq/gen/Consts.vo.
set -e
here=$(cd "$(dirname "$0")" && pwd)
out=${1:-$here/_build/precsparse}; gen=$out/gen
mkdir -p "$gen" "$out"
(cd "$gen" && coqc -Q "$here/../coq" PIQP "$here/ExtractPrecSparse.v" -o "./ExtractPrecSparse.vo" >/dev/null)
cp "$gen/modelps.ml" "$gen/modelps.mli" "$out/"
cp "$here/drv_precsparse_model.ml" "$here/zhelp.ml" "$out/"
rm -f "$out/drv_precsparse_model"
cd "$out" && ocamlfind ocamlopt -O2 -w -a -package zarith -linkpkg zhelp.ml modelps.mli modelps.ml drv_precsparse_model.ml -o drv_precsparse_model
test -x "$out/drv_precsparse_model"
