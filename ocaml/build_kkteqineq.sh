#!/bin/sh
# build the extracted KKT_EQ_ELIMINATED / KKT_INEQ_ELIMINATED assembly models + driver:
#   ./build_kkteqineq.sh [workdir] -> <workdir>/drv_kkteqineq_model      (default ocaml/_build/kkteqineq)
# Needs coq/{Base,CSC,KKTSparseFull,KKTSparseFullPerm,KKTSparseAll,KKTSparseEq,KKTSparseIneq}.vo.
set -e
here=$(cd "$(dirname "$0")" && pwd)
out=${1:-$here/_build/kkteqineq}; gen=$out/gen
mkdir -p "$gen" "$out"
(cd "$gen" && coqc -Q "$here/../coq" PIQP "$here/ExtractKKTEqIneq.v" -o "./ExtractKKTEqIneq.vo" >/dev/null)
cp "$gen/modelkq.ml" "$gen/modelkq.mli" "$out/"
cp "$here/drv_kkteqineq_model.ml" "$here/zhelp.ml" "$out/"
rm -f "$out/drv_kkteqineq_model"
cd "$out" && ocamlfind ocamlopt -O2 -w -a -package zarith -linkpkg zhelp.ml modelkq.mli modelkq.ml drv_kkteqineq_model.ml -o drv_kkteqineq_model
test -x "$out/drv_kkteqineq_model"
