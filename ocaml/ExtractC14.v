(* Extraction of the C14 model (CSC kernels, sparse LDL^T, dense pivot-free LDL^T): same directives as ExtractFast.v.
   ldl_index_check (LDLSparseProofs.v) is the boolean index-only check of theorem numeric_erase / ldl_index_check_n5:
   the driver evaluates it on every tested pattern (key model_idxcheck). *)
From Coq Require Import Extraction ExtrOcamlBasic ExtrOcamlZBigInt.
From PIQP Require Import Base CSC LDLSparse LDLDenseNP LDLSparseProofs.
Extraction Language OCaml.
Extract Constant Z.ggcd =>
  "(fun a b -> let g = Big_int_Z.gcd_big_int a b in
     if Big_int_Z.sign_big_int g = 0 then (Big_int_Z.zero_big_int, (Big_int_Z.zero_big_int, Big_int_Z.zero_big_int))
     else (g, (Big_int_Z.div_big_int a g, Big_int_Z.div_big_int b g)))".
Extract Constant Z.gcd => "Big_int_Z.gcd_big_int".
Extract Constant Z.log2 => "Zhelp.log2".

Extraction "model14.ml" qmk symbolic numeric ldl_solve lsolve dsolve ltsolve permute_sym ordering_init ord_perm ord_permt
  transpose_no_alloc transpose_colptr pre_mult_diagonal post_mult_diagonal unblocked blocked dense_solve ldl_index_check.
