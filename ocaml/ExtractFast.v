(* Fast extraction of the executable model: ExtrOcamlBasic + ExtrOcamlZBigInt (Z/N/positive -> zarith Big_int_Z). *)
From Coq Require Import Extraction ExtrOcamlBasic ExtrOcamlZBigInt.
From PIQP Require Import Base Data Bounds PrecondDense KKTDense IPM API.
From PIQP.gen Require Import Consts.
Extraction Language OCaml.
(* additional directives (trusted base, cross-checked against the reference build): Qred's gcd *)
Extract Constant Z.ggcd =>
  "(fun a b -> let g = Big_int_Z.gcd_big_int a b in
     if Big_int_Z.sign_big_int g = 0 then (Big_int_Z.zero_big_int, (Big_int_Z.zero_big_int, Big_int_Z.zero_big_int))
     else (g, (Big_int_Z.div_big_int a g, Big_int_Z.div_big_int b g)))".
Extract Constant Z.gcd => "Big_int_Z.gcd_big_int".
Extract Constant Z.log2 => "Zhelp.log2".

Extraction "model.ml" setup update solve consts default_settings verify_settings kkt_multiply kkt_solve
  update_nr_residuals restore_one pack_lb pack_ub qmk k_eps_T.
