#!/bin/sh
# build the extracted model + the KKT component driver (property C13): ./build_kkt.sh  -> ocaml/_build/kkt/drv_kkt_model
# same recipe as build.sh fast (ExtractFast.v: ExtrOcamlBasic + ExtrOcamlZBigInt + zarith), own gen/ and _build/ directories
set -e
here=$(cd "$(dirname "$0")" && pwd)
gen=$here/gen/kkt; out=$here/_build/kkt
mkdir -p "$gen" "$out"
(cd "$gen" && coqc -Q "$here/../coq" PIQP "$here/ExtractFast.v" -o "./ExtractFast.vo" >/dev/null)
cp "$gen/model.ml" "$gen/model.mli" "$out/"
cp "$here/conv_fast.ml" "$out/conv.ml"
cp "$here/drv_kkt_model.ml" "$here/zhelp.ml" "$out/"
rm -f "$out/drv_kkt_model"
cd "$out" && ocamlfind ocamlopt -O2 -w -a -package zarith -linkpkg zhelp.ml model.mli model.ml conv.ml drv_kkt_model.ml -o drv_kkt_model
test -x "$out/drv_kkt_model"
