(* conversions between zarith integers and the extracted inductive number types: reference build *)
let rec pos_of_zt (x : Z.t) : Model.positive =
  if Z.equal x Z.one then Model.XH
  else if Z.is_even x then Model.XO (pos_of_zt (Z.shift_right x 1))
  else Model.XI (pos_of_zt (Z.shift_right x 1))
let z_of_zt (x : Z.t) : Model.z =
  if Z.sign x = 0 then Model.Z0 else if Z.sign x > 0 then Model.Zpos (pos_of_zt x) else Model.Zneg (pos_of_zt (Z.neg x))
let rec zt_of_pos (p : Model.positive) : Z.t =
  match p with Model.XH -> Z.one | Model.XO q -> Z.shift_left (zt_of_pos q) 1 | Model.XI q -> Z.succ (Z.shift_left (zt_of_pos q) 1)
let zt_of_z (x : Model.z) : Z.t =
  match x with Model.Z0 -> Z.zero | Model.Zpos p -> zt_of_pos p | Model.Zneg p -> Z.neg (zt_of_pos p)
