(* Driver around the extracted, verified certificate checkers (coq/Certs.v).
   Input: whitespace separated tokens, one instance after the other:
     INST <name> <kkt|farkas|recession> <n> <p> <m>
     P (n*n, row-major, full storage; only the upper triangle is read)  c (n)  A (p*n, row-major)  b (p)
     G (m*n)  h (m)  lb (n; "none" = absent)  ub (n; "none" = absent)
     kkt:       x (n) y (p) z (m) z_lb (n) z_ub (n)
     farkas:    y (p) z (m) z_lb (n) z_ub (n)
     recession: d (n) x0 (n)
   Output, one line per instance:
     <name> kkt <is_kkt_point> <is_psd>
     <name> farkas <is_farkas> <farkas_val> <farkas_norm1>
     <name> recession <is_recession> <is_feasible x0> <recession_val> <recession_norm1> *)
module ZZ = Z
module QQ = Q
open Certs

let toks : string array ref = ref [||]
let pos = ref 0
let eof () = !pos >= Array.length !toks
let next () = if eof () then failwith "unexpected eof" else (let t = !toks.(!pos) in incr pos; t)
let nexti () = int_of_string (next ())
let rec nat_of_int n = if n <= 0 then O else S (nat_of_int (n - 1))

let f_of_q (q : QQ.t) : f = qmk (Conv.z_of_zt (QQ.num q)) (Conv.pos_of_zt (QQ.den q))
let q_of_f (x : f) : QQ.t = QQ.make (Conv.zt_of_z x.qnum) (Conv.zt_of_pos x.qden)
let fmt (x : f) = let q = q_of_f x in if ZZ.equal (QQ.den q) ZZ.one then ZZ.to_string (QQ.num q) else ZZ.to_string (QQ.num q) ^ "/" ^ ZZ.to_string (QQ.den q)
let parse_f s = let q = QQ.of_string s in (match QQ.classify q with QQ.NZERO | QQ.ZERO -> () | _ -> failwith ("non-finite scalar " ^ s)); f_of_q q
let vec k = List.init k (fun _ -> parse_f (next ()))
let ovec k = List.init k (fun _ -> let t = next () in if t = "none" then None else Some (parse_f t))
let mat r c = List.init r (fun _ -> vec c)
let b2s b = if b then "1" else "0"

let () =
  let ic = if Array.length Sys.argv > 1 then open_in Sys.argv.(1) else stdin in
  let buf = Buffer.create 65536 in
  (try while true do Buffer.add_channel buf ic 1 done with End_of_file -> ());
  toks := Array.of_list (List.filter (fun s -> s <> "") (String.split_on_char ' ' (String.map (fun c -> if c = '\n' || c = '\t' || c = '\r' then ' ' else c) (Buffer.contents buf))));
  while not (eof ()) do
    let k = next () in
    if k <> "INST" then failwith ("expected INST, got " ^ k);
    let name = next () in let kind = next () in
    let n = nexti () in let p = nexti () in let m = nexti () in
    let pP = mat n n in let c = vec n in let a = mat p n in let b = vec p in
    let g = mat m n in let h = vec m in let lb = ovec n in let ub = ovec n in
    let pb = { q_n = nat_of_int n; q_p = nat_of_int p; q_m = nat_of_int m; q_P = pP; q_c = c; q_A = a; q_b = b; q_G = g; q_h = h; q_lb = lb; q_ub = ub } in
    (match kind with
     | "kkt" ->
       let x = vec n in let y = vec p in let z = vec m in let zl = vec n in let zu = vec n in
       Printf.printf "%s kkt %s %s\n" name (b2s (is_kkt_point pb x y z zl zu)) (b2s (is_psd pb))
     | "farkas" ->
       let y = vec p in let z = vec m in let zl = vec n in let zu = vec n in
       Printf.printf "%s farkas %s %s %s\n" name (b2s (is_farkas pb y z zl zu)) (fmt (farkas_val pb y z zl zu)) (fmt (farkas_norm1 pb y z zl zu))
     | "recession" ->
       let d = vec n in let x0 = vec n in
       Printf.printf "%s recession %s %s %s %s\n" name (b2s (is_recession pb d)) (b2s (is_feasible pb x0)) (fmt (recession_val pb d)) (fmt (recession_norm1 pb d))
     | _ -> failwith ("bad kind " ^ kind))
  done
