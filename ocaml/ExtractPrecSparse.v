(* Extraction of the sparse Ruiz preconditioner transcription (coq/PrecondSparse.v): same directives as ExtractKKTElim.v. *)
From Coq Require Import Extraction ExtrOcamlBasic ExtrOcamlZBigInt.
From PIQP Require Import Base Data CSC PrecondDense PrecondSparse.
From PIQP.gen Require Import Consts.
Extraction Language OCaml.
Extract Constant Z.ggcd =>
  "(fun a b -> let g = Big_int_Z.gcd_big_int a b in
     if Big_int_Z.sign_big_int g = 0 then (Big_int_Z.zero_big_int, (Big_int_Z.zero_big_int, Big_int_Z.zero_big_int))
     else (g, (Big_int_Z.div_big_int a g, Big_int_Z.div_big_int b g)))".
Extract Constant Z.gcd => "Big_int_Z.gcd_big_int".
Extract Constant Z.log2 => "Zhelp.log2".

Extraction "modelps.ml" qmk consts sp_precond_init sp_scale_data sp_unscale_data
  unscale_cost unscale_primal unscale_dual_eq unscale_dual_ineq unscale_dual_lb unscale_dual_ub
  unscale_slack_ineq unscale_slack_lb unscale_slack_ub unscale_primal_res_eq unscale_primal_res_ineq
  unscale_primal_res_lb unscale_primal_res_ub unscale_dual_res.
