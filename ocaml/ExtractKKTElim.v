(* Extraction of the sparse eliminated-KKT assembly models (coq/KKTSparseAll.v ...): same directives as ExtractKKTFull.v. *)
From Coq Require Import Extraction ExtrOcamlBasic ExtrOcamlZBigInt.
From PIQP Require Import Base CSC KKTSparseFull KKTSparseFullPerm KKTSparseAll.
Extraction Language OCaml.
Extract Constant Z.ggcd =>
  "(fun a b -> let g = Big_int_Z.gcd_big_int a b in
     if Big_int_Z.sign_big_int g = 0 then (Big_int_Z.zero_big_int, (Big_int_Z.zero_big_int, Big_int_Z.zero_big_int))
     else (g, (Big_int_Z.div_big_int a g, Big_int_Z.div_big_int b g)))".
Extract Constant Z.gcd => "Big_int_Z.gcd_big_int".
Extract Constant Z.log2 => "Zhelp.log2".

Extraction "modelke.ml" qmk all_init all_update_scalings all_update_data all_create perm_addr_okb.
