(* Extraction of the sparse KKT solve path WITH iterative refinement (coq/KKTSparseRefine.v: kkt_factorize_r, kkt_solve_r) together
   with what it runs on: coq/KKTSparseSolve.v (kkt_multiply, kkt_symbolic), the four assembly models (coq/KKTSparseFull.v,
   KKTSparseEq.v, KKTSparseIneq.v, KKTSparseAll.v) and the sparse LDL^T (coq/LDLSparse.v): same directives as ExtractKKTSolve.v. *)
From Coq Require Import Extraction ExtrOcamlBasic ExtrOcamlZBigInt.
From PIQP Require Import Base CSC LDLSparse KKTSparseFull KKTSparseFullPerm KKTSparseAll KKTSparseEq KKTSparseIneq KKTSparseSolve KKTSparseRefine.
Extraction Language OCaml.
Extract Constant Z.ggcd =>
  "(fun a b -> let g = Big_int_Z.gcd_big_int a b in
     if Big_int_Z.sign_big_int g = 0 then (Big_int_Z.zero_big_int, (Big_int_Z.zero_big_int, Big_int_Z.zero_big_int))
     else (g, (Big_int_Z.div_big_int a g, Big_int_Z.div_big_int b g)))".
Extract Constant Z.gcd => "Big_int_Z.gcd_big_int".
Extract Constant Z.log2 => "Zhelp.log2".

Extraction "modelkr.ml" qmk
  init update_scalings update_data
  eq_init eq_update_scalings eq_update_data
  ineq_init ineq_update_scalings ineq_update_data
  all_init all_update_scalings all_update_data
  full_view eq_view ineq_view all_view
  kkt_symbolic kkt_factorize_r kkt_solve_r kkt_multiply mode_N
  kkt_solve_with refined_solve refine_loop refine_solves refine_stop kresid norm_inf ldl_solve.
