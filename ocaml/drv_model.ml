(* Driver around the extracted model: reads the same case files as harness/drv_solver.cpp and prints the
   same observation lines (exact fractions). *)
module ZZ = Z
module QQ = Q
open Model

let toks : string array ref = ref [||]
let pos = ref 0
let eof () = !pos >= Array.length !toks
let next () = if eof () then failwith "unexpected eof" else (let t = !toks.(!pos) in incr pos; t)
let nexti () = int_of_string (next ())

let rec nat_of_int n = if n <= 0 then O else S (nat_of_int (n - 1))
let rec int_of_nat = function O -> 0 | S k -> 1 + int_of_nat k

let f_of_q (q : QQ.t) : f = qmk (Conv.z_of_zt (QQ.num q)) (Conv.pos_of_zt (QQ.den q))
let q_of_f (x : f) : QQ.t = QQ.make (Conv.zt_of_z x.qnum) (Conv.zt_of_pos x.qden)
let junk_q = QQ.of_string "987654321/1000003"
let fmt (x : f) = let q = q_of_f x in if QQ.equal q junk_q then "?" else if ZZ.equal (QQ.den q) ZZ.one then ZZ.to_string (QQ.num q) else ZZ.to_string (QQ.num q) ^ "/" ^ ZZ.to_string (QQ.den q)
let parse_ext (s : string) : ext =
  if s = "inf" || s = "+inf" then PInf else if s = "-inf" then NInf else Fin (f_of_q (QQ.of_string s))
let parse_f s = match parse_ext s with Fin q -> q | _ -> failwith ("non-finite scalar where finite expected: " ^ s)
let fmt_ext = function Fin q -> fmt q | PInf -> "inf" | NInf -> "-inf"
let fmtv (v : f list) = String.concat " " (string_of_int (List.length v) :: List.map fmt v)
let fmtve (v : ext list) = String.concat " " (string_of_int (List.length v) :: List.map fmt_ext v)
let zint (z : _) = ZZ.to_string (Conv.zt_of_z z)

(* dense column-major matrix from triplets *)
let read_mat () : (int * int * f list list) option =
  let k = next () in
  if k = "none" then None else begin
    let rows = int_of_string k in let cols = nexti () in let nnz = nexti () in
    let a = Array.make_matrix cols rows (f_of_q QQ.zero) in
    for _ = 1 to nnz do let r = nexti () in let c = nexti () in let v = parse_f (next ()) in a.(c).(r) <- v done;
    Some (rows, cols, Array.to_list (Array.map Array.to_list a)) end
let read_vec_ext () : ext list option =
  let k = next () in
  if k = "none" then None else begin
    let n = int_of_string k in let l = ref [] in
    for _ = 1 to n do l := parse_ext (next ()) :: !l done; Some (List.rev !l) end
let fin_list = function None -> None | Some l -> Some (List.map (function Fin q -> q | _ -> failwith "inf in finite vector") l)

type blk = { mutable bP : (int*int*f list list) option; mutable bA : (int*int*f list list) option; mutable bG : (int*int*f list list) option;
             mutable bc : ext list option; mutable bb : ext list option; mutable bh : ext list option; mutable blb : ext list option; mutable bub : ext list option }
let read_blocks () =
  let b = { bP = None; bA = None; bG = None; bc = None; bb = None; bh = None; blb = None; bub = None } in
  let rec go () =
    let k = next () in
    if k = "END" then () else begin
      (match k with
       | "P" -> b.bP <- read_mat () | "A" -> b.bA <- read_mat () | "G" -> b.bG <- read_mat ()
       | "c" -> b.bc <- read_vec_ext () | "b" -> b.bb <- read_vec_ext () | "h" -> b.bh <- read_vec_ext ()
       | "lb" -> b.blb <- read_vec_ext () | "ub" -> b.bub <- read_vec_ext ()
       | _ -> failwith ("bad block " ^ k)); go () end in
  go (); b
let to_blocks (b : blk) : blocks =
  let m3 = function None -> None | Some (_, _, m) -> Some m in
  { b_P = m3 b.bP; b_c = fin_list b.bc; b_A = m3 b.bA; b_b = fin_list b.bb; b_G = m3 b.bG; b_h = b.bh; b_lb = b.blb; b_ub = b.bub }

let status_name = function
  | SOLVED -> "SOLVED" | MAX_ITER_REACHED -> "MAX_ITER_REACHED" | PRIMAL_INFEASIBLE -> "PRIMAL_INFEASIBLE"
  | DUAL_INFEASIBLE -> "DUAL_INFEASIBLE" | NUMERICS -> "NUMERICS" | UNSOLVED -> "UNSOLVED" | INVALID_SETTINGS -> "INVALID_SETTINGS"

let set_setting (s : settings) (k : string) (v : string) : settings =
  let q () = parse_f v in let z () = Conv.z_of_zt (ZZ.of_string v) in let b () = int_of_string v <> 0 in
  match k with
  | "rho_init" -> { s with rho_init = q () } | "delta_init" -> { s with delta_init = q () }
  | "eps_abs" -> { s with eps_abs = q () } | "eps_rel" -> { s with eps_rel = q () }
  | "check_duality_gap" -> { s with check_duality_gap = b () }
  | "eps_duality_gap_abs" -> { s with eps_duality_gap_abs = q () } | "eps_duality_gap_rel" -> { s with eps_duality_gap_rel = q () }
  | "reg_lower_limit" -> { s with reg_lower_limit = q () } | "reg_finetune_lower_limit" -> { s with reg_finetune_lower_limit = q () }
  | "reg_finetune_primal_update_threshold" -> { s with reg_finetune_primal_update_threshold = z () }
  | "reg_finetune_dual_update_threshold" -> { s with reg_finetune_dual_update_threshold = z () }
  | "max_iter" -> { s with max_iter = z () } | "max_factor_retires" -> { s with max_factor_retires = z () }
  | "preconditioner_scale_cost" -> { s with preconditioner_scale_cost = b () }
  | "preconditioner_iter" -> { s with preconditioner_iter = z () } | "tau" -> { s with tau = q () }
  | "iterative_refinement_always_enabled" -> { s with iterative_refinement_always_enabled = b () }
  | "iterative_refinement_eps_abs" -> { s with iterative_refinement_eps_abs = q () }
  | "iterative_refinement_eps_rel" -> { s with iterative_refinement_eps_rel = q () }
  | "iterative_refinement_max_iter" -> { s with iterative_refinement_max_iter = z () }
  | "iterative_refinement_min_improvement_rate" -> { s with iterative_refinement_min_improvement_rate = q () }
  | "iterative_refinement_static_regularization_eps" -> { s with iterative_refinement_static_regularization_eps = q () }
  | "iterative_refinement_static_regularization_rel" -> { s with iterative_refinement_static_regularization_rel = q () }
  | "verbose" | "compute_timings" -> s
  | _ -> failwith ("unknown setting " ^ k)

let pfx = ref ""
let out k v = print_string !pfx; print_string k; print_char ' '; print_string v; print_char '\n'; flush stdout

let fmt_dense (rows : int) (m : f list list) =
  String.concat " " (string_of_int rows :: string_of_int (List.length m) :: List.concat_map (fun c -> List.map fmt c) m)
let firstn k l = List.filteri (fun i _ -> i < k) l

let dump_data (d : data) =
  let n = int_of_nat d.d_n and p = int_of_nat d.d_p and m = int_of_nat d.d_m in
  let nlb = List.length d.d_lb_idx and nub = List.length d.d_ub_idx in
  out "dims" (Printf.sprintf "%d %d %d %d %d" n p m nlb nub);
  out "P_utri" (fmt_dense n d.d_P); out "AT" (fmt_dense n d.d_AT); out "GT" (fmt_dense n d.d_GT);
  out "c" (fmtv d.d_c); out "b" (fmtv d.d_b); out "h" (fmtv d.d_h);
  out "x_lb_idx" (String.concat " " (string_of_int nlb :: List.map (fun i -> string_of_int (int_of_nat i)) d.d_lb_idx));
  out "x_ub_idx" (String.concat " " (string_of_int nub :: List.map (fun i -> string_of_int (int_of_nat i)) d.d_ub_idx));
  out "x_lb_n" (fmtv d.d_lb_n); out "x_ub" (fmtv d.d_ub);
  out "x_lb_scaling" (fmtv (firstn nlb d.d_lb_scaling)); out "x_ub_scaling" (fmtv (firstn nub d.d_ub_scaling))

let dump_pc (pc : precond) =
  if not pc.pc_ident then begin
    out "pc.c" (fmt pc.pc_c); out "pc.c_inv" (fmt pc.pc_c_inv);
    out "pc.delta" (fmtv pc.pc_delta); out "pc.delta_inv" (fmtv pc.pc_delta_inv);
    out "pc.delta_lb" (fmtv pc.pc_delta_lb); out "pc.delta_lb_inv" (fmtv pc.pc_delta_lb_inv);
    out "pc.delta_ub" (fmtv pc.pc_delta_ub); out "pc.delta_ub_inv" (fmtv pc.pc_delta_ub_inv) end

let err_name = function DivZero -> "DivZero" | Index -> "Index" | Fuel -> "Fuel" | Shape -> "Shape"

let dump_result (sv : solver) (st : status) =
  let i = sv.sv_info in
  out "status" (status_name st); out "info.status" (status_name i.i_status); out "iter" (zint i.i_iter);
  (let o = sv.sv_out in
     out "x" (fmtv o.o_x); out "y" (fmtv o.o_y); out "z" (fmtv o.o_z); out "z_lb" (fmtv o.o_z_lb); out "z_ub" (fmtv o.o_z_ub);
     out "s" (fmtv o.o_s); out "s_lb" (fmtve o.o_s_lb); out "s_ub" (fmtve o.o_s_ub);
     out "zeta" (fmtv o.o_zeta); out "lambda" (fmtv o.o_lambda); out "nu" (fmtv o.o_nu); out "nu_lb" (fmtv o.o_nu_lb); out "nu_ub" (fmtv o.o_nu_ub));
  out "rho" (fmt i.i_rho); out "delta" (fmt i.i_delta); out "mu" (fmt i.i_mu); out "sigma" (fmt i.i_sigma);
  out "primal_step" (fmt i.i_primal_step); out "dual_step" (fmt i.i_dual_step);
  out "primal_inf" (fmt i.i_primal_inf); out "primal_rel_inf" (fmt i.i_primal_rel_inf);
  out "dual_inf" (fmt i.i_dual_inf); out "dual_rel_inf" (fmt i.i_dual_rel_inf);
  out "primal_obj" (fmt i.i_primal_obj); out "dual_obj" (fmt i.i_dual_obj);
  out "duality_gap" (fmt i.i_duality_gap); out "duality_gap_rel" (fmt i.i_duality_gap_rel);
  out "factor_retires" (zint i.i_factor_retires); out "reg_limit" (fmt i.i_reg_limit);
  out "no_primal_update" (zint i.i_no_primal_update); out "no_dual_update" (zint i.i_no_dual_update);
  out "refine" (if sv.sv_refine then "1" else "0");
  out "fact_calls" (string_of_int (int_of_nat sv.sv_calls))

let junk : f = f_of_q junk_q

let () =
  let ident = ref false in
  let sparse_pc = ref false in
  let file = ref "" in
  Array.iteri (fun i a -> if i > 0 then (if a = "--identity" then ident := true else if a = "--sparse-precond" then sparse_pc := true else file := a)) Sys.argv;
  let ic = if !file = "" then stdin else open_in !file in
  let buf = Buffer.create 65536 in
  (try while true do Buffer.add_channel buf ic 1 done with End_of_file -> ());
  toks := Array.of_list (List.filter (fun s -> s <> "") (String.split_on_char ' ' (String.map (fun c -> if c = '\n' || c = '\t' || c = '\r' then ' ' else c) (Buffer.contents buf))));
  while not (eof ()) do
    let k = next () in
    if k <> "CASE" then failwith ("expected CASE, got " ^ k);
    let name = next () in
    let settings = ref default_settings in
    let sv : solver option ref = ref None in
    let plan : int array ref = ref [||] in
    let cpbits = ref 0 in
    let dead = ref false in   (* model returned Err: remaining ops of the case are skipped *)
    let opno = ref 0 in
    let fin = ref false in
    while not !fin do
      let op = next () in
      pfx := name ^ "." ^ string_of_int !opno ^ ".";
      match op with
      | "ENDCASE" -> fin := true
      | "SET" -> let key = next () in let v = next () in settings := set_setting !settings key v;
                 (match !sv with Some s -> sv := Some { s with sv_set = !settings } | None -> ())
      | "JUNK" -> ignore (next ())
      | "CPBITS" -> cpbits := nexti ()
      | "FAULTS" -> let n = nexti () in plan := Array.init n (fun _ -> nexti ());
                    (match !sv with Some s -> sv := Some { s with sv_calls = O } | None -> ())
      | "SETUP" ->
        let b = read_blocks () in
        let (n, _, _) = (match b.bP with Some t -> t | None -> failwith "setup without P") in
        let p = (match b.bA with Some (r, _, _) -> r | None -> 0) in
        let m = (match b.bG with Some (r, _, _) -> r | None -> 0) in
        if not !dead then begin
          out "op" "setup";
          (match setup consts0 !ident !sparse_pc junk !settings (nat_of_int n) (nat_of_int p) (nat_of_int m) (to_blocks b) with
           | Ok s -> (* the harness' factorisation-call counter is global: it is not reset by a repeated setup() *)
             let calls = (match !sv with Some o -> o.sv_calls | None -> O) in
             let s = { s with sv_calls = calls } in
             sv := Some s; dump_data s.sv_data; dump_pc s.sv_pc
           | Err e -> out "model_error" (err_name e); dead := true) end;
        incr opno
      | "UPDATE" ->
        let reuse = nexti () <> 0 in
        let b = read_blocks () in
        if not !dead then begin
          out "op" ("update " ^ (if reuse then "1" else "0"));
          (match !sv with
           | None -> ()
           | Some s ->
             (match update consts0 !sparse_pc s (to_blocks b) reuse with
              | Ok s' -> sv := Some s'; dump_data s'.sv_data; dump_pc s'.sv_pc
              | Err e -> out "model_error" (err_name e); dead := true)) end;
        incr opno
      | "SOLVE" ->
        if not !dead then begin
          out "op" "solve";
          (match !sv with
           | None -> out "status" "UNSOLVED"
           | Some s ->
             if not (verify_settings s.sv_set) then begin out "status" "INVALID_SETTINGS" end
             else begin
               let fault k = let i = int_of_nat k in i < Array.length !plan && !plan.(i) <> 0 in
               (match solve consts0 junk (Conv.z_of_zt (ZZ.of_int !cpbits)) fault s with
                | Ok (s', st) -> sv := Some s'; dump_result s' st
                | Err e -> out "model_error" (err_name e); dead := true) end) end;
        incr opno
      | _ -> failwith ("bad op " ^ op)
    done
  done
