(* Reference extraction of the executable model: ExtrOcamlBasic + (Z/N/positive -> zarith Big_int_Z). *)
From Coq Require Import Extraction ExtrOcamlBasic.
From PIQP Require Import Base Data Bounds PrecondDense KKTDense IPM API.
From PIQP.gen Require Import Consts.
Extraction Language OCaml.
Extraction "model.ml" setup update solve consts default_settings verify_settings kkt_multiply kkt_solve
  update_nr_residuals restore_one pack_lb pack_ub qmk k_eps_T.
