(* conversions between zarith integers and the extracted number types: fast build (they coincide) *)
let z_of_zt (x : Z.t) : Big_int_Z.big_int = x
let pos_of_zt (x : Z.t) : Big_int_Z.big_int = x
let zt_of_z (x : Big_int_Z.big_int) : Z.t = x
let zt_of_pos (x : Big_int_Z.big_int) : Z.t = x
