#!/bin/sh
# build the extracted sparse KKT_FULL assembly model + driver: ./build_kktfull.sh [workdir] -> <workdir>/drv_kktfull_model
# (default ocaml/_build/kktfull).  Needs coq/{Base,CSC,KKTSparseFull,KKTSparseFullPerm}.vo.
set -e
here=$(cd "$(dirname "$0")" && pwd)
out=${1:-$here/_build/kktfull}; gen=$out/gen
mkdir -p "$gen" "$out"
(cd "$gen" && coqc -Q "$here/../coq" PIQP "$here/ExtractKKTFull.v" -o "./ExtractKKTFull.vo" >/dev/null)
cp "$gen/modelkf.ml" "$gen/modelkf.mli" "$out/"
cp "$here/drv_kktfull_model.ml" "$here/zhelp.ml" "$out/"
rm -f "$out/drv_kktfull_model"
cd "$out" && ocamlfind ocamlopt -O2 -w -a -package zarith -linkpkg zhelp.ml modelkf.mli modelkf.ml drv_kktfull_model.ml -o drv_kktfull_model
test -x "$out/drv_kktfull_model"
