(* Driver around the extracted C14 model: reads the same case files as harness/drv_ldl.cpp and prints the same
   observation lines (exact fractions, integer arrays).  No oracle_* / nonfinite keys (those are implementation side). *)
module ZZ = Z
module QQ = Q
open Model14

let toks : string array ref = ref [||]
let pos = ref 0
let eof () = !pos >= Array.length !toks
let next () = if eof () then failwith "unexpected eof" else (let t = !toks.(!pos) in Stdlib.incr pos; t)
let nexti () = int_of_string (next ())

let rec nat_of_int n = if n <= 0 then O else S (nat_of_int (n - 1))
let int_of_nat n = let rec go acc = function O -> acc | S k -> go (acc + 1) k in go 0 n

let f_of_q (q : QQ.t) : f = qmk (QQ.num q) (QQ.den q)
let q_of_f (x : f) : QQ.t = QQ.make x.qnum x.qden
let fmt (x : f) = let q = q_of_f x in if ZZ.equal (QQ.den q) ZZ.one then ZZ.to_string (QQ.num q) else ZZ.to_string (QQ.num q) ^ "/" ^ ZZ.to_string (QQ.den q)
let parse_f s = f_of_q (QQ.of_string s)
let fzero = parse_f "0"
let fmtv (v : f list) = String.concat " " (string_of_int (List.length v) :: List.map fmt v)
let fmtn (v : nat list) = String.concat " " (string_of_int (List.length v) :: List.map (fun i -> string_of_int (int_of_nat i)) v)
let fmton (v : nat option list) = String.concat " " (string_of_int (List.length v) :: List.map (function None -> "-1" | Some i -> string_of_int (int_of_nat i)) v)
let firstn k l = List.filteri (fun i _ -> i < k) l
let err_name = function DivZero -> "DivZero" | Index -> "Index" | Fuel -> "Fuel" | Shape -> "Shape"

let pfx = ref ""
let out k v = print_string !pfx; print_string k; print_char ' '; print_string v; print_char '\n'
let rec rep x n = if n <= 0 then [] else x :: rep x (n - 1)

let read_list n f = let l = ref [] in for _ = 1 to n do l := f () :: !l done; List.rev !l

let on r k = match r with Ok a -> k a | Err e -> out "error" (err_name e)

let op_ldl (a : f csc) (b : f list) =
  let n = int_of_nat a.nrows in
  (* model-side certificate: the index-only run succeeds and yields the symbolic fill pattern; by theorem
     numeric_erase the numeric phase is then safe on this pattern for ALL values *)
  out "model_idxcheck" (if ldl_index_check a.nrows a.colptr a.rowind then "1" else "0");
  on (symbolic a) (fun (li, lv) ->
    out "etree" (fmton li.i_etree); out "Lcols" (fmtn li.i_Lcols); out "Lnnz0" (fmtn li.i_Lnnz);
    on (numeric a (li, lv)) (fun (r, (li, lv)) ->
      let ret = int_of_nat r in
      out "ret" (string_of_int ret); out "Lnnz" (fmtn li.i_Lnnz);
      let isdone = if ret < n then ret + 1 else n in
      let cols = Array.of_list (List.map int_of_nat li.i_Lcols) and nnz = Array.of_list (List.map int_of_nat li.i_Lnnz) in
      let ind = Array.of_list li.i_Lind and vals = Array.of_list lv.v_Lvals in
      let oi = ref [] and ov = ref [] in
      for i = 0 to isdone - 1 do for p = cols.(i) to cols.(i) + nnz.(i) - 1 do oi := ind.(p) :: !oi; ov := vals.(p) :: !ov done done;
      out "Lind" (fmtn (List.rev !oi)); out "Lvals" (fmtv (List.rev !ov));
      out "D" (fmtv (firstn isdone lv.v_D));
      if ret = n then begin
        out "Dinv" (fmtv lv.v_Dinv);
        let pr k r = match r with Ok x -> out k (fmtv x) | Err e -> out k ("error " ^ err_name e) in
        pr "lsolve" (lsolve li.i_Lcols li.i_Lind lv.v_Lvals b);
        pr "dsolve" (dsolve lv.v_Dinv b);
        pr "ltsolve" (ltsolve li.i_Lcols li.i_Lind lv.v_Lvals b);
        pr "solve" (ldl_solve (li, lv) b)
      end))

let out_csc p (c : f csc) = out (p ^ "p") (fmtn c.colptr); out (p ^ "i") (fmtn c.rowind); out (p ^ "x") (fmtv c.vals)

let op_permute (a : f csc) (p : nat list) =
  on (ordering_init p) (fun o ->
    on (permute_sym fzero a o.oPinv) (fun (c, m) -> out_csc "C" c; out "map" (fmtn m)))

let op_ldlperm (a : f csc) (p : nat list) (b : f list) =
  on (ordering_init p) (fun o ->
    on (permute_sym fzero a o.oPinv) (fun (c, _) -> out_csc "C" c; op_ldl c b))

let ordering_outputs o (b : f list) =
  let z = rep fzero (List.length b) in
  on (ord_perm o z b) (fun x -> out "perm" (fmtv x));
  on (ord_permt o z b) (fun x -> out "permt" (fmtv x))

let op_ordering full p b =
  on (ordering_init p) (fun o ->
    if full then (out "P" (fmtn o.oP); out "Pinv" (fmtn o.oPinv));
    ordering_outputs o b)

let op_transpose (g : f csc) =
  let nnz = List.length g.rowind in
  let c0 = { nrows = g.ncols; ncols = g.nrows; colptr = transpose_colptr g; rowind = rep O nnz; vals = rep fzero nnz } in
  on (transpose_no_alloc g c0) (fun c -> out_csc "C" c)

let op_scale pre g d = on ((if pre then pre_mult_diagonal else post_mult_diagonal) g d) (fun c -> out_csc "A" c)

let out_dense (m : f list list) =
  let lo = ref [] and up = ref [] in
  List.iteri (fun i r -> List.iteri (fun j v -> if j <= i then lo := v :: !lo else up := v :: !up) r) m;
  out "low" (fmtv (List.rev !lo)); out "upp" (fmtv (List.rev !up))

let op_dense_inplace m blk =
  on ((if blk then blocked else unblocked) m) (fun (m, r) ->
    out "ret" (match r with None -> "-1" | Some k -> string_of_int (int_of_nat k)); out_dense m)

let op_dense_compute m b =
  on (blocked m) (fun (m, r) ->
    match r with
    | Some _ -> out "info" "1"
    | None -> out "info" "0"; on (dense_solve m b) (fun x -> out "x" (fmtv x)))

let () =
  let file = ref "" in
  Array.iteri (fun i a -> if i > 0 then file := a) Sys.argv;
  let ic = if !file = "" then stdin else open_in !file in
  let buf = Buffer.create 65536 in
  (try while true do Buffer.add_channel buf ic 1 done with End_of_file -> ());
  toks := Array.of_list (List.filter (fun s -> s <> "") (String.split_on_char ' ' (String.map (fun c -> if c = '\n' || c = '\t' || c = '\r' then ' ' else c) (Buffer.contents buf))));
  while not (eof ()) do
    let k = next () in
    if k <> "CASE" then failwith ("expected CASE, got " ^ k);
    let name = next () in
    let mats = Hashtbl.create 8 and vecs = Hashtbl.create 8 and ivecs = Hashtbl.create 8 and dmats = Hashtbl.create 8 in
    let opidx = ref 0 in
    let fin = ref false in
    while not !fin do
      let w = next () in
      match w with
      | "ENDCASE" -> fin := true
      | "MAT" ->
        let id = next () in let rows = nexti () in let cols = nexti () in let nnz = nexti () in
        let ap = read_list (cols + 1) (fun () -> nat_of_int (nexti ())) in
        let ai = read_list nnz (fun () -> nat_of_int (nexti ())) in
        let ax = read_list nnz (fun () -> parse_f (next ())) in
        Hashtbl.replace mats id { nrows = nat_of_int rows; ncols = nat_of_int cols; colptr = ap; rowind = ai; vals = ax }
      | "VEC" -> let id = next () in let n = nexti () in Hashtbl.replace vecs id (read_list n (fun () -> parse_f (next ())))
      | "IVEC" -> let id = next () in let n = nexti () in Hashtbl.replace ivecs id (read_list n (fun () -> nat_of_int (nexti ())))
      | "DMAT" -> let id = next () in let n = nexti () in
        Hashtbl.replace dmats id (read_list n (fun () -> read_list n (fun () -> parse_f (next ()))))
      | "OP" ->
        let op = next () in
        pfx := name ^ "." ^ string_of_int !opidx ^ "."; Stdlib.incr opidx;
        let mat () = Hashtbl.find mats (next ()) and vec () = Hashtbl.find vecs (next ()) and ivec () = Hashtbl.find ivecs (next ())
        and dmat () = Hashtbl.find dmats (next ()) in
        (match op with
         | "ldl" -> let a = mat () in let b = vec () in op_ldl a b
         | "ldlperm" -> let a = mat () in let p = ivec () in let b = vec () in op_ldlperm a p b
         | "permute" -> let a = mat () in let p = ivec () in op_permute a p
         | "ordering" -> let p = ivec () in let b = vec () in op_ordering false p b
         | "ordering_full" -> let p = ivec () in let b = vec () in op_ordering true p b
         | "skip" -> ()
         | "transpose" -> op_transpose (mat ())
         | "premult" -> let a = mat () in let d = vec () in op_scale true a d
         | "postmult" -> let a = mat () in let d = vec () in op_scale false a d
         | "dense_unblocked" -> op_dense_inplace (dmat ()) false
         | "dense_blocked" -> op_dense_inplace (dmat ()) true
         | "dense_compute" -> let m = dmat () in let b = vec () in op_dense_compute m b
         | _ -> failwith ("bad op " ^ op))
      | _ -> failwith ("bad token " ^ w)
    done
  done
