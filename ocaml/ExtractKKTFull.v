(* Extraction of the sparse KKT_FULL assembly model (coq/KKTSparseFull.v): same directives as ExtractFast.v / ExtractC14.v.
   perm_addr_okb (KKTSparseFullPerm.v) is the boolean hypothesis of the permuted-ordering theorems
   (KKTSparseFullPermProofs.v, names ..._perm_..._partial): the driver evaluates it on every tested case (key model_addrcheck). *)
From Coq Require Import Extraction ExtrOcamlBasic ExtrOcamlZBigInt.
From PIQP Require Import Base CSC KKTSparseFull KKTSparseFullPerm.
Extraction Language OCaml.
Extract Constant Z.ggcd =>
  "(fun a b -> let g = Big_int_Z.gcd_big_int a b in
     if Big_int_Z.sign_big_int g = 0 then (Big_int_Z.zero_big_int, (Big_int_Z.zero_big_int, Big_int_Z.zero_big_int))
     else (g, (Big_int_Z.div_big_int a g, Big_int_Z.div_big_int b g)))".
Extract Constant Z.gcd => "Big_int_Z.gcd_big_int".
Extract Constant Z.log2 => "Zhelp.log2".

Extraction "modelkf.ml" qmk init update_scalings update_data create_kkt_matrix regularize_kkt unregularize_kkt perm_addr_okb.
