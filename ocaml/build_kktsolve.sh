#!/bin/sh
# build the extracted sparse KKT solve-path model (coq/KKTSparseSolve.v on the four assembly models) + driver:
#   ./build_kktsolve.sh [workdir] -> <workdir>/drv_kktsolve_model      (default ocaml/_build/kktsolve)
# Needs coq/{Base,CSC,LDLSparse,KKTSparseFull,KKTSparseFullPerm,KKTSparseAll,KKTSparseEq,KKTSparseIneq,KKTSparseSolve}.vo.
set -e
here=$(cd "$(dirname "$0")" && pwd)
out=${1:-$here/_build/kktsolve}; gen=$out/gen
mkdir -p "$gen" "$out"
(cd "$gen" && coqc -Q "$here/../coq" PIQP "$here/ExtractKKTSolve.v" -o "./ExtractKKTSolve.vo" >/dev/null)
cp "$gen/modelks.ml" "$gen/modelks.mli" "$out/"
cp "$here/drv_kktsolve_model.ml" "$here/zhelp.ml" "$out/"
rm -f "$out/drv_kktsolve_model"
cd "$out" && ocamlfind ocamlopt -O2 -w -a -package zarith -linkpkg zhelp.ml modelks.mli modelks.ml drv_kktsolve_model.ml -o drv_kktsolve_model
test -x "$out/drv_kktsolve_model"
