(* Driver around the extracted Gallina transcription of sparse::RuizEquilibration (coq/PrecondSparse.v): reads the case files of
   harness/drv_precsparse.cpp and prints the same observation lines (complete preconditioner state and complete sparse::Data
   after every operation).  Usage: drv_precsparse_model CASEFILE.   Property C15 (sparse transcription). *)
module ZZ = Z
module QQ = Q
open Modelps

let toks : string array ref = ref [||]
let pos = ref 0
let eof () = !pos >= Array.length !toks
let next () = if eof () then failwith "unexpected eof" else (let t = !toks.(!pos) in Stdlib.incr pos; t)
let nexti () = int_of_string (next ())

let rec nat_of_int n = if n <= 0 then O else S (nat_of_int (n - 1))
let int_of_nat n = let rec go acc = function O -> acc | S k -> go (acc + 1) k in go 0 n

let f_of_q (q : QQ.t) : f = qmk (QQ.num q) (QQ.den q)
let q_of_f (x : f) : QQ.t = QQ.make x.qnum x.qden
let fmtq (q : QQ.t) = if ZZ.equal (QQ.den q) ZZ.one then ZZ.to_string (QQ.num q) else ZZ.to_string (QQ.num q) ^ "/" ^ ZZ.to_string (QQ.den q)
let fmt (x : f) = fmtq (q_of_f x)
let zero = f_of_q QQ.zero
let one = f_of_q QQ.one
let err_name = function DivZero -> "DivZero" | Index -> "Index" | Fuel -> "Fuel" | Shape -> "Shape"

let pfx = ref ""
let out k v = print_string !pfx; print_string k; print_char ' '; print_string v; print_char '\n'

(* ---------- case file blocks ---------- *)
type trip = { r : int; c : int; v : f }
type matin = { rows : int; cols : int; e : trip list }
let k_inf_q = QQ.of_string "1000000000000000019884624838656"      (* PIQP_INF = 1e30 as a double *)
type bnd = Fin of QQ.t | PInf | NInf
let parse_b s = if s = "inf" || s = "+inf" then PInf else if s = "-inf" then NInf else Fin (QQ.of_string s)
let parse_f s = f_of_q (QQ.of_string s)
let read_mat () : matin =
  let rows = nexti () in let cols = nexti () in let n = nexti () in
  let l = ref [] in
  for _ = 1 to n do let r = nexti () in let c = nexti () in let v = parse_f (next ()) in l := { r; c; v } :: !l done;
  { rows; cols; e = List.rev !l }
let read_vec_tok () : string list = let n = nexti () in List.init n (fun _ -> next ())
let read_vec () : f list = List.map parse_f (read_vec_tok ())

type blk = { mutable bP : matin option; mutable bA : matin option; mutable bG : matin option;
             mutable bc : f list option; mutable bb : f list option; mutable bh : f list option;
             mutable blb : bnd list option; mutable bub : bnd list option }
let read_blocks () =
  let b = { bP = None; bA = None; bG = None; bc = None; bb = None; bh = None; blb = None; bub = None } in
  let rec go () =
    let k = next () in
    if k = "END" then () else begin
      (match k with
       | "P" -> b.bP <- Some (read_mat ()) | "A" -> b.bA <- Some (read_mat ()) | "G" -> b.bG <- Some (read_mat ())
       | "c" -> b.bc <- Some (read_vec ()) | "b" -> b.bb <- Some (read_vec ()) | "h" -> b.bh <- Some (read_vec ())
       | "lb" -> b.blb <- Some (List.map parse_b (read_vec_tok ())) | "ub" -> b.bub <- Some (List.map parse_b (read_vec_tok ()))
       | _ -> failwith ("bad block " ^ k)); go () end in
  go (); b

(* compressed column storage with sorted inner indices from (row, col, value) triplets *)
let csc_of rows cols (e : trip list) : f csc =
  let e = List.stable_sort (fun a b -> compare (a.c, a.r) (b.c, b.r)) e in
  let cnt = Array.make (cols + 1) 0 in
  List.iter (fun t -> cnt.(t.c + 1) <- cnt.(t.c + 1) + 1) e;
  for j = 1 to cols do cnt.(j) <- cnt.(j) + cnt.(j - 1) done;
  { nrows = nat_of_int rows; ncols = nat_of_int cols; colptr = List.map nat_of_int (Array.to_list cnt);
    rowind = List.map (fun t -> nat_of_int t.r) e; vals = List.map (fun t -> t.v) e }
(* P_utri = P.triangularView<Upper>() *)
let utri (m : matin) : f csc = csc_of m.rows m.cols (List.filter (fun t -> t.r <= t.c) m.e)
(* AT = A.transpose() *)
let transp (m : matin) : f csc = csc_of m.cols m.rows (List.map (fun t -> { r = t.c; c = t.r; v = t.v }) m.e)

(* setup_lb_data / setup_ub_data: overwrite the heads of the packed arrays, keep the tails *)
let set_head (w : 'a list) (v : 'a list) : 'a list =
  let rec drop k l = if k <= 0 then l else match l with [] -> [] | _ :: t -> drop (k - 1) t in
  w @ drop (List.length w) v
let pack_lb (d : spdata) (lb : bnd list) : spdata =
  let fin = List.filter_map (fun x -> x)
      (List.mapi (fun i b -> match b with
           | NInf -> None | PInf -> failwith "lb = +inf"
           | Fin q -> if QQ.gt q (QQ.neg k_inf_q) then Some (i, f_of_q (QQ.neg q)) else None) lb) in
  { d with sp_nlb = nat_of_int (List.length fin);
           sp_lb_idx = set_head (List.map (fun (i, _) -> nat_of_int i) fin) d.sp_lb_idx;
           sp_lb_n = set_head (List.map snd fin) d.sp_lb_n }
let pack_ub (d : spdata) (ub : bnd list) : spdata =
  let fin = List.filter_map (fun x -> x)
      (List.mapi (fun i b -> match b with
           | PInf -> None | NInf -> failwith "ub = -inf"
           | Fin q -> if QQ.lt q k_inf_q then Some (i, f_of_q q) else None) ub) in
  { d with sp_nub = nat_of_int (List.length fin);
           sp_ub_idx = set_head (List.map (fun (i, _) -> nat_of_int i) fin) d.sp_ub_idx;
           sp_ub = set_head (List.map snd fin) d.sp_ub }

let set_data (d : spdata) (b : blk) : spdata =
  let d = match b.bP with Some m -> { d with sp_P = utri m } | None -> d in
  let d = match b.bA with Some m -> { d with sp_AT = transp m } | None -> d in
  let d = match b.bG with Some m -> { d with sp_GT = transp m } | None -> d in
  let d = match b.bc with Some v -> { d with sp_c = v } | None -> d in
  let d = match b.bb with Some v -> { d with sp_b = v } | None -> d in
  let d = match b.bh with Some v -> { d with sp_h = v } | None -> d in
  let d = match b.blb with Some v -> pack_lb d v | None -> d in
  let d = match b.bub with Some v -> pack_ub d v | None -> d in
  d

let first_data (b : blk) : spdata =
  let get = function Some x -> x | None -> failwith "PROBLEM needs all blocks" in
  let p = get b.bP in let a = get b.bA in let g = get b.bG in
  let n = p.rows in
  let rep x = List.init n (fun _ -> x) in
  let d0 = { sp_n = nat_of_int n; sp_p = nat_of_int a.rows; sp_m = nat_of_int g.rows;
             sp_P = utri p; sp_AT = transp a; sp_GT = transp g; sp_c = []; sp_b = []; sp_h = [];
             sp_nlb = O; sp_nub = O; sp_lb_idx = rep O; sp_ub_idx = rep O;
             sp_lb_scaling = rep one; sp_ub_scaling = rep one; sp_lb_n = rep zero; sp_ub = rep zero } in
  set_data d0 b

(* ---------- output ---------- *)
let fmtv (v : f list) = String.concat " " (string_of_int (List.length v) :: List.map fmt v)
let fmti (v : nat list) = String.concat " " (string_of_int (List.length v) :: List.map (fun x -> string_of_int (int_of_nat x)) v)
let fmtm (m : f csc) =
  String.concat " " ([string_of_int (int_of_nat m.nrows); string_of_int (int_of_nat m.ncols); "1"; "|"]
                     @ List.map (fun x -> string_of_int (int_of_nat x)) m.colptr @ ["|"]
                     @ List.map (fun x -> string_of_int (int_of_nat x)) m.rowind @ ["|"] @ List.map fmt m.vals)
let s = fun n -> string_of_int (int_of_nat n)
let dump (pc : precond) (d : spdata) =
  out "pc.dims" (String.concat " " [s pc.pc_n; s pc.pc_p; s pc.pc_m; s pc.pc_nlb; s pc.pc_nub]);
  out "pc.c" (fmt pc.pc_c); out "pc.c_inv" (fmt pc.pc_c_inv);
  out "pc.delta" (fmtv pc.pc_delta); out "pc.delta_lb" (fmtv pc.pc_delta_lb); out "pc.delta_ub" (fmtv pc.pc_delta_ub);
  out "pc.delta_inv" (fmtv pc.pc_delta_inv); out "pc.delta_lb_inv" (fmtv pc.pc_delta_lb_inv); out "pc.delta_ub_inv" (fmtv pc.pc_delta_ub_inv);
  out "d.dims" (String.concat " " [s d.sp_n; s d.sp_p; s d.sp_m; s d.sp_nlb; s d.sp_nub]);
  out "d.P_utri" (fmtm d.sp_P); out "d.AT" (fmtm d.sp_AT); out "d.GT" (fmtm d.sp_GT);
  out "d.c" (fmtv d.sp_c); out "d.b" (fmtv d.sp_b); out "d.h" (fmtv d.sp_h);
  out "d.x_lb_idx" (fmti d.sp_lb_idx); out "d.x_ub_idx" (fmti d.sp_ub_idx);
  out "d.x_lb_scaling" (fmtv d.sp_lb_scaling); out "d.x_ub_scaling" (fmtv d.sp_ub_scaling);
  out "d.x_lb_n" (fmtv d.sp_lb_n); out "d.x_ub" (fmtv d.sp_ub);
  out "nonfinite" "0"

let rec take k l = if k <= 0 then [] else match l with [] -> [] | a :: t -> a :: take (k - 1) t

let () =
  if Array.length Sys.argv < 2 then (prerr_endline "usage: drv_precsparse_model CASEFILE"; exit 2);
  let ic = open_in Sys.argv.(1) in
  let buf = Buffer.create 65536 in
  (try while true do Buffer.add_channel buf ic 1 done with End_of_file -> ());
  close_in ic;
  toks := Array.of_list (List.filter (fun x -> x <> "") (String.split_on_char ' ' (String.map (fun c -> if c = '\n' || c = '\t' || c = '\r' then ' ' else c) (Buffer.contents buf))));
  let dummy_pc = { pc_ident = false; pc_n = O; pc_p = O; pc_m = O; pc_nlb = O; pc_nub = O; pc_c = one; pc_delta = []; pc_delta_lb = []; pc_delta_ub = [];
                   pc_c_inv = one; pc_delta_inv = []; pc_delta_lb_inv = []; pc_delta_ub_inv = [] } in
  while not (eof ()) do
    if next () <> "CASE" then failwith "CASE expected";
    let name = next () in
    let d = ref None in let pc = ref dummy_pc in let opno = ref 0 in let dead = ref None in
    let fin = ref false in
    while not !fin do
      let op = next () in
      if op = "ENDCASE" then fin := true else begin
        pfx := name ^ "." ^ string_of_int !opno ^ ".";
        let data () = match !d with Some x -> x | None -> failwith "PROBLEM first" in
        let fail e = dead := Some (err_name e) in
        (match op with
         | "PROBLEM" -> d := Some (first_data (read_blocks ()))
         | "INIT" -> pc := sp_precond_init (data ())
         | "SCALE" ->
           let reuse = nexti () <> 0 in let sc = nexti () <> 0 in let it = nexti () in
           if !dead = None then
             (match sp_scale_data consts0 !pc (data ()) reuse sc (ZZ.of_int it) with
              | Ok (pc', d') -> pc := pc'; d := Some d'
              | Err e -> fail e)
         | "UNSCALE" ->
           if !dead = None then
             (match sp_unscale_data !pc (data ()) with Ok d' -> d := Some d' | Err e -> fail e)
         | "SETDATA" -> let b = read_blocks () in d := Some (set_data (data ()) b)
         | "ACCESS" ->
           let vx = read_vec () in let vy = read_vec () in let vz = read_vec () in
           let p = !pc in
           let vlb = take (int_of_nat p.pc_nlb) vx in let vub = take (int_of_nat p.pc_nub) vx in
           if !dead = None then begin
             out "acc.unscale_cost" (fmt (unscale_cost p (match vx with a :: _ -> a | [] -> one)));
             out "acc.unscale_primal" (fmtv (unscale_primal p vx));
             out "acc.unscale_dual_eq" (fmtv (unscale_dual_eq p vy));
             out "acc.unscale_dual_ineq" (fmtv (unscale_dual_ineq p vz));
             out "acc.unscale_dual_lb" (fmtv (unscale_dual_lb p vlb));
             out "acc.unscale_dual_ub" (fmtv (unscale_dual_ub p vub));
             out "acc.unscale_slack_ineq" (fmtv (unscale_slack_ineq p vz));
             out "acc.unscale_slack_lb" (fmtv (unscale_slack_lb p vlb));
             out "acc.unscale_slack_ub" (fmtv (unscale_slack_ub p vub));
             out "acc.unscale_primal_res_eq" (fmtv (unscale_primal_res_eq p vy));
             out "acc.unscale_primal_res_ineq" (fmtv (unscale_primal_res_ineq p vz));
             out "acc.unscale_primal_res_lb" (fmtv (unscale_primal_res_lb p vlb));
             out "acc.unscale_primal_res_ub" (fmtv (unscale_primal_res_ub p vub));
             out "acc.unscale_dual_res" (fmtv (unscale_dual_res p vx)) end
         | _ -> failwith ("bad op " ^ op));
        (match !dead with
         | Some e -> out "model_error" e
         | None -> if op <> "PROBLEM" then dump !pc (data ()));
        Stdlib.incr opno end
    done
  done
