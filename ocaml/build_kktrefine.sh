#!/bin/sh
# build the extracted sparse KKT solve path with iterative refinement (coq/KKTSparseRefine.v on KKTSparseSolve.v and the four assembly models) + driver:
#   ./build_kktrefine.sh [workdir] -> <workdir>/drv_kktrefine_model      (default ocaml/_build/kktrefine)
# Needs coq/{Base,CSC,LDLSparse,KKTSparseFull,KKTSparseFullPerm,KKTSparseAll,KKTSparseEq,KKTSparseIneq,KKTSparseSolve,KKTSparseRefine}.vo.
set -e
here=$(cd "$(dirname "$0")" && pwd)
out=${1:-$here/_build/kktrefine}; gen=$out/gen
mkdir -p "$gen" "$out"
(cd "$gen" && coqc -Q "$here/../coq" PIQP "$here/ExtractKKTRefine.v" -o "./ExtractKKTRefine.vo" >/dev/null)
cp "$gen/modelkr.ml" "$gen/modelkr.mli" "$out/"
cp "$here/drv_kktrefine_model.ml" "$here/zhelp.ml" "$out/"
rm -f "$out/drv_kktrefine_model"
cd "$out" && ocamlfind ocamlopt -O2 -w -a -package zarith -linkpkg zhelp.ml modelkr.mli modelkr.ml drv_kktrefine_model.ml -o drv_kktrefine_model
test -x "$out/drv_kktrefine_model"
