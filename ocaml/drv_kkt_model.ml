(* Driver around the extracted model of dense::KKT (coq/KKTDense.v): reads the case files of harness/drv_kkt.cpp and
   prints the same observation lines (exact fractions) for BACKEND=0.  Property C13. *)
module ZZ = Z
module QQ = Q
open Model

let toks : string array ref = ref [||]
let pos = ref 0
let eof () = !pos >= Array.length !toks
let next () = if eof () then failwith "unexpected eof" else (let t = !toks.(!pos) in incr pos; t)
let peek () = if eof () then failwith "unexpected eof" else !toks.(!pos)
let nexti () = int_of_string (next ())

let rec nat_of_int n = if n <= 0 then O else S (nat_of_int (n - 1))
let rec int_of_nat = function O -> 0 | S k -> 1 + int_of_nat k

let f_of_q (q : QQ.t) : f = qmk (Conv.z_of_zt (QQ.num q)) (Conv.pos_of_zt (QQ.den q))
let q_of_f (x : f) : QQ.t = QQ.make (Conv.zt_of_z x.qnum) (Conv.zt_of_pos x.qden)
let junk_q = QQ.of_string "987654321/1000003"
let junk : f = f_of_q junk_q
let fmt (x : f) = let q = q_of_f x in if QQ.equal q junk_q then "?" else if ZZ.equal (QQ.den q) ZZ.one then ZZ.to_string (QQ.num q) else ZZ.to_string (QQ.num q) ^ "/" ^ ZZ.to_string (QQ.den q)
type sc = Finite of f | PosInf | NegInf
let parse_sc (s : string) : sc =
  if s = "inf" || s = "+inf" then PosInf else if s = "-inf" then NegInf else Finite (f_of_q (QQ.of_string s))
let parse_f s = match parse_sc s with Finite q -> q | _ -> failwith ("non-finite scalar where finite expected: " ^ s)
let fmtv (v : f list) = String.concat " " (string_of_int (List.length v) :: List.map fmt v)
let zero = f_of_q QQ.zero
let one = f_of_q QQ.one

(* dense column-major matrix (list of columns) from triplets *)
let read_mat () : (int * int * f array array) option =
  let k = next () in
  if k = "none" then None else begin
    let rows = int_of_string k in let cols = nexti () in let nnz = nexti () in
    let a = Array.make_matrix cols rows zero in
    for _ = 1 to nnz do let r = nexti () in let c = nexti () in let v = parse_f (next ()) in a.(c).(r) <- v done;
    Some (rows, cols, a) end
let read_vec_sc () : sc list =
  let n = nexti () in let l = ref [] in
  for _ = 1 to n do l := parse_sc (next ()) :: !l done; List.rev !l
let read_vec () : f list = List.map (function Finite q -> q | _ -> failwith "inf in finite vector") (read_vec_sc ())

type blk = { mutable bP : (int*int*f array array) option; mutable bA : (int*int*f array array) option; mutable bG : (int*int*f array array) option;
             mutable blb : sc list option; mutable bub : sc list option; mutable blbs : f list option; mutable bubs : f list option }
let read_blocks () =
  let b = { bP = None; bA = None; bG = None; blb = None; bub = None; blbs = None; bubs = None } in
  let rec go () =
    let k = next () in
    if k = "END" then () else begin
      (match k with
       | "P" -> b.bP <- read_mat () | "A" -> b.bA <- read_mat () | "G" -> b.bG <- read_mat ()
       | "lb" -> b.blb <- Some (read_vec_sc ()) | "ub" -> b.bub <- Some (read_vec_sc ())
       | "lbs" -> b.blbs <- Some (read_vec ()) | "ubs" -> b.bubs <- Some (read_vec ())
       | _ -> failwith ("bad block " ^ k)); go () end in
  go (); b

let cols_of (a : f array array) : f list list = Array.to_list (Array.map Array.to_list a)
(* P.triangularView<Upper>() : strict lower triangle zero. a is indexed a.(col).(row) *)
let utri (a : f array array) : f list list =
  cols_of (Array.mapi (fun j col -> Array.mapi (fun i v -> if i <= j then v else zero) col) a)
(* transpose of a rows x cols matrix given as a.(col).(row): result is list of columns of the cols x rows matrix *)
let transpose rows cols (a : f array array) : f list list =
  List.init rows (fun i -> List.init cols (fun j -> a.(j).(i)))
let firstn k l = List.filteri (fun i _ -> i < k) l
let set_head (w : 'a list) (v : 'a list) = w @ (List.filteri (fun i _ -> i >= List.length w) v)

let set_setting (s : settings) (k : string) (v : string) : settings =
  let q () = parse_f v in let z () = Conv.z_of_zt (ZZ.of_string v) in let b () = int_of_string v <> 0 in
  match k with
  | "iterative_refinement_always_enabled" -> { s with iterative_refinement_always_enabled = b () }
  | "iterative_refinement_eps_abs" -> { s with iterative_refinement_eps_abs = q () }
  | "iterative_refinement_eps_rel" -> { s with iterative_refinement_eps_rel = q () }
  | "iterative_refinement_max_iter" -> { s with iterative_refinement_max_iter = z () }
  | "iterative_refinement_min_improvement_rate" -> { s with iterative_refinement_min_improvement_rate = q () }
  | "iterative_refinement_static_regularization_eps" -> { s with iterative_refinement_static_regularization_eps = q () }
  | "iterative_refinement_static_regularization_rel" -> { s with iterative_refinement_static_regularization_rel = q () }
  | _ -> failwith ("unknown setting " ^ k)

let pfx = ref ""
let out k v = print_string !pfx; print_string k; print_char ' '; print_string v; print_char '\n'
let err_name = function DivZero -> "DivZero" | Index -> "Index" | Fuel -> "Fuel" | Shape -> "Shape"

let k_inf_q = QQ.of_string "1000000000000000000000000000000"   (* PIQP_INF = 1e30; only used to classify case-file bounds *)
let finite_lb = function NegInf -> false | PosInf -> true | Finite q -> QQ.gt (q_of_f q) (QQ.neg k_inf_q)
let finite_ub = function PosInf -> false | NegInf -> true | Finite q -> QQ.lt (q_of_f q) k_inf_q

let mk_data (b : blk) : data =
  let (n, _, pa) = (match b.bP with Some t -> t | None -> failwith "PROBLEM needs P") in
  let p, at = (match b.bA with Some (r, c, a) -> r, transpose r c a | None -> 0, []) in
  let m, gt = (match b.bG with Some (r, c, a) -> r, transpose r c a | None -> 0, []) in
  let idx pred = function None -> [] | Some l -> List.concat (List.mapi (fun i x -> if pred x then [nat_of_int i] else []) l) in
  let lbi = idx finite_lb b.blb and ubi = idx finite_ub b.bub in
  let ones = List.init n (fun _ -> one) in
  let lbs = (match b.blbs with Some w -> set_head w ones | None -> ones) in
  let ubs = (match b.bubs with Some w -> set_head w ones | None -> ones) in
  { d_n = nat_of_int n; d_p = nat_of_int p; d_m = nat_of_int m; d_P = utri pa; d_AT = at; d_GT = gt;
    d_c = List.init n (fun _ -> zero); d_b = List.init p (fun _ -> zero); d_h = List.init m (fun _ -> zero);
    d_lb_idx = lbi; d_ub_idx = ubi; d_lb_scaling = lbs; d_ub_scaling = ubs;
    d_lb_n = List.map (fun _ -> zero) lbi; d_ub = List.map (fun _ -> zero) ubi }

let overwrite (d : data) (b : blk) : data =
  let d = (match b.bP with Some (_, _, a) -> { d with d_P = utri a } | None -> d) in
  let d = (match b.bA with Some (r, c, a) -> { d with d_AT = transpose r c a } | None -> d) in
  let d = (match b.bG with Some (r, c, a) -> { d with d_GT = transpose r c a } | None -> d) in
  let d = (match b.blbs with Some w -> { d with d_lb_scaling = set_head w d.d_lb_scaling } | None -> d) in
  let d = (match b.bubs with Some w -> { d with d_ub_scaling = set_head w d.d_ub_scaling } | None -> d) in
  d

let read_step () : step =
  let x = read_vec () in let y = read_vec () in let z = read_vec () in let zl = read_vec () in let zu = read_vec () in
  let s = read_vec () in let sl = read_vec () in let su = read_vec () in
  { st_x = x; st_y = y; st_z = z; st_z_lb = zl; st_z_ub = zu; st_s = s; st_s_lb = sl; st_s_ub = su }
let print_step (d : data) (r : step) =
  let nlb = List.length d.d_lb_idx and nub = List.length d.d_ub_idx in
  out "x" (fmtv r.st_x); out "y" (fmtv r.st_y); out "z" (fmtv r.st_z);
  out "z_lb" (fmtv (firstn nlb r.st_z_lb)); out "z_ub" (fmtv (firstn nub r.st_z_ub));
  out "s" (fmtv r.st_s); out "s_lb" (fmtv (firstn nlb r.st_s_lb)); out "s_ub" (fmtv (firstn nub r.st_s_ub))

let () =
  let file = ref "" in
  Array.iteri (fun i a -> if i > 0 then file := a) Sys.argv;
  let ic = if !file = "" then stdin else open_in !file in
  let buf = Buffer.create 65536 in
  (try while true do Buffer.add_channel buf ic 1 done with End_of_file -> ());
  toks := Array.of_list (List.filter (fun s -> s <> "") (String.split_on_char ' ' (String.map (fun c -> if c = '\n' || c = '\t' || c = '\r' then ' ' else c) (Buffer.contents buf))));
  while not (eof ()) do
    let k = next () in
    if k <> "CASE" then failwith ("expected CASE, got " ^ k);
    let name = next () in
    let settings = ref default_settings in
    let data : data option ref = ref None in
    let kkt : kKT option ref = ref None in
    let factor_ok = ref false in
    let last : step option ref = ref None in
    let dead = ref false in   (* model returned Err: remaining ops of the case only print model_error *)
    let opno = ref 0 in
    let fin = ref false in
    let the_data () = match !data with Some d -> d | None -> failwith "operation before PROBLEM" in
    let the_kkt () = match !kkt with Some k -> k | None -> failwith "operation before INIT" in
    let guard (f : unit -> unit) = if !dead then out "model_error" "dead" else f () in
    let fail e = out "model_error" (err_name e); dead := true in
    while not !fin do
      let op = next () in
      pfx := name ^ "." ^ string_of_int !opno ^ ".";
      match op with
      | "ENDCASE" -> fin := true
      | "SET" -> let key = next () in let v = next () in settings := set_setting !settings key v
      | "JUNK" -> ignore (next ())
      | "PROBLEM" ->
        let b = read_blocks () in
        let d = mk_data b in
        data := Some d; kkt := None; factor_ok := false; last := None; dead := false;
        out "op" "problem";
        out "dims" (Printf.sprintf "%d %d %d %d %d" (int_of_nat d.d_n) (int_of_nat d.d_p) (int_of_nat d.d_m) (List.length d.d_lb_idx) (List.length d.d_ub_idx));
        out "x_lb_idx" (String.concat " " (string_of_int (List.length d.d_lb_idx) :: List.map (fun i -> string_of_int (int_of_nat i)) d.d_lb_idx));
        out "x_ub_idx" (String.concat " " (string_of_int (List.length d.d_ub_idx) :: List.map (fun i -> string_of_int (int_of_nat i)) d.d_ub_idx));
        incr opno
      | "INIT" ->
        let rho = parse_f (next ()) in let delta = parse_f (next ()) in
        out "op" "init";
        guard (fun () -> match kkt_init (the_data ()) rho delta junk with Ok k -> kkt := Some k; factor_ok := false | Err e -> fail e);
        incr opno
      | "SCALINGS" ->
        let rho = parse_f (next ()) in let delta = parse_f (next ()) in
        let s = read_vec () in let slb = read_vec () in let sub = read_vec () in
        let z = read_vec () in let zlb = read_vec () in let zub = read_vec () in
        out "op" "scalings";
        guard (fun () -> match kkt_update_scalings (the_data ()) (the_kkt ()) rho delta s slb sub z zlb zub with
            | Ok k -> kkt := Some k; factor_ok := false | Err e -> fail e);
        incr opno
      | "DATA" ->
        let mask = nexti () in
        let b = read_blocks () in
        out "op" ("data " ^ string_of_int mask);
        guard (fun () ->
            let d = overwrite (the_data ()) b in
            data := Some d;
            match kkt_update_data d (the_kkt ()) (mask land 1 <> 0) (mask land 2 <> 0) (mask land 4 <> 0) with
            | Ok k -> kkt := Some k; factor_ok := false | Err e -> fail e);
        incr opno
      | "FACTOR" ->
        let refine = nexti () <> 0 in
        out "op" ("factor " ^ (if refine then "1" else "0"));
        guard (fun () -> match regularize_and_factorize !settings (the_data ()) (the_kkt ()) refine false with
            | Ok (k, ok) -> kkt := Some k; factor_ok := ok; out "ok" (if ok then "1" else "0") | Err e -> fail e);
        incr opno
      | "SOLVE" ->
        let refine = nexti () <> 0 in
        let r = read_step () in
        out "op" ("solve " ^ (if refine then "1" else "0"));
        guard (fun () ->
            if not !factor_ok then begin out "skipped" "1"; last := None end
            else match kkt_solve !settings (the_data ()) (the_kkt ()) refine r.st_x r.st_y r.st_z r.st_z_lb r.st_z_ub r.st_s r.st_s_lb r.st_s_ub with
              | Ok st -> print_step (the_data ()) st; last := Some st | Err e -> fail e);
        incr opno
      | "MULTIPLY" ->
        let v = (if peek () = "last" then (ignore (next ()); !last) else Some (read_step ())) in
        out "op" "multiply";
        guard (fun () -> match v with
            | None -> out "skipped" "1"
            | Some v -> (match kkt_multiply (the_data ()) (the_kkt ()) v with Ok r -> print_step (the_data ()) r | Err e -> fail e));
        incr opno
      | "DUMP" ->
        out "op" "dump";
        guard (fun () ->
            let k = the_kkt () in
            out "kkt_mat" (String.concat " " (string_of_int (List.length k.k_mat) :: List.concat_map (fun row -> List.map fmt row) k.k_mat)));
        incr opno
      | _ -> failwith ("bad op " ^ op)
    done
  done;
  flush stdout
