#!/bin/sh
# build the extracted model + driver: ./build.sh fast|ref   -> ocaml/_build/<kind>/drv_model
set -e
kind=${1:-fast}
here=$(cd "$(dirname "$0")" && pwd)
gen=$here/gen/$kind; out=$here/_build/$kind
mkdir -p "$gen" "$out"
X=$([ "$kind" = fast ] && echo ExtractFast || echo ExtractRef)
(cd "$gen" && coqc -Q "$here/../coq" PIQP "$here/$X.v" -o "./$X.vo" >/dev/null)
cp "$gen/model.ml" "$gen/model.mli" "$out/"
cp "$here/conv_$kind.ml" "$out/conv.ml"
cp "$here/drv_model.ml" "$here/zhelp.ml" "$out/"
rm -f "$out/drv_model"
cd "$out" && ocamlfind ocamlopt -O2 -w -a -package zarith -linkpkg zhelp.ml model.mli model.ml conv.ml drv_model.ml -o drv_model
test -x "$out/drv_model"
