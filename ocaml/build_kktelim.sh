#!/bin/sh
# build the extracted eliminated-KKT assembly models + driver: ./build_kktelim.sh [workdir] -> <workdir>/drv_kktelim_model
# (default ocaml/_build/kktelim).  Needs coq/{Base,CSC,KKTSparseFull,KKTSparseFullPerm,KKTSparseAll}.vo.
set -e
here=$(cd "$(dirname "$0")" && pwd)
out=${1:-$here/_build/kktelim}; gen=$out/gen
mkdir -p "$gen" "$out"
(cd "$gen" && coqc -Q "$here/../coq" PIQP "$here/ExtractKKTElim.v" -o "./ExtractKKTElim.vo" >/dev/null)
cp "$gen/modelke.ml" "$gen/modelke.mli" "$out/"
cp "$here/drv_kktelim_model.ml" "$here/zhelp.ml" "$out/"
rm -f "$out/drv_kktelim_model"
cd "$out" && ocamlfind ocamlopt -O2 -w -a -package zarith -linkpkg zhelp.ml modelke.mli modelke.ml drv_kktelim_model.ml -o drv_kktelim_model
test -x "$out/drv_kktelim_model"
