(* helper for the fast extraction: Coq's Z.log2 (0 for arguments <= 0) on zarith integers *)
let log2 (a : Z.t) : Z.t = if Z.sign a <= 0 then Z.zero else Z.of_int (Z.numbits a - 1)
