#!/bin/sh
# build the extracted C14 model + driver: ./build_c14.sh [workdir] -> <workdir>/drv_c14 (default ocaml/_build/c14)
# needs coq/{Base,CSC,LDLSparse,LDLDenseNP}.vo
set -e
here=$(cd "$(dirname "$0")" && pwd)
out=${1:-$here/_build/c14}; gen=$out/gen
mkdir -p "$gen" "$out"
(cd "$gen" && coqc -Q "$here/../coq" PIQP "$here/ExtractC14.v" -o "./ExtractC14.vo" >/dev/null)
cp "$gen/model14.ml" "$gen/model14.mli" "$out/"
cp "$here/drv_c14.ml" "$here/zhelp.ml" "$out/"
rm -f "$out/drv_c14"
cd "$out" && ocamlfind ocamlopt -O2 -w -a -package zarith -linkpkg zhelp.ml model14.mli model14.ml drv_c14.ml -o drv_c14
test -x "$out/drv_c14"
