(* Extraction of the sparse KKT_EQ_ELIMINATED / KKT_INEQ_ELIMINATED assembly models (coq/KKTSparseEq.v, coq/KKTSparseIneq.v):
   same directives as ExtractKKTFull.v / ExtractKKTElim.v. *)
From Coq Require Import Extraction ExtrOcamlBasic ExtrOcamlZBigInt.
From PIQP Require Import Base CSC KKTSparseFull KKTSparseFullPerm KKTSparseAll KKTSparseEq KKTSparseIneq.
Extraction Language OCaml.
Extract Constant Z.ggcd =>
  "(fun a b -> let g = Big_int_Z.gcd_big_int a b in
     if Big_int_Z.sign_big_int g = 0 then (Big_int_Z.zero_big_int, (Big_int_Z.zero_big_int, Big_int_Z.zero_big_int))
     else (g, (Big_int_Z.div_big_int a g, Big_int_Z.div_big_int b g)))".
Extract Constant Z.gcd => "Big_int_Z.gcd_big_int".
Extract Constant Z.log2 => "Zhelp.log2".

Extraction "modelkq.ml" qmk eq_init eq_update_scalings eq_update_data eq_create
                        ineq_init ineq_update_scalings ineq_update_data ineq_create perm_addr_okb.
