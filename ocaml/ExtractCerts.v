(* Extraction of the verified certificate checkers of coq/Certs.v (property C03):
   ExtrOcamlBasic + ExtrOcamlZBigInt (Z/N/positive -> zarith Big_int_Z), same directives as ExtractFast.v. *)
From Coq Require Import Extraction ExtrOcamlBasic ExtrOcamlZBigInt.
From PIQP Require Import Base Certs.
Extraction Language OCaml.
Extract Constant Z.ggcd =>
  "(fun a b -> let g = Big_int_Z.gcd_big_int a b in
     if Big_int_Z.sign_big_int g = 0 then (Big_int_Z.zero_big_int, (Big_int_Z.zero_big_int, Big_int_Z.zero_big_int))
     else (g, (Big_int_Z.div_big_int a g, Big_int_Z.div_big_int b g)))".
Extract Constant Z.gcd => "Big_int_Z.gcd_big_int".
Extract Constant Z.log2 => "Zhelp.log2".

Extraction "certs.ml" is_psd is_feasible is_kkt_point is_farkas is_recession
  farkas_val farkas_norm1 recession_val recession_norm1 qmk.
