(* Driver around the extracted models of the sparse KKT_EQ_ELIMINATED / KKT_INEQ_ELIMINATED assemblies (coq/KKTSparseEq.v = mode
   "eq", coq/KKTSparseIneq.v = mode "ineq"): reads the case files of harness/drv_kkt.cpp and prints, for every DUMP, the observation
   lines of harness/drv_kkteqineq.cpp (-DBACKEND=2 / 3) that describe the assembly state:
     perm, PKPt (raw stored upper triangle), K (permutation undone, lower triangle by rows), upper,
     P2K / X2K / R2K (P_utri_to_Ki, AT_A_to_Ki | GT_G_to_Ki, GT_to_Ki | AT_to_Ki), PKi, Xc (cached transpose, raw), XX (cached
     product, raw), tmp (tmp_scatter).
   Usage: drv_kkteqineq_model MODE CASEFILE [PERMFILE]      MODE = eq | ineq
     without PERMFILE : identity ordering, no permutation pass: K / upper / maps / caches are printed, PKPt0 = the raw stored matrix
                        and PKi0 = the identity map of the identity-ordering model;
     with PERMFILE    : lines "<case> N p0 .. pN-1" = the permutation the implementation's ordering produced (Eigen AMD is an oracle).
   Extra model-side key: model_addrcheck = perm_addr_okb on the unpermuted pattern (hypothesis of permuted-ordering theorems).
   FACTOR / SOLVE / MULTIPLY are parsed and skipped (they do not change the assembly state).  Property C13 (T1b, EQ / INEQ). *)
module ZZ = Z
module QQ = Q
open Modelkq

let toks : string array ref = ref [||]
let pos = ref 0
let eof () = !pos >= Array.length !toks
let next () = if eof () then failwith "unexpected eof" else (let t = !toks.(!pos) in Stdlib.incr pos; t)
let peek () = if eof () then failwith "unexpected eof" else !toks.(!pos)
let nexti () = int_of_string (next ())

let rec nat_of_int n = if n <= 0 then O else S (nat_of_int (n - 1))
let int_of_nat n = let rec go acc = function O -> acc | S k -> go (acc + 1) k in go 0 n

let f_of_q (q : QQ.t) : f = qmk (QQ.num q) (QQ.den q)
let q_of_f (x : f) : QQ.t = QQ.make x.qnum x.qden
let fmtq (q : QQ.t) = if ZZ.equal (QQ.den q) ZZ.one then ZZ.to_string (QQ.num q) else ZZ.to_string (QQ.num q) ^ "/" ^ ZZ.to_string (QQ.den q)
let fmt (x : f) = fmtq (q_of_f x)
let parse_f s = f_of_q (QQ.of_string s)
let zero = parse_f "0"
let one = parse_f "1"
let err_name = function DivZero -> "DivZero" | Index -> "Index" | Fuel -> "Fuel" | Shape -> "Shape"

let pfx = ref ""
let out k v = print_string !pfx; print_string k; print_char ' '; print_string v; print_char '\n'

(* ---------- case file blocks ---------- *)
type trip = { r : int; c : int; v : f }
type matin = { rows : int; cols : int; e : trip list }     (* entries column-major sorted, explicit zeros kept *)
let read_mat () : matin option =
  let k = next () in
  if k = "none" then None else begin
    let rows = int_of_string k in let cols = nexti () in let n = nexti () in
    let l = ref [] in
    for _ = 1 to n do let r = nexti () in let c = nexti () in let v = parse_f (next ()) in l := { r; c; v } :: !l done;
    Some { rows; cols; e = List.rev !l } end
let read_vec_tok () : string list = let n = nexti () in List.init n (fun _ -> next ())
let read_vec () : f list = List.map parse_f (read_vec_tok ())
let skip_vec () = ignore (read_vec_tok ())

type blk = { mutable bP : matin option; mutable bA : matin option; mutable bG : matin option;
             mutable blb : string list option; mutable bub : string list option; mutable blbs : f list option; mutable bubs : f list option }
let read_blocks () =
  let b = { bP = None; bA = None; bG = None; blb = None; bub = None; blbs = None; bubs = None } in
  let rec go () =
    let k = next () in
    if k = "END" then () else begin
      (match k with
       | "P" -> b.bP <- read_mat () | "A" -> b.bA <- read_mat () | "G" -> b.bG <- read_mat ()
       | "lb" -> b.blb <- Some (read_vec_tok ()) | "ub" -> b.bub <- Some (read_vec_tok ())
       | "lbs" -> b.blbs <- Some (read_vec ()) | "ubs" -> b.bubs <- Some (read_vec ())
       | _ -> failwith ("bad block " ^ k)); go () end in
  go (); b

(* compressed column storage with sorted inner indices from (row, col, value) triplets *)
let csc_of rows cols (e : trip list) : f csc =
  let e = List.stable_sort (fun a b -> compare (a.c, a.r) (b.c, b.r)) e in
  let cnt = Array.make (cols + 1) 0 in
  List.iter (fun t -> cnt.(t.c + 1) <- cnt.(t.c + 1) + 1) e;
  for j = 1 to cols do cnt.(j) <- cnt.(j) + cnt.(j - 1) done;
  { nrows = nat_of_int rows; ncols = nat_of_int cols; colptr = List.map nat_of_int (Array.to_list cnt);
    rowind = List.map (fun t -> nat_of_int t.r) e; vals = List.map (fun t -> t.v) e }
(* P_utri = P.triangularView<Upper>() *)
let utri (m : matin) : f csc = csc_of m.rows m.cols (List.filter (fun t -> t.r <= t.c) m.e)
(* AT = A.transpose() *)
let transp (m : matin) : f csc = csc_of m.cols m.rows (List.map (fun t -> { r = t.c; c = t.r; v = t.v }) m.e)
let empty_csc rows : f csc = { nrows = nat_of_int rows; ncols = O; colptr = [O]; rowind = []; vals = [] }

let k_inf_q = QQ.of_string "1000000000000000000000000000000"   (* PIQP_INF = 1e30; only classifies case-file bounds *)
let finite_lb s = if s = "-inf" then false else if s = "inf" || s = "+inf" then true else QQ.gt (QQ.of_string s) (QQ.neg k_inf_q)
let finite_ub s = if s = "inf" || s = "+inf" then false else if s = "-inf" then true else QQ.lt (QQ.of_string s) k_inf_q
let set_head (w : 'a list) (v : 'a list) = w @ (List.filteri (fun i _ -> i >= List.length w) v)
let firstn k l = List.filteri (fun i _ -> i < k) l

let mk_data (b : blk) : sdata =
  let pm = (match b.bP with Some t -> t | None -> failwith "PROBLEM needs P") in
  let n = pm.rows in
  let p, at = (match b.bA with Some m -> m.rows, transp m | None -> 0, empty_csc n) in
  let m, gt = (match b.bG with Some m -> m.rows, transp m | None -> 0, empty_csc n) in
  let idx pred = function None -> [] | Some l -> List.concat (List.mapi (fun i x -> if pred x then [i] else []) l) in
  let lbi = idx finite_lb b.blb and ubi = idx finite_ub b.bub in
  let ones = List.init n (fun _ -> one) in
  let pad l = List.map nat_of_int l @ List.init (n - List.length l) (fun _ -> O) in   (* x_lb_idx has n slots *)
  let lbs = (match b.blbs with Some w -> set_head w ones | None -> ones) in
  let ubs = (match b.bubs with Some w -> set_head w ones | None -> ones) in
  { sd_n = nat_of_int n; sd_p = nat_of_int p; sd_m = nat_of_int m; sd_P = utri pm; sd_AT = at; sd_GT = gt;
    sd_nlb = nat_of_int (List.length lbi); sd_nub = nat_of_int (List.length ubi);
    sd_lbidx = pad lbi; sd_ubidx = pad ubi; sd_lbs = lbs; sd_ubs = ubs }

let same_pattern (a : f csc) (b : f csc) = a.nrows = b.nrows && a.ncols = b.ncols && a.colptr = b.colptr && a.rowind = b.rowind
let overwrite (d : sdata) (b : blk) : sdata =
  let chk what a c = if not (same_pattern a c) then failwith ("DATA: pattern of " ^ what ^ " differs from the one given in PROBLEM"); c in
  let d = (match b.bP with Some m -> { d with sd_P = chk "P" d.sd_P (utri m) } | None -> d) in
  let d = (match b.bA with Some m -> { d with sd_AT = chk "A" d.sd_AT (transp m) } | None -> d) in
  let d = (match b.bG with Some m -> { d with sd_GT = chk "G" d.sd_GT (transp m) } | None -> d) in
  let d = (match b.blbs with Some w -> { d with sd_lbs = set_head w d.sd_lbs } | None -> d) in
  let d = (match b.bubs with Some w -> { d with sd_ubs = set_head w d.sd_ubs } | None -> d) in
  d

let skip_step () = for _ = 1 to 8 do skip_vec () done

(* ---------- DUMP ---------- *)
let dump nk (kpl : nat list) (kil : nat list) (kxl : f list) (pinvl : nat list) (perm : int list option) =
  let kp = Array.of_list (List.map int_of_nat kpl) and ki = Array.of_list (List.map int_of_nat kil) in
  let kx = Array.of_list (List.map q_of_f kxl) in
  let inv = Array.of_list (List.map int_of_nat pinvl) in
  let raw key =
    let b = Buffer.create 256 in
    Buffer.add_string b (Printf.sprintf "%d %d %d" nk nk (Array.length ki));
    for j = 0 to nk - 1 do for q = kp.(j) to kp.(j + 1) - 1 do
      Buffer.add_string b (Printf.sprintf " %d %d %s" ki.(q) j (fmtq kx.(q))) done done;
    out key (Buffer.contents b) in
  (match perm with
   | Some p -> out "perm" (String.concat " " (string_of_int nk :: List.map string_of_int p)); raw "PKPt"
   | None -> raw "PKPt0");
  let dm = Array.make_matrix nk nk QQ.zero in
  let upper_ok = ref true in
  for j = 0 to nk - 1 do for q = kp.(j) to kp.(j + 1) - 1 do
    let i = ki.(q) in
    if i > j then upper_ok := false;
    dm.(i).(j) <- QQ.add dm.(i).(j) kx.(q);
    if i <> j then dm.(j).(i) <- QQ.add dm.(j).(i) kx.(q) done done;
  let b = Buffer.create 256 in
  Buffer.add_string b (string_of_int nk);
  for i = 0 to nk - 1 do for j = 0 to i do Buffer.add_char b ' '; Buffer.add_string b (fmtq dm.(inv.(i)).(inv.(j))) done done;
  out "K" (Buffer.contents b);
  out "upper" (if !upper_ok then "1" else "0")

let fmti (l : nat list) = String.concat " " (string_of_int (List.length l) :: List.map (fun x -> string_of_int (int_of_nat x)) l)
let fmtraw (a : f csc) =
  let kp = Array.of_list (List.map int_of_nat a.colptr) and ki = Array.of_list (List.map int_of_nat a.rowind) in
  let kx = Array.of_list (List.map q_of_f a.vals) in
  let b = Buffer.create 256 in
  Buffer.add_string b (Printf.sprintf "%d %d %d" (int_of_nat a.nrows) (int_of_nat a.ncols) (Array.length ki));
  for j = 0 to int_of_nat a.ncols - 1 do for q = kp.(j) to kp.(j + 1) - 1 do
    Buffer.add_string b (Printf.sprintf " %d %d %s" ki.(q) j (fmtq kx.(q))) done done;
  Buffer.contents b
let dump_extra (k : ekkt) (permuted : bool) =
  out "P2K" (fmti k.ek_P2K); out "X2K" (fmti k.ek_X2K); out "R2K" (fmti k.ek_R2K);
  out (if permuted then "PKi" else "PKi0") (fmti k.ek_PKi);
  out "Xc" (fmtraw k.ek_X); out "XX" (fmtraw k.ek_XX);
  out "tmp" (String.concat " " (string_of_int (List.length k.ek_tmp) :: List.map fmt k.ek_tmp))

let () =
  let args = List.tl (Array.to_list Sys.argv) in
  let mode, file, permfile = (match args with [m; a] -> m, a, None | [m; a; b] -> m, a, Some b | _ -> failwith "usage: drv_kkteqineq_model MODE CASEFILE [PERMFILE]") in
  let is_eq = (match mode with "eq" -> true | "ineq" -> false | _ -> failwith ("unknown mode " ^ mode)) in
  let m_init = if is_eq then eq_init else ineq_init in
  let m_scal = if is_eq then eq_update_scalings else ineq_update_scalings in
  let m_data = if is_eq then eq_update_data else ineq_update_data in
  let m_create = if is_eq then eq_create else ineq_create in
  let perms : (string, int list) Hashtbl.t = Hashtbl.create 64 in
  (match permfile with
   | Some pf ->
     let ic = open_in pf in
     (try while true do
        let ln = input_line ic in
        match List.filter (fun s -> s <> "") (String.split_on_char ' ' ln) with
        | name :: n :: rest when List.length rest = int_of_string n -> Hashtbl.replace perms name (List.map int_of_string rest)
        | [] -> ()
        | _ -> failwith ("bad perm line: " ^ ln)
      done with End_of_file -> ()); close_in ic
   | None -> ());
  let ic = open_in file in
  let buf = Buffer.create 65536 in
  (try while true do Buffer.add_channel buf ic 1 done with End_of_file -> ());
  toks := Array.of_list (List.filter (fun s -> s <> "") (String.split_on_char ' ' (String.map (fun c -> if c = '\n' || c = '\t' || c = '\r' then ' ' else c) (Buffer.contents buf))));
  while not (eof ()) do
    let k = next () in
    if k <> "CASE" then failwith ("expected CASE, got " ^ k);
    let name = next () in
    let perm = Hashtbl.find_opt perms name in
    let data : sdata option ref = ref None in
    let st : ekkt option ref = ref None in
    let dead = ref false in
    let opno = ref 0 in
    let fin = ref false in
    let fail e = out "model_error" (err_name e); dead := true; st := None in
    let get_d () = match !data with Some d -> d | None -> failwith (name ^ ": operation before PROBLEM") in
    let with_st f = if !dead then () else match !st with Some k -> f k | None -> failwith (name ^ ": operation before INIT") in
    while not !fin do
      let op = next () in
      if op = "ENDCASE" then fin := true
      else if op = "SET" then begin ignore (next ()); ignore (next ()) end
      else if op = "JUNK" then ignore (next ())
      else begin
        pfx := name ^ "." ^ string_of_int !opno ^ "."; Stdlib.incr opno;
        match op with
        | "PROBLEM" -> let b = read_blocks () in data := Some (mk_data b); st := None; dead := false
        | "INIT" ->
          let rho = parse_f (next ()) in let delta = parse_f (next ()) in
          let d = get_d () in
          dead := false;
          (match m_init d rho delta (match perm with Some p -> Some (List.map nat_of_int p) | None -> None) with
           | Ok k -> st := Some k
           | Err e -> fail e)
        | "SCALINGS" ->
          let rho = parse_f (next ()) in let delta = parse_f (next ()) in
          let s = read_vec () in let s_lb = read_vec () in let s_ub = read_vec () in
          let z = read_vec () in let z_lb = read_vec () in let z_ub = read_vec () in
          let d = get_d () in
          with_st (fun k -> match m_scal d k rho delta s s_lb s_ub z z_lb z_ub with Ok k -> st := Some k | Err e -> fail e)
        | "DATA" ->
          let mask = nexti () in let b = read_blocks () in
          let d = overwrite (get_d ()) b in
          data := Some d;
          with_st (fun k -> match m_data d k (nat_of_int mask) with Ok k -> st := Some k | Err e -> fail e)
        | "FACTOR" -> ignore (nexti ())
        | "SOLVE" -> ignore (nexti ()); skip_step ()
        | "MULTIPLY" -> if peek () = "last" then ignore (next ()) else skip_step ()
        | "DUMP" ->
          let d = get_d () in
          with_st (fun k ->
            out "op" "dump";
            let nk = int_of_nat d.sd_n + int_of_nat (if is_eq then d.sd_m else d.sd_p) in
            (match perm with
             | Some p ->
               (match m_create d k.ek_sc.sc_rho k.ek_sc.sc_delta with
                | Ok am -> out "model_addrcheck" (if perm_addr_okb (nat_of_int nk) am.em_K.colptr am.em_K.rowind (List.map nat_of_int p) then "1" else "0")
                | Err e -> out "model_addrcheck" ("error " ^ err_name e))
             | None -> ());
            dump_extra k (perm <> None);
            dump nk k.ek_kp k.ek_ki k.ek_kx k.ek_pinv perm)
        | _ -> failwith ("bad op " ^ op)
      end
    done
  done
