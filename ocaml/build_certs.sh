#!/bin/sh
# build the extracted certificate checkers + driver: ./build_certs.sh -> ocaml/_build/certs/drv_certs
# (needs coq/Base.vo, coq/LinAlg.vo, coq/Certs.vo)
set -e
here=$(cd "$(dirname "$0")" && pwd)
gen=$here/gen/certs; out=$here/_build/certs
mkdir -p "$gen" "$out"
(cd "$gen" && coqc -Q "$here/../coq" PIQP "$here/ExtractCerts.v" -o "./ExtractCerts.vo" >/dev/null)
cp "$gen/certs.ml" "$gen/certs.mli" "$out/"
cp "$here/conv_fast.ml" "$out/conv.ml"
cp "$here/drv_certs.ml" "$here/zhelp.ml" "$out/"
rm -f "$out/drv_certs"
cd "$out" && ocamlfind ocamlopt -O2 -w -a -package zarith -linkpkg zhelp.ml certs.mli certs.ml conv.ml drv_certs.ml -o drv_certs
test -x "$out/drv_certs"
