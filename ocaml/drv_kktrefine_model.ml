(* Driver around the extracted model of the sparse KKT solve path WITH iterative refinement (coq/KKTSparseRefine.v:
   kkt_factorize_r = regularize_and_factorize(refine), kkt_solve_r = KKT::solve(.., refine); coq/KKTSparseSolve.v: kkt_multiply)
   running on the four extracted assembly models (KKTSparseFull.v = mode "full", KKTSparseEq.v = "eq", KKTSparseIneq.v = "ineq",
   KKTSparseAll.v = "all"): reads the case files of harness/drv_kkt.cpp and prints the observation lines of the -DBACKEND=1..4 builds for
     SET      -> the six iterative_refinement_* settings read by the code (defaults: the C++ defaults of
                 settings.hpp, i.e. the exact values of the doubles 1e-12, 1e-12, 10, 5.0, 1e-7, epsilon^2 = 2^-104)
     FACTOR r -> op "factor r", ok 0|1
     SOLVE r  -> op "solve r", the eight blocks x y z z_lb z_ub s s_lb s_ub (or "skipped 1" when the last FACTOR did not succeed);
                 additionally (model only, ignored by the comparison) "rsolves k" = number of extra LDL^T solves of the refinement loop and
                 "rstop tol|fuel|rate|off" = how the loop ended
     MULTIPLY -> op "multiply", the eight blocks
     DUMP     -> op "dump", PKPt = the stored upper triangle of the permuted matrix as the last operation left it (after FACTOR 1: the
                 matrix unregularize_kkt restored)
   INIT / SCALINGS / DATA drive the assembly models (and reset the factor flag as the C++ driver does).
   Usage: drv_kktrefine_model MODE CASEFILE [PERMFILE]
     PERMFILE: lines "<case> N p0 .. pN-1" = the permutation the implementation's ordering produced (Eigen AMD is an oracle);
     without it the identity ordering is used.
   A model error (index / division / shape error of the checked model) is printed as "model_error <kind>".  Property C13. *)
module ZZ = Z
module QQ = Q
open Modelkr

let toks : string array ref = ref [||]
let pos = ref 0
let eof () = !pos >= Array.length !toks
let next () = if eof () then failwith "unexpected eof" else (let t = !toks.(!pos) in Stdlib.incr pos; t)
let peek () = if eof () then failwith "unexpected eof" else !toks.(!pos)
let nexti () = int_of_string (next ())

let rec nat_of_int n = if n <= 0 then O else S (nat_of_int (n - 1))
let int_of_nat n = let rec go acc = function O -> acc | S k -> go (acc + 1) k in go 0 n

let f_of_q (q : QQ.t) : f = qmk (QQ.num q) (QQ.den q)
let q_of_f (x : f) : QQ.t = QQ.make x.qnum x.qden
let fmtq (q : QQ.t) = if ZZ.equal (QQ.den q) ZZ.one then ZZ.to_string (QQ.num q) else ZZ.to_string (QQ.num q) ^ "/" ^ ZZ.to_string (QQ.den q)
let fmt (x : f) = fmtq (q_of_f x)
let parse_f s = f_of_q (QQ.of_string s)
let zero = parse_f "0"
let one = parse_f "1"
let err_name = function DivZero -> "DivZero" | Index -> "Index" | Fuel -> "Fuel" | Shape -> "Shape"

let pfx = ref ""
let out k v = print_string !pfx; print_string k; print_char ' '; print_string v; print_char '\n'

(* ---------- case file blocks ---------- *)
type trip = { r : int; c : int; v : f }
type matin = { rows : int; cols : int; e : trip list }     (* entries column-major sorted, explicit zeros kept *)
let read_mat () : matin option =
  let k = next () in
  if k = "none" then None else begin
    let rows = int_of_string k in let cols = nexti () in let n = nexti () in
    let l = ref [] in
    for _ = 1 to n do let r = nexti () in let c = nexti () in let v = parse_f (next ()) in l := { r; c; v } :: !l done;
    Some { rows; cols; e = List.rev !l } end
let read_vec_tok () : string list = let n = nexti () in List.init n (fun _ -> next ())
let read_vec () : f list = List.map parse_f (read_vec_tok ())
let skip_vec () = ignore (read_vec_tok ())

type blk = { mutable bP : matin option; mutable bA : matin option; mutable bG : matin option;
             mutable blb : string list option; mutable bub : string list option; mutable blbs : f list option; mutable bubs : f list option }
let read_blocks () =
  let b = { bP = None; bA = None; bG = None; blb = None; bub = None; blbs = None; bubs = None } in
  let rec go () =
    let k = next () in
    if k = "END" then () else begin
      (match k with
       | "P" -> b.bP <- read_mat () | "A" -> b.bA <- read_mat () | "G" -> b.bG <- read_mat ()
       | "lb" -> b.blb <- Some (read_vec_tok ()) | "ub" -> b.bub <- Some (read_vec_tok ())
       | "lbs" -> b.blbs <- Some (read_vec ()) | "ubs" -> b.bubs <- Some (read_vec ())
       | _ -> failwith ("bad block " ^ k)); go () end in
  go (); b

(* compressed column storage with sorted inner indices from (row, col, value) triplets *)
let csc_of rows cols (e : trip list) : f csc =
  let e = List.stable_sort (fun a b -> compare (a.c, a.r) (b.c, b.r)) e in
  let cnt = Array.make (cols + 1) 0 in
  List.iter (fun t -> cnt.(t.c + 1) <- cnt.(t.c + 1) + 1) e;
  for j = 1 to cols do cnt.(j) <- cnt.(j) + cnt.(j - 1) done;
  { nrows = nat_of_int rows; ncols = nat_of_int cols; colptr = List.map nat_of_int (Array.to_list cnt);
    rowind = List.map (fun t -> nat_of_int t.r) e; vals = List.map (fun t -> t.v) e }
(* P_utri = P.triangularView<Upper>() *)
let utri (m : matin) : f csc = csc_of m.rows m.cols (List.filter (fun t -> t.r <= t.c) m.e)
(* AT = A.transpose() *)
let transp (m : matin) : f csc = csc_of m.cols m.rows (List.map (fun t -> { r = t.c; c = t.r; v = t.v }) m.e)
let empty_csc rows : f csc = { nrows = nat_of_int rows; ncols = O; colptr = [O]; rowind = []; vals = [] }

let k_inf_q = QQ.of_string "1000000000000000000000000000000"   (* PIQP_INF = 1e30; only classifies case-file bounds *)
let finite_lb s = if s = "-inf" then false else if s = "inf" || s = "+inf" then true else QQ.gt (QQ.of_string s) (QQ.neg k_inf_q)
let finite_ub s = if s = "inf" || s = "+inf" then false else if s = "-inf" then true else QQ.lt (QQ.of_string s) k_inf_q
let set_head (w : 'a list) (v : 'a list) = w @ (List.filteri (fun i _ -> i >= List.length w) v)
let firstn k l = List.filteri (fun i _ -> i < k) l

let mk_data (b : blk) : sdata =
  let pm = (match b.bP with Some t -> t | None -> failwith "PROBLEM needs P") in
  let n = pm.rows in
  let p, at = (match b.bA with Some m -> m.rows, transp m | None -> 0, empty_csc n) in
  let m, gt = (match b.bG with Some m -> m.rows, transp m | None -> 0, empty_csc n) in
  let idx pred = function None -> [] | Some l -> List.concat (List.mapi (fun i x -> if pred x then [i] else []) l) in
  let lbi = idx finite_lb b.blb and ubi = idx finite_ub b.bub in
  let ones = List.init n (fun _ -> one) in
  let pad l = List.map nat_of_int l @ List.init (n - List.length l) (fun _ -> O) in   (* x_lb_idx has n slots *)
  let lbs = (match b.blbs with Some w -> set_head w ones | None -> ones) in
  let ubs = (match b.bubs with Some w -> set_head w ones | None -> ones) in
  { sd_n = nat_of_int n; sd_p = nat_of_int p; sd_m = nat_of_int m; sd_P = utri pm; sd_AT = at; sd_GT = gt;
    sd_nlb = nat_of_int (List.length lbi); sd_nub = nat_of_int (List.length ubi);
    sd_lbidx = pad lbi; sd_ubidx = pad ubi; sd_lbs = lbs; sd_ubs = ubs }

let same_pattern (a : f csc) (b : f csc) = a.nrows = b.nrows && a.ncols = b.ncols && a.colptr = b.colptr && a.rowind = b.rowind
let overwrite (d : sdata) (b : blk) : sdata =
  let chk what a c = if not (same_pattern a c) then failwith ("DATA: pattern of " ^ what ^ " differs from the one given in PROBLEM"); c in
  let d = (match b.bP with Some m -> { d with sd_P = chk "P" d.sd_P (utri m) } | None -> d) in
  let d = (match b.bA with Some m -> { d with sd_AT = chk "A" d.sd_AT (transp m) } | None -> d) in
  let d = (match b.bG with Some m -> { d with sd_GT = chk "G" d.sd_GT (transp m) } | None -> d) in
  let d = (match b.blbs with Some w -> { d with sd_lbs = set_head w d.sd_lbs } | None -> d) in
  let d = (match b.bubs with Some w -> { d with sd_ubs = set_head w d.sd_ubs } | None -> d) in
  d


let read_step () : step8 =
  let x = read_vec () in let y = read_vec () in let z = read_vec () in let zlb = read_vec () in let zub = read_vec () in
  let s = read_vec () in let slb = read_vec () in let sub = read_vec () in
  { t_x = x; t_y = y; t_z = z; t_zlb = zlb; t_zub = zub; t_s = s; t_slb = slb; t_sub = sub }
let fmtv (l : f list) = String.concat " " (string_of_int (List.length l) :: List.map fmt l)
let print_step (r : step8) =
  out "x" (fmtv r.t_x); out "y" (fmtv r.t_y); out "z" (fmtv r.t_z); out "z_lb" (fmtv r.t_zlb); out "z_ub" (fmtv r.t_zub);
  out "s" (fmtv r.t_s); out "s_lb" (fmtv r.t_slb); out "s_ub" (fmtv r.t_sub)

type st = SF of skkt | SE of ekkt | SI of ekkt | SA of akkt

let () =
  let args = List.tl (Array.to_list Sys.argv) in
  let mode, file, permfile = (match args with [m; a] -> m, a, None | [m; a; b] -> m, a, Some b | _ -> failwith "usage: drv_kktrefine_model MODE CASEFILE [PERMFILE]") in
  let md = (match mode with "full" -> MFull | "eq" -> MEq | "ineq" -> MIneq | "all" -> MAll | _ -> failwith ("unknown mode " ^ mode)) in
  let m_init d rho delta ord = (match md with
    | MFull -> (match init d rho delta ord with Ok k -> Ok (SF k) | Err e -> Err e)
    | MEq -> (match eq_init d rho delta ord with Ok k -> Ok (SE k) | Err e -> Err e)
    | MIneq -> (match ineq_init d rho delta ord with Ok k -> Ok (SI k) | Err e -> Err e)
    | MAll -> (match all_init d rho delta ord with Ok k -> Ok (SA k) | Err e -> Err e)) in
  let m_scal d k rho delta s s_lb s_ub z z_lb z_ub = (match k with
    | SF k -> (match update_scalings d k rho delta s s_lb s_ub z z_lb z_ub with Ok k -> Ok (SF k) | Err e -> Err e)
    | SE k -> (match eq_update_scalings d k rho delta s s_lb s_ub z z_lb z_ub with Ok k -> Ok (SE k) | Err e -> Err e)
    | SI k -> (match ineq_update_scalings d k rho delta s s_lb s_ub z z_lb z_ub with Ok k -> Ok (SI k) | Err e -> Err e)
    | SA k -> (match all_update_scalings d k rho delta s s_lb s_ub z z_lb z_ub with Ok k -> Ok (SA k) | Err e -> Err e)) in
  let m_data d k mask = (match k with
    | SF k -> (match update_data d k mask with Ok k -> Ok (SF k) | Err e -> Err e)
    | SE k -> (match eq_update_data d k mask with Ok k -> Ok (SE k) | Err e -> Err e)
    | SI k -> (match ineq_update_data d k mask with Ok k -> Ok (SI k) | Err e -> Err e)
    | SA k -> (match all_update_data d k mask with Ok k -> Ok (SA k) | Err e -> Err e)) in
  let view d k = (match k with SF k -> full_view d k | SE k -> eq_view d k | SI k -> ineq_view d k | SA k -> all_view d k) in
  let pinv_of k = (match k with SF k -> k.fk_pinv | SE k -> k.ek_pinv | SI k -> k.ek_pinv | SA k -> k.ak_pinv) in
  let perms : (string, int list) Hashtbl.t = Hashtbl.create 64 in
  (match permfile with
   | Some pf ->
     let ic = open_in pf in
     (try while true do
        let ln = input_line ic in
        match List.filter (fun s -> s <> "") (String.split_on_char ' ' ln) with
        | name :: n :: rest when List.length rest = int_of_string n -> Hashtbl.replace perms name (List.map int_of_string rest)
        | [] -> ()
        | _ -> failwith ("bad perm line: " ^ ln)
      done with End_of_file -> ()); close_in ic
   | None -> ());
  let ic = open_in file in
  let buf = Buffer.create 65536 in
  (try while true do Buffer.add_channel buf ic 1 done with End_of_file -> ());
  toks := Array.of_list (List.filter (fun s -> s <> "") (String.split_on_char ' ' (String.map (fun c -> if c = '\n' || c = '\t' || c = '\r' then ' ' else c) (Buffer.contents buf))));
  while not (eof ()) do
    let k = next () in
    if k <> "CASE" then failwith ("expected CASE, got " ^ k);
    let name = next () in
    let perm = Hashtbl.find_opt perms name in
    let data : sdata option ref = ref None in
    let st : st option ref = ref None in
    let ldl : (ldl_i * ldl_v) option ref = ref None in
    let factor_ok = ref false in
    let last : step8 option ref = ref None in
    let dead = ref false in
    let opno = ref 0 in
    let fin = ref false in
    let rs = ref { rs_reg_eps = f_of_q (QQ.of_float 1e-7); rs_reg_rel = f_of_q (QQ.of_float (epsilon_float *. epsilon_float));
                   rs_eps_abs = f_of_q (QQ.of_float 1e-12); rs_eps_rel = f_of_q (QQ.of_float 1e-12);
                   rs_max_iter = ZZ.of_int 10; rs_min_rate = f_of_q (QQ.of_float 5.0) } in
    let kcur : f csc option ref = ref None in     (* PKPt as the last regularize_and_factorize left it *)
    let fail e = out "model_error" (err_name e); dead := true; st := None in
    let get_d () = match !data with Some d -> d | None -> failwith (name ^ ": operation before PROBLEM") in
    let with_st f = if !dead then () else match !st with Some k -> f k | None -> failwith (name ^ ": operation before INIT") in
    let ordering d k =
      let nk = int_of_nat (mode_N md d) in
      { oP = (match perm with Some p -> List.map nat_of_int p | None -> List.init nk nat_of_int); oPinv = pinv_of k } in
    while not !fin do
      let op = next () in
      if op = "ENDCASE" then fin := true
      else if op = "SET" then begin
        let key = next () in let v = next () in
        (match key with
         | "iterative_refinement_always_enabled" -> ()
         | "iterative_refinement_eps_abs" -> rs := { !rs with rs_eps_abs = parse_f v }
         | "iterative_refinement_eps_rel" -> rs := { !rs with rs_eps_rel = parse_f v }
         | "iterative_refinement_max_iter" -> rs := { !rs with rs_max_iter = ZZ.of_string v }
         | "iterative_refinement_min_improvement_rate" -> rs := { !rs with rs_min_rate = parse_f v }
         | "iterative_refinement_static_regularization_eps" -> rs := { !rs with rs_reg_eps = parse_f v }
         | "iterative_refinement_static_regularization_rel" -> rs := { !rs with rs_reg_rel = parse_f v }
         | _ -> failwith ("unknown setting " ^ key)) end
      else if op = "JUNK" then ignore (next ())
      else begin
        pfx := name ^ "." ^ string_of_int !opno ^ "."; Stdlib.incr opno;
        match op with
        | "PROBLEM" -> let b = read_blocks () in data := Some (mk_data b); st := None; dead := false; factor_ok := false; last := None; kcur := None
        | "INIT" ->
          let rho = parse_f (next ()) in let delta = parse_f (next ()) in
          let d = get_d () in
          dead := false; factor_ok := false; kcur := None;
          (match m_init d rho delta (match perm with Some p -> Some (List.map nat_of_int p) | None -> None) with
           | Ok k -> st := Some k;
             (match kkt_symbolic (view d k).sv_K with Ok l -> ldl := Some l | Err e -> fail e)
           | Err e -> fail e)
        | "SCALINGS" ->
          let rho = parse_f (next ()) in let delta = parse_f (next ()) in
          let s = read_vec () in let s_lb = read_vec () in let s_ub = read_vec () in
          let z = read_vec () in let z_lb = read_vec () in let z_ub = read_vec () in
          let d = get_d () in
          factor_ok := false; kcur := None;
          with_st (fun k -> match m_scal d k rho delta s s_lb s_ub z z_lb z_ub with Ok k -> st := Some k | Err e -> fail e)
        | "DATA" ->
          let mask = nexti () in let b = read_blocks () in
          let d = overwrite (get_d ()) b in
          data := Some d; factor_ok := false; kcur := None;
          with_st (fun k -> match m_data d k (nat_of_int mask) with Ok k -> st := Some k | Err e -> fail e)
        | "FACTOR" ->
          let refine = nexti () <> 0 in
          let d = get_d () in
          with_st (fun k ->
            out "op" (if refine then "factor 1" else "factor 0");
            match !ldl with
            | None -> failwith "no ldl state"
            | Some l ->
              let v = view d k in
              let kk = (match !kcur with Some kk -> kk | None -> v.sv_K) in
              (match kkt_factorize_r !rs refine md d v.sv_sc (ordering d k) kk l with
               | Ok ((ok, l'), k') -> ldl := Some l'; factor_ok := ok; kcur := Some k'; out "ok" (if ok then "1" else "0")
               | Err e -> fail e))
        | "SOLVE" ->
          let refine = nexti () <> 0 in
          let r = read_step () in
          let d = get_d () in
          with_st (fun k ->
            out "op" (if refine then "solve 1" else "solve 0");
            if not !factor_ok then begin out "skipped" "1"; last := None end
            else match !ldl with
              | None -> failwith "no ldl state"
              | Some l ->
                let v = view d k in
                let kk = (match !kcur with Some kk -> kk | None -> v.sv_K) in
                (match kkt_solve_r !rs refine md d v.sv_sc (ordering d k) kk l r with
                 | Ok s ->
                   print_step s; last := Some s;
                   (* statistics (not compared): the same solve with an instrumented linear solve *)
                   let lin rp =
                     (if refine && ZZ.gt !rs.rs_max_iter ZZ.zero then
                        (match ldl_solve l rp with
                         | Ok sol0 ->
                           let err = kresid kk rp sol0 in
                           let fuel = nat_of_int (ZZ.to_int !rs.rs_max_iter) in
                           (match refine_solves !rs kk l rp (norm_inf rp) fuel sol0 err (norm_inf err),
                                  refine_stop !rs kk l rp (norm_inf rp) fuel sol0 err (norm_inf err) with
                            | Ok ns, Ok how ->
                              out "rsolves" (string_of_int (int_of_nat ns));
                              out "rstop" (match how with StopTol -> "tol" | StopFuel -> "fuel" | StopRate -> "rate");
                              let fin = (match refine_loop !rs kk l rp (norm_inf rp) fuel sol0 err (norm_inf err) with Ok x -> x | Err _ -> sol0) in
                              out "rimproved" (if QQ.lt (q_of_f (norm_inf (kresid kk rp fin))) (q_of_f (norm_inf err)) then "1" else "0")
                            | _ -> ())
                         | Err _ -> ())
                      else out "rstop" "off");
                     refined_solve !rs refine kk l rp in
                   ignore (kkt_solve_with lin md d v.sv_sc (ordering d k) r)
                 | Err e -> fail e))
        | "MULTIPLY" ->
          let v = if peek () = "last" then begin ignore (next ()); !last end else Some (read_step ()) in
          let d = get_d () in
          with_st (fun k ->
            out "op" "multiply";
            match v with
            | None -> out "skipped" "1"
            | Some v ->
              (match kkt_multiply d (view d k).sv_sc v with
               | Ok r -> print_step r
               | Err e -> fail e))
        | "DUMP" ->
          let d = get_d () in
          with_st (fun k ->
            out "op" "dump";
            let kk = (match !kcur with Some kk -> kk | None -> (view d k).sv_K) in
            let cp = Array.of_list (List.map int_of_nat kk.colptr) in
            let ri = Array.of_list (List.map int_of_nat kk.rowind) in
            let vx = Array.of_list kk.vals in
            let b = Buffer.create 256 in
            Buffer.add_string b (Printf.sprintf "%d %d %d" (int_of_nat kk.nrows) (int_of_nat kk.ncols) (Array.length vx));
            for j = 0 to Array.length cp - 2 do
              for q = cp.(j) to cp.(j + 1) - 1 do Buffer.add_string b (Printf.sprintf " %d %d %s" ri.(q) j (fmt vx.(q))) done done;
            out "PKPt" (Buffer.contents b))
        | _ -> failwith ("bad op " ^ op)
      end
    done
  done
