(* UniqueProofs.v -- C10-T1 piece: the full un-eliminated regularised Newton operator kkt_multiply (KKTDense.v) is
   injective on convex problems (rho, delta > 0, positive scalings, P psd); hence every exact solver of the full
   system returns the same step as the dense kkt_solve.
     Part A  reverse elimination algebra on functions nat -> Qc (any solution of the full system satisfies the
             recovery formulas and the reduced system)
     Part B  denotation of kkt_multiply
     Part C  full_system_solution_unique, any_exact_backend_agrees_with_dense
     Part D  concrete instance *)
From PIQP Require Import Base Data KKTDense LinAlg LLTProofs KKTProofs PDProofs.
From Coq Require Import Lia Lqa.
From RecordUpdate Require Import RecordSet.
Import RecordSetNotations.
Local Open Scope Qc_scope.

(* ================================================================ Part A *)
Section Reverse.
  Variable Y : L2sys.
  Variables vx vy vz vzlb vzub vs vslb vsub : nat -> Qc.
  Local Notation n := (y_n Y). Local Notation p := (y_p Y). Local Notation m := (y_m Y).
  Local Notation nlb := (y_nlb Y). Local Notation nub := (y_nub Y).

  Hypothesis Hdelta : y_delta Y <> 0.
  Hypothesis Hzinv : forall l, (l < m)%nat -> y_zinv Y l <> 0.
  Hypothesis Hw : forall l, (l < m)%nat -> y_s Y l * y_zinv Y l + y_delta Y <> 0.
  Hypothesis Hzli : forall k, (k < nlb)%nat -> y_zli Y k <> 0.
  Hypothesis Hwlb : forall k, (k < nlb)%nat -> y_slb Y k * y_zli Y k + y_delta Y <> 0.
  Hypothesis Hzui : forall k, (k < nub)%nat -> y_zui Y k <> 0.
  Hypothesis Hwub : forall k, (k < nub)%nat -> y_sub Y k * y_zui Y k + y_delta Y <> 0.

  (* the rows of the full operator applied to (vx, vy, vz, vzlb, vzub, vs, vslb, vsub) equal the right-hand side *)
  Hypothesis Rx : forall i, (i < n)%nat ->
    sum n (fun j => y_Psym Y i j * vx j) + y_rho Y * vx i
    + (sum p (fun l => vy l * y_AT Y i l) + sum m (fun l => vz l * y_GT Y i l))
    - sum nlb (fun k => if Nat.eqb (y_lbidx Y k) i then y_lbs Y k * vzlb k else 0)
    + sum nub (fun k => if Nat.eqb (y_ubidx Y k) i then y_ubs Y k * vzub k else 0) = y_rx Y i.
  Hypothesis Ry : forall l, (l < p)%nat -> a_ATdx Y vx l - y_delta Y * vy l = y_ry Y l.
  Hypothesis Rz : forall l, (l < m)%nat -> a_GTdx Y vx l - y_delta Y * vz l + vs l = y_rz Y l.
  Hypothesis Rzlb : forall k, (k < nlb)%nat -> - (y_lbs Y k * vx (y_lbidx Y k)) - y_delta Y * vzlb k + vslb k = y_rzlb Y k.
  Hypothesis Rzub : forall k, (k < nub)%nat -> y_ubs Y k * vx (y_ubidx Y k) - y_delta Y * vzub k + vsub k = y_rzub Y k.
  Hypothesis Rs : forall l, (l < m)%nat -> y_s Y l * vz l + (1 / y_zinv Y l) * vs l = y_rs Y l.
  Hypothesis Rslb : forall k, (k < nlb)%nat -> y_slb Y k * vzlb k + (1 / y_zli Y k) * vslb k = y_rslb Y k.
  Hypothesis Rsub : forall k, (k < nub)%nat -> y_sub Y k * vzub k + (1 / y_zui Y k) * vsub k = y_rsub Y k.

  Lemma rev_dy l : (l < p)%nat -> vy l = a_dy Y vx l.
  Proof. intros Hl. unfold a_dy, a_dinv. rewrite <- (Ry l Hl). field. assumption. Qed.

  Lemma rev_dz l : (l < m)%nat -> vz l = a_dz Y vx l.
  Proof.
    intros Hl. unfold a_dz, a_rzbar, a_w. rewrite <- (Rz l Hl), <- (Rs l Hl). field. split; auto.
  Qed.

  Lemma rev_ds l : (l < m)%nat -> vs l = a_ds Y vx l.
  Proof.
    intros Hl. unfold a_ds. rewrite <- (rev_dz l Hl). rewrite <- (Rs l Hl). field. auto.
  Qed.

  Lemma rev_dzlb k : (k < nlb)%nat -> vzlb k = a_dzlb Y vx k.
  Proof.
    intros Hk. unfold a_dzlb, a_wlb. rewrite <- (Rzlb k Hk), <- (Rslb k Hk). field. split; auto.
  Qed.

  Lemma rev_dslb k : (k < nlb)%nat -> vslb k = a_dslb Y vx k.
  Proof.
    intros Hk. unfold a_dslb. rewrite <- (rev_dzlb k Hk). rewrite <- (Rslb k Hk). field. auto.
  Qed.

  Lemma rev_dzub k : (k < nub)%nat -> vzub k = a_dzub Y vx k.
  Proof.
    intros Hk. unfold a_dzub, a_wub. rewrite <- (Rzub k Hk), <- (Rsub k Hk). field. split; auto.
  Qed.

  Lemma rev_dsub k : (k < nub)%nat -> vsub k = a_dsub Y vx k.
  Proof.
    intros Hk. unfold a_dsub. rewrite <- (rev_dzub k Hk). rewrite <- (Rsub k Hk). field. auto.
  Qed.

  Lemma rev_row_x i : (i < n)%nat -> a_row_x Y vx i = y_rx Y i.
  Proof.
    intros Hi. rewrite <- (Rx i Hi). unfold a_row_x. unfold Qcminus.
    apply (f_equal2 Qcplus); [apply (f_equal2 Qcplus); [apply (f_equal2 Qcplus); [reflexivity | apply (f_equal2 Qcplus)] | ] | ].
    - apply sum_ext. intros l Hl. rewrite rev_dy by assumption. reflexivity.
    - apply sum_ext. intros l Hl. rewrite rev_dz by assumption. reflexivity.
    - f_equal. apply sum_ext. intros k Hk. rewrite rev_dzlb by assumption. reflexivity.
    - apply sum_ext. intros k Hk. rewrite rev_dzub by assumption. reflexivity.
  Qed.
End Reverse.

(* identity behind alg_row_x:  (full x row) - rx = (reduced row) - (folded rhs) *)
Lemma alg_row_x_identity (Y : L2sys) (dx : nat -> Qc) i : (i < y_n Y)%nat ->
  a_row_x Y dx i - y_rx Y i = sum (y_n Y) (fun j => a_Kred Y i j * dx j) - a_rhs Y i.
Proof.
  intros Hi. rewrite alg_Kred_mul by assumption. unfold a_rhs, a_row_x.
  rewrite alg_fold_A, alg_fold_G, alg_fold_lb, alg_fold_ub. unfold a_bdiag. ring.
Qed.

Lemma reduced_from_full (Y : L2sys) (dx : nat -> Qc) i : (i < y_n Y)%nat ->
  a_row_x Y dx i = y_rx Y i -> sum (y_n Y) (fun j => a_Kred Y i j * dx j) = a_rhs Y i.
Proof.
  intros Hi H. pose proof (alg_row_x_identity Y dx i Hi) as E. rewrite H in E.
  assert (E' : forall a b c : Qc, c - c = a - b -> a = b) by (intros a b c E0; assert (H0 : a - b = 0) by (rewrite <- E0; ring); transitivity (a - b + b); [ring | rewrite H0; ring]).
  apply (E' _ _ _ E).
Qed.

(* a positive definite matrix is injective *)
Lemma quad_form_as_dot n K e : quad_form n K e = sum n (fun i => e i * sum n (fun j => K i j * e j)).
Proof.
  unfold quad_form. apply sum_ext. intros i Hi. rewrite <- sum_scale_l. apply sum_ext. intros. ring.
Qed.

Lemma pos_def_injective n K x1 x2 : pos_def n K ->
  (forall i, (i < n)%nat -> sum n (fun j => K i j * x1 j) = sum n (fun j => K i j * x2 j)) ->
  forall i, (i < n)%nat -> x1 i = x2 i.
Proof.
  intros Hpd H. set (e := fun i => x1 i - x2 i).
  assert (Hq : quad_form n K e = 0).
  { rewrite quad_form_as_dot. apply sum_zero_ext. intros i Hi.
    rewrite (sum_ext n _ (fun j => K i j * x1 j - K i j * x2 j)) by (intros; unfold e; ring).
    rewrite sum_sub, (H i Hi). ring. }
  destruct (all_zero_dec n e) as [Hz|Hnz].
  - intros i Hi. specialize (Hz i Hi). unfold e in Hz.
    rewrite <- (Qcplus_0_l (x2 i)), <- Hz. ring.
  - exfalso. specialize (Hpd e Hnz). rewrite Hq in Hpd. exact (Qclt_not_eq _ _ Hpd eq_refl).
Qed.

(* ================================================================ Part B : denotation of kkt_multiply *)
Definition wf_step (d : Data) (v : Step) : Prop :=
  length (st_x v) = d_n d /\ length (st_y v) = d_p d /\ length (st_z v) = d_m d /\
  length (st_z_lb v) = d_nlb d /\ length (st_z_ub v) = d_nub d /\
  length (st_s v) = d_m d /\ length (st_s_lb v) = d_nlb d /\ length (st_s_ub v) = d_nub d.

Definition sys_of_step (d : Data) (k : KKT) (r : Step) : L2sys :=
  sys_of d k (st_x r) (st_y r) (st_z r) (st_z_lb r) (st_z_ub r) (st_s r) (st_s_lb r) (st_s_ub r).

Record full_rows (Y : L2sys) (vx vy vz vzlb vzub vs vslb vsub : nat -> Qc) : Prop := mkRows {
  fr_x : forall i, (i < y_n Y)%nat ->
    sum (y_n Y) (fun j => y_Psym Y i j * vx j) + y_rho Y * vx i
    + (sum (y_p Y) (fun l => vy l * y_AT Y i l) + sum (y_m Y) (fun l => vz l * y_GT Y i l))
    - sum (y_nlb Y) (fun k => if Nat.eqb (y_lbidx Y k) i then y_lbs Y k * vzlb k else 0)
    + sum (y_nub Y) (fun k => if Nat.eqb (y_ubidx Y k) i then y_ubs Y k * vzub k else 0) = y_rx Y i;
  fr_y : forall l, (l < y_p Y)%nat -> a_ATdx Y vx l - y_delta Y * vy l = y_ry Y l;
  fr_z : forall l, (l < y_m Y)%nat -> a_GTdx Y vx l - y_delta Y * vz l + vs l = y_rz Y l;
  fr_zlb : forall k, (k < y_nlb Y)%nat -> - (y_lbs Y k * vx (y_lbidx Y k)) - y_delta Y * vzlb k + vslb k = y_rzlb Y k;
  fr_zub : forall k, (k < y_nub Y)%nat -> y_ubs Y k * vx (y_ubidx Y k) - y_delta Y * vzub k + vsub k = y_rzub Y k;
  fr_s : forall l, (l < y_m Y)%nat -> y_s Y l * vz l + (1 / y_zinv Y l) * vs l = y_rs Y l;
  fr_slb : forall k, (k < y_nlb Y)%nat -> y_slb Y k * vzlb k + (1 / y_zli Y k) * vslb k = y_rslb Y k;
  fr_sub : forall k, (k < y_nub Y)%nat -> y_sub Y k * vzub k + (1 / y_zui Y k) * vsub k = y_rsub Y k
}.

Lemma kkt_multiply_rows d k v r :
  wf_data d -> wf_scal d k -> wf_step d v -> kkt_multiply d k v = Ok r ->
  full_rows (sys_of_step d k r) (fv (st_x v)) (fv (st_y v)) (fv (st_z v)) (fv (st_z_lb v)) (fv (st_z_ub v))
            (fv (st_s v)) (fv (st_s_lb v)) (fv (st_s_ub v)).
Proof.
  intros Hd Hk (Lx & Ly & Lz & Lzlb & Lzub & Ls & Lslb & Lsub) H.
  pose proof Hd as (HP1 & HP2 & HA1 & HA2 & HG1 & HG2 & Hlbs & Hubs & HPlow).
  destruct Hk as (Ks & Kzinv & Kslb & Kzli & Ksub & Kzui).
  unfold kkt_multiply in H. cbv zeta in H.
  apply bind_ok in H as (r1 & Hr1 & H). apply bind_ok in H as (rx & Hrx & H).
  apply bind_ok in H as (xlb & Hxlb & H). apply bind_ok in H as (xub & Hxub & H).
  apply bind_ok in H as (zz & Hz & H). apply bind_ok in H as (zlb & Hzlb & H). apply bind_ok in H as (zub & Hzub & H).
  injection H as <-. unfold sys_of_step. cbn [st_x st_y st_z st_z_lb st_z_ub st_s st_s_lb st_s_ub].
  pose proof (scatter_with_ok Qcminus Qcopp (fun a x => eq_refl) _ _ _ _ Hr1) as (Lr1 & _ & _ & Nr1).
  pose proof (scatter_with_ok Qcplus (fun x => x) (fun a x => eq_refl) _ _ _ _ Hrx) as (Lrx & _ & _ & Nrx).
  apply gather_ok in Hxlb as [Lxlb Nxlb]. apply gather_ok in Hxub as [Lxub Nxub].
  fold (d_nlb d) in Lxlb, Nxlb. fold (d_nub d) in Lxub, Nxub.
  apply vinv_ok in Hz as [Lzz Nz]. apply vinv_ok in Hzlb as [Lzlb' Nzlb]. apply vinv_ok in Hzub as [Lzub' Nzub].
  rewrite head_length in Lzlb', Nzlb by assumption. rewrite head_length in Lzub', Nzub by assumption.
  assert (Llbs : length (head (d_nlb d) (d_lb_scaling d)) = d_nlb d) by (apply head_length; assumption).
  assert (Lubs : length (head (d_nub d) (d_ub_scaling d)) = d_nub d) by (apply head_length; assumption).
  assert (Lhslb : length (head (d_nlb d) (k_s_lb k)) = d_nlb d) by (apply head_length; assumption).
  assert (Lhsub : length (head (d_nub d) (k_s_ub k)) = d_nub d) by (apply head_length; assumption).
  assert (DT : forall (M : Mat) l, Forall (fun c => length c = d_n d) M ->
            dot (nth l M []) (st_x v) = sum (d_n d) (fun j => mentry M j l * nth j (st_x v) 0)).
  { intros M l HM. rewrite (dot_sum _ _ (d_n d)) by nlia. reflexivity. }
  split; cbn [y_n y_p y_m y_nlb y_nub y_Psym y_AT y_GT y_rho y_delta y_s y_zinv y_lbidx y_ubidx y_lbs y_ubs
              y_slb y_sub y_zli y_zui y_rx y_ry y_rz y_rzlb y_rzub y_rs y_rslb y_rsub sys_of].
  - (* x *)
    intros i Hi. unfold fv at 9. rewrite Nrx, Nr1.
    rewrite (nth_vadd (vadd _ _) (vadd _ _)), (nth_vadd (Psym_mul _ _) (vscale _ _)), (nth_vadd (mat_vec _ _ _) (mat_vec _ _ _))
      by (rewrite ?vadd_length, ?vscale_length, ?Psym_mul_length, ?mat_vec_length by assumption; nlia).
    rewrite nth_vscale. rewrite !nth_mat_vec by assumption. rewrite nth_Psym_mul by assumption.
    rewrite HA1, HG1. unfold Qcminus.
    apply (f_equal2 Qcplus); [apply (f_equal2 Qcplus); [reflexivity|] | ].
    + rewrite <- sum_opp. apply sum_ext. intros i0 Hi0. unfold fidx. destruct (Nat.eqb _ i); [|qring].
      rewrite nth_vmul, nth_head by assumption. reflexivity.
    + apply sum_ext. intros i0 Hi0. unfold fidx. destruct (Nat.eqb _ i); [|reflexivity].
      rewrite nth_vmul, nth_head by assumption. reflexivity.
  - (* y *)
    intros l Hl. unfold fv at 3.
    rewrite nth_vsub, nth_vscale, nth_matT_vec by (rewrite vscale_length, matT_vec_length; nlia).
    rewrite DT by assumption. reflexivity.
  - (* z *)
    intros l Hl. unfold fv at 4.
    rewrite nth_vadd, nth_vsub, nth_vscale, nth_matT_vec
      by (rewrite ?vsub_length, ?vscale_length, ?matT_vec_length; nlia).
    rewrite DT by assumption. reflexivity.
  - (* z_lb *)
    intros i Hi. unfold fv at 5.
    rewrite nth_vadd, nth_vsub, nth_vneg, nth_vscale, nth_vmul
      by (rewrite ?vsub_length, ?vneg_length, ?vscale_length, ?vmul_length; nlia).
    rewrite nth_head by assumption. destruct (Nxlb i 0 Hi) as [_ ->]. reflexivity.
  - (* z_ub *)
    intros i Hi. unfold fv at 5.
    rewrite nth_vadd, nth_vsub, nth_vscale, nth_vmul
      by (rewrite ?vsub_length, ?vscale_length, ?vmul_length; nlia).
    rewrite nth_head by assumption. destruct (Nxub i 0 Hi) as [_ ->]. reflexivity.
  - (* s *)
    intros l Hl. unfold fv at 5.
    rewrite nth_vadd, !nth_vmul by (rewrite !vmul_length; nlia).
    destruct (Nz l ltac:(nlia)) as [_ ->]. reflexivity.
  - (* s_lb *)
    intros i Hi. unfold fv at 5.
    rewrite nth_vadd, !nth_vmul by (rewrite !vmul_length; nlia).
    destruct (Nzlb i Hi) as [_ ->]. rewrite !nth_head by assumption. reflexivity.
  - (* s_ub *)
    intros i Hi. unfold fv at 5.
    rewrite nth_vadd, !nth_vmul by (rewrite !vmul_length; nlia).
    destruct (Nzub i Hi) as [_ ->]. rewrite !nth_head by assumption. reflexivity.
Qed.

(* ================================================================ Part C : uniqueness *)
Lemma kkt_multiply_idx d k v r : wf_step d v -> kkt_multiply d k v = Ok r ->
  (forall i, (i < d_nlb d)%nat -> (nth i (d_lb_idx d) O < d_n d)%nat) /\
  (forall i, (i < d_nub d)%nat -> (nth i (d_ub_idx d) O < d_n d)%nat).
Proof.
  intros (Lx & _) H. unfold kkt_multiply in H. cbv zeta in H.
  apply bind_ok in H as (r1 & _ & H). apply bind_ok in H as (rx & _ & H).
  apply bind_ok in H as (xlb & Hxlb & H). apply bind_ok in H as (xub & Hxub & H).
  apply gather_ok in Hxlb as [_ Nxlb]. apply gather_ok in Hxub as [_ Nxub].
  split; intros i Hi; [destruct (Nxlb i 0 Hi) as [A _] | destruct (Nxub i 0 Hi) as [A _]]; nlia.
Qed.

Lemma a_ATdx_ext Y dx dx' l : (forall j, (j < y_n Y)%nat -> dx j = dx' j) -> a_ATdx Y dx l = a_ATdx Y dx' l.
Proof. intros H. unfold a_ATdx. apply sum_ext. intros j Hj. rewrite (H j Hj). reflexivity. Qed.
Lemma a_GTdx_ext Y dx dx' l : (forall j, (j < y_n Y)%nat -> dx j = dx' j) -> a_GTdx Y dx l = a_GTdx Y dx' l.
Proof. intros H. unfold a_GTdx. apply sum_ext. intros j Hj. rewrite (H j Hj). reflexivity. Qed.
Lemma a_dy_ext Y dx dx' l : (forall j, (j < y_n Y)%nat -> dx j = dx' j) -> a_dy Y dx l = a_dy Y dx' l.
Proof. intros H. unfold a_dy. rewrite (a_ATdx_ext Y dx dx' l H). reflexivity. Qed.
Lemma a_dz_ext Y dx dx' l : (forall j, (j < y_n Y)%nat -> dx j = dx' j) -> a_dz Y dx l = a_dz Y dx' l.
Proof. intros H. unfold a_dz. rewrite (a_GTdx_ext Y dx dx' l H). reflexivity. Qed.
Lemma a_ds_ext Y dx dx' l : (forall j, (j < y_n Y)%nat -> dx j = dx' j) -> a_ds Y dx l = a_ds Y dx' l.
Proof. intros H. unfold a_ds. rewrite (a_dz_ext Y dx dx' l H). reflexivity. Qed.
Lemma a_dzlb_ext Y dx dx' k : dx (y_lbidx Y k) = dx' (y_lbidx Y k) -> a_dzlb Y dx k = a_dzlb Y dx' k.
Proof. intros H. unfold a_dzlb. rewrite H. reflexivity. Qed.
Lemma a_dslb_ext Y dx dx' k : dx (y_lbidx Y k) = dx' (y_lbidx Y k) -> a_dslb Y dx k = a_dslb Y dx' k.
Proof. intros H. unfold a_dslb. rewrite (a_dzlb_ext Y dx dx' k H). reflexivity. Qed.
Lemma a_dzub_ext Y dx dx' k : dx (y_ubidx Y k) = dx' (y_ubidx Y k) -> a_dzub Y dx k = a_dzub Y dx' k.
Proof. intros H. unfold a_dzub. rewrite H. reflexivity. Qed.
Lemma a_dsub_ext Y dx dx' k : dx (y_ubidx Y k) = dx' (y_ubidx Y k) -> a_dsub Y dx k = a_dsub Y dx' k.
Proof. intros H. unfold a_dsub. rewrite (a_dzub_ext Y dx dx' k H). reflexivity. Qed.

(* any step whose image under the full operator is r satisfies the reduced system and the recovery formulas *)
Section Determined.
  Variable d : Data.
  Variable k : KKT.
  Hypothesis Hd : wf_data d.
  Hypothesis Hk : wf_scal d k.
  Hypothesis Hpos : pos_scal d k.
  Variables v r : Step.
  Hypothesis Hv : wf_step d v.
  Hypothesis Hm : kkt_multiply d k v = Ok r.
  Local Notation Y := (sys_of_step d k r).

  Let N0 : y_delta Y <> 0. Proof. apply Qclt_neq0. apply Hpos. Qed.
  Let N1 : forall l, (l < y_m Y)%nat -> y_zinv Y l <> 0.
  Proof. intros l Hl. apply Qclt_neq0. apply Hpos. assumption. Qed.
  Let N2 : forall l, (l < y_m Y)%nat -> y_s Y l * y_zinv Y l + y_delta Y <> 0.
  Proof. intros l Hl. destruct Hpos as (P0 & P1 & _). destruct (P1 l Hl). apply Qc_den_pos; try assumption. apply Qclt_le_weak. assumption. Qed.
  Let N3 : forall i, (i < y_nlb Y)%nat -> y_zli Y i <> 0.
  Proof. intros i Hi. apply Qclt_neq0. apply Hpos. assumption. Qed.
  Let N4 : forall i, (i < y_nlb Y)%nat -> y_slb Y i * y_zli Y i + y_delta Y <> 0.
  Proof. intros i Hi. destruct Hpos as (P0 & _ & P2 & _). destruct (P2 i Hi). apply Qc_den_pos; try assumption. apply Qclt_le_weak. assumption. Qed.
  Let N5 : forall i, (i < y_nub Y)%nat -> y_zui Y i <> 0.
  Proof. intros i Hi. apply Qclt_neq0. apply Hpos. assumption. Qed.
  Let N6 : forall i, (i < y_nub Y)%nat -> y_sub Y i * y_zui Y i + y_delta Y <> 0.
  Proof. intros i Hi. destruct Hpos as (P0 & _ & _ & P3). destruct (P3 i Hi). apply Qc_den_pos; try assumption. apply Qclt_le_weak. assumption. Qed.

  Let R := kkt_multiply_rows d k v r Hd Hk Hv Hm.

  Lemma det_reduced i : (i < d_n d)%nat ->
    sum (d_n d) (fun j => Kred_of d k i j * fv (st_x v) j) = a_rhs Y i.
  Proof.
    intros Hi. destruct R as [Rx Ry Rz Rzlb Rzub Rs Rslb Rsub].
    apply (reduced_from_full Y (fv (st_x v)) i Hi).
    exact (rev_row_x Y _ _ _ _ _ _ _ _ N0 N1 N2 N3 N4 N5 N6 Rx Ry Rz Rzlb Rzub Rs Rslb Rsub i Hi).
  Qed.

  Lemma det_blocks :
    (forall l, (l < d_p d)%nat -> fv (st_y v) l = a_dy Y (fv (st_x v)) l) /\
    (forall l, (l < d_m d)%nat -> fv (st_z v) l = a_dz Y (fv (st_x v)) l) /\
    (forall i, (i < d_nlb d)%nat -> fv (st_z_lb v) i = a_dzlb Y (fv (st_x v)) i) /\
    (forall i, (i < d_nub d)%nat -> fv (st_z_ub v) i = a_dzub Y (fv (st_x v)) i) /\
    (forall l, (l < d_m d)%nat -> fv (st_s v) l = a_ds Y (fv (st_x v)) l) /\
    (forall i, (i < d_nlb d)%nat -> fv (st_s_lb v) i = a_dslb Y (fv (st_x v)) i) /\
    (forall i, (i < d_nub d)%nat -> fv (st_s_ub v) i = a_dsub Y (fv (st_x v)) i).
  Proof.
    destruct R as [Rx Ry Rz Rzlb Rzub Rs Rslb Rsub]. repeat split; intros.
    - exact (rev_dy Y _ _ N0 Ry l H).
    - exact (rev_dz Y _ _ _ N1 N2 Rz Rs l H).
    - exact (rev_dzlb Y _ _ _ N3 N4 Rzlb Rslb i H).
    - exact (rev_dzub Y _ _ _ N5 N6 Rzub Rsub i H).
    - exact (rev_ds Y _ _ _ N1 N2 Rz Rs l H).
    - exact (rev_dslb Y _ _ _ N3 N4 Rzlb Rslb i H).
    - exact (rev_dsub Y _ _ _ N5 N6 Rzub Rsub i H).
  Qed.
End Determined.

(* C10-T1 piece: the full regularised Newton operator is injective on convex problems *)
Theorem full_system_solution_unique d k v1 v2 r :
  wf_data d -> wf_scal d k -> 0 < k_rho k -> pos_scal d k -> P_psd d ->
  wf_step d v1 -> wf_step d v2 ->
  kkt_multiply d k v1 = Ok r -> kkt_multiply d k v2 = Ok r ->
  v1 = v2.
Proof.
  intros Hd Hk Hrho Hpos HP Hv1 Hv2 H1 H2.
  pose proof (det_reduced d k Hd Hk Hpos v1 r Hv1 H1) as E1.
  pose proof (det_reduced d k Hd Hk Hpos v2 r Hv2 H2) as E2.
  destruct (det_blocks d k Hd Hk Hpos v1 r Hv1 H1) as (A1 & A2 & A3 & A4 & A5 & A6 & A7).
  destruct (det_blocks d k Hd Hk Hpos v2 r Hv2 H2) as (B1 & B2 & B3 & B4 & B5 & B6 & B7).
  destruct (kkt_multiply_idx d k v1 r Hv1 H1) as [Ilb Iub].
  assert (Ex : forall i, (i < d_n d)%nat -> fv (st_x v1) i = fv (st_x v2) i).
  { apply (pos_def_injective (d_n d) (Kred_of d k)); [apply Kred_pd_when_convex; assumption|].
    intros i Hi. rewrite E1, E2 by assumption. reflexivity. }
  destruct Hv1 as (L1x & L1y & L1z & L1zlb & L1zub & L1s & L1slb & L1sub).
  destruct Hv2 as (L2x & L2y & L2z & L2zlb & L2zub & L2s & L2slb & L2sub).
  destruct v1 as [x1 y1 z1 zlb1 zub1 s1 slb1 sub1]. destruct v2 as [x2 y2 z2 zlb2 zub2 s2 slb2 sub2].
  cbn [st_x st_y st_z st_z_lb st_z_ub st_s st_s_lb st_s_ub] in *.
  f_equal; (apply vec_ext; [nlia|]).
  - rewrite L1x. exact Ex.
  - rewrite L1y. intros l Hl. change (fv y1 l = fv y2 l). rewrite A1, B1 by assumption. apply a_dy_ext. exact Ex.
  - rewrite L1z. intros l Hl. change (fv z1 l = fv z2 l). rewrite A2, B2 by assumption. apply a_dz_ext. exact Ex.
  - rewrite L1zlb. intros i Hi. change (fv zlb1 i = fv zlb2 i). rewrite A3, B3 by assumption.
    apply a_dzlb_ext. apply Ex. apply Ilb. assumption.
  - rewrite L1zub. intros i Hi. change (fv zub1 i = fv zub2 i). rewrite A4, B4 by assumption.
    apply a_dzub_ext. apply Ex. apply Iub. assumption.
  - rewrite L1s. intros l Hl. change (fv s1 l = fv s2 l). rewrite A5, B5 by assumption. apply a_ds_ext. exact Ex.
  - rewrite L1slb. intros i Hi. change (fv slb1 i = fv slb2 i). rewrite A6, B6 by assumption.
    apply a_dslb_ext. apply Ex. apply Ilb. assumption.
  - rewrite L1sub. intros i Hi. change (fv sub1 i = fv sub2 i). rewrite A7, B7 by assumption.
    apply a_dsub_ext. apply Ex. apply Iub. assumption.
Qed.

(* the step returned by kkt_solve has the right block lengths *)
Lemma kkt_solve_wf_step (S : Settings) d k refine rx ry rz rzlb rzub rs rslb rsub step :
  wf_data d -> wf_scal d k -> wf_rhs d rx ry rz rzlb rzub rs rslb rsub ->
  length (k_mat k) = d_n d ->
  (forall f rhs x, k_fact k = Some f -> length rhs = d_n d -> llt_solve f rhs = Ok x -> length x = d_n d) ->
  refine = false ->
  kkt_solve S d k refine rx ry rz rzlb rzub rs rslb rsub = Ok step -> wf_step d step.
Proof.
  intros Hd Hk (Lrx & Lry & Lrz & Lrzlb & Lrzub & Lrs & Lrslb & Lrsub) Lmat Hllt -> H.
  destruct Hd as (HP1 & HP2 & HA1 & HA2 & HG1 & HG2 & Hlbs & Hubs & HPlow).
  destruct Hk as (Ks & Kzinv & Kslb & Kzli & Ksub & Kzui).
  unfold kkt_solve in H. cbv zeta in H.
  apply bind_ok in H as (dinv & Hdinv & H). apply bind_ok in H as (w & Hw & H).
  apply bind_ok in H as (wlb & Hwlb & H). apply bind_ok in H as (wub & Hwub & H).
  apply bind_ok in H as (r2 & Hr2 & H). apply bind_ok in H as (rhs & Hrhs & H).
  apply bind_ok in H as (sol0 & Hsol0 & H). cbn [andb bind] in H.
  apply bind_ok in H as (xlb & Hxlb & H). apply bind_ok in H as (xub & Hxub & H).
  injection H as <-.
  apply vinv_ok in Hw as [Lw _]. apply vinv_ok in Hwlb as [Lwlb _]. apply vinv_ok in Hwub as [Lwub _].
  rewrite vaddc_length, vmul_length in Lw, Lwlb, Lwub. rewrite !head_length in Lwlb, Lwub by assumption.
  apply gather_ok in Hxlb as [Lxlb _]. apply gather_ok in Hxub as [Lxub _].
  fold (d_nlb d) in Lxlb. fold (d_nub d) in Lxub.
  assert (Lrhs : length rhs = d_n d).
  { pose proof (scatter_with_ok Qcplus (fun x => x) (fun a x => eq_refl) _ _ _ _ Hrhs) as (L1 & _).
    pose proof (scatter_with_ok Qcminus Qcopp (fun a x => eq_refl) _ _ _ _ Hr2) as (L2 & _).
    eapply eq_trans; [exact L1|]. eapply eq_trans; [exact L2|].
    rewrite !vadd_length, vscale_length, !mat_vec_length by assumption. nlia. }
  assert (Lsol : length sol0 = d_n d).
  { unfold solve_ldlt in Hsol0. destruct (k_fact k) as [f|] eqn:Hf; [|discriminate]. eapply Hllt; eauto. }
  unfold wf_step. cbn [st_x st_y st_z st_z_lb st_z_ub st_s st_s_lb st_s_ub].
  repeat progress (rewrite ?vsub_length, ?vadd_length, ?vmul_length, ?vneg_length, ?vscale_length, ?matT_vec_length,
    ?head_length by assumption).
  repeat split; nlia.
Qed.

Lemma kkt_solve_dense_wf_step (S : Settings) d k0 k f rx ry rz rzlb rzub rs rslb rsub step :
  wf_data d -> wf_scal d k0 -> ((0 < d_p d)%nat -> k_ATA k0 = compute_ATA d) ->
  update_kkt d k0 = Ok k -> llt_compute (k_mat k) = Ok (Some f) ->
  wf_rhs d rx ry rz rzlb rzub rs rslb rsub ->
  kkt_solve S d (k <| k_fact := Some f |>) false rx ry rz rzlb rzub rs rslb rsub = Ok step ->
  wf_step d step.
Proof.
  intros Hd Hk HATA Hupd Hc Hrhs Hs.
  destruct (update_kkt_denotes_Kred d k0 k Hd Hk HATA Hupd) as (Ek & Lmat & Hwf & HK).
  destruct (set_k_fact_proj k (Some f)) as (F1 & F2 & F3 & F4 & F5 & F6 & F7 & F8 & F9 & F10 & F11).
  destruct (set_k_mat_proj k0 (k_mat k)) as (M1 & M2 & M3 & M4 & M5 & M6 & M7 & M8 & M9 & M10 & M11).
  rewrite <- Ek in M2, M3, M4, M5, M6, M7, M8, M9.
  set (k' := k <| k_fact := Some f |>) in *.
  assert (Hk' : wf_scal d k').
  { destruct Hk as (H1 & H2 & H3 & H4 & H5 & H6). unfold wf_scal.
    rewrite F4, F5, F6, F7, F8, F9, M4, M5, M6, M7, M8, M9. repeat split; assumption. }
  assert (Lmat' : length (k_mat k') = d_n d) by (rewrite F1; assumption).
  assert (Hllt' : forall f0 rhs x, k_fact k' = Some f0 -> length rhs = d_n d -> llt_solve f0 rhs = Ok x -> length x = d_n d).
  { intros f0 rhs x Hf0 Lrhs Hx. rewrite F11 in Hf0. injection Hf0 as <-.
    destruct (llt_solve_correct (k_mat k) f rhs Hwf Hc ltac:(nlia)) as (x' & Hx' & Lx' & _).
    rewrite Hx in Hx'. injection Hx' as <-. nlia. }
  exact (kkt_solve_wf_step S d k' false rx ry rz rzlb rzub rs rslb rsub step Hd Hk' Hrhs Lmat' Hllt' eq_refl Hs).
Qed.

(* Corollary: whatever computes, for the same data / scalings / right-hand side, a step of the right shape whose image
   under the full operator is the right-hand side (residual exactly zero) computes the step of the dense kkt_solve *)
Theorem any_exact_backend_agrees_with_dense (S : Settings) d k0 k f rx ry rz rzlb rzub rs rslb rsub step step' :
  wf_data d -> wf_scal d k0 -> 0 < k_rho k0 -> pos_scal d k0 -> P_psd d ->
  ((0 < d_p d)%nat -> k_ATA k0 = compute_ATA d) ->
  update_kkt d k0 = Ok k ->
  llt_compute (k_mat k) = Ok (Some f) ->
  wf_rhs d rx ry rz rzlb rzub rs rslb rsub ->
  kkt_solve S d (k <| k_fact := Some f |>) false rx ry rz rzlb rzub rs rslb rsub = Ok step ->
  wf_step d step' ->
  kkt_multiply d (k <| k_fact := Some f |>) step'
  = Ok {| st_x := rx; st_y := ry; st_z := rz; st_z_lb := rzlb; st_z_ub := rzub;
          st_s := rs; st_s_lb := rslb; st_s_ub := rsub |} ->
  step' = step.
Proof.
  intros Hd Hk Hrho Hpos HP HATA Hupd Hc Hrhs Hs Hw' Hm'.
  pose proof (kkt_solve_exact_dense S d k0 k f _ _ _ _ _ _ _ _ step Hd Hk Hpos HATA Hupd Hc Hrhs Hs) as Hm.
  destruct (update_kkt_denotes_Kred d k0 k Hd Hk HATA Hupd) as (Ek & Lmat & Hwf & HK).
  destruct (set_k_fact_proj k (Some f)) as (F1 & F2 & F3 & F4 & F5 & F6 & F7 & F8 & F9 & F10 & F11).
  destruct (set_k_mat_proj k0 (k_mat k)) as (M1 & M2 & M3 & M4 & M5 & M6 & M7 & M8 & M9 & M10 & M11).
  rewrite <- Ek in M2, M3, M4, M5, M6, M7, M8, M9.
  set (k' := k <| k_fact := Some f |>) in *.
  assert (Hk' : wf_scal d k').
  { destruct Hk as (H1 & H2 & H3 & H4 & H5 & H6). unfold wf_scal.
    rewrite F4, F5, F6, F7, F8, F9, M4, M5, M6, M7, M8, M9. repeat split; assumption. }
  assert (Hp' : pos_scal d k').
  { unfold pos_scal. rewrite F3, F4, F5, F6, F7, F8, F9, M3, M4, M5, M6, M7, M8, M9. exact Hpos. }
  assert (Hrho' : 0 < k_rho k') by (rewrite F2, M2; assumption).
  assert (Hws : wf_step d step).
  { assert (Lmat' : length (k_mat k') = d_n d) by (rewrite F1; assumption).
    assert (Hllt' : forall f0 rhs x, k_fact k' = Some f0 -> length rhs = d_n d -> llt_solve f0 rhs = Ok x -> length x = d_n d).
    { intros f0 rhs x Hf0 Lrhs Hx. rewrite F11 in Hf0. injection Hf0 as <-.
      destruct (llt_solve_correct (k_mat k) f rhs Hwf Hc ltac:(nlia)) as (x' & Hx' & Lx' & _).
      rewrite Hx in Hx'. injection Hx' as <-. nlia. }
    exact (kkt_solve_wf_step S d k' false rx ry rz rzlb rzub rs rslb rsub step Hd Hk' Hrhs Lmat' Hllt' eq_refl Hs). }
  exact (full_system_solution_unique d k' step' step _ Hd Hk' Hrho' Hp' HP Hw' Hws Hm' Hm).
Qed.

(* ================================================================ Part D : concrete instance (ex_d, ex_k0, ex_rhs of KKTProofs.v) *)
Example ex_unique : forall S : Settings,
  wf_data ex_d /\ wf_scal ex_d ex_k0 /\ 0 < k_rho ex_k0 /\ pos_scal ex_d ex_k0 /\ P_psd ex_d /\
  exists k f step,
    update_kkt ex_d ex_k0 = Ok k /\ llt_compute (k_mat k) = Ok (Some f) /\
    ex_solve S (k <| k_fact := Some f |>) false = Ok step /\
    wf_step ex_d step /\
    kkt_multiply ex_d (k <| k_fact := Some f |>) step = Ok ex_rhs /\
    forall step', wf_step ex_d step' -> kkt_multiply ex_d (k <| k_fact := Some f |>) step' = Ok ex_rhs -> step' = step.
Proof.
  intros S. split; [apply ex_wf_data|]. split; [apply ex_wf_scal|]. split; [apply ex_rho_pos|].
  split; [apply ex_pos_scal|]. split; [apply ex_P_psd|].
  destruct (ex_hypotheses_satisfiable S) as (_ & _ & _ & _ & _ & k & f & step & Hk & Hf & Hs & Hm).
  exists k, f, step. split; [assumption|]. split; [assumption|]. split; [assumption|].
  assert (U : forall step', wf_step ex_d step' -> kkt_multiply ex_d (k <| k_fact := Some f |>) step' = Ok ex_rhs -> step' = step).
  { intros step' Hw' Hm'.
    exact (any_exact_backend_agrees_with_dense S ex_d ex_k0 k f _ _ _ _ _ _ _ _ step step'
             ex_wf_data ex_wf_scal ex_rho_pos ex_pos_scal ex_P_psd (fun _ => eq_refl) Hk Hf ex_wf_rhs Hs Hw' Hm'). }
  split; [|split; assumption].
  exact (kkt_solve_dense_wf_step S ex_d ex_k0 k f _ _ _ _ _ _ _ _ step ex_wf_data ex_wf_scal (fun _ => eq_refl) Hk Hf ex_wf_rhs Hs).
Qed.

(* injectivity seen by evaluation: shifting delta_x of the solution changes the image *)
Example ex_perturbed_image_differs : forall S : Settings,
  match update_kkt ex_d ex_k0 with
  | Ok k => match llt_compute (k_mat k) with
            | Ok (Some f) =>
                match ex_solve S (k <| k_fact := Some f |>) false with
                | Ok step =>
                    match kkt_multiply ex_d (k <| k_fact := Some f |>) {| st_x := vaddc 1 (st_x step); st_y := st_y step; st_z := st_z step; st_z_lb := st_z_lb step;
                         st_z_ub := st_z_ub step; st_s := st_s step; st_s_lb := st_s_lb step; st_s_ub := st_s_ub step |} with
                    | Ok r => negb (step_eqb r ex_rhs)
                    | Err _ => false
                    end
                | Err _ => false
                end
            | _ => false
            end
  | Err _ => false
  end = true.
Proof. intros S. vm_compute. reflexivity. Qed.
