(* CertsExample.v -- concrete instances showing that the hypotheses of the C03 theorems are satisfiable (non-vacuity). *)
From PIQP Require Import Base LinAlg Certs CertsProofs.
Local Open Scope Qc_scope.

Definition q (z : Z) : F := qofZ z.

(* min 1/2 x1^2 + 2 x2   s.t.  x1 + x2 = 1,  x1 <= 3,  x2 >= 0  (singular P, active bound):  x* = (1,0) *)
Definition pbK : QP :=
  {| q_n := 2; q_p := 1; q_m := 1;
     q_P := [[q 1; q 0]; [q 7; q 0]];            (* the entry below the diagonal is never read *)
     q_c := [q 0; q 2];
     q_A := [[q 1; q 1]]; q_b := [q 1];
     q_G := [[q 1; q 0]]; q_h := [q 3];
     q_lb := [None; Some (q 0)]; q_ub := [None; None] |}.
Lemma pbK_certified : is_kkt_point pbK [q 1; q 0] [q (-1)] [q 0] [q 0; q 1] [q 0; q 0] = true /\ is_psd pbK = true.
Proof. split; vm_compute; reflexivity. Qed.
Lemma pbK_optimal : forall x' : nat -> F, feasible pbK x' -> objective pbK (el [q 1; q 0]) <= objective pbK x'.
Proof. destruct pbK_certified as [H1 H2]. exact (proj2 (kkt_point_is_optimal_proof pbK _ _ _ _ _ H1 H2)). Qed.

(* an indefinite matrix and a negative semidefinite one are rejected, a singular PSD one with a zero pivot is accepted *)
Lemma psd_examples :
  psd_fn 2 (ent [[q 1; q 2]; [q 0; q 1]]) = false /\
  psd_fn 2 (ent [[q 0; q 1]; [q 0; q 1]]) = false /\
  psd_fn 3 (ent [[q 1; q 1; q 0]; [q 0; q 1; q 0]; [q 0; q 0; q 0]]) = true /\
  psd_fn 2 (ent [[q 0; q 0]; [q 0; q 5]]) = true.
Proof. repeat split; vm_compute; reflexivity. Qed.

(* x1 <= -1 against x1 >= 0 *)
Definition pbF : QP :=
  {| q_n := 1; q_p := 0; q_m := 1; q_P := [[q 1]]; q_c := [q 0]; q_A := []; q_b := [];
     q_G := [[q 1]]; q_h := [q (-1)]; q_lb := [Some (q 0)]; q_ub := [None] |}.
Lemma pbF_certified : is_farkas pbF [] [q 1] [q 1] [q 0] = true /\ farkas_val pbF [] [q 1] [q 1] [q 0] = - (1)
                      /\ farkas_norm1 pbF [] [q 1] [q 1] [q 0] = q 2.
Proof. repeat split; apply Qc_is_canon || idtac; vm_compute; reflexivity. Qed.
Lemma pbF_infeasible : forall x : nat -> F, ~ feasible pbF x.
Proof. exact (farkas_excludes_feasible_proof pbF _ _ _ _ (proj1 pbF_certified)). Qed.

(* min -x1  s.t.  x1 >= 0 *)
Definition pbR : QP :=
  {| q_n := 1; q_p := 0; q_m := 0; q_P := [[q 0]]; q_c := [q (-1)]; q_A := []; q_b := [];
     q_G := []; q_h := []; q_lb := [Some (q 0)]; q_ub := [None] |}.
Lemma pbR_certified : is_recession pbR [q 1] = true /\ recession_val pbR [q 1] = - (1) /\ is_feasible pbR [q 0] = true.
Proof. repeat split; apply Qc_is_canon || idtac; vm_compute; reflexivity. Qed.
Lemma pbR_unbounded : forall M : F, exists x, feasible pbR x /\ objective pbR x < M.
Proof.
  intros M. apply (recession_unbounded_proof pbR _ (proj1 pbR_certified) (el [q 0])).
  apply feasibleb_spec. exact (proj2 (proj2 pbR_certified)).
Qed.
