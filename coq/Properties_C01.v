(* Properties_C01.v -- C01 "SOLVED implies a valid optimality certificate for the user's problem":
   T2 (update_nr_residuals computes the true residuals of the user's problem at the unscaled point),
   T4 (the SOLVED exit carries the certificate), sign preservation.  Vocabulary: ResidSpec.v. *)
From PIQP Require Import Base Data Bounds PrecondDense KKTDense IPM API ResidLemmas ResidSpec ResidProofs ResidLoopProofs ResidExample.
From PIQP.gen Require Import Consts.
Local Open Scope Qc_scope.

(* T2: for ALL data, scalings, sizes and an ARBITRARY iterate *)
Theorem nr_residuals_are_true_residuals :
  forall (d : Data) (pc : Precond) (U : UserQP) (K : Consts) (it : Iterate) (inf : Info) (res : Resid) (inf' : Info),
  data_shape d -> pc_shape pc d -> pc_inverse pc d -> 0 < pc_c pc ->
  is_scaled_of pc d U -> lower_zero (d_n d) (d_P d) -> it_shape d it ->
  update_nr_residuals d pc K it inf = Ok (res, inf') ->
  nr_true U d pc (k_half K) it res inf'.
Proof. exact nr_residuals_are_true_residuals_proof. Qed.
Print Assumptions nr_residuals_are_true_residuals.

Theorem update_nr_residuals_total :
  forall (d : Data) (pc : Precond) (U : UserQP) (K : Consts) (it : Iterate) (inf : Info),
  data_shape d -> pc_shape pc d -> pc_inverse pc d ->
  is_scaled_of pc d U -> lower_zero (d_n d) (d_P d) -> it_shape d it ->
  exists res inf', update_nr_residuals d pc K it inf = Ok (res, inf').
Proof. exact update_nr_residuals_total_proof. Qed.
Print Assumptions update_nr_residuals_total.

(* positive scalings: z, s >= 0 (resp. > 0) in scaled space iff in user space, entry by entry *)
Theorem unscale_keeps_sign :
  forall (d : Data) (pc : Precond) (it : Iterate),
  pc_shape pc d -> pc_inverse pc d -> pc_positive pc d -> it_shape d it ->
  let X := unscale_point pc it in
  same_sign (d_m d) (el (z it)) (el (p_z X)) /\ same_sign (d_nlb d) (el (z_lb it)) (el (p_zlb X)) /\
  same_sign (d_nub d) (el (z_ub it)) (el (p_zub X)) /\ same_sign (d_m d) (el (s it)) (el (p_s X)) /\
  same_sign (d_nlb d) (el (s_lb it)) (el (p_slb X)) /\ same_sign (d_nub d) (el (s_ub it)) (el (p_sub X)).
Proof. exact unscale_keeps_sign_proof. Qed.
Print Assumptions unscale_keeps_sign.

(* the SOLVED test on true residuals is the certificate, with exactly the thresholds of the settings *)
Theorem solved_test_certificate :
  forall U d pc S half it res inf,
  nr_true U d pc half it res inf ->
  solved_test S (top_info pc res inf) = true ->
  certificate U d S half (unscale_point pc it).
Proof. exact solved_test_certificate_proof. Qed.
Print Assumptions solved_test_certificate.

Theorem certificate_is_entrywise :
  forall U d S half X, certificate U d S half X -> certificate_entrywise U d S half X.
Proof. exact certificate_entrywise_proof. Qed.
Print Assumptions certificate_is_entrywise.

(* T4 for one pass of the loop *)
Theorem solved_certificate :
  forall U d pc K S fault cp st st',
  scaled_problem U d pc ->
  loop_pass K S d pc fault cp st = Ok (Stop st') ->
  i_status (st_inf st') = SOLVED ->
  (i_iter (st_inf st) = 0%Z \/ nr_consistent d pc K (st_it st) (st_res st) (st_inf st)) ->
  it_shape d (st_it st) ->
  st_it st' = st_it st /\
  certificate U d S (k_half K) (unscale_point pc (st_it st')) /\
  diagnostics_true U d pc (k_half K) (st_it st') (st_inf st').
Proof. exact solved_certificate_pass. Qed.
Print Assumptions solved_certificate.

(* T4 for the whole main loop: whatever the iterates, factorisation failures, refinement, boundary shifts *)
Theorem solved_certificate_loop :
  forall U d pc K S fault cp fuel st st',
  scaled_problem U d pc ->
  main_loop K S d pc fault cp fuel st = Ok st' ->
  pass_inv K S d pc st ->
  i_status (st_inf st') = SOLVED ->
  it_shape d (st_it st') ->
  certificate U d S (k_half K) (unscale_point pc (st_it st')) /\
  diagnostics_true U d pc (k_half K) (st_it st') (st_inf st').
Proof. exact solved_certificate_main_loop. Qed.
Print Assumptions solved_certificate_loop.

(* T4 at solve(): the vectors handed to unscale_and_restore *)
Theorem solved_certificate_solve :
  forall K junk cp_bits U fault sv sv',
  scaled_problem U (sv_data sv) (sv_pc sv) ->
  solve K junk cp_bits fault sv = Ok (sv', SOLVED) ->
  exists it out,
    unscale_and_restore junk sv it = Ok out /\ sv_out sv' = out /\
    o_x out = p_x (unscale_point (sv_pc sv) it) /\ o_y out = p_y (unscale_point (sv_pc sv) it) /\
    o_z out = p_z (unscale_point (sv_pc sv) it) /\ o_s out = p_s (unscale_point (sv_pc sv) it) /\
    (it_shape (sv_data sv) it ->
     certificate U (sv_data sv) (sv_set sv) (k_half K) (unscale_point (sv_pc sv) it) /\
     diagnostics_true U (sv_data sv) (sv_pc sv) (k_half K) it (sv_info sv')).
Proof. exact solve_solved_certificate. Qed.
Print Assumptions solved_certificate_solve.

(* ---- non-vacuity: n=2, p=1, m=1, one lower and one upper bound, non-unit scalings ---- *)
Example ex_scaled_problem : scaled_problem exU exd expc.
Proof. exact ex_scaled_problem_proof. Qed.
Example ex_it_shape_any : it_shape exd exit_any.
Proof. exact ex_it_shape_any_proof. Qed.
Example ex_it_shape_opt : it_shape exd exit_opt.
Proof. exact ex_it_shape_opt_proof. Qed.
(* arbitrary point: non-zero residuals, code's value = value recomputed from the user's data *)
Example ex_run_any :
  match update_nr_residuals exd expc consts exit_any exinfo with
  | Ok (res, inf') =>
      veqb (unscale_dual_res expc (rx_nr res)) [q (-51553) 20790; q 367 378] &&
      veqb (tab 2 (fun i => - X_stat exU exd (unscale_point expc exit_any) i)) [q (-51553) 20790; q 367 378] &&
      qeqb (i_primal_obj inf') (X_pobj exU exd (unscale_point expc exit_any) (k_half consts)) &&
      negb (qeqb (i_primal_obj inf') 0) &&
      qltb 0 (primal_inf_nr expc res) && qltb 0 (dual_inf_nr expc res)
  | Err _ => false
  end = true.
Proof. exact ex_run_any_proof. Qed.
(* KKT point: the SOLVED test fires *)
Example ex_run_opt :
  match update_nr_residuals exd expc consts exit_opt exinfo with
  | Ok (res, inf') =>
      qeqb (primal_inf_nr expc res) 0 && qeqb (dual_inf_nr expc res) 0 && qeqb (i_duality_gap inf') 0 &&
      solved_test exS (top_info expc res inf')
  | Err _ => false
  end = true.
Proof. exact ex_run_opt_proof. Qed.
Example ex_loop_pass_solved :
  exists st', loop_pass consts exS exd expc (fun _ => false) (fun v => v) ex_st = Ok (Stop st') /\
              i_status (st_inf st') = SOLVED /\ i_iter (st_inf ex_st) = 0%Z.
Proof. exact ex_loop_pass_solved_proof. Qed.
(* the hypotheses hold for what the model's own setup() (Ruiz, 10 iterations, cost scaling) returns on a badly
   scaled instance of the same shape; the scalings it reports are not 1 *)
Example ex_setup_ok : exists sv, setup consts false false (q 0 1) exS_cost 2 1 1 exB = Ok sv.
Proof. exact ex_setup_ok_proof. Qed.
Example ex_setup_scaled_problem :
  forall sv, setup consts false false (q 0 1) exS_cost 2 1 1 exB = Ok sv ->
  scaled_problem exU2 (sv_data sv) (sv_pc sv) /\
  negb (qeqb (pc_c (sv_pc sv)) 1) && negb (qeqb (el (pc_delta (sv_pc sv)) 0) 1) && negb (qeqb (el (pc_delta_lb (sv_pc sv)) 0) 1) = true.
Proof. exact ex_setup_scaled_problem_proof. Qed.
Example ex_half : k_half consts = Q2Qc (1 # 2).
Proof. exact ex_half_proof. Qed.
