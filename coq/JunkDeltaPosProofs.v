(* JunkDeltaPosProofs.v -- C07: the trace condition [delta_ok] of junk_independence holds for every history whose
   settings satisfy the hypotheses of the interior-point theorems (C08): the regularisation stored in the KKT object
   is always a copy of an info.delta > 0. *)
From PIQP Require Import Base Data Bounds PrecondDense KKTDense IPM API InteriorProofs IPMControlProofs PrecondProofs
                         JunkProofs JunkShapeProofs JunkAPIProofs JunkWFProofs JunkFrameProofs JunkDeltaProofs
                         JunkHistoryProofs.
From Coq Require Import Lia.
From RecordUpdate Require Import RecordSet.
Import RecordSetNotations.
Local Open Scope Qc_scope.

Lemma do_update_scalings_kdelta d st st' :
  do_update_scalings d st = Ok st' -> k_delta (st_kkt st') = i_delta (st_inf st).
Proof.
  unfold do_update_scalings. intros E.
  destruct (kkt_update_scalings d (st_kkt st) _ _ _ _ _ _ _ _) as [k|] eqn:Ek; cbn [bind] in E; [|discriminate].
  injection E as <-. cbn. unfold kkt_update_scalings in Ek.
  repeat match type of Ek with bind ?e _ = _ => destruct e; cbn [bind] in Ek; [|discriminate Ek] end.
  apply update_kkt_fields in Ek. destruct Ek as (_ & _ & _ & _ & _ & _ & _ & ->). reflexivity.
Qed.

Lemma do_factorize_kdelta S d fault st st' ok :
  do_factorize S d fault st = Ok (st', ok) -> k_delta (st_kkt st') = k_delta (st_kkt st).
Proof.
  unfold do_factorize. intros E.
  destruct (regularize_and_factorize S d (st_kkt st) _ _) as [[k ok']|] eqn:Ek; cbn [bind] in E; [|discriminate].
  injection E as <- _. cbn. unfold regularize_and_factorize in Ek. destruct (fault (st_calls st)).
  - injection Ek as <- _. reflexivity.
  - destruct (llt_compute _) as [f|]; cbn [bind] in Ek; [|discriminate]. destruct f; injection Ek as <- _; reflexivity.
Qed.

Section Pass.
Variable K : Consts.
Variable S : Settings.
Variable d : Data.
Variable pc : Precond.
Variable fault : nat -> bool.
Variable cp : F -> F.

(* a pass either leaves the KKT object alone (early stop) or leaves it with k_delta = the info.delta it started with *)
Lemma loop_pass_kdelta st :
  wp (loop_pass K S d pc fault cp st)
     (fun o => st_kkt (outcome_state o) = st_kkt st \/ k_delta (st_kkt (outcome_state o)) = i_delta (st_inf st)).
Proof.
  cbv delta [loop_pass]. cbv beta.
  wp_let inf0.
  wp_bind_as v0 E0. wp_pair v0 res0 inf0a.
  assert (D0 : i_delta inf0a = i_delta (st_inf st)).
  { subst inf0. apply stage1_keeps in E0. apply E0. }
  clear E0.
  wp_let inf1. assert (D1 : i_delta inf1 = i_delta (st_inf st)) by exact D0. clearbody inf1. clear D0.
  wp_let st1.
  assert (S1k : st_kkt st1 = st_kkt st) by reflexivity.
  wp_if C1. { wp_ret. left. reflexivity. }
  wp_let it. wp_let rx. wp_let ry. wp_let rz. wp_let rz_lb. wp_let rz_ub.
  clearbody rx ry rz rz_lb rz_ub.
  wp_if C2. { wp_ret. left. reflexivity. }
  wp_if C3. { wp_ret. left. reflexivity. }
  clear C1 C2 C3.
  wp_let inf2. assert (D2 : i_delta inf2 = i_delta (st_inf st)) by exact D1. clearbody inf2.
  wp_let lt_eps'. wp_let sh_z. wp_let sh_lb. wp_let sh_ub. wp_let it3.
  clearbody sh_z sh_lb sh_ub. clear lt_eps'. clearbody it3.
  wp_bind_as inf3 E3.
  assert (D3 : i_delta inf3 = i_delta (st_inf st)).
  { destruct (sh_z || sh_lb || sh_ub).
    - destruct (mu_of d it3); cbn [bind] in E3; [|discriminate]. injection E3 as <-. exact D2.
    - injection E3 as <-. exact D2. }
  clear E3.
  wp_let inf4.
  assert (D4 : i_delta inf4 = i_delta (st_inf st)).
  { subst inf4. match goal with |- i_delta (if ?c then _ else _) = _ => destruct c end; exact D3. }
  clearbody inf4.
  wp_bind_as st4 E4.
  apply do_update_scalings_kdelta in E4.
  change (st_inf (st1 <| st_it := it3 |> <| st_inf := inf4 |>)) with inf4 in E4. rewrite D4 in E4.
  wp_bind_as v5 E5. wp_pair v5 st5 ok.
  apply do_factorize_kdelta in E5. rewrite E4 in E5. clear E4 st4.
  repeat wpk_step.
  all: right; exact E5.
Qed.

Hypothesis Hcp : cp_pos cp.
Hypothesis Htau0 : 0 < tau S.
Hypothesis Htau1 : tau S < 1.
Hypothesis Hfine : 0 < reg_finetune_lower_limit S.
Hypothesis Hepsabs : 0 < eps_abs S.
Hypothesis Hkeps : 0 < k_eps K.
Hypothesis Hretry : 0 < k_retry_mul K.
Hypothesis Hreglim : 0 < k_reglim_mul K.

Lemma main_loop_kdelta fuel : forall st st',
  Positive st -> 0 < k_delta (st_kkt st) -> main_loop K S d pc fault cp fuel st = Ok st' ->
  0 < k_delta (st_kkt st').
Proof.
  induction fuel as [|f IH]; intros st st' HP Hk E; cbn [main_loop] in E; [discriminate|].
  destruct (i_iter (st_inf st) <? max_iter S)%Z.
  - destruct (loop_pass K S d pc fault cp st) as [o|] eqn:E0; cbn [bind] in E; [|discriminate].
    pose proof (loop_pass_positive K S d pc fault cp Hcp Htau0 Htau1 Hfine Hepsabs Hkeps Hretry Hreglim st o HP E0) as HP'.
    pose proof (wp_elim _ _ _ (loop_pass_kdelta st) E0) as Hk'.
    assert (Hk'' : 0 < k_delta (st_kkt (outcome_state o))).
    { destruct Hk' as [-> | ->]; [exact Hk|]. destruct HP as [_ (_ & H & _)]. exact H. }
    destruct o as [st1|st1]; cbn [outcome_state] in *.
    + eapply IH; eauto.
    + injection E as <-. exact Hk''.
  - injection E as <-. exact Hk.
Qed.

Lemma init_factor_kdelta fuel : forall st st' ok,
  InfPos (st_inf st) -> 0 < k_delta (st_kkt st) -> init_factor K S d fault fuel st = Ok (st', ok) ->
  0 < k_delta (st_kkt st').
Proof.
  induction fuel as [|f IH]; intros st st' ok HI Hk H; cbn [init_factor] in H; [discriminate|].
  destruct (do_factorize S d fault st) as [[st1 ok1]|] eqn:E; cbn [bind] in H; [|discriminate].
  pose proof (do_factorize_kdelta _ _ _ _ _ _ E) as Hk1. rewrite <- Hk1 in Hk.
  apply do_factorize_keeps in E. destruct E as (_ & A2 & _). rewrite <- A2 in HI.
  destruct ok1; [injection H as <- _; exact Hk|].
  destruct (negb (st_refine st1)); [eapply IH; [| |exact H]; cbn; assumption|].
  destruct (i_factor_retires (st_inf st1) <? max_factor_retires S)%Z.
  - destruct (do_update_scalings d _) as [st2|] eqn:E2; cbn [bind] in H; [|discriminate].
    destruct (bump_reg_view K S Hepsabs Hretry Hreglim _ HI) as [HI' _].
    pose proof (do_update_scalings_kdelta _ _ _ E2) as Hk2. cbn in Hk2.
    apply do_update_scalings_keeps in E2. cbn in E2. destruct E2 as (_ & B2 & _).
    eapply IH; [| |exact H].
    + rewrite B2. exact HI'.
    + rewrite Hk2. apply HI'.
  - injection H as <- _. exact Hk.
Qed.

End Pass.

(* ---- the solver object ---- *)
Definition ConstsOK (K : Consts) : Prop :=
  1 < k_shift K /\ 0 < k_half K /\ 0 < k_sinit K /\ 0 <= k_snorm K /\ 0 < k_eps K /\ 0 < k_retry_mul K /\ 0 < k_reglim_mul K.

Definition SettingsOK (S : Settings) : Prop :=
  0 < tau S /\ tau S < 1 /\ 0 < reg_finetune_lower_limit S /\ 0 < eps_abs S /\
  0 < rho_init S /\ 0 < delta_init S /\ 0 < reg_lower_limit S.

Definition PosInv (sv : Solver) : Prop :=
  SettingsOK (sv_set sv) /\ 0 < k_delta (sv_kkt sv) /\
  (sv_kkt_init_state sv = true -> KSign (sv_data sv) (sv_kkt sv)).

Lemma entry_iterate_pos d o : ItPos (entry_iterate d o).
Proof.
  assert (H : (0 : Qc) < 1) by qlra.
  unfold ItPos, entry_iterate. cbn. repeat split; apply vpos_vconst; exact H.
Qed.

Theorem setup_posinv K ident sq j S n p m B sv :
  SettingsOK S -> setup K ident sq j S n p m B = Ok sv -> PosInv sv.
Proof.
  intros HS E. unfold setup in E. destruct (b_P B); [|discriminate]. destruct (b_c B); [|discriminate]. cbv zeta in E.
  repeat match type of E with context [match ?x with pair _ _ => _ end] => destruct x end.
  destruct (scale_data K _ _ _ _ _ _) as [[pc d]|]; cbn [bind] in E; [|discriminate].
  destruct (kkt_init d _ _ j) as [k|] eqn:Ek; cbn [bind] in E; [|discriminate].
  injection E as <-. unfold PosInv. cbn. split; [exact HS|]. split.
  - unfold kkt_init in Ek. apply update_kkt_fields in Ek. destruct Ek as (_ & _ & _ & _ & _ & _ & _ & ->). cbn. apply HS.
  - intros _. apply (kkt_init_ok _ _ _ _ _ Ek).
Qed.

Theorem update_posinv K sq sv B reuse sv' : PosInv sv -> update K sq sv B reuse = Ok sv' -> PosInv sv'.
Proof.
  intros (HS & Hk & _) E. rewrite update_split in E.
  destruct (update_data K sq sv B reuse) as [[pc d]|]; cbn [bind] in E; [|discriminate].
  destruct (kkt_update_data d (sv_kkt sv) _ _ _) as [k|] eqn:Ek; cbn [bind] in E; [|discriminate].
  injection E as <-. apply kkt_update_data_arrays in Ek. destruct Ek as (_ & _ & _ & _ & Ed).
  unfold PosInv. cbn. rewrite Ed. split; [exact HS|]. split; [exact Hk|discriminate].
Qed.

Theorem solve_posinv K n p m j cp_bits fault sv sv' stt :
  ConstsOK K -> WFd n p m sv -> PosInv sv -> solve K j cp_bits fault sv = Ok (sv', stt) -> PosInv sv'.
Proof.
  intros (Hksh & Hhalf & Hsinit & Hsnorm & Hkeps & Hretry & Hreglim) (HW & _)
         ((Htau0 & Htau1 & Hfine & Hepsabs & Hrho & Hdelta & Hreg) & Hk & HKS) E.
  pose proof (WFsv_SolveShape _ HW) as (HD & HP & HO & HKs).
  revert E. cbv delta [solve]. cbv beta zeta.
  set (S := sv_set sv) in *. set (d := sv_data sv) in *. set (pc := sv_pc sv) in *.
  match goal with |- bind ?e1 _ = _ -> _ => set (E1 := e1) end.
  pose proof (entry_iterate_shape d (sv_out sv) HO) as HI0.
  pose proof (entry_iterate_pos d (sv_out sv)) as HP0.
  assert (U1 : forall st1, E1 = Ok st1 ->
            st_it st1 = entry_iterate d (sv_out sv) /\ KShape d (st_kkt st1) /\ KSign d (st_kkt st1) /\
            InfPos (st_inf st1) /\ i_iter (st_inf st1) = 0%Z /\ 0 < k_delta (st_kkt st1)).
  { subst E1. intros st1 E. destruct (sv_kkt_init_state sv).
    - injection E as <-. cbn. unfold InfPos. cbn. auto 10.
    - pose proof (do_update_scalings_kdelta _ _ _ E) as Hk1. cbn in Hk1.
      pose proof (do_update_scalings_ok d _ _ E HP0 (ItShape_SZ d _ HI0)) as E'.
      cbn in E'. destruct E' as (B1 & B2 & B3 & B4 & _). rewrite B3, B4, Hk1. unfold InfPos. cbn. auto 10. }
  clearbody E1. destruct E1 as [st1|]; cbn [bind]; [|discriminate].
  destruct (U1 st1 eq_refl) as (V1 & V2 & V3 & V4 & V5 & V6).
  destruct (init_factor K S d fault (init_fuel S) st1) as [[st2 ok]|] eqn:Est2; cbn [bind]; [|discriminate].
  pose proof (init_factor_kdelta K S d fault Hepsabs Hretry Hreglim _ _ _ _ V4 V6 Est2) as W6.
  destruct (init_factor_ok K S d fault Hretry Hreglim Hepsabs _ _ _ _ Est2
              ltac:(rewrite V1; exact HP0) ltac:(rewrite V1; apply (ItShape_SZ d); exact HI0) V2 V3 V4)
    as (W2 & W3 & W4 & W1 & W5).
  assert (Fin : forall st it,
     0 < k_delta (st_kkt st) ->
     (do out <- unscale_and_restore j sv it ;;
      Ok (sv <| sv_kkt := st_kkt st |> <| sv_kkt_init_state := false |> <| sv_refine := st_refine st |>
             <| sv_info := st_inf st |> <| sv_out := out |> <| sv_calls := st_calls st |>, i_status (st_inf st)))
      = Ok (sv', stt) -> PosInv sv').
  { intros st it Hks H. destruct (unscale_and_restore j sv it) as [out|]; cbn [bind] in H; [|discriminate].
    injection H as <- _. unfold PosInv. cbn. fold S. unfold SettingsOK.
    split; [auto 12|]. split; [exact Hks|discriminate]. }
  destruct ok; cbn [negb]; cbv iota.
  - destruct (initial_point K S d (round_cp cp_bits) _) as [st3|] eqn:Est3; cbn [bind]; [|discriminate].
    pose proof (initial_point_kkt K S d (round_cp cp_bits) _ _ Est3) as X0. cbn in X0.
    assert (X1 : Interior d st3).
    { eapply (initial_point_ok_interior K S d (round_cp cp_bits) (round_cp_sign cp_bits) Hksh Hhalf Hsinit Hsnorm HD);
        [| | | |exact Est3]; cbn; try assumption.
      all: try (unfold InfPos in *; cbn; exact W4).
      all: try (rewrite W5; exact V5). }
    destruct (main_loop K S d pc fault (round_cp cp_bits) (loop_fuel S) st3) as [st4|] eqn:Est4; cbn [bind]; [|discriminate].
    apply Fin.
    eapply (main_loop_kdelta K S d pc fault (round_cp cp_bits) (round_cp_cp_pos cp_bits) Htau0 Htau1 Hfine Hepsabs Hkeps
              Hretry Hreglim); [apply X1| |exact Est4].
    rewrite X0. exact W6.
  - apply Fin. exact W6.
Qed.

(* ---- histories ---- *)
Fixpoint ops_valid (ops : list Op) : Prop :=
  match ops with
  | [] => True
  | OSetup S0 _ _ _ _ :: t => SettingsOK S0 /\ ops_valid t
  | _ :: t => ops_valid t
  end.

Definition pos_inv (st : option Solver) : Prop := match st with Some sv => PosInv sv | None => True end.

Section Hist.
Variable K : Consts.
Variable ident : bool.
Variable sparse_pc : bool.
Variable cp_bits : Z.
Variable fault : nat -> bool.
Hypothesis SK : sane_consts K.
Hypothesis CK : ConstsOK K.

Lemma step_posinv j dims st op st' o :
  st_inv dims st -> pos_inv st -> ops_valid [op] -> step K ident sparse_pc cp_bits fault j st op = Ok (st', o) -> pos_inv st'.
Proof.
  intros HI HPi HV E. destruct op as [S0 n p m B|B r|]; cbn in HV, E.
  - destruct (setup K ident sparse_pc j S0 n p m B) as [sv|] eqn:Es; cbn [bind] in E; [|destruct st; discriminate].
    assert (E' : Ok (Some sv, obs_of sv None) = Ok (st', o)) by (destruct st; exact E).
    injection E' as <- _. cbn. eapply setup_posinv; [apply HV|exact Es].
  - destruct st as [sv|]; [|discriminate].
    destruct (update K sparse_pc sv B r) as [sv'|] eqn:Eu; cbn [bind] in E; [|discriminate]. injection E as <- _. cbn.
    eapply update_posinv; eauto.
  - destruct st as [sv|]; [|discriminate]. destruct dims as [[[n p] m]|]; [|contradiction].
    destruct (solve K j cp_bits fault sv) as [[sv' stt]|] eqn:Eu; cbn [bind] in E; [|discriminate]. injection E as <- _. cbn.
    eapply solve_posinv; eauto.
Qed.

Theorem delta_ok_of_valid_settings j ops : forall dims st,
  st_inv dims st -> pos_inv st -> ops_ok dims ops -> ops_valid ops -> delta_ok K ident sparse_pc cp_bits fault j st ops.
Proof.
  induction ops as [|op t IH]; intros dims st HI HPi HO HV; cbn [delta_ok]; [exact I|].
  assert (HO1 : ops_ok dims [op] /\ ops_ok (dims_after dims op) t).
  { destruct op; cbn in HO |- *; tauto. }
  assert (HV1 : ops_valid [op] /\ ops_valid t).
  { destruct op; cbn in HV |- *; tauto. }
  destruct HO1 as [HO1 HOt]. destruct HV1 as [HV1 HVt].
  split.
  - destruct op; try exact I. destruct st as [sv|]; [|exact I]. apply HPi.
  - destruct (step K ident sparse_pc cp_bits fault j st op) as [[st' o]|] eqn:E; [|exact I].
    apply (IH (dims_after dims op)); try assumption.
    + eapply (step_inv K ident sparse_pc cp_bits fault SK); eauto.
    + eapply step_posinv; eauto.
Qed.

(* T1 for every history with settings satisfying the hypotheses of the interior-point theorems *)
Theorem junk_independence_valid_settings j1 j2 ops :
  ops_ok None ops -> ops_valid ops ->
  run K ident sparse_pc cp_bits fault j1 None ops = run K ident sparse_pc cp_bits fault j2 None ops.
Proof.
  intros HO HV. apply (junk_independence_fresh K ident sparse_pc cp_bits fault SK j1 j2 ops HO).
  apply (delta_ok_of_valid_settings j1 ops None None); auto; exact I.
Qed.

End Hist.
